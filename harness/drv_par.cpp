// C12 conformance driver: runs the library's parallel routines under the sequentialising OpenMP stand-in
// (ompshim.hpp) with a team size cap and a member order taken from the case (both enumerated by TLC), records for
// every parallel region the cells each member wrote, and whether the output is bit-identical to the one-member run.
// case lines:
//   ntt <call> <S> <d> <e> <ncols> <nphase> <nblock> <dst> <buf> <nth> | <cap> <order...>
//   mt <builder 0..5> <rows> <cols> <dim> <batch> <nth> <seed> | <cap> <order...>
//   cpy <parcpy|parsetzero> <size> <threads_arg> | <cap> <order...>
#include "ompshim.hpp"
#include "ntt_run.hpp"
#include "poseidon_goldilocks.hpp"
#include "merklehash_goldilocks.hpp"
#include <fcntl.h>

static void reg_cb(const char *n, const void *p, size_t sz) { shim::reg(n, p, sz); }
static void unreg_cb(const void *p) { shim::unreg(p); }

static int nflags = 0;
static std::vector<uint64_t> run_routine(const std::vector<std::string> &t)
{
    std::vector<uint64_t> out;
    nflags = t[0] == "mt" ? 1 : 2;
    if (t[0] == "ntt")
    {
        Call c;
        c.call = t[1];
        int S = atoi(t[2].c_str());
        c.d = atoi(t[3].c_str());
        c.e = atoi(t[4].c_str());
        c.ncols = vh::parse_u64(t[5]);
        c.nphase = vh::parse_u64(t[6]);
        c.nblock = vh::parse_u64(t[7]);
        c.dst = t[8];
        c.buf = t[9];
        int nth = atoi(t[10].c_str());
        c.xv = t.size() > 11 ? atoi(t[11].c_str()) : 0;
        NTT_Goldilocks obj(1ULL << S, nth);
        Result r = run_call(obj, c);
        out = r.out;
        out.push_back(r.src_same);
        out.push_back(r.slack_ok);
    }
    else if (t[0] == "mt")
    {
        int b = atoi(t[1].c_str());
        uint64_t rows = vh::parse_u64(t[2]), cols = vh::parse_u64(t[3]), dim = vh::parse_u64(t[4]), batch = vh::parse_u64(t[5]);
        int nth = atoi(t[6].c_str());
        uint64_t nelem = MerklehashGoldilocks::getTreeNumElements(rows);
        std::vector<uint64_t> data(rows * cols * dim);
        vh::Rng rg(vh::parse_u64(t[7]));
        for (auto &x : data)
            x = rg.word();
        vh::GBuf in = vh::galloc(data.size(), 0);
        memcpy(in.p, data.data(), data.size() * 8);
        vh::GBuf tree = vh::galloc(nelem, 0xABABABABABABABABULL);
        E *T = (E *)tree.p, *I = (E *)in.p;
        switch (b)
        {
        case 0: PoseidonGoldilocks::merkletree_seq(T, I, cols, rows, nth, dim); break;
        case 1: PoseidonGoldilocks::merkletree_avx(T, I, cols, rows, nth, dim); break;
        case 2: PoseidonGoldilocks::merkletree_batch_seq(T, I, cols, rows, batch, nth, dim); break;
        case 3: PoseidonGoldilocks::merkletree_batch_avx(T, I, cols, rows, batch, nth, dim); break;
#ifdef __AVX512__
        case 4: PoseidonGoldilocks::merkletree_avx512(T, I, cols, rows, nth, dim); break;
        case 5: PoseidonGoldilocks::merkletree_batch_avx512(T, I, cols, rows, batch, nth, dim); break;
#endif
        }
        out.assign(tree.p, tree.p + nelem);
        out.push_back(vh::gslack_ok(tree) && vh::gslack_ok(in));
        vh::gfree(in);
        vh::gfree(tree);
    }
    else if (t[0] == "cpy")
    {
        uint64_t size = vh::parse_u64(t[2]);
        int targ = atoi(t[3].c_str());
        vh::GBuf src = vh::galloc(size, 0), dst = vh::galloc(size, 0x7777777777777777ULL);
        for (uint64_t i = 0; i < size; i++)
            src.p[i] = 0x1000 + i * 0x9E3779B97F4A7C15ULL;
        if (t[1] == "parcpy")
            Goldilocks::parcpy((E *)dst.p, (E *)src.p, size, targ);
        else
            Goldilocks::parSetZero((E *)dst.p, size, targ);
        out.assign(dst.p, dst.p + size);
        // expected content is part of the output so that TLC can judge "exactly size elements"
        bool exact = true;
        for (uint64_t i = 0; i < size; i++)
            exact = exact && dst.p[i] == (t[1] == "parcpy" ? src.p[i] : 0);
        out.push_back(exact);
        out.push_back(vh::gslack_ok(dst) && vh::gslack_ok(src));
        vh::gfree(src);
        vh::gfree(dst);
    }
    return out;
}

static void do_case(vh::Out &o, long long ci, const std::vector<std::string> &t)
{
    size_t bar = 0;
    while (bar < t.size() && t[bar] != "|")
        bar++;
    std::vector<std::string> routine(t.begin(), t.begin() + bar);
    int cap = atoi(t[bar + 1].c_str());
    std::vector<int> order;
    for (size_t i = bar + 2; i < t.size(); i++)
        order.push_back(atoi(t[i].c_str()));
    // reference: one member per region
    shim::recording = false;
    shim::deliver_cap = 1;
    shim::order_spec.clear();
    shim::icv_threads = 0;
    // the reference is the single-thread execution: thread-count argument 1 AND a team of one
    std::vector<std::string> routine1 = routine;
    if (routine1[0] == "ntt")
        routine1[10] = "1";
    else if (routine1[0] == "mt")
        routine1[6] = "1";
    std::vector<uint64_t> ref = run_routine(routine1);
    // run under the case's team cap and member order, recording member write sets
    shim::deliver_cap = cap > 0 ? cap : 48; // cap 0 = "as requested", up to a runtime thread limit of 48
    shim::order_spec = order;
    shim::icv_threads = 0;
    shim::log.clear();
    shim::regions.clear();
    shim::recording = true;
    std::vector<uint64_t> got = run_routine(routine);
    shim::recording = false;
    o.begin("par");
    o.num("ci", ci);
    std::string r;
    for (auto &s : routine)
        r += s + " ";
    o.str("routine", r);
    o.num("cap", cap);
    std::string os = "[";
    for (size_t i = 0; i < order.size(); i++)
        os += (i ? "," : "") + std::to_string(order[i]);
    o.raw("order", os + "]");
    o.boolean("same", ref == got);
    bool flags_ok = got.size() >= (size_t)nflags;
    for (int k = 0; flags_ok && k < nflags; k++)
        flags_ok = got[got.size() - 1 - k] == 1 && ref[ref.size() - 1 - k] == 1;
    o.boolean("flags_ok", flags_ok);
    o.num("outlen", got.size());
    std::string rs = "[";
    for (size_t k = 0; k < shim::log.size(); k++)
    {
        auto &rl = shim::log[k];
        if (k)
            rs += ",";
        rs += "{\"req\":" + std::to_string(rl.requested) + ",\"T\":" + std::to_string(rl.delivered) + ",\"bufs\":[";
        for (size_t i = 0; i < rl.bufnames.size(); i++)
            rs += std::string(i ? "," : "") + "\"" + rl.bufnames[i] + "\"";
        rs += "],\"members\":[";
        for (size_t m = 0; m < rl.members.size(); m++)
        {
            if (m)
                rs += ",";
            rs += "{\"tid\":" + std::to_string(rl.members[m].tid) + ",\"w\":[";
            for (size_t i = 0; i < rl.members[m].writes.size(); i++)
            {
                auto &iv = rl.members[m].writes[i];
                rs += std::string(i ? "," : "") + "[" + std::to_string(iv.buf) + "," + std::to_string(iv.lo) + "," + std::to_string(iv.hi) + "]";
            }
            rs += "]}";
        }
        rs += "]}";
    }
    o.raw("regions", rs + "]");
    o.end();
}

int main(int argc, char **argv)
{
    if (argc < 4)
        return 2;
    int stack_marker = 0;
    shim::stack_top = (uint8_t *)&stack_marker;
    vh::on_alloc = reg_cb;
    vh::on_free = unreg_cb;
    load_inputs(argv[1]);
    auto cases = vh::read_cases(argv[2]);
    {
        FILE *f = fopen(argv[3], "w");
        fclose(f);
    }
    size_t i = 0;
    while (i < cases.size())
    {
        int fd[2];
        if (pipe(fd) != 0)
            return 3;
        fflush(nullptr);
        pid_t pid = fork();
        if (pid == 0)
        {
            close(fd[0]);
            int dn = open("/dev/null", O_WRONLY);
            if (dn >= 0)
                dup2(dn, 2);
            vh::Out o("/dev/null");
            fclose(o.f);
            o.f = fopen(argv[3], "a");
            for (size_t k = i; k < cases.size(); k++)
            {
                alarm(300);
                do_case(o, (long long)k + 1, cases[k]);
                char b = 1;
                if (write(fd[1], &b, 1) != 1)
                    _exit(9);
            }
            _exit(0);
        }
        close(fd[1]);
        size_t done = 0;
        char b;
        while (read(fd[0], &b, 1) == 1)
            done++;
        close(fd[0]);
        int st = 0;
        waitpid(pid, &st, 0);
        i += done;
        if (i < cases.size())
        {
            vh::Out o("/dev/null");
            fclose(o.f);
            o.f = fopen(argv[3], "a");
            o.begin("crash");
            o.num("ci", (long long)i + 1);
            std::string line;
            for (auto &s : cases[i])
                line += s + " ";
            o.str("case", line);
            o.str("kind", WIFSIGNALED(st) ? "signal" : "exit");
            o.num("code", WIFSIGNALED(st) ? WTERMSIG(st) : WEXITSTATUS(st));
            o.end();
            i++;
        }
    }
    return 0;
}
