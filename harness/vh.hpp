// Common helpers for the conformance drivers: case reading, ndjson event writing (64-bit values as 8 byte
// limbs because TLC integers are 32 bit), splitmix64 (same stream as lib/vlib.py Rng), crash-to-event handling.
#pragma once
#include <cstdint>
#include <cstdio>
#include <cstdlib>
#include <cstring>
#include <string>
#include <vector>
#include <sstream>
#include <fstream>
#include <iostream>
#include <unistd.h>
#include <sys/wait.h>
#include <signal.h>
#include <thread>
#include <atomic>
#ifdef _OPENMP
#include <omp.h>
#endif

namespace vh
{
// delivery environments of the OpenMP runtime around a library call:
//   0 plain; 1 the call is made from inside an active parallel region (nesting is off by default: every region of the
//   library gets a team of ONE while omp_get_max_threads() and the requested counts are unchanged); 2 / 3 the
//   process-wide thread-count setting left behind by somebody else is 1 / 5 when the call starts
template <class F>
static inline void with_env(int env, F f)
{
#ifdef _OPENMP
    if (env == 1)
    {
#pragma omp parallel num_threads(2)
        {
            if (omp_get_thread_num() == 0)
                f();
        }
        return;
    }
    if (env == 2 || env == 3)
    {
        int old = omp_get_max_threads();
        omp_set_num_threads(env == 2 ? 1 : 5);
        f();
        omp_set_num_threads(old);
        return;
    }
#endif
    f();
}

    static const uint64_t PRIME = 0xFFFFFFFF00000001ULL;

    struct Rng
    {
        uint64_t s;
        explicit Rng(uint64_t seed) : s(seed) {}
        uint64_t next()
        {
            s += 0x9E3779B97F4A7C15ULL;
            uint64_t z = s;
            z = (z ^ (z >> 30)) * 0xBF58476D1CE4E5B9ULL;
            z = (z ^ (z >> 27)) * 0x94D049BB133111EBULL;
            return z ^ (z >> 31);
        }
        uint64_t below(uint64_t n) { return next() % n; }
        uint64_t word()
        {
            static const uint64_t h[10] = {0, 1, 2, 0x7FFFFFFF, 0x80000000ULL, 0x80000001ULL, 0xFFFFFFFEULL, 0xFFFFFFFFULL, 0xFFFFFFFDULL, 3};
            uint64_t k = below(8);
            if (k == 0)
                return PRIME + below(0xFFFFFFFFULL);
            if (k == 1)
                return below(1ULL << 32);
            if (k == 2)
                return PRIME - 1 - below(1ULL << 20);
            if (k == 3)
            {
                uint64_t a = h[below(10)];
                uint64_t b = h[below(10)];
                return (a << 32) | b;
            }
            return next();
        }
    };

    // ndjson writer
    struct Out
    {
        FILE *f;
        std::string buf;
        bool first;
        explicit Out(const char *path) { f = fopen(path, "w"); if (!f) { perror(path); exit(3); } }
        ~Out() { if (f) fclose(f); }
        void begin(const char *ev)
        {
            buf.clear();
            buf += "{\"e\":\"";
            buf += ev;
            buf += "\"";
        }
        void key(const char *k)
        {
            buf += ",\"";
            buf += k;
            buf += "\":";
        }
        void str(const char *k, const std::string &v)
        {
            key(k);
            buf += "\"" + v + "\"";
        }
        void num(const char *k, long long v)
        {
            key(k);
            buf += std::to_string(v);
        }
        void boolean(const char *k, bool v)
        {
            key(k);
            buf += v ? "true" : "false";
        }
        static void w64s(std::string &b, uint64_t x)
        {
            b += "[";
            for (int i = 0; i < 8; i++)
            {
                if (i)
                    b += ",";
                b += std::to_string((unsigned)((x >> (8 * i)) & 255));
            }
            b += "]";
        }
        void w64(const char *k, uint64_t x)
        {
            key(k);
            w64s(buf, x);
        }
        void w64arr(const char *k, const uint64_t *x, size_t n)
        {
            key(k);
            buf += "[";
            for (size_t i = 0; i < n; i++)
            {
                if (i)
                    buf += ",";
                w64s(buf, x[i]);
            }
            buf += "]";
        }
        void intarr(const char *k, const long long *x, size_t n)
        {
            key(k);
            buf += "[";
            for (size_t i = 0; i < n; i++)
            {
                if (i)
                    buf += ",";
                buf += std::to_string(x[i]);
            }
            buf += "]";
        }
        void raw(const char *k, const std::string &v)
        {
            key(k);
            buf += v;
        }
        bool mute = false; // concurrent mode: the call is made (for contention) but its record belongs to another thread
        void end()
        {
            buf += "}\n";
            if (mute)
                return;
            fwrite(buf.data(), 1, buf.size(), f);
            fflush(f); // a later crash must never truncate an already recorded event
        }
        void flush() { fflush(f); }
    };

    inline uint64_t parse_u64(const std::string &s)
    {
        return strtoull(s.c_str(), nullptr, 0);
    }

    inline std::vector<std::string> split(const std::string &line)
    {
        std::vector<std::string> v;
        std::istringstream is(line);
        std::string t;
        while (is >> t)
            v.push_back(t);
        return v;
    }

    inline std::vector<std::vector<std::string>> read_cases(const char *path)
    {
        std::vector<std::vector<std::string>> r;
        std::ifstream in(path);
        std::string line;
        while (std::getline(in, line))
        {
            if (line.empty() || line[0] == '#')
                continue;
            r.push_back(split(line));
        }
        return r;
    }

    // Run fn in a forked child. Returns 0 if it exited normally with status 0; otherwise encodes how it ended:
    // kind = "exit" (status) or "signal" (signo).
    struct ChildEnd
    {
        bool ok;
        std::string kind;
        int code;
    };
    // n plain threads (not an OpenMP team: every one of them has OpenMP thread number 0) released together from a spin
    // barrier, each running f(tid): concurrent callers of a routine whose result must depend on its arguments only
    template <typename F>
    static inline void concurrently(int n, F f)
    {
        std::atomic<int> ready{0};
        std::atomic<bool> go{false};
        std::vector<std::thread> th;
        for (int t = 0; t < n; t++)
            th.emplace_back([&, t]() {
                ready.fetch_add(1);
                while (!go.load(std::memory_order_acquire))
                {
                }
                f(t);
            });
        while (ready.load() < n)
        {
        }
        go.store(true, std::memory_order_release);
        for (auto &x : th)
            x.join();
    }
    template <typename F>
    ChildEnd in_child(F fn, int timeout_s = 60)
    {
        fflush(nullptr);
        pid_t pid = fork();
        if (pid == 0)
        {
            alarm(timeout_s);
            fn();
            fflush(nullptr);
            _exit(0);
        }
        int st = 0;
        waitpid(pid, &st, 0);
        ChildEnd e;
        if (WIFEXITED(st))
        {
            e.kind = "exit";
            e.code = WEXITSTATUS(st);
            e.ok = e.code == 0;
        }
        else
        {
            e.kind = "signal";
            e.code = WTERMSIG(st);
            e.ok = false;
        }
        return e;
    }

// run the case loop `f(out, tid, nthreads)` once (default) or, with VERIF_THREADS=n in the environment, on n plain threads at
// the same time, thread t taking the cases with index % n == t and writing its own part of the trace (concatenated at
// the end): concurrent callers of routines whose results must depend on their arguments only
template <class F>
static inline int run_partitioned(const char *path, F f)
{
    const char *e = getenv("VERIF_THREADS");
    int n = e ? atoi(e) : 1;
    if (n <= 1)
    {
        vh::Out o(path);
        return f(o, 0, 1);
    }
    std::vector<int> rc(n, 0);
    vh::concurrently(n, [&](int tid) {
        std::string pt = std::string(path) + ".t" + std::to_string(tid);
        vh::Out o(pt.c_str());
        rc[tid] = f(o, tid, n);
    });
    FILE *out = fopen(path, "w");
    int worst = 0;
    for (int t = 0; t < n; t++)
    {
        std::string pt = std::string(path) + ".t" + std::to_string(t);
        FILE *in = fopen(pt.c_str(), "r");
        char buf[1 << 16];
        size_t k;
        while (in && (k = fread(buf, 1, sizeof buf, in)) > 0)
            fwrite(buf, 1, k, out);
        if (in)
            fclose(in);
        remove(pt.c_str());
        if (rc[t] > worst)
            worst = rc[t];
    }
    fclose(out);
    return worst;
}
}

// ---- exact-extent buffers: end-aligned against a PROT_NONE page, so an access one element past the declared
// extent faults (and an access before the start of an 8-byte-aligned extent lands in a leading guard page too
// when the size is a multiple of the page size; otherwise in slack that is pattern-filled and checked).
#include <sys/mman.h>
namespace vh
{
    struct GBuf
    {
        uint8_t *base = nullptr;
        size_t maplen = 0;
        uint64_t *p = nullptr; // user pointer
        size_t n = 0;          // elements
        size_t slack = 0;      // bytes between first usable page start and p
    };
    // optional observers (the OpenMP stand-in registers arenas for its snapshots)
    static void (*on_alloc)(const char *, const void *, size_t) = nullptr;
    static void (*on_free)(const void *) = nullptr;
    inline GBuf galloc(size_t nelem, uint64_t fill)
    {
        GBuf g;
        size_t ps = 4096, bytes = nelem * 8;
        size_t pages = (bytes + ps - 1) / ps;
        if (pages == 0)
            pages = 1;
        g.maplen = (pages + 2) * ps;
        g.base = (uint8_t *)mmap(nullptr, g.maplen, PROT_READ | PROT_WRITE, MAP_PRIVATE | MAP_ANONYMOUS, -1, 0);
        if (g.base == MAP_FAILED)
        {
            perror("mmap");
            exit(3);
        }
        mprotect(g.base, ps, PROT_NONE);
        mprotect(g.base + (pages + 1) * ps, ps, PROT_NONE);
        uint8_t *end = g.base + (pages + 1) * ps;
        g.p = (uint64_t *)(end - bytes);
        g.n = nelem;
        g.slack = (size_t)((uint8_t *)g.p - (g.base + ps));
        memset(g.base + ps, 0xC7, g.slack);
        for (size_t i = 0; i < nelem; i++)
            g.p[i] = fill;
        if (on_alloc)
            on_alloc("arena", g.p, bytes);
        return g;
    }
    inline bool gslack_ok(const GBuf &g)
    {
        const uint8_t *s = g.base + 4096;
        for (size_t i = 0; i < g.slack; i++)
            if (s[i] != 0xC7)
                return false;
        return true;
    }
    inline void gfree(GBuf &g)
    {
        if (g.base && on_free)
            on_free(g.p);
        if (g.base)
            munmap(g.base, g.maplen);
        g.base = nullptr;
    }
}
