// declarations of the sequentialising OpenMP stand-in (definitions in ompshim.cpp, which must not see <omp.h>)
#pragma once
#include <cstdint>
#include <cstddef>
#include <vector>
#include <string>
namespace shim
{
    struct Region
    {
        std::string name;
        const uint8_t *p;
        size_t n;
    };
    struct Interval
    {
        int buf; // index into region names
        size_t lo, hi;
    };
    struct MemberLog
    {
        int tid;
        std::vector<Interval> writes;
    };
    struct RegionLog
    {
        unsigned requested, delivered;
        std::vector<MemberLog> members;
        std::vector<std::string> bufnames;
    };
    extern int icv_threads, max_threads, deliver_cap;
    extern std::vector<int> order_spec;
    extern bool recording;
    extern std::vector<RegionLog> log;
    extern std::vector<Region> regions;
    extern uint8_t *stack_top;
    void reg(const std::string &name, const void *p, size_t n);
    void unreg(const void *p);
}
