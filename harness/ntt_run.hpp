// shared by drv_ntt.cpp and drv_par.cpp: seeded input matrices and one transform call on exact-extent buffers
#pragma once
#include "ntt_goldilocks.hpp"
#include "vh.hpp"
#include <map>
typedef Goldilocks::Element E;
typedef unsigned __int128 u128;

// base vectors: X[d][v] (v = 0 is the seeded mixed-representation vector, v >= 1 structured vectors: deltas with extreme
// values, constant vectors of p-1 / 2^64-1, alternating boundary values)
static std::map<int, std::vector<std::vector<uint64_t>>> X;
static std::map<int, std::vector<uint64_t>> Krows;
static std::vector<uint64_t> Mc;

static uint64_t cell(int d, int xv, uint64_t j, uint64_t c)
{
    uint64_t raw = X[d][xv][j];
    if (xv > 0 && c == 0)
        return raw; // column 0 carries the structured vector verbatim (multiplier 1), representation included
    uint64_t x = raw % vh::PRIME, m = Mc[c] % vh::PRIME;
    uint64_t v = (uint64_t)(((u128)x * m) % vh::PRIME);
    // representation mix: some cells in the non-canonical band [p, 2^64)
    if (((j * 7 + c * 3 + d) % 5 == 0) && v < 0xFFFFFFFFULL)
        v += vh::PRIME;
    return v;
}

struct Call
{
    std::string call, dst, buf;
    int d, e;
    uint64_t ncols, nphase, nblock;
    int xv = 0;
    int env = 0; // delivery environment (vh::with_env)
};

struct Result
{
    std::vector<uint64_t> out;
    bool src_same = true, slack_ok = true, unchanged = true;
};

// executes one call on the given object; returns the output matrix (rows x ncols)
static Result run_call(NTT_Goldilocks &obj, const Call &c)
{
    Result R;
    uint64_t N = 1ULL << c.d, NE = 1ULL << (c.d + c.e), nc = c.ncols;
    bool ext = c.call == "ext";
    uint64_t outRows = ext ? NE : N;
    bool other = c.dst == "other";
    const uint64_t GARB = 0xA5A5A5A5DEADBEEFULL;
    vh::GBuf in = vh::galloc((other ? N : outRows) * nc, GARB);
    for (uint64_t j = 0; j < N; j++)
        for (uint64_t k = 0; k < nc; k++)
            in.p[j * nc + k] = cell(c.d, c.xv, j, k);
    std::vector<uint64_t> in0(in.p, in.p + in.n);
    vh::GBuf out;
    if (other)
        out = vh::galloc(outRows * nc, GARB ^ 0x1111);
    vh::GBuf buf;
    if (c.buf == "caller")
        buf = vh::galloc(outRows * nc, GARB ^ 0x2222);
    E *src = (E *)in.p;
    E *dst = other ? (E *)out.p : (c.dst == "same" ? (E *)in.p : nullptr);
    E *bufp = c.buf == "caller" ? (E *)buf.p : nullptr;
    vh::with_env(c.env, [&]() {
        if (c.call == "ntt")
            obj.NTT(dst, src, N, nc, bufp, c.nphase, c.nblock);
        else if (c.call == "intt")
            obj.INTT(dst, src, N, nc, bufp, c.nphase, c.nblock);
        else
            obj.extendPol(dst, src, NE, N, nc, bufp, c.nphase, c.nblock);
    });
    uint64_t *res = other ? out.p : in.p;
    R.out.assign(res, res + outRows * nc);
    if (other)
        R.src_same = memcmp(in.p, in0.data(), in.n * 8) == 0;
    R.slack_ok = vh::gslack_ok(in) && (!other || vh::gslack_ok(out)) && (c.buf != "caller" || vh::gslack_ok(buf));
    vh::gfree(in);
    if (other)
        vh::gfree(out);
    if (c.buf == "caller")
        vh::gfree(buf);
    return R;
}


// input file: X <d> <v> <2^d words> | M <k> <k words> | K <d> <row indices>
static void load_inputs(const char *path)
{
    for (auto &t : vh::read_cases(path))
    {
        if (t[0] == "X")
        {
            int d = atoi(t[1].c_str());
            size_t v = (size_t)atoi(t[2].c_str());
            if (X[d].size() <= v)
                X[d].resize(v + 1);
            for (size_t i = 3; i < t.size(); i++)
                X[d][v].push_back(vh::parse_u64(t[i]));
        }
        else if (t[0] == "M")
            for (size_t i = 2; i < t.size(); i++)
                Mc.push_back(vh::parse_u64(t[i]));
        else if (t[0] == "K")
            for (size_t i = 2; i < t.size(); i++)
                Krows[atoi(t[1].c_str())].push_back(vh::parse_u64(t[i]));
    }
}
