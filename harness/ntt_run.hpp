// shared by drv_ntt.cpp and drv_par.cpp: seeded input matrices and one transform call on exact-extent buffers
#pragma once
#include "ntt_goldilocks.hpp"
#include "vh.hpp"
#include <map>
typedef Goldilocks::Element E;
typedef unsigned __int128 u128;

static std::map<int, std::vector<uint64_t>> X;
static std::vector<uint64_t> Mc;

static uint64_t cell(int d, uint64_t j, uint64_t c)
{
    uint64_t x = X[d][j] % vh::PRIME, m = Mc[c] % vh::PRIME;
    uint64_t v = (uint64_t)(((u128)x * m) % vh::PRIME);
    // representation mix: some cells in the non-canonical band [p, 2^64)
    if (((j * 7 + c * 3 + d) % 5 == 0) && v < 0xFFFFFFFFULL)
        v += vh::PRIME;
    return v;
}

struct Call
{
    std::string call, dst, buf;
    int d, e;
    uint64_t ncols, nphase, nblock;
};

struct Result
{
    std::vector<uint64_t> out;
    bool src_same = true, slack_ok = true, unchanged = true;
};

// executes one call on the given object; returns the output matrix (rows x ncols)
static Result run_call(NTT_Goldilocks &obj, const Call &c)
{
    Result R;
    uint64_t N = 1ULL << c.d, NE = 1ULL << (c.d + c.e), nc = c.ncols;
    bool ext = c.call == "ext";
    uint64_t outRows = ext ? NE : N;
    bool other = c.dst == "other";
    const uint64_t GARB = 0xA5A5A5A5DEADBEEFULL;
    vh::GBuf in = vh::galloc((other ? N : outRows) * nc, GARB);
    for (uint64_t j = 0; j < N; j++)
        for (uint64_t k = 0; k < nc; k++)
            in.p[j * nc + k] = cell(c.d, j, k);
    std::vector<uint64_t> in0(in.p, in.p + in.n);
    vh::GBuf out;
    if (other)
        out = vh::galloc(outRows * nc, GARB ^ 0x1111);
    vh::GBuf buf;
    if (c.buf == "caller")
        buf = vh::galloc(outRows * nc, GARB ^ 0x2222);
    E *src = (E *)in.p;
    E *dst = other ? (E *)out.p : (c.dst == "same" ? (E *)in.p : nullptr);
    E *bufp = c.buf == "caller" ? (E *)buf.p : nullptr;
    if (c.call == "ntt")
        obj.NTT(dst, src, N, nc, bufp, c.nphase, c.nblock);
    else if (c.call == "intt")
        obj.INTT(dst, src, N, nc, bufp, c.nphase, c.nblock);
    else
        obj.extendPol(dst, src, NE, N, nc, bufp, c.nphase, c.nblock);
    uint64_t *res = other ? out.p : in.p;
    R.out.assign(res, res + outRows * nc);
    if (other)
        R.src_same = memcmp(in.p, in0.data(), in.n * 8) == 0;
    R.slack_ok = vh::gslack_ok(in) && (!other || vh::gslack_ok(out)) && (c.buf != "caller" || vh::gslack_ok(buf));
    vh::gfree(in);
    if (other)
        vh::gfree(out);
    if (c.buf == "caller")
        vh::gfree(buf);
    return R;
}

