// C18 conformance driver: object lifetimes and calls run under a RECORDING allocator.  Inside a scenario window every
// malloc/free made by the library objects (routed here with -Wl,--wrap) and every operator new/new[]/delete/delete[]
// is logged with its kind; blocks are end-aligned against a PROT_NONE page (an access past the requested size faults)
// and filled with a scenario-specific pattern (a read of uninitialised heap changes the output between the two fills).
// scenario lines:
//   ntt <S> <nth> <k> <call:d:e:ncols:nphase:nblock:dst:buf>...     construct, k calls, destroy
//   mt <builder> <rows> <cols> <dim> <batch> <nth> <seed>
//   lh <variant 0..2> <len> <seed>
//   binv <n> <seed>
//   cpy <parcpy|parsetzero> <size> <threads>
#ifdef VERIF_SANITIZER_BUILD
#define NO_RECORDER 1
#endif
#include "ntt_run.hpp"
#include "poseidon_goldilocks.hpp"
#include "merklehash_goldilocks.hpp"
#include "goldilocks_cubic_extension.hpp"
#include <fcntl.h>
#include <new>
#include <sys/mman.h>

// ---------------------------------------------------------------- recording allocator
struct Block
{
    void *user;
    void *base;
    size_t maplen;
    size_t size;
    int kind; // 0 malloc, 1 new, 2 new[]
    long id;
    bool live;
};
static Block blocks[1 << 16];
static int nblocks = 0;
static bool window = false;
static long next_id = 0;
static uint8_t fill_byte = 0xA7;
static FILE *evf = nullptr;
static long scenario_id = 0;
static const char *KIND[3] = {"malloc", "new", "newarr"};
static const char *FKIND[3] = {"free", "delete", "deletearr"};

extern "C" void *__real_malloc(size_t);
extern "C" void __real_free(void *);

#ifndef NO_RECORDER
static void *rec_alloc(size_t n, int kind)
{
    size_t ps = 4096;
    size_t bytes = (n + 7) & ~(size_t)7;
    if (bytes == 0)
        bytes = 8;
    size_t pages = (bytes + ps - 1) / ps;
    size_t maplen = (pages + 1) * ps;
    uint8_t *base = (uint8_t *)mmap(nullptr, maplen, PROT_READ | PROT_WRITE, MAP_PRIVATE | MAP_ANONYMOUS, -1, 0);
    if (base == MAP_FAILED)
        abort();
    mprotect(base + pages * ps, ps, PROT_NONE);
    uint8_t *user = base + pages * ps - bytes;
    memset(base, fill_byte, pages * ps);
    if (nblocks >= (1 << 16))
        abort();
    Block &b = blocks[nblocks++];
    b.user = user;
    b.base = base;
    b.maplen = maplen;
    b.size = n;
    b.kind = kind;
    b.id = ++next_id;
    b.live = true;
    if (evf)
        fprintf(evf, "{\"e\":\"alloc\",\"sc\":%ld,\"kind\":\"%s\",\"id\":%ld,\"size\":%zu}\n", scenario_id, KIND[kind], b.id, n);
    return user;
}
static bool rec_free(void *p, int fkind)
{
    for (int i = nblocks - 1; i >= 0; i--)
        if (blocks[i].user == p && blocks[i].live)
        {
            blocks[i].live = false;
            if (evf)
                fprintf(evf, "{\"e\":\"free\",\"sc\":%ld,\"kind\":\"%s\",\"id\":%ld,\"akind\":\"%s\"}\n", scenario_id, FKIND[fkind], blocks[i].id, KIND[blocks[i].kind]);
            mprotect(blocks[i].base, blocks[i].maplen, PROT_NONE); // use after free faults
            return true;
        }
    // not the start of a live recorded block: a pointer into a recorded block (interior pointer), or the start of a block
    // already released (double release) is an event of its own - never handed to the real allocator
    for (int i = nblocks - 1; i >= 0; i--)
        if ((uint8_t *)p >= blocks[i].base && (uint8_t *)p < blocks[i].base + blocks[i].maplen)
        {
            if (evf)
                fprintf(evf, "{\"e\":\"badfree\",\"sc\":%ld,\"kind\":\"%s\",\"id\":%ld,\"why\":\"%s\"}\n", scenario_id, FKIND[fkind], blocks[i].id,
                        blocks[i].user == p ? "block already released" : "pointer inside a block, not its start");
            return true;
        }
    return false;
}
extern "C" void *__wrap_malloc(size_t n) { return window ? rec_alloc(n, 0) : __real_malloc(n); }
extern "C" void __wrap_free(void *p)
{
    if (!p)
        return;
    if (rec_free(p, 0))
        return;
    __real_free(p);
}
void *operator new(size_t n) { return window ? rec_alloc(n, 1) : __real_malloc(n ? n : 1); }
void *operator new[](size_t n) { return window ? rec_alloc(n, 2) : __real_malloc(n ? n : 1); }
void operator delete(void *p) noexcept
{
    if (p && !rec_free(p, 1))
        __real_free(p);
}
void operator delete[](void *p) noexcept
{
    if (p && !rec_free(p, 2))
        __real_free(p);
}
void operator delete(void *p, size_t) noexcept { operator delete(p); }
void operator delete[](void *p, size_t) noexcept { operator delete[](p); }
#else
extern "C" void *__wrap_malloc(size_t n) { return __real_malloc(n); }
extern "C" void __wrap_free(void *p) { __real_free(p); }
#endif

// ---------------------------------------------------------------- scenarios
static uint64_t digest_of(const std::vector<uint64_t> &v)
{
    uint64_t h = 0xcbf29ce484222325ULL;
    for (uint64_t x : v)
    {
        h ^= x;
        h *= 0x100000001b3ULL;
        h ^= h >> 29;
    }
    return h;
}

static void scenario(const std::vector<std::string> &t, std::vector<uint64_t> &out)
{
    if (t[0] == "ntt")
    {
        int S = atoi(t[1].c_str()), nth = atoi(t[2].c_str()), k = atoi(t[3].c_str());
        NTT_Goldilocks *obj = new NTT_Goldilocks(1ULL << S, nth);
        for (int i = 0; i < k; i++)
        {
            std::vector<std::string> f;
            std::stringstream ss(t[4 + i]);
            std::string part;
            while (std::getline(ss, part, ':'))
                f.push_back(part);
            Call c;
            c.call = f[0];
            c.d = atoi(f[1].c_str());
            c.e = atoi(f[2].c_str());
            c.ncols = vh::parse_u64(f[3]);
            c.nphase = vh::parse_u64(f[4]);
            c.nblock = vh::parse_u64(f[5]);
            c.dst = f[6];
            c.buf = f[7];
            Result r = run_call(*obj, c);
            out.insert(out.end(), r.out.begin(), r.out.end());
            out.push_back(r.slack_ok);
        }
        delete obj;
        if (k == 0)
            out.push_back(1); // nothing to compare: construction and destruction only
    }
    else if (t[0] == "mt")
    {
        int b = atoi(t[1].c_str());
        uint64_t rows = vh::parse_u64(t[2]), cols = vh::parse_u64(t[3]), dim = vh::parse_u64(t[4]), batch = vh::parse_u64(t[5]);
        int nth = atoi(t[6].c_str());
        uint64_t nelem = MerklehashGoldilocks::getTreeNumElements(rows);
        vh::Rng rg(vh::parse_u64(t[7]));
        vh::GBuf in = vh::galloc(rows * cols * dim, 0);
        for (size_t i = 0; i < in.n; i++)
            in.p[i] = rg.word();
        vh::GBuf tree = vh::galloc(nelem, 0x3C3C3C3C3C3C3C3CULL);
        E *T = (E *)tree.p, *I = (E *)in.p;
        switch (b)
        {
        case 0: PoseidonGoldilocks::merkletree_seq(T, I, cols, rows, nth, dim); break;
        case 1: PoseidonGoldilocks::merkletree_avx(T, I, cols, rows, nth, dim); break;
        case 2: PoseidonGoldilocks::merkletree_batch_seq(T, I, cols, rows, batch, nth, dim); break;
        case 3: PoseidonGoldilocks::merkletree_batch_avx(T, I, cols, rows, batch, nth, dim); break;
#ifdef __AVX512__
        case 4: PoseidonGoldilocks::merkletree_avx512(T, I, cols, rows, nth, dim); break;
        case 5: PoseidonGoldilocks::merkletree_batch_avx512(T, I, cols, rows, batch, nth, dim); break;
#endif
        }
        out.assign(tree.p, tree.p + nelem);
        out.push_back(vh::gslack_ok(tree) && vh::gslack_ok(in));
        vh::gfree(in);
        vh::gfree(tree);
    }
    else if (t[0] == "lh")
    {
        int variant = atoi(t[1].c_str());
        uint64_t len = vh::parse_u64(t[2]);
        vh::Rng rg(vh::parse_u64(t[3]));
        uint64_t n = variant == 2 ? 2 * len : len;
        vh::GBuf in = vh::galloc(n, 0);
        for (size_t i = 0; i < n; i++)
            in.p[i] = rg.word();
        vh::GBuf o = vh::galloc(variant == 2 ? 8 : 4, 0x1212121212121212ULL);
        if (variant == 0) PoseidonGoldilocks::linear_hash_seq((E *)o.p, (E *)in.p, len);
        else if (variant == 1) PoseidonGoldilocks::linear_hash((E *)o.p, (E *)in.p, len);
#ifdef __AVX512__
        else PoseidonGoldilocks::linear_hash_avx512((E *)o.p, (E *)in.p, len);
#endif
        out.assign(o.p, o.p + o.n);
        out.push_back(vh::gslack_ok(in) && vh::gslack_ok(o));
        vh::gfree(in);
        vh::gfree(o);
    }
    else if (t[0] == "binv")
    {
        uint64_t n = vh::parse_u64(t[1]);
        vh::Rng rg(vh::parse_u64(t[2]));
        vh::GBuf src = vh::galloc(3 * n, 0), res = vh::galloc(3 * n, 0x4545454545454545ULL);
        for (size_t i = 0; i < 3 * n; i++)
            src.p[i] = rg.word() | 1;
        Goldilocks3::batchInverse((Goldilocks3::Element *)res.p, (Goldilocks3::Element *)src.p, n);
        out.assign(res.p, res.p + 3 * n);
        out.push_back(vh::gslack_ok(src) && vh::gslack_ok(res));
        vh::gfree(src);
        vh::gfree(res);
    }
    else if (t[0] == "cpy")
    {
        uint64_t size = vh::parse_u64(t[2]);
        int targ = atoi(t[3].c_str());
        vh::GBuf src = vh::galloc(size, 0), dst = vh::galloc(size, 0x7777777777777777ULL);
        for (uint64_t i = 0; i < size; i++)
            src.p[i] = 0x1000 + i;
        if (t[1] == "parcpy") Goldilocks::parcpy((E *)dst.p, (E *)src.p, size, targ);
        else Goldilocks::parSetZero((E *)dst.p, size, targ);
        out.assign(dst.p, dst.p + size);
        out.push_back(vh::gslack_ok(dst) && vh::gslack_ok(src));
        vh::gfree(src);
        vh::gfree(dst);
    }
}

static void run_scenario(const char *tracefile, long ci, const std::vector<std::string> &t)
{
    for (int fill = 0; fill < 2; fill++)
    {
        evf = fopen(tracefile, "a");
        setvbuf(evf, nullptr, _IOLBF, 1 << 16); // whole records only: a fault in the library must not tear a record
        scenario_id = ci * 2 + fill;
        fill_byte = fill ? 0x5B : 0xA7;
        fprintf(evf, "{\"e\":\"begin\",\"sc\":%ld,\"ci\":%ld,\"fill\":%d}\n", scenario_id, ci, fill);
        std::vector<uint64_t> out;
        out.reserve(1 << 18); // harness-owned storage is allocated before the recording window opens
        window = true;
        scenario(t, out);
        window = false;
        uint64_t d = digest_of(out);
        bool flag_ok = !out.empty() && out.back() == 1;
        // blocks still live that were allocated inside the window
        std::string live = "[";
#ifndef NO_RECORDER
        bool first = true;
        for (int i = 0; i < nblocks; i++)
            if (blocks[i].live)
            {
                live += std::string(first ? "" : ",") + std::to_string(blocks[i].id);
                first = false;
            }
        nblocks = 0;
#endif
        live += "]";
        std::string line;
        for (auto &s : t)
            line += s + " ";
        fprintf(evf, "{\"e\":\"end\",\"sc\":%ld,\"ci\":%ld,\"fill\":%d,\"case\":\"%s\",\"digest\":", scenario_id, ci, fill, line.c_str());
        std::string ds;
        vh::Out::w64s(ds, d);
        fprintf(evf, "%s,\"flag_ok\":%s,\"live\":%s}\n", ds.c_str(), flag_ok ? "true" : "false", live.c_str());
        fclose(evf);
        evf = nullptr;
    }
}

int main(int argc, char **argv)
{
    if (argc < 4)
        return 2;
    load_inputs(argv[1]);
    auto cases = vh::read_cases(argv[2]);
    {
        FILE *f = fopen(argv[3], "w");
        fclose(f);
    }
    // one forked child per scenario: a fault ends only that scenario and becomes a crash event
    for (size_t i = 0; i < cases.size(); i++)
    {
        fflush(nullptr);
        pid_t pid = fork();
        if (pid == 0)
        {
#ifndef VERIF_SANITIZER_BUILD
            int dn = open("/dev/null", O_WRONLY);
            if (dn >= 0)
                dup2(dn, 2);
#else
            // sanitizer reports go to a per-scenario file
            std::string rp = std::string(argv[3]) + ".san." + std::to_string(i + 1);
            int fd = open(rp.c_str(), O_WRONLY | O_CREAT | O_TRUNC, 0644);
            if (fd >= 0)
                dup2(fd, 2);
#endif
            alarm(300);
            run_scenario(argv[3], (long)i + 1, cases[i]);
            _exit(0);
        }
        int st = 0;
        waitpid(pid, &st, 0);
        if (!(WIFEXITED(st) && WEXITSTATUS(st) == 0))
        {
            FILE *f = fopen(argv[3], "a");
            std::string line;
            for (auto &s : cases[i])
                line += s + " ";
            fprintf(f, "{\"e\":\"crash\",\"ci\":%zu,\"case\":\"%s\",\"kind\":\"%s\",\"code\":%d}\n", i + 1, line.c_str(),
                    WIFSIGNALED(st) ? "signal" : "exit", WIFSIGNALED(st) ? WTERMSIG(st) : WEXITSTATUS(st));
            fclose(f);
        }
    }
    return 0;
}
