// C16 conformance driver, fixed part: types shared by the engine (rt16.cpp) and the call sites generated from
// tools/overloads16.json by tools/gen_layout16.py (one `call_<p>_<j>` per table row, which does nothing but call the
// library overload with the pointers / registers / strides the engine prepared in a Ctx).
#pragma once
#include "goldilocks_cubic_extension.hpp"
#include "vh.hpp"
#include <vector>
namespace l16
{
    enum Kind { K_REGS, K_REGS3, K_REG, K_CONTIG, K_STRIDE, K_INDEX, K_CONST };
    enum Op { OP_ADD, OP_SUB, OP_MUL };
    enum Aux { AUX_NONE, AUX_CONST, AUX_REGS3 };
    struct Desc
    {
        int w; // 3: extension element, 1: base-field element
        Kind kind;
    };
    // three planar registers; lane k of register i is raw[i * L + k]
    union Regs
    {
        __m256i v4[3];
#ifdef __AVX512__
        __m512i v8[3];
#endif
        uint64_t raw[24];
    };
    struct Ctx
    {
        Goldilocks::Element *pa, *pb, *pc, *px; // arenas (arrays, extension constants, precomputed sums)
        uint64_t sa, sb, sc;                     // uniform strides
        uint64_t *ia, *ib, *ic;                  // per-element offsets
        Goldilocks::Element va, vb;              // base-field constants passed by value
        Regs A, B, C, X;                         // register operands / result / per-lane sums
    };
    struct Row
    {
        const char *id;
        Op op;
        int L;
        Desc a, b, c;
        Aux aux;
        void (*call)(Ctx &);
        // in-place calls: for register rows the generated call sites pass the result's registers (x.C) also as operand a / b;
        // for array rows the engine makes the result pointer equal to the operand pointer and uses `call`
        void (*call_a)(Ctx &);
        void (*call_b)(Ctx &);
        bool alias_a, alias_b; // the result may be aliased to that operand (mirrors Layout16!Aliasable)
    };
}
void l16_register_all(std::vector<l16::Row> &t);
