// C16 conformance driver, engine.  Executes the batched / AVX2 / AVX512 add, sub, mul overloads of Goldilocks3 (library built
// from the tree under check) through the generated call sites and records one ndjson event per call.
//
// case line:  <ci> <row id> <seed> <mode> <sa> <sb> <sc> <ia> <ib> <ic> [<alias: none|a|b> [<history: -|letters> [<share: 0|1>]]]
//             strides 0 when the row has no such parameter; index lists "o0,o1,..." or "-"; mode 0: operand coefficients are
//             vh::Rng::word() (all representations), 1: half of them from a corner list.
//             alias a / b: the result is the SAME object as that operand (register rows: the generated in-place call site
//             passes the result's registers as the operand; array rows: result pointer == operand pointer, the operand is
//             addressed exactly like the result).  Operands are read back BEFORE the call.
//             An input stride >= 2^24 gets a sparse arena: the whole extent is reserved PROT_NONE (MAP_NORESERVE), only the
//             pages that hold designated cells are accessible, the end of the extent still abuts an inaccessible page.
//             history: one letter per call (mutate_vals): the calls are made one after the other in this process and thread on
//             the SAME objects (arenas, index lists, precomputed sums, result arena, register context keep their addresses),
//             whose contents are overwritten in place between the calls; one l16 event per call (hs = position, hn = length).
//             share 1: operands a and b are the same array (pa == pb), one arena ending at the larger footprint.
// Per case the call (the whole history) is executed twice on identical operand values:
//   * every array operand lives in an exact-extent arena (vh::galloc: the cell after the last designated one is an
//     inaccessible page), index lists and the precomputed sums too; undesignated cells hold run-specific garbage that
//     differs between the two runs; the result arena is pre-filled with P (run 1) and ~P (run 2), so a cell written with
//     any value differs from its pre-fill in at least one run;
//   * the driver reads the k-th operands back from arenas / registers before the call and the k-th results after it.
// Cases run in forked batches: a fault or abort becomes a "crash" event and the batch resumes after it.
#include "rt16.hpp"
#include <fcntl.h>
#include <map>
#include <algorithm>
using namespace l16;
typedef unsigned __int128 u128;
static const uint64_t PR = vh::PRIME;

struct Params
{
    long long ci;
    std::string id;
    uint64_t seed;
    int mode;
    uint64_t sa, sb, sc;
    std::vector<uint64_t> ia, ib, ic;
    int al = 0; // 0 none, 1: result aliased to a, 2: to b
    std::string hist;   // one letter per call of a history (empty: a single call with fresh values)
    bool share = false; // operands a and b are the same array (same pointer)
};
static const uint64_t WIDE = 1ULL << 24;
struct Skip
{
    const char *why;
};
struct HarnessError
{
    const char *why;
};

// ---- arenas: dense (vh::galloc, exact extent in front of a guard page) or sparse (huge strides)
struct Arena
{
    bool live = false, sparse = false, shared = false;
    vh::GBuf g;
    uint8_t *base = nullptr;
    size_t maplen = 0;
    uint64_t *p = nullptr;
    uint64_t n = 0;
    std::vector<std::pair<uint64_t, uint64_t>> acc; // accessible cell ranges [lo, hi)
    uint8_t *slack_lo = nullptr;
    size_t slack_len = 0;
};
static void arena_dense(Arena &A, uint64_t n)
{
    A.g = vh::galloc(n, 0);
    A.p = A.g.p;
    A.n = n;
    A.live = true;
    A.acc.push_back({0, n});
}
static void arena_sparse(Arena &A, uint64_t n, const std::vector<uint64_t> &cells)
{
    const uintptr_t ps = 4096;
    uint64_t bytes = n * 8;
    A.maplen = (size_t)(((bytes + ps - 1) / ps) * ps + 2 * ps);
    void *m = mmap(nullptr, A.maplen, PROT_NONE, MAP_PRIVATE | MAP_ANONYMOUS | MAP_NORESERVE, -1, 0);
    if (m == MAP_FAILED)
        throw Skip{"cannot reserve the address range of a huge stride"};
    A.base = (uint8_t *)m;
    A.sparse = true;
    A.live = true;
    A.n = n;
    uint8_t *end = A.base + A.maplen - ps;
    A.p = (uint64_t *)(end - bytes);
    std::vector<uintptr_t> pages;
    for (uint64_t j : cells)
        pages.push_back(((uintptr_t)(A.p + j)) & ~(ps - 1));
    std::sort(pages.begin(), pages.end());
    pages.erase(std::unique(pages.begin(), pages.end()), pages.end());
    for (uintptr_t pg : pages)
    {
        if (mprotect((void *)pg, ps, PROT_READ | PROT_WRITE) != 0)
            throw Skip{"cannot commit a page of a sparse arena"};
        uint64_t lo = pg <= (uintptr_t)A.p ? 0 : (pg - (uintptr_t)A.p) / 8;
        uint64_t hi = std::min<uint64_t>(n, (pg + ps - (uintptr_t)A.p) / 8);
        A.acc.push_back({lo, hi});
        if (pg < (uintptr_t)A.p)
        {
            A.slack_lo = (uint8_t *)pg;
            A.slack_len = (uintptr_t)A.p - pg;
            memset(A.slack_lo, 0xC7, A.slack_len);
        }
    }
}
static bool arena_slack_ok(const Arena &A)
{
    if (!A.live)
        return true;
    if (!A.sparse)
        return vh::gslack_ok(A.g);
    for (size_t i = 0; i < A.slack_len; i++)
        if (A.slack_lo[i] != 0xC7)
            return false;
    return true;
}
static void arena_free(Arena &A)
{
    if (!A.live || A.shared)
        return;
    if (A.sparse)
        munmap(A.base, A.maplen);
    else
        vh::gfree(A.g);
    A.live = false;
}
static std::vector<uint64_t> arena_snap(const Arena &A)
{
    std::vector<uint64_t> v;
    for (auto &r : A.acc)
        v.insert(v.end(), A.p + r.first, A.p + r.second);
    return v;
}

static bool in_mem(const Desc &d) { return d.kind == K_CONTIG || d.kind == K_STRIDE || d.kind == K_INDEX || (d.kind == K_CONST && d.w == 3); }
// position of coefficient i of element k (mirrors Layout16!Addr; the trace specification re-derives it from the table row)
static uint64_t addr(const Desc &d, int k, int i, uint64_t s, const std::vector<uint64_t> &idx)
{
    switch (d.kind)
    {
    case K_CONTIG:
        return (uint64_t)k * d.w + i;
    case K_STRIDE:
        return (uint64_t)k * s + i;
    case K_INDEX:
        return idx[k] + i;
    default:
        return i;
    }
}
static uint64_t extent(const Desc &d, int L, uint64_t s, const std::vector<uint64_t> &idx)
{
    if (!in_mem(d))
        return 0;
    uint64_t m = 0;
    for (int k = 0; k < L; k++)
        m = std::max(m, addr(d, k, d.w - 1, s, idx));
    return m + 1;
}
static uint64_t mix(uint64_t seed, uint64_t j)
{
    uint64_t z = seed + (j + 1) * 0x9E3779B97F4A7C15ULL;
    z = (z ^ (z >> 30)) * 0xBF58476D1CE4E5B9ULL;
    z = (z ^ (z >> 27)) * 0x94D049BB133111EBULL;
    return z ^ (z >> 31);
}
static uint64_t val(vh::Rng &r, int mode)
{
    static const uint64_t corner[] = {0, 1, 2, PR - 1, PR, PR + 1, 0xFFFFFFFFFFFFFFFFULL, 1ULL << 32, 0xFFFFFFFFULL, 1ULL << 63, (PR - 1) / 2,
                                      0xFFFFFFFF00000000ULL, PR - 2, 0xFFFFFFFEFFFFFFFFULL, 0x7FFFFFFF80000001ULL};
    if (mode == 1 && (r.next() & 1))
        return corner[r.below(sizeof(corner) / sizeof(corner[0]))];
    return r.word();
}
static uint64_t addp(uint64_t a, uint64_t b) { return (uint64_t)(((u128)(a % PR) + (b % PR)) % PR); }

struct Opnd
{
    Desc d;
    uint64_t s = 0;
    std::vector<uint64_t> idx;
    Arena g;
    vh::GBuf gi;
    bool mem = false, hasidx = false, wide = false, aliased = false;
    std::vector<uint64_t> snap;
    uint64_t n = 0;
    uint64_t gseed = 0;
    uint64_t V[8][3]; // the operand values (element k, coefficient i) of the current call; a history derives the next call's from them
    Opnd() { memset(V, 0, sizeof(V)); }
};
struct Res
{
    uint64_t a[8][3], b[8][3], x[8][3], r[8][3];
    std::vector<uint64_t> out, pre, ia, ib, ic;
    uint64_t an = 0, bn = 0, cn = 0;
    bool inw = true, slack = true, wa = false, wb = false;
    char kind = 'f';
    Res()
    {
        memset(a, 0, sizeof(a));
        memset(b, 0, sizeof(b));
        memset(x, 0, sizeof(x));
        memset(r, 0, sizeof(r));
    }
};

static void prep_index(Opnd &o, int L)
{
    if (o.d.kind != K_INDEX)
        return;
    o.gi = vh::galloc(L, 0);
    for (int k = 0; k < L; k++)
        o.gi.p[k] = o.idx[k];
    o.hasidx = true;
}
// ---- objects of an input: index list, extent; they live through all calls of a case (a history re-uses the same addresses)
static void plan_input(Opnd &o, int L)
{
    prep_index(o, L);
    if (in_mem(o.d))
    {
        o.mem = true;
        o.n = extent(o.d, L, o.s, o.idx);
        o.wide = o.d.kind == K_STRIDE && o.s >= WIDE;
    }
}
static void alloc_input(Opnd &o, int L)
{
    if (!o.mem)
        return;
    if (o.wide)
    {
        std::vector<uint64_t> cells;
        for (int k = 0; k < L; k++)
            for (int i = 0; i < o.d.w; i++)
                cells.push_back(addr(o.d, k, i, o.s, o.idx));
        arena_sparse(o.g, o.n, cells);
    }
    else
        arena_dense(o.g, o.n);
}
static int nelems(const Opnd &o, int L) { return o.d.kind == K_CONST ? 1 : L; }
// fresh operand values (the draw order per kind is part of the case format: a case replays identically)
static void fresh_vals(Opnd &o, int L, vh::Rng &vr, int mode)
{
    if (o.mem)
    {
        int nk = nelems(o, L);
        for (int k = 0; k < nk; k++)
            for (int i = 0; i < o.d.w; i++)
                o.V[k][i] = val(vr, mode);
    }
    else if (o.d.kind == K_CONST)
        o.V[0][0] = val(vr, mode);
    else
        for (int i = 0; i < o.d.w; i++)
            for (int k = 0; k < L; k++)
                o.V[k][i] = val(vr, mode);
}
static const uint64_t CORNER[] = {0, 1, 2, PR - 1, PR, PR + 1, 0xFFFFFFFFFFFFFFFFULL, 1ULL << 32, 0xFFFFFFFFULL, 1ULL << 63, (PR - 1) / 2,
                                  0xFFFFFFFF00000000ULL, PR - 2, 0xFFFFFFFEFFFFFFFFULL, 0x7FFFFFFF80000001ULL};
// the next call of a history: the operand is overwritten IN PLACE (same buffer, same address) with values derived from the
// ones it held in the previous call
//   f fresh   k kept as it is   p coordinates of every element permuted (base arrays: lanes rotated)
//   0 1 2 basis elements (lane k gets e_(c+k)); base: 1, 0, p (= 0 non-canonical)
//   x two coordinates xor-ed with the same mask (the xor of the three words is unchanged)
//   a d added to one coordinate and subtracted from another (the sum of the three words mod 2^64 is unchanged)
//   o one coordinate replaced   n every coordinate that has a second representation gets it (v < 2^32-1 <-> v + p)
//   s small canonical words (< 2^32 - 1)   c corner words   r the elements in reverse lane order (constants: like p)
//   i fresh values (the index lists are permuted in place by the caller)
static void mutate_vals(Opnd &o, int L, char kd, vh::Rng &vr, int mode)
{
    static const int PERM3[5][3] = {{1, 0, 2}, {0, 2, 1}, {2, 1, 0}, {1, 2, 0}, {2, 0, 1}};
    const int nk = nelems(o, L), w = o.d.w;
    if (kd == 'r' && nk == 1)
        kd = 'p';
    switch (kd)
    {
    case 'k':
        return;
    case 'p':
        if (w == 3)
            for (int k = 0; k < nk; k++)
            {
                const int *q = PERM3[vr.below(5)];
                uint64_t t[3] = {o.V[k][0], o.V[k][1], o.V[k][2]};
                for (int i = 0; i < 3; i++)
                    o.V[k][i] = t[q[i]];
            }
        else if (nk > 1)
        {
            uint64_t t = o.V[0][0];
            for (int k = 0; k + 1 < nk; k++)
                o.V[k][0] = o.V[k + 1][0];
            o.V[nk - 1][0] = t;
        }
        return;
    case '0':
    case '1':
    case '2':
        for (int k = 0; k < nk; k++)
            if (w == 3)
                for (int i = 0; i < 3; i++)
                    o.V[k][i] = (i == (kd - '0' + k) % 3) ? 1 : 0;
            else
                o.V[k][0] = kd == '0' ? 1 : kd == '1' ? 0 : PR;
        return;
    case 'x':
    case 'a':
        if (w == 3)
            for (int k = 0; k < nk; k++)
            {
                int i = (int)vr.below(3), j = (i + 1 + (int)vr.below(2)) % 3;
                uint64_t m = vr.next();
                if (!m)
                    m = 1;
                if (kd == 'x')
                {
                    o.V[k][i] ^= m;
                    o.V[k][j] ^= m;
                }
                else
                {
                    o.V[k][i] += m;
                    o.V[k][j] -= m;
                }
            }
        else
            fresh_vals(o, L, vr, mode);
        return;
    case 'o':
        for (int k = 0; k < nk; k++)
        {
            int i = (int)vr.below(w);
            uint64_t nv = val(vr, mode);
            o.V[k][i] = nv == o.V[k][i] ? nv + 1 : nv;
        }
        return;
    case 'n':
        for (int k = 0; k < nk; k++)
            for (int i = 0; i < w; i++)
            {
                uint64_t v = o.V[k][i];
                o.V[k][i] = v < 0xFFFFFFFFULL ? v + PR : v >= PR ? v - PR : v;
            }
        return;
    case 's':
        for (int k = 0; k < nk; k++)
            for (int i = 0; i < w; i++)
                o.V[k][i] = vr.below(4) == 0 ? vr.below(3) : vr.below(0xFFFFFFFFULL);
        return;
    case 'c':
        for (int k = 0; k < nk; k++)
            for (int i = 0; i < w; i++)
                o.V[k][i] = CORNER[vr.below(sizeof(CORNER) / sizeof(CORNER[0]))];
        return;
    case 'r':
        for (int k = 0; k < nk / 2; k++)
            for (int i = 0; i < w; i++)
                std::swap(o.V[k][i], o.V[nk - 1 - k][i]);
        return;
    default:
        fresh_vals(o, L, vr, mode);
    }
}
// run- and call-specific garbage in every (accessible) cell of the arena; the two runs are complementary
static void fill_garbage(Opnd &o, int run, int step)
{
    if (!o.mem)
        return;
    uint64_t gs = o.gseed + (uint64_t)step * 0x51ED270B9F1DULL;
    for (auto &rg : o.g.acc)
        for (uint64_t j = rg.first; j < rg.second; j++)
            o.g.p[j] = run ? ~mix(gs, j) : mix(gs, j);
}
static void store_vals(Opnd &o, int L, Regs &R, Goldilocks::Element &v, vh::Rng &gr)
{
    if (o.mem)
    {
        int nk = nelems(o, L);
        for (int k = 0; k < nk; k++)
            for (int i = 0; i < o.d.w; i++)
                o.g.p[addr(o.d, k, i, o.s, o.idx)] = o.V[k][i];
    }
    else if (o.d.kind == K_CONST)
        v.fe = o.V[0][0];
    else
    {
        for (int j = 0; j < 24; j++)
            R.raw[j] = gr.next();
        for (int i = 0; i < o.d.w; i++)
            for (int k = 0; k < L; k++)
                R.raw[i * L + k] = o.V[k][i];
    }
}
static void read_vals(const Opnd &o, int L, const Regs &R, const Goldilocks::Element &v, uint64_t out[8][3])
{
    for (int k = 0; k < L; k++)
        for (int i = 0; i < 3; i++)
        {
            if (i >= o.d.w)
                out[k][i] = 0;
            else if (o.mem)
                out[k][i] = o.g.p[addr(o.d, k, i, o.s, o.idx)];
            else if (o.d.kind == K_CONST)
                out[k][i] = v.fe;
            else
                out[k][i] = R.raw[i * L + k];
        }
}
static bool unchanged(const Opnd &o, int L, bool arena = true)
{
    bool ok = true;
    if (arena && o.mem && !o.aliased)
        ok = ok && arena_snap(o.g) == o.snap;
    if (o.hasidx)
        for (int k = 0; k < L; k++)
            ok = ok && o.gi.p[k] == o.idx[k];
    return ok;
}
static bool slack_ok(const Opnd &o) { return (!o.mem || arena_slack_ok(o.g)) && (!o.hasidx || vh::gslack_ok(o.gi)); }
static void release(Opnd &o)
{
    if (o.mem)
        arena_free(o.g);
    if (o.hasidx)
        vh::gfree(o.gi);
}
static void permute_index(Opnd &o, int L, const std::vector<int> &pi)
{
    if (o.d.kind != K_INDEX)
        return;
    std::vector<uint64_t> nx(L);
    for (int k = 0; k < L; k++)
        nx[k] = o.idx[pi[k]];
    o.idx = nx;
    for (int k = 0; k < L; k++)
        o.gi.p[k] = nx[k]; // overwritten in place: the list stays at its address
}
static std::vector<int> rand_perm(int L, vh::Rng &vr)
{
    std::vector<int> p(L);
    for (int k = 0; k < L; k++)
        p[k] = k;
    for (int k = L - 1; k > 0; k--)
        std::swap(p[k], p[vr.below(k + 1)]);
    return p;
}

// One run of a case: a single call, or a HISTORY of calls (P.hist, one letter per call) made one after the other in this
// process and thread on the SAME objects -- arenas, index lists, precomputed sums, the result arena and the register
// context keep their addresses; between two calls their contents are overwritten in place.  Every call is recorded like a
// single call (operands read back before it, results after it).
static void one_run(const Row &row, const Params &P, int run, std::vector<Res> &hist_out)
{
    const int L = row.L;
    const std::string hist = P.hist.empty() ? std::string("f") : P.hist;
    const int H = (int)hist.size();
    vh::Rng vr(P.seed), gr(P.seed * 0x2545F4914F6CDD1DULL + 0x1234567 + (uint64_t)run * 0x9E3779B97F4A7C15ULL);
    Ctx x;
    memset(&x, 0, sizeof(x));
    Opnd A, B, C;
    vh::GBuf gx;
    bool hasx = false;
    struct Guard
    {
        Opnd *o[3];
        vh::GBuf *gx;
        bool *hasx;
        ~Guard()
        {
            for (auto q : o)
                release(*q);
            if (*hasx)
                vh::gfree(*gx);
        }
    } guard{{&C, &A, &B}, &gx, &hasx};
    A.d = row.a; A.s = P.sa; A.idx = P.ia; A.gseed = P.seed ^ 0xA0A0A0;
    B.d = row.b; B.s = P.sb; B.idx = P.ib; B.gseed = P.seed ^ 0xB1B1B1;
    C.d = row.c; C.s = P.sc; C.idx = P.ic;
    if ((P.al == 1 && !row.alias_a) || (P.al == 2 && !row.alias_b))
        throw HarnessError{"alias mode not offered by the row"};
    plan_input(A, L);
    plan_input(B, L);
    if (H > 1 && (A.wide || B.wide))
        throw HarnessError{"history with a huge stride"};
    if (P.share)
    {
        // the two inputs are the SAME array (pa == pb): one arena that ends at the larger of the two footprints
        if (!A.mem || !B.mem || A.wide || B.wide || P.al)
            throw HarnessError{"shared inputs need two memory operands, no alias mode, no huge stride"};
        uint64_t n = std::max(A.n, B.n);
        A.n = B.n = n;
        arena_dense(A.g, n);
        B.g = A.g;
        B.g.shared = true;
    }
    else
    {
        alloc_input(A, L);
        alloc_input(B, L);
    }
    if (row.aux == AUX_CONST)
    {
        gx = vh::galloc(3, 0);
        hasx = true;
        x.px = (Goldilocks::Element *)gx.p;
    }
    prep_index(C, L);
    Opnd *AL = P.al == 1 ? &A : P.al == 2 ? &B : nullptr;
    if (in_mem(C.d))
    {
        C.mem = true;
        C.n = extent(C.d, L, C.s, C.idx);
        if (AL)
        {
            // in place: the result arena IS the operand's arena (pointer equality), addressed identically
            if (!AL->mem || AL->wide || AL->n != C.n)
                throw HarnessError{"aliased operand and result have different extents"};
            C.g = AL->g;
            C.g.shared = true;
            AL->aliased = true;
        }
        else
            arena_dense(C.g, C.n);
    }
    else if (AL && (AL->mem || AL->d.w != 3))
        throw HarnessError{"register result aliased to a non-register operand"};
    x.pa = A.mem ? (Goldilocks::Element *)A.g.p : nullptr;
    x.pb = B.mem ? (Goldilocks::Element *)B.g.p : nullptr;
    x.pc = C.mem ? (Goldilocks::Element *)C.g.p : nullptr;
    x.sa = A.s; x.sb = B.s; x.sc = C.s;
    x.ia = A.hasidx ? A.gi.p : nullptr;
    x.ib = B.hasidx ? B.gi.p : nullptr;
    x.ic = C.hasidx ? C.gi.p : nullptr;
    void (*fn)(Ctx &) = row.call;
    if (AL && !C.mem)
        fn = P.al == 1 ? row.call_a : row.call_b;
    if (!fn)
        throw HarnessError{"no in-place call site"};

    for (int step = 0; step < H; step++)
    {
        const char kd = hist[step];
        hist_out.emplace_back();
        Res &res = hist_out.back();
        res.kind = kd;
        if (kd == 'i')
        {
            // the index lists are overwritten in place with a permutation of themselves (same footprint, same extent); the
            // result and an operand it is aliased to stay addressed alike: both permuted the same way, or neither
            std::vector<int> pc = rand_perm(L, vr), pa = rand_perm(L, vr), pb = rand_perm(L, vr);
            if (AL)
            {
                if (C.d.kind == K_INDEX && AL->d.kind == K_INDEX)
                    permute_index(*AL, L, pc);
                if (C.d.kind != K_INDEX || AL->d.kind == K_INDEX)
                    permute_index(C, L, pc);
            }
            else
                permute_index(C, L, pc);
            if (AL != &A)
                permute_index(A, L, pa);
            if (AL != &B)
                permute_index(B, L, pb);
        }
        // operand values of this call
        if (step == 0)
        {
            fresh_vals(A, L, vr, P.mode);
            if (kd != 'f' && kd != 'i')
                mutate_vals(A, L, kd, vr, P.mode);
            fresh_vals(B, L, vr, P.mode);
            if (kd != 'f' && kd != 'i')
                mutate_vals(B, L, kd, vr, P.mode);
        }
        else
        {
            // both operands, or only one of them (the other keeps its contents); a broadcast constant always takes part
            int who = (kd == 'f' || kd == 'i' || kd == 'k') ? 0 : (int)vr.below(4);
            if (who != 3 || A.d.kind == K_CONST)
                mutate_vals(A, L, kd, vr, P.mode);
            if (who != 2 || B.d.kind == K_CONST)
                mutate_vals(B, L, kd, vr, P.mode);
        }
        fill_garbage(A, run, step);
        if (!P.share)
            fill_garbage(B, run, step);
        store_vals(A, L, x.A, x.va, gr);
        store_vals(B, L, x.B, x.vb, gr);
        if (A.mem)
            A.snap = arena_snap(A.g);
        if (B.mem)
            B.snap = arena_snap(B.g);
        read_vals(A, L, x.A, x.va, res.a);
        read_vals(B, L, x.B, x.vb, res.b);
        // precomputed sums of b (challenge variants): b0+b1, b0+b2, b1+b2 in some representation
        std::vector<uint64_t> xsnap;
        if (row.aux != AUX_NONE)
        {
            for (int j = 0; j < 24; j++)
                x.X.raw[j] = gr.next();
            int nk = row.aux == AUX_CONST ? 1 : L;
            for (int k = 0; k < nk; k++)
            {
                uint64_t s[3] = {addp(res.b[k][0], res.b[k][1]), addp(res.b[k][0], res.b[k][2]), addp(res.b[k][1], res.b[k][2])};
                for (int i = 0; i < 3; i++)
                {
                    if (vr.next() % 3 == 0 && s[i] < 0xFFFFFFFFULL)
                        s[i] += PR;
                    res.x[k][i] = s[i];
                }
            }
            if (row.aux == AUX_CONST)
            {
                for (int k = 1; k < L; k++)
                    for (int i = 0; i < 3; i++)
                        res.x[k][i] = res.x[0][i];
                for (int i = 0; i < 3; i++)
                    gx.p[i] = res.x[0][i];
                xsnap.assign(gx.p, gx.p + 3);
            }
            else
                for (int k = 0; k < L; k++)
                    for (int i = 0; i < 3; i++)
                        x.X.raw[i * L + k] = res.x[k][i];
        }
        // result
        if (C.mem)
        {
            if (AL)
            {
                for (int k = 0; k < L; k++)
                    for (int i = 0; i < 3; i++)
                        if (addr(C.d, k, i, C.s, C.idx) != addr(AL->d, k, i, AL->s, AL->idx))
                            throw HarnessError{"aliased operand is not addressed like the result"};
            }
            else
            {
                uint64_t cs = (P.seed ^ 0xC16C16) + (uint64_t)step * 0x6A09E667F3BCULL;
                for (uint64_t j = 0; j < C.n; j++)
                    C.g.p[j] = run ? ~mix(cs, j) : mix(cs, j);
            }
            res.pre.assign(C.g.p, C.g.p + C.n);
        }
        else
        {
            for (int j = 0; j < 24; j++)
                x.C.raw[j] = gr.next();
            if (AL)
                x.C = P.al == 1 ? x.A : x.B; // the in-place call site passes x.C as the operand
        }
        res.an = A.n; res.bn = B.n; res.cn = C.n;
        res.wa = A.wide; res.wb = B.wide;
        res.ia = A.idx; res.ib = B.idx; res.ic = C.idx;

        fn(x);

        for (int k = 0; k < L; k++)
            for (int i = 0; i < 3; i++)
                res.r[k][i] = C.mem ? C.g.p[addr(C.d, k, i, C.s, C.idx)] : x.C.raw[i * L + k];
        if (C.mem)
            res.out.assign(C.g.p, C.g.p + C.n);
        res.inw = unchanged(A, L) && unchanged(B, L) && unchanged(C, L, false) && (!hasx || memcmp(gx.p, xsnap.data(), 24) == 0);
        res.slack = slack_ok(A) && slack_ok(B) && slack_ok(C) && (!hasx || vh::gslack_ok(gx));
    }
}

static std::string triples(const uint64_t v[8][3], int L, int w)
{
    std::string s = "[";
    for (int k = 0; k < L; k++)
    {
        s += k ? ",[" : "[";
        for (int i = 0; i < w; i++)
        {
            if (i)
                s += ",";
            vh::Out::w64s(s, v[k][i]);
        }
        s += "]";
    }
    return s + "]";
}
static std::string ints(const std::vector<uint64_t> &v)
{
    std::string s = "[";
    for (size_t i = 0; i < v.size(); i++)
        s += (i ? "," : "") + std::to_string(v[i]);
    return s + "]";
}
static std::vector<uint64_t> firsts(const Desc &d, int L, uint64_t s, const std::vector<uint64_t> &idx)
{
    std::vector<uint64_t> v;
    if (in_mem(d))
        for (int k = 0; k < L; k++)
            v.push_back(addr(d, k, 0, s, idx));
    return v;
}
static void harness_event(vh::Out &o, const Params &P, const char *what)
{
    o.begin("harness");
    o.num("ci", P.ci);
    o.str("id", P.id);
    o.str("what", what);
    o.end();
}

static void do_case(vh::Out &o, const Row &row, const Params &P)
{
    const int L = row.L;
    std::vector<Res> h1, h2;
    try
    {
        one_run(row, P, 0, h1);
        one_run(row, P, 1, h2);
    }
    catch (Skip &sk)
    {
        o.begin("skip");
        o.num("ci", P.ci);
        o.str("id", P.id);
        o.str("why", sk.why);
        o.end();
        return;
    }
    catch (HarnessError &he)
    {
        harness_event(o, P, he.why);
        return;
    }
    if (h1.size() != h2.size() || h1.empty())
    {
        harness_event(o, P, "the two runs made a different number of calls");
        return;
    }
    for (size_t st = 0; st < h1.size(); st++)
    {
        const Res &r1 = h1[st], &r2 = h2[st];
        if (memcmp(r1.a, r2.a, sizeof(r1.a)) || memcmp(r1.b, r2.b, sizeof(r1.b)) || memcmp(r1.x, r2.x, sizeof(r1.x)) || r1.pre.size() != r2.pre.size() ||
            r1.ia != r2.ia || r1.ib != r2.ib || r1.ic != r2.ic)
        {
            // the two runs must see identical operands: anything else is a defect of this harness, not of the library
            harness_event(o, P, "operands of the two runs differ");
            return;
        }
    }
    for (size_t st = 0; st < h1.size(); st++)
    {
        const Res &r1 = h1[st], &r2 = h2[st];
        std::vector<uint64_t> chg;
        bool same = memcmp(r1.r, r2.r, sizeof(r1.r)) == 0;
        uint64_t nchg = 0;
        for (size_t j = 0; j < r1.out.size(); j++)
            if (r1.out[j] != r1.pre[j] || r2.out[j] != r2.pre[j])
            {
                nchg++;
                if (chg.size() < 64)
                    chg.push_back(j);
                if (r1.out[j] != r2.out[j])
                    same = false;
            }
        o.begin("l16");
        o.num("ci", P.ci);
        o.str("id", P.id);
        o.num("lanes", L);
        // position of the call in its history (hn = 1: a single call); hk = how the operand contents were derived from the
        // previous call's (informative); sh: a and b are the same array (same pointer)
        o.num("hs", (long long)st);
        o.num("hn", (long long)h1.size());
        o.str("hk", std::string(1, r1.kind));
        o.boolean("sh", P.share);
        o.str("al", P.al == 1 ? "a" : P.al == 2 ? "b" : "none");
        // a huge stride does not fit a TLC integer: it is logged as limbs (saw / sbw), with positions apw / bpw and extent anw / bnw
        o.boolean("wa", r1.wa);
        o.boolean("wb", r1.wb);
        o.num("sa", r1.wa ? 0 : P.sa);
        o.num("sb", r1.wb ? 0 : P.sb);
        o.num("sc", P.sc);
        o.w64("saw", P.sa);
        o.w64("sbw", P.sb);
        o.raw("ia", ints(row.a.kind == K_INDEX ? r1.ia : std::vector<uint64_t>()));
        o.raw("ib", ints(row.b.kind == K_INDEX ? r1.ib : std::vector<uint64_t>()));
        o.raw("ic", ints(row.c.kind == K_INDEX ? r1.ic : std::vector<uint64_t>()));
        std::vector<uint64_t> fa = firsts(row.a, L, P.sa, r1.ia), fb = firsts(row.b, L, P.sb, r1.ib), none;
        o.num("an", r1.wa ? 0 : r1.an);
        o.num("bn", r1.wb ? 0 : r1.bn);
        o.num("cn", r1.cn);
        o.w64("anw", r1.an);
        o.w64("bnw", r1.bn);
        o.raw("ap", ints(r1.wa ? none : fa));
        o.raw("bp", ints(r1.wb ? none : fb));
        o.w64arr("apw", fa.data(), r1.wa ? fa.size() : 0);
        o.w64arr("bpw", fb.data(), r1.wb ? fb.size() : 0);
        o.raw("cp", ints(firsts(row.c, L, P.sc, r1.ic)));
        o.raw("a", triples(r1.a, L, row.a.w));
        o.raw("b", triples(r1.b, L, row.b.w));
        o.raw("x", row.aux == AUX_NONE ? std::string("[]") : triples(r1.x, L, 3));
        o.raw("r", triples(r1.r, L, 3));
        o.raw("chg", ints(chg));
        o.num("nchg", nchg);
        o.boolean("same", same);
        o.boolean("inw", r1.inw && r2.inw);
        o.boolean("slack", r1.slack && r2.slack);
        o.end();
    }
}

static std::vector<uint64_t> parse_list(const std::string &s)
{
    std::vector<uint64_t> v;
    if (s == "-")
        return v;
    std::stringstream ss(s);
    std::string part;
    while (std::getline(ss, part, ','))
        v.push_back(vh::parse_u64(part));
    return v;
}

int main(int argc, char **argv)
{
    std::vector<Row> table;
    l16_register_all(table);
    if (argc == 2 && std::string(argv[1]) == "--list")
    {
        for (auto &r : table)
            printf("%s\n", r.id);
        return 0;
    }
    if (argc < 3)
    {
        fprintf(stderr, "usage: drv16 cases.txt out.ndjson | --list\n");
        return 2;
    }
    std::map<std::string, const Row *> byid;
    for (auto &r : table)
        byid[r.id] = &r;
    auto cases = vh::read_cases(argv[1]);
    {
        vh::Out o(argv[2]); // truncate
    }
    std::vector<Params> ps;
    for (auto &t : cases)
    {
        if (t.size() < 10)
        {
            fprintf(stderr, "bad case line\n");
            return 2;
        }
        Params P;
        P.ci = atoll(t[0].c_str());
        P.id = t[1];
        P.seed = vh::parse_u64(t[2]);
        P.mode = atoi(t[3].c_str());
        P.sa = vh::parse_u64(t[4]);
        P.sb = vh::parse_u64(t[5]);
        P.sc = vh::parse_u64(t[6]);
        P.ia = parse_list(t[7]);
        P.ib = parse_list(t[8]);
        P.ic = parse_list(t[9]);
        P.al = t.size() > 10 ? (t[10] == "a" ? 1 : t[10] == "b" ? 2 : 0) : 0;
        P.hist = t.size() > 11 && t[11] != "-" ? t[11] : std::string();
        P.share = t.size() > 12 && t[12] == "1";
        auto it = byid.find(P.id);
        if (it == byid.end())
        {
            fprintf(stderr, "row %s is not in this build\n", P.id.c_str());
            return 2;
        }
        const Row &r = *it->second;
        if ((r.a.kind == K_INDEX && (int)P.ia.size() != r.L) || (r.b.kind == K_INDEX && (int)P.ib.size() != r.L) || (r.c.kind == K_INDEX && (int)P.ic.size() != r.L))
        {
            fprintf(stderr, "index list of wrong length for %s\n", P.id.c_str());
            return 2;
        }
        ps.push_back(P);
    }
    size_t i = 0;
    while (i < ps.size())
    {
        int fd[2];
        if (pipe(fd) != 0)
            return 3;
        fflush(nullptr);
        pid_t pid = fork();
        if (pid == 0)
        {
            close(fd[0]);
            int dn = open("/dev/null", O_WRONLY);
            if (dn >= 0)
                dup2(dn, 2);
            vh::Out o2("/dev/null");
            fclose(o2.f);
            o2.f = fopen(argv[2], "a");
            for (size_t k = i; k < ps.size(); k++)
            {
                alarm(60);
                do_case(o2, *byid[ps[k].id], ps[k]);
                fflush(o2.f);
                char b = 1;
                if (write(fd[1], &b, 1) != 1)
                    _exit(9);
            }
            fflush(o2.f);
            _exit(0);
        }
        close(fd[1]);
        size_t done = 0;
        char b;
        while (read(fd[0], &b, 1) == 1)
            done++;
        close(fd[0]);
        int st = 0;
        waitpid(pid, &st, 0);
        i += done;
        if (i < ps.size())
        {
            vh::Out o("/dev/null");
            fclose(o.f);
            o.f = fopen(argv[2], "a");
            o.begin("crash");
            o.num("ci", ps[i].ci);
            o.str("id", ps[i].id);
            o.str("kind", WIFSIGNALED(st) ? "signal" : "exit");
            o.num("code", WIFSIGNALED(st) ? WTERMSIG(st) : WEXITSTATUS(st));
            o.end();
            i++;
        }
    }
    return 0;
}
