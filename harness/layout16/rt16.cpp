// C16 conformance driver, engine.  Executes the batched / AVX2 / AVX512 add, sub, mul overloads of Goldilocks3 (library built
// from the tree under check) through the generated call sites and records one ndjson event per call.
//
// case line:  <ci> <row id> <seed> <mode> <sa> <sb> <sc> <ia> <ib> <ic>
//             strides 0 when the row has no such parameter; index lists "o0,o1,..." or "-"; mode 0: operand coefficients are
//             vh::Rng::word() (all representations), 1: half of them from a corner list.
// Per case the call is executed twice on identical operand values:
//   * every array operand lives in an exact-extent arena (vh::galloc: the cell after the last designated one is an
//     inaccessible page), index lists and the precomputed sums too; undesignated cells hold run-specific garbage that
//     differs between the two runs; the result arena is pre-filled with P (run 1) and ~P (run 2), so a cell written with
//     any value differs from its pre-fill in at least one run;
//   * the driver reads the k-th operands back from arenas / registers before the call and the k-th results after it.
// Cases run in forked batches: a fault or abort becomes a "crash" event and the batch resumes after it.
#include "rt16.hpp"
#include <fcntl.h>
#include <map>
#include <algorithm>
using namespace l16;
typedef unsigned __int128 u128;
static const uint64_t PR = vh::PRIME;

struct Params
{
    long long ci;
    std::string id;
    uint64_t seed;
    int mode;
    uint64_t sa, sb, sc;
    std::vector<uint64_t> ia, ib, ic;
};

static bool in_mem(const Desc &d) { return d.kind == K_CONTIG || d.kind == K_STRIDE || d.kind == K_INDEX || (d.kind == K_CONST && d.w == 3); }
// position of coefficient i of element k (mirrors Layout16!Addr; the trace specification re-derives it from the table row)
static uint64_t addr(const Desc &d, int k, int i, uint64_t s, const std::vector<uint64_t> &idx)
{
    switch (d.kind)
    {
    case K_CONTIG:
        return (uint64_t)k * d.w + i;
    case K_STRIDE:
        return (uint64_t)k * s + i;
    case K_INDEX:
        return idx[k] + i;
    default:
        return i;
    }
}
static uint64_t extent(const Desc &d, int L, uint64_t s, const std::vector<uint64_t> &idx)
{
    if (!in_mem(d))
        return 0;
    uint64_t m = 0;
    for (int k = 0; k < L; k++)
        m = std::max(m, addr(d, k, d.w - 1, s, idx));
    return m + 1;
}
static uint64_t mix(uint64_t seed, uint64_t j)
{
    uint64_t z = seed + (j + 1) * 0x9E3779B97F4A7C15ULL;
    z = (z ^ (z >> 30)) * 0xBF58476D1CE4E5B9ULL;
    z = (z ^ (z >> 27)) * 0x94D049BB133111EBULL;
    return z ^ (z >> 31);
}
static uint64_t val(vh::Rng &r, int mode)
{
    static const uint64_t corner[] = {0, 1, 2, PR - 1, PR, PR + 1, 0xFFFFFFFFFFFFFFFFULL, 1ULL << 32, 0xFFFFFFFFULL, 1ULL << 63, (PR - 1) / 2,
                                      0xFFFFFFFF00000000ULL, PR - 2, 0xFFFFFFFEFFFFFFFFULL, 0x7FFFFFFF80000001ULL};
    if (mode == 1 && (r.next() & 1))
        return corner[r.below(sizeof(corner) / sizeof(corner[0]))];
    return r.word();
}
static uint64_t addp(uint64_t a, uint64_t b) { return (uint64_t)(((u128)(a % PR) + (b % PR)) % PR); }

struct Opnd
{
    Desc d;
    uint64_t s = 0;
    std::vector<uint64_t> idx;
    vh::GBuf g, gi;
    bool mem = false, hasidx = false;
    std::vector<uint64_t> snap;
    uint64_t n = 0;
};
struct Res
{
    uint64_t a[8][3], b[8][3], x[8][3], r[8][3];
    std::vector<uint64_t> out, pre;
    uint64_t an = 0, bn = 0, cn = 0;
    bool inw = true, slack = true;
    Res()
    {
        memset(a, 0, sizeof(a));
        memset(b, 0, sizeof(b));
        memset(x, 0, sizeof(x));
        memset(r, 0, sizeof(r));
    }
};

static void prep_index(Opnd &o, int L)
{
    if (o.d.kind != K_INDEX)
        return;
    o.gi = vh::galloc(L, 0);
    for (int k = 0; k < L; k++)
        o.gi.p[k] = o.idx[k];
    o.hasidx = true;
}
static void setup_input(Opnd &o, int L, Regs &R, Goldilocks::Element &v, vh::Rng &vr, vh::Rng &gr, int mode)
{
    prep_index(o, L);
    if (in_mem(o.d))
    {
        o.mem = true;
        o.n = extent(o.d, L, o.s, o.idx);
        o.g = vh::galloc(o.n, 0);
        for (uint64_t j = 0; j < o.n; j++)
            o.g.p[j] = gr.next();
        int nk = o.d.kind == K_CONST ? 1 : L;
        for (int k = 0; k < nk; k++)
            for (int i = 0; i < o.d.w; i++)
                o.g.p[addr(o.d, k, i, o.s, o.idx)] = val(vr, mode);
        o.snap.assign(o.g.p, o.g.p + o.n);
    }
    else if (o.d.kind == K_CONST)
        v.fe = val(vr, mode);
    else
    {
        for (int j = 0; j < 24; j++)
            R.raw[j] = gr.next();
        for (int i = 0; i < o.d.w; i++)
            for (int k = 0; k < L; k++)
                R.raw[i * L + k] = val(vr, mode);
    }
}
static void read_vals(const Opnd &o, int L, const Regs &R, const Goldilocks::Element &v, uint64_t out[8][3])
{
    for (int k = 0; k < L; k++)
        for (int i = 0; i < 3; i++)
        {
            if (i >= o.d.w)
                out[k][i] = 0;
            else if (o.mem)
                out[k][i] = o.g.p[addr(o.d, k, i, o.s, o.idx)];
            else if (o.d.kind == K_CONST)
                out[k][i] = v.fe;
            else
                out[k][i] = R.raw[i * L + k];
        }
}
static bool unchanged(const Opnd &o, int L, bool arena = true)
{
    bool ok = true;
    if (arena && o.mem)
        ok = ok && memcmp(o.g.p, o.snap.data(), o.n * 8) == 0;
    if (o.hasidx)
        for (int k = 0; k < L; k++)
            ok = ok && o.gi.p[k] == o.idx[k];
    return ok;
}
static bool slack_ok(const Opnd &o) { return (!o.mem || vh::gslack_ok(o.g)) && (!o.hasidx || vh::gslack_ok(o.gi)); }
static void release(Opnd &o)
{
    if (o.mem)
        vh::gfree(o.g);
    if (o.hasidx)
        vh::gfree(o.gi);
}

static void one_run(const Row &row, const Params &P, int run, Res &res)
{
    const int L = row.L;
    vh::Rng vr(P.seed), gr(P.seed * 0x2545F4914F6CDD1DULL + 0x1234567 + (uint64_t)run * 0x9E3779B97F4A7C15ULL);
    Ctx x;
    memset(&x, 0, sizeof(x));
    Opnd A, B, C;
    A.d = row.a; A.s = P.sa; A.idx = P.ia;
    B.d = row.b; B.s = P.sb; B.idx = P.ib;
    C.d = row.c; C.s = P.sc; C.idx = P.ic;
    setup_input(A, L, x.A, x.va, vr, gr, P.mode);
    setup_input(B, L, x.B, x.vb, vr, gr, P.mode);
    read_vals(A, L, x.A, x.va, res.a);
    read_vals(B, L, x.B, x.vb, res.b);
    // precomputed sums of b (challenge variants): b0+b1, b0+b2, b1+b2 in some representation
    vh::GBuf gx;
    bool hasx = false;
    std::vector<uint64_t> xsnap;
    memset(res.x, 0, sizeof(res.x));
    if (row.aux != AUX_NONE)
    {
        for (int j = 0; j < 24; j++)
            x.X.raw[j] = gr.next();
        int nk = row.aux == AUX_CONST ? 1 : L;
        for (int k = 0; k < nk; k++)
        {
            uint64_t s[3] = {addp(res.b[k][0], res.b[k][1]), addp(res.b[k][0], res.b[k][2]), addp(res.b[k][1], res.b[k][2])};
            for (int i = 0; i < 3; i++)
            {
                if (vr.next() % 3 == 0 && s[i] < 0xFFFFFFFFULL)
                    s[i] += PR;
                res.x[k][i] = s[i];
            }
        }
        if (row.aux == AUX_CONST)
        {
            for (int k = 1; k < L; k++)
                for (int i = 0; i < 3; i++)
                    res.x[k][i] = res.x[0][i];
            gx = vh::galloc(3, 0);
            hasx = true;
            for (int i = 0; i < 3; i++)
                gx.p[i] = res.x[0][i];
            xsnap.assign(gx.p, gx.p + 3);
            x.px = (Goldilocks::Element *)gx.p;
        }
        else
            for (int k = 0; k < L; k++)
                for (int i = 0; i < 3; i++)
                    x.X.raw[i * L + k] = res.x[k][i];
    }
    // result
    prep_index(C, L);
    if (in_mem(C.d))
    {
        C.mem = true;
        C.n = extent(C.d, L, C.s, C.idx);
        C.g = vh::galloc(C.n, 0);
        for (uint64_t j = 0; j < C.n; j++)
            C.g.p[j] = run ? ~mix(P.seed ^ 0xC16C16, j) : mix(P.seed ^ 0xC16C16, j);
        res.pre.assign(C.g.p, C.g.p + C.n);
    }
    else
        for (int j = 0; j < 24; j++)
            x.C.raw[j] = gr.next();
    res.an = A.n; res.bn = B.n; res.cn = C.n;
    x.pa = A.mem ? (Goldilocks::Element *)A.g.p : nullptr;
    x.pb = B.mem ? (Goldilocks::Element *)B.g.p : nullptr;
    x.pc = C.mem ? (Goldilocks::Element *)C.g.p : nullptr;
    x.sa = A.s; x.sb = B.s; x.sc = C.s;
    x.ia = A.hasidx ? A.gi.p : nullptr;
    x.ib = B.hasidx ? B.gi.p : nullptr;
    x.ic = C.hasidx ? C.gi.p : nullptr;

    row.call(x);

    for (int k = 0; k < L; k++)
        for (int i = 0; i < 3; i++)
            res.r[k][i] = C.mem ? C.g.p[addr(C.d, k, i, C.s, C.idx)] : x.C.raw[i * L + k];
    if (C.mem)
        res.out.assign(C.g.p, C.g.p + C.n);
    res.inw = unchanged(A, L) && unchanged(B, L) && unchanged(C, L, false) && (!hasx || memcmp(gx.p, xsnap.data(), 24) == 0);
    res.slack = slack_ok(A) && slack_ok(B) && slack_ok(C) && (!hasx || vh::gslack_ok(gx));
    release(A);
    release(B);
    release(C);
    if (hasx)
        vh::gfree(gx);
}

static std::string triples(const uint64_t v[8][3], int L, int w)
{
    std::string s = "[";
    for (int k = 0; k < L; k++)
    {
        s += k ? ",[" : "[";
        for (int i = 0; i < w; i++)
        {
            if (i)
                s += ",";
            vh::Out::w64s(s, v[k][i]);
        }
        s += "]";
    }
    return s + "]";
}
static std::string ints(const std::vector<uint64_t> &v)
{
    std::string s = "[";
    for (size_t i = 0; i < v.size(); i++)
        s += (i ? "," : "") + std::to_string(v[i]);
    return s + "]";
}
static std::vector<uint64_t> firsts(const Desc &d, int L, uint64_t s, const std::vector<uint64_t> &idx)
{
    std::vector<uint64_t> v;
    if (in_mem(d))
        for (int k = 0; k < L; k++)
            v.push_back(addr(d, k, 0, s, idx));
    return v;
}

static void do_case(vh::Out &o, const Row &row, const Params &P)
{
    const int L = row.L;
    Res r1, r2;
    one_run(row, P, 0, r1);
    one_run(row, P, 1, r2);
    if (memcmp(r1.a, r2.a, sizeof(r1.a)) || memcmp(r1.b, r2.b, sizeof(r1.b)) || memcmp(r1.x, r2.x, sizeof(r1.x)) || r1.pre.size() != r2.pre.size())
    {
        // the two runs must see identical operands: anything else is a defect of this harness, not of the library
        o.begin("harness");
        o.num("ci", P.ci);
        o.str("id", P.id);
        o.str("what", "operands of the two runs differ");
        o.end();
        return;
    }
    std::vector<uint64_t> chg;
    bool same = memcmp(r1.r, r2.r, sizeof(r1.r)) == 0;
    uint64_t nchg = 0;
    for (size_t j = 0; j < r1.out.size(); j++)
        if (r1.out[j] != r1.pre[j] || r2.out[j] != r2.pre[j])
        {
            nchg++;
            if (chg.size() < 64)
                chg.push_back(j);
            if (r1.out[j] != r2.out[j])
                same = false;
        }
    o.begin("l16");
    o.num("ci", P.ci);
    o.str("id", P.id);
    o.num("lanes", L);
    o.num("sa", P.sa);
    o.num("sb", P.sb);
    o.num("sc", P.sc);
    o.raw("ia", ints(row.a.kind == K_INDEX ? P.ia : std::vector<uint64_t>()));
    o.raw("ib", ints(row.b.kind == K_INDEX ? P.ib : std::vector<uint64_t>()));
    o.raw("ic", ints(row.c.kind == K_INDEX ? P.ic : std::vector<uint64_t>()));
    o.num("an", r1.an);
    o.num("bn", r1.bn);
    o.num("cn", r1.cn);
    o.raw("ap", ints(firsts(row.a, L, P.sa, P.ia)));
    o.raw("bp", ints(firsts(row.b, L, P.sb, P.ib)));
    o.raw("cp", ints(firsts(row.c, L, P.sc, P.ic)));
    o.raw("a", triples(r1.a, L, row.a.w));
    o.raw("b", triples(r1.b, L, row.b.w));
    o.raw("x", row.aux == AUX_NONE ? std::string("[]") : triples(r1.x, L, 3));
    o.raw("r", triples(r1.r, L, 3));
    o.raw("chg", ints(chg));
    o.num("nchg", nchg);
    o.boolean("same", same);
    o.boolean("inw", r1.inw && r2.inw);
    o.boolean("slack", r1.slack && r2.slack);
    o.end();
}

static std::vector<uint64_t> parse_list(const std::string &s)
{
    std::vector<uint64_t> v;
    if (s == "-")
        return v;
    std::stringstream ss(s);
    std::string part;
    while (std::getline(ss, part, ','))
        v.push_back(vh::parse_u64(part));
    return v;
}

int main(int argc, char **argv)
{
    std::vector<Row> table;
    l16_register_all(table);
    if (argc == 2 && std::string(argv[1]) == "--list")
    {
        for (auto &r : table)
            printf("%s\n", r.id);
        return 0;
    }
    if (argc < 3)
    {
        fprintf(stderr, "usage: drv16 cases.txt out.ndjson | --list\n");
        return 2;
    }
    std::map<std::string, const Row *> byid;
    for (auto &r : table)
        byid[r.id] = &r;
    auto cases = vh::read_cases(argv[1]);
    {
        vh::Out o(argv[2]); // truncate
    }
    std::vector<Params> ps;
    for (auto &t : cases)
    {
        if (t.size() < 10)
        {
            fprintf(stderr, "bad case line\n");
            return 2;
        }
        Params P;
        P.ci = atoll(t[0].c_str());
        P.id = t[1];
        P.seed = vh::parse_u64(t[2]);
        P.mode = atoi(t[3].c_str());
        P.sa = vh::parse_u64(t[4]);
        P.sb = vh::parse_u64(t[5]);
        P.sc = vh::parse_u64(t[6]);
        P.ia = parse_list(t[7]);
        P.ib = parse_list(t[8]);
        P.ic = parse_list(t[9]);
        auto it = byid.find(P.id);
        if (it == byid.end())
        {
            fprintf(stderr, "row %s is not in this build\n", P.id.c_str());
            return 2;
        }
        const Row &r = *it->second;
        if ((r.a.kind == K_INDEX && (int)P.ia.size() != r.L) || (r.b.kind == K_INDEX && (int)P.ib.size() != r.L) || (r.c.kind == K_INDEX && (int)P.ic.size() != r.L))
        {
            fprintf(stderr, "index list of wrong length for %s\n", P.id.c_str());
            return 2;
        }
        ps.push_back(P);
    }
    size_t i = 0;
    while (i < ps.size())
    {
        int fd[2];
        if (pipe(fd) != 0)
            return 3;
        fflush(nullptr);
        pid_t pid = fork();
        if (pid == 0)
        {
            close(fd[0]);
            int dn = open("/dev/null", O_WRONLY);
            if (dn >= 0)
                dup2(dn, 2);
            vh::Out o2("/dev/null");
            fclose(o2.f);
            o2.f = fopen(argv[2], "a");
            for (size_t k = i; k < ps.size(); k++)
            {
                alarm(60);
                do_case(o2, *byid[ps[k].id], ps[k]);
                fflush(o2.f);
                char b = 1;
                if (write(fd[1], &b, 1) != 1)
                    _exit(9);
            }
            fflush(o2.f);
            _exit(0);
        }
        close(fd[1]);
        size_t done = 0;
        char b;
        while (read(fd[0], &b, 1) == 1)
            done++;
        close(fd[0]);
        int st = 0;
        waitpid(pid, &st, 0);
        i += done;
        if (i < ps.size())
        {
            vh::Out o("/dev/null");
            fclose(o.f);
            o.f = fopen(argv[2], "a");
            o.begin("crash");
            o.num("ci", ps[i].ci);
            o.str("id", ps[i].id);
            o.str("kind", WIFSIGNALED(st) ? "signal" : "exit");
            o.num("code", WIFSIGNALED(st) ? WTERMSIG(st) : WEXITSTATUS(st));
            o.end();
            i++;
        }
    }
    return 0;
}
