// Sequentialising stand-in for the OpenMP runtime (linked INSTEAD of libgomp; the library objects are still compiled
// with -fopenmp, so every `#pragma omp parallel for` becomes a call to GOMP_parallel with the outlined member function).
// A parallel region of T members is executed member by member in an order chosen by the case; around each member every
// registered buffer (vh::galloc arenas, blocks malloc'ed by the library during the call), the caller's stack above the
// shim's frame and the writable static data are snapshotted, which yields the set of cells each member WROTE without
// duplicating any index expression of the library.
#include <cstdint>
#include <cstdlib>
#include <cstring>
#include <vector>
#include <string>
#include <algorithm>

#include "ompshim.hpp"
extern "C" char __data_start, _end;

namespace shim
{
    // configuration set by the driver
    int icv_threads = 1;         // omp_set_num_threads / default
    int max_threads = 16;        // omp_get_max_threads before any set
    int deliver_cap = 0;         // 0: deliver what is requested; >0: never deliver more than this
    std::vector<int> order_spec; // permutation prototype: member at position i is order_spec[i] % T (deduplicated)
    bool recording = false;
    std::vector<RegionLog> log;
    std::vector<Region> regions; // registered buffers (arenas + library mallocs)
    int cur_tid = 0, cur_team = 1;
    bool in_parallel = false;
    bool busy = false;
    uint8_t *stack_top = nullptr; // set by main(): snapshots of the callers' stack never go beyond it // snapshots in progress: do not register our own allocations

    void reg(const std::string &name, const void *p, size_t n)
    {
        if (busy)
            return;
        busy = true;
        regions.push_back(Region{name, (const uint8_t *)p, n});
        busy = false;
    }
    void unreg(const void *p)
    {
        if (busy)
            return;
        for (size_t i = 0; i < regions.size(); i++)
            if (regions[i].p == p)
            {
                regions.erase(regions.begin() + i);
                return;
            }
    }
    static std::vector<int> member_order(int T)
    {
        std::vector<int> o;
        std::vector<bool> used(T, false);
        for (int v : order_spec)
        {
            int m = ((v % T) + T) % T;
            if (!used[m])
            {
                used[m] = true;
                o.push_back(m);
            }
        }
        for (int m = 0; m < T; m++)
            if (!used[m])
                o.push_back(m);
        return o;
    }
    // cells (8-byte words) whose content changed, as maximal runs of adjacent changed words - never merged across an
    // unchanged word (two members writing interleaved rows must not look like overlapping intervals)
    static void diff(const std::vector<uint8_t> &before, const uint8_t *now, size_t n, int buf, std::vector<Interval> &out, size_t gran)
    {
        size_t words = n / gran;
        size_t w = 0;
        while (w < words)
        {
            if (memcmp(&before[w * gran], now + w * gran, gran) != 0)
            {
                size_t lo = w;
                while (w + 1 < words && memcmp(&before[(w + 1) * gran], now + (w + 1) * gran, gran) != 0)
                    w++;
                out.push_back(Interval{buf, lo, w});
            }
            w++;
        }
    }
}

extern "C"
{
    int omp_get_thread_num(void) { return shim::in_parallel ? shim::cur_tid : 0; }
    int omp_get_num_threads(void) { return shim::in_parallel ? shim::cur_team : 1; }
    int omp_get_max_threads(void) { return shim::icv_threads > 0 ? shim::icv_threads : shim::max_threads; }
    void omp_set_num_threads(int n)
    {
        if (n > 0)
            shim::icv_threads = n;
    }
    void omp_set_dynamic(int) {}
    int omp_in_parallel(void) { return shim::in_parallel; }

    void GOMP_parallel(void (*fn)(void *), void *data, unsigned num_threads, unsigned /*flags*/)
    {
        using namespace shim;
        if (in_parallel)
        { // nested region: team of one
            fn(data);
            return;
        }
        unsigned requested = num_threads ? num_threads : (unsigned)omp_get_max_threads();
        unsigned T = requested;
        if (deliver_cap > 0 && T > (unsigned)deliver_cap)
            T = deliver_cap;
        if (T < 1)
            T = 1;
        std::vector<int> order = member_order((int)T);
        RegionLog rl;
        rl.requested = requested;
        rl.delivered = T;
        // stack of the callers: from this frame upwards
        uint8_t *sp = (uint8_t *)__builtin_frame_address(0);
        size_t stack_n = 24 * 1024;
        if (stack_top && sp + 16 + stack_n > stack_top)
            stack_n = stack_top > sp + 16 ? (size_t)(stack_top - (sp + 16)) : 0;
        size_t static_n = (size_t)(&_end - &__data_start);
        in_parallel = true;
        cur_team = (int)T;
        for (int m : order)
        {
            cur_tid = m;
            std::vector<std::vector<uint8_t>> snaps;
            std::vector<uint8_t> snap_stack, snap_static;
            std::vector<Region> regs;
            if (recording)
            {
                busy = true;
                regs = regions;
                for (auto &r : regs)
                    snaps.emplace_back(r.p, r.p + r.n);
                snap_static.assign((uint8_t *)&__data_start, (uint8_t *)&__data_start + static_n);
                snap_stack.assign(sp + 16, sp + 16 + stack_n);
                busy = false;
            }
            fn(data);
            if (recording)
            {
                busy = true;
                MemberLog ml;
                ml.tid = m;
                if (rl.bufnames.empty())
                {
                    for (auto &r : regs)
                        rl.bufnames.push_back(r.name);
                    rl.bufnames.push_back("caller-stack");
                    rl.bufnames.push_back("static-data");
                }
                for (size_t i = 0; i < regs.size(); i++)
                    diff(snaps[i], regs[i].p, regs[i].n, (int)i, ml.writes, 8);
                diff(snap_stack, sp + 16, stack_n, (int)regs.size(), ml.writes, 8);
                // static data: ignore the shim's / harness's own bookkeeping by only looking at library-visible changes:
                // the harness does not touch globals while a member runs, so any change is the member's.
                {
                    std::vector<Interval> st;
                    diff(snap_static, (uint8_t *)&__data_start, static_n, (int)regs.size() + 1, st, 8);
                    // the shim's own cur_tid etc. are not modified during fn(); keep everything
                    for (auto &iv : st)
                        ml.writes.push_back(iv);
                }
                rl.members.push_back(std::move(ml));
                busy = false;
            }
        }
        in_parallel = false;
        cur_tid = 0;
        cur_team = 1;
        if (recording)
        {
            busy = true;
            log.push_back(std::move(rl));
            busy = false;
        }
    }

    // library-side malloc/free are routed here by -Wl,--wrap=malloc,--wrap=free so that blocks allocated during a
    // call are part of the snapshots
    void *__real_malloc(size_t);
    void __real_free(void *);
    void *__wrap_malloc(size_t n)
    {
        void *p = __real_malloc(n);
        if (p && shim::recording && !shim::busy)
            shim::reg("lib-malloc", p, n);
        return p;
    }
    void __wrap_free(void *p)
    {
        if (p && shim::recording && !shim::busy)
            shim::unreg(p);
        __real_free(p);
    }
}
