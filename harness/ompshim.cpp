// Sequentialising stand-in for the OpenMP runtime (linked INSTEAD of libgomp; the library objects are still compiled
// with -fopenmp, so every `#pragma omp parallel for` becomes a call to GOMP_parallel with the outlined member function).
// A parallel region of T members is executed member by member in an order chosen by the case; around each member every
// registered buffer (vh::galloc arenas, blocks malloc'ed by the library during the call), the caller's stack above the
// shim's frame and the writable static data are snapshotted, which yields the set of cells each member WROTE without
// duplicating any index expression of the library.
#include <cstdint>
#include <cstdlib>
#include <cstring>
#include <vector>
#include <string>
#include <algorithm>

#include "ompshim.hpp"
#include <ucontext.h>
extern "C" char __data_start, _end;

namespace shim
{
    // configuration set by the driver
    int icv_threads = 1;         // omp_set_num_threads / default
    int max_threads = 16;        // omp_get_max_threads before any set
    int deliver_cap = 0;         // 0: deliver what is requested; >0: never deliver more than this
    std::vector<int> order_spec; // permutation prototype: member at position i is order_spec[i] % T (deduplicated)
    bool recording = false;
    std::vector<RegionLog> log;
    std::vector<Region> regions; // registered buffers (arenas + library mallocs)
    int cur_tid = 0, cur_team = 1;
    bool in_parallel = false;
    bool busy = false;
    uint8_t *stack_top = nullptr; // set by main(): snapshots of the callers' stack never go beyond it // snapshots in progress: do not register our own allocations

    void reg(const std::string &name, const void *p, size_t n)
    {
        if (busy)
            return;
        busy = true;
        regions.push_back(Region{name, (const uint8_t *)p, n});
        busy = false;
    }
    void unreg(const void *p)
    {
        if (busy)
            return;
        for (size_t i = 0; i < regions.size(); i++)
            if (regions[i].p == p)
            {
                regions.erase(regions.begin() + i);
                return;
            }
    }
    static std::vector<int> member_order(int T)
    {
        std::vector<int> o;
        std::vector<bool> used(T, false);
        for (int v : order_spec)
        {
            int m = ((v % T) + T) % T;
            if (!used[m])
            {
                used[m] = true;
                o.push_back(m);
            }
        }
        for (int m = 0; m < T; m++)
            if (!used[m])
                o.push_back(m);
        return o;
    }
    // cells (8-byte words) whose content changed, as maximal runs of adjacent changed words - never merged across an
    // unchanged word (two members writing interleaved rows must not look like overlapping intervals)
    static void diff(const std::vector<uint8_t> &before, const uint8_t *now, size_t n, int buf, std::vector<Interval> &out, size_t gran)
    {
        size_t words = n / gran;
        size_t w = 0;
        while (w < words)
        {
            if (memcmp(&before[w * gran], now + w * gran, gran) != 0)
            {
                size_t lo = w;
                while (w + 1 < words && memcmp(&before[(w + 1) * gran], now + (w + 1) * gran, gran) != 0)
                    w++;
                out.push_back(Interval{buf, lo, w});
            }
            w++;
        }
    }
}

extern "C"
{
    int omp_get_thread_num(void) { return shim::in_parallel ? shim::cur_tid : 0; }
    int omp_get_num_threads(void) { return shim::in_parallel ? shim::cur_team : 1; }
    int omp_get_max_threads(void) { return shim::icv_threads > 0 ? shim::icv_threads : shim::max_threads; }
    void omp_set_num_threads(int n)
    {
        if (n > 0)
            shim::icv_threads = n;
    }
    void omp_set_dynamic(int) {}
    int omp_in_parallel(void) { return shim::in_parallel; }

    // ---- team members as coroutines: one runs at a time, in the order given by the case; a member runs until it
    // finishes or reaches a barrier; when every unfinished member waits at the barrier the next phase starts.
    // Each (phase, member) slice is bracketed by snapshots, so conflicts are judged between barriers.
    struct Member
    {
        ucontext_t ctx;
        std::vector<uint8_t> stack;
        bool started = false, done = false, at_barrier = false;
        int singles = 0; // number of `single` constructs encountered so far
    };
    // all scheduler state lives in one object so that the static-data snapshot can skip it
    struct Sched
    {
        ucontext_t sched_ctx;
        std::vector<Member> *team = nullptr;
        void (*team_fn)(void *) = nullptr;
        void *team_data = nullptr;
        int singles_won = 0;
        long dyn_next = 0, dyn_end = 0, dyn_incr = 1, dyn_chunk = 1; // one shared dynamic loop at a time
        bool dyn_inited = false;
    };
    static Sched G;
#define sched_ctx G.sched_ctx
#define team G.team
#define team_fn G.team_fn
#define team_data G.team_data
#define singles_won G.singles_won
#define dyn_next G.dyn_next
#define dyn_end G.dyn_end
#define dyn_incr G.dyn_incr
#define dyn_chunk G.dyn_chunk
#define dyn_inited G.dyn_inited

    static void member_entry()
    {
        team_fn(team_data);
        (*team)[shim::cur_tid].done = true;
        swapcontext(&(*team)[shim::cur_tid].ctx, &sched_ctx);
    }

    void GOMP_barrier(void)
    {
        if (!shim::in_parallel || !team)
            return;
        Member &m = (*team)[shim::cur_tid];
        m.at_barrier = true;
        swapcontext(&m.ctx, &sched_ctx);
    }
    bool GOMP_single_start(void)
    {
        if (!shim::in_parallel || !team)
            return true;
        Member &m = (*team)[shim::cur_tid];
        m.singles++;
        if (m.singles > singles_won)
        {
            singles_won = m.singles;
            return true;
        }
        return false;
    }
    void GOMP_critical_start(void) {}
    void GOMP_critical_end(void) {}
    void GOMP_atomic_start(void) {}
    void GOMP_atomic_end(void) {}
    void GOMP_critical_name_start(void **) {}
    void GOMP_critical_name_end(void **) {}
    // dynamic / guided loops: chunks are handed out on demand, i.e. to whichever member the order lets run first
    static bool dyn_take(long *istart, long *iend)
    {
        if ((dyn_incr > 0 && dyn_next >= dyn_end) || (dyn_incr < 0 && dyn_next <= dyn_end))
            return false;
        long s0 = dyn_next, e0 = s0 + dyn_chunk * dyn_incr;
        if ((dyn_incr > 0 && e0 > dyn_end) || (dyn_incr < 0 && e0 < dyn_end))
            e0 = dyn_end;
        dyn_next = e0;
        *istart = s0;
        *iend = e0;
        return true;
    }
    static bool dyn_start(long start, long end, long incr, long chunk, long *istart, long *iend)
    {
        if (!dyn_inited)
        {
            dyn_next = start;
            dyn_end = end;
            dyn_incr = incr ? incr : 1;
            dyn_chunk = chunk > 0 ? chunk : 1;
            dyn_inited = true;
        }
        return dyn_take(istart, iend);
    }
    bool GOMP_loop_dynamic_start(long s0, long e0, long inc, long ch, long *is, long *ie) { return dyn_start(s0, e0, inc, ch, is, ie); }
    bool GOMP_loop_nonmonotonic_dynamic_start(long s0, long e0, long inc, long ch, long *is, long *ie) { return dyn_start(s0, e0, inc, ch, is, ie); }
    bool GOMP_loop_guided_start(long s0, long e0, long inc, long ch, long *is, long *ie) { return dyn_start(s0, e0, inc, ch, is, ie); }
    bool GOMP_loop_nonmonotonic_guided_start(long s0, long e0, long inc, long ch, long *is, long *ie) { return dyn_start(s0, e0, inc, ch, is, ie); }
    bool GOMP_loop_dynamic_next(long *is, long *ie) { return dyn_take(is, ie); }
    bool GOMP_loop_nonmonotonic_dynamic_next(long *is, long *ie) { return dyn_take(is, ie); }
    bool GOMP_loop_guided_next(long *is, long *ie) { return dyn_take(is, ie); }
    bool GOMP_loop_nonmonotonic_guided_next(long *is, long *ie) { return dyn_take(is, ie); }
    bool GOMP_loop_ull_dynamic_start(bool, unsigned long long s0, unsigned long long e0, unsigned long long inc, unsigned long long ch, unsigned long long *is, unsigned long long *ie)
    {
        long a, b2;
        bool r = dyn_start((long)s0, (long)e0, (long)inc, (long)ch, &a, &b2);
        *is = (unsigned long long)a;
        *ie = (unsigned long long)b2;
        return r;
    }
    bool GOMP_loop_ull_nonmonotonic_dynamic_start(bool u, unsigned long long s0, unsigned long long e0, unsigned long long inc, unsigned long long ch, unsigned long long *is, unsigned long long *ie) { return GOMP_loop_ull_dynamic_start(u, s0, e0, inc, ch, is, ie); }
    bool GOMP_loop_ull_dynamic_next(unsigned long long *is, unsigned long long *ie)
    {
        long a, b2;
        bool r = dyn_take(&a, &b2);
        *is = (unsigned long long)a;
        *ie = (unsigned long long)b2;
        return r;
    }
    bool GOMP_loop_ull_nonmonotonic_dynamic_next(unsigned long long *is, unsigned long long *ie) { return GOMP_loop_ull_dynamic_next(is, ie); }
    void GOMP_loop_end(void) { GOMP_barrier(); }
    void GOMP_loop_end_nowait(void) {}
    int omp_get_num_procs(void) { return shim::max_threads; }
    int omp_get_thread_limit(void) { return 1 << 20; }
    int omp_get_level(void) { return shim::in_parallel ? 1 : 0; }
    void omp_set_nested(int) {}
    void omp_set_max_active_levels(int) {}
    int omp_get_dynamic(void) { return 0; }
    double omp_get_wtime(void) { return 0.0; }

    void GOMP_parallel(void (*fn)(void *), void *data, unsigned num_threads, unsigned /*flags*/)
    {
        using namespace shim;
        if (in_parallel)
        { // nested region: team of one, run inline on the encountering member
            fn(data);
            return;
        }
        unsigned requested = num_threads ? num_threads : (unsigned)omp_get_max_threads();
        unsigned T = requested;
        if (deliver_cap > 0 && T > (unsigned)deliver_cap)
            T = deliver_cap;
        if (T < 1)
            T = 1;
        std::vector<int> order = member_order((int)T);
        // stack of the callers: from this frame upwards
        uint8_t *sp = (uint8_t *)__builtin_frame_address(0);
        size_t stack_n = 24 * 1024;
        if (stack_top && sp + 16 + stack_n > stack_top)
            stack_n = stack_top > sp + 16 ? (size_t)(stack_top - (sp + 16)) : 0;
        size_t static_n = (size_t)(&_end - &__data_start);
        busy = true;
        std::vector<Member> members(T);
        for (auto &m : members)
            m.stack.resize(1 << 20);
        busy = false;
        team = &members;
        team_fn = fn;
        team_data = data;
        singles_won = 0;
        dyn_inited = false;
        in_parallel = true;
        cur_team = (int)T;
        bool progress = true;
        while (progress)
        {
            progress = false;
            RegionLog rl;
            rl.requested = requested;
            rl.delivered = T;
            for (auto &m : members)
                m.at_barrier = false;
            for (int mi : order)
            {
                Member &m = members[mi];
                if (m.done)
                    continue;
                progress = true;
                cur_tid = mi;
                std::vector<std::vector<uint8_t>> snaps;
                std::vector<uint8_t> snap_stack, snap_static;
                std::vector<Region> regs;
                if (recording)
                {
                    busy = true;
                    regs = regions;
                    for (auto &r : regs)
                        snaps.emplace_back(r.p, r.p + r.n);
                    snap_static.assign((uint8_t *)&__data_start, (uint8_t *)&__data_start + static_n);
                    snap_stack.assign(sp + 16, sp + 16 + stack_n);
                    busy = false;
                }
                if (!m.started)
                {
                    m.started = true;
                    getcontext(&m.ctx);
                    m.ctx.uc_stack.ss_sp = m.stack.data();
                    m.ctx.uc_stack.ss_size = m.stack.size();
                    m.ctx.uc_link = &sched_ctx;
                    makecontext(&m.ctx, (void (*)())member_entry, 0);
                }
                swapcontext(&sched_ctx, &m.ctx); // runs the member until it finishes or waits at a barrier
                if (recording)
                {
                    busy = true;
                    MemberLog ml;
                    ml.tid = mi;
                    if (rl.bufnames.empty())
                    {
                        for (auto &r : regs)
                            rl.bufnames.push_back(r.name);
                        rl.bufnames.push_back("caller-stack");
                        rl.bufnames.push_back("static-data");
                    }
                    for (size_t i = 0; i < regs.size(); i++)
                        diff(snaps[i], regs[i].p, regs[i].n, (int)i, ml.writes, 8);
                    diff(snap_stack, sp + 16, stack_n, (int)regs.size(), ml.writes, 8);
                    {
                        // the scheduler's own state changes across a context switch: not a member write
                        size_t goff = (size_t)((uint8_t *)&G - (uint8_t *)&__data_start);
                        if (goff + sizeof(G) <= static_n)
                            memcpy(&snap_static[goff], &G, sizeof(G));
                        diff(snap_static, (uint8_t *)&__data_start, static_n, (int)regs.size() + 1, ml.writes, 8);
                    }
                    rl.members.push_back(std::move(ml));
                    busy = false;
                }
            }
            if (recording && !rl.members.empty())
            {
                busy = true;
                rl.delivered = (unsigned)rl.members.size() > T ? T : rl.delivered;
                log.push_back(std::move(rl));
                busy = false;
            }
        }
        in_parallel = false;
        cur_tid = 0;
        cur_team = 1;
        team = nullptr;
    }

    // library-side malloc/free are routed here by -Wl,--wrap=malloc,--wrap=free so that blocks allocated during a
    // call are part of the snapshots
    void *__real_malloc(size_t);
    void __real_free(void *);
    void *__wrap_malloc(size_t n)
    {
        void *p = __real_malloc(n);
        if (p && shim::recording && !shim::busy)
            shim::reg("lib-malloc", p, n);
        return p;
    }
    void __wrap_free(void *p)
    {
        if (p && shim::recording && !shim::busy)
            shim::unreg(p);
        __real_free(p);
    }
    // the other allocation entry points a library routine may use for scratch space
    void *__real_calloc(size_t, size_t);
    void *__real_realloc(void *, size_t);
    void *__real_aligned_alloc(size_t, size_t);
    int __real_posix_memalign(void **, size_t, size_t);
    void *__real_memalign(size_t, size_t);
    void *__wrap_calloc(size_t a, size_t b)
    {
        void *p = __real_calloc(a, b);
        if (p && shim::recording && !shim::busy)
            shim::reg("lib-calloc", p, a * b);
        return p;
    }
    void *__wrap_realloc(void *q, size_t n)
    {
        if (q && shim::recording && !shim::busy)
            shim::unreg(q);
        void *p = __real_realloc(q, n);
        if (p && shim::recording && !shim::busy)
            shim::reg("lib-realloc", p, n);
        return p;
    }
    void *__wrap_aligned_alloc(size_t al, size_t n)
    {
        void *p = __real_aligned_alloc(al, n);
        if (p && shim::recording && !shim::busy)
            shim::reg("lib-aligned_alloc", p, n);
        return p;
    }
    int __wrap_posix_memalign(void **out, size_t al, size_t n)
    {
        int rc = __real_posix_memalign(out, al, n);
        if (rc == 0 && *out && shim::recording && !shim::busy)
            shim::reg("lib-posix_memalign", *out, n);
        return rc;
    }
    void *__wrap_memalign(size_t al, size_t n)
    {
        void *p = __real_memalign(al, n);
        if (p && shim::recording && !shim::busy)
            shim::reg("lib-memalign", p, n);
        return p;
    }
}

// operator new / new[] of the library's translation units end in malloc inside libstdc++, where the link-time wrap does not
// reach: replace them so that blocks obtained with new are part of the snapshots too
#include <new>
extern "C" void *__wrap_malloc(size_t);
extern "C" void __wrap_free(void *);
extern "C" void *__wrap_aligned_alloc(size_t, size_t);
void *operator new(size_t n) { void *p = __wrap_malloc(n ? n : 1); if (!p) throw std::bad_alloc(); return p; }
void *operator new[](size_t n) { void *p = __wrap_malloc(n ? n : 1); if (!p) throw std::bad_alloc(); return p; }
void *operator new(size_t n, std::align_val_t al) { void *p = __wrap_aligned_alloc((size_t)al, (n + (size_t)al - 1) / (size_t)al * (size_t)al); if (!p) throw std::bad_alloc(); return p; }
void *operator new[](size_t n, std::align_val_t al) { return operator new(n, al); }
void operator delete(void *p) noexcept { __wrap_free(p); }
void operator delete[](void *p) noexcept { __wrap_free(p); }
void operator delete(void *p, size_t) noexcept { __wrap_free(p); }
void operator delete[](void *p, size_t) noexcept { __wrap_free(p); }
void operator delete(void *p, std::align_val_t) noexcept { __wrap_free(p); }
void operator delete[](void *p, std::align_val_t) noexcept { __wrap_free(p); }
