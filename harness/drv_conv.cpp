// C15 conformance driver: conversions in and out of the field, round trips, predicates.
#include "goldilocks_base_field.hpp"
#include "vh.hpp"
typedef Goldilocks::Element E;

static int digit_of(char c)
{
    if (c >= '0' && c <= '9')
        return c - '0';
    if (c >= 'a' && c <= 'z')
        return c - 'a' + 10;
    if (c >= 'A' && c <= 'Z')
        return c - 'A' + 10;
    return -1;
}
static std::string digits_json(const std::string &s, bool &neg)
{
    std::string r = "[";
    size_t i = 0;
    neg = false;
    if (!s.empty() && s[0] == '-')
    {
        neg = true;
        i = 1;
    }
    bool first = true;
    for (; i < s.size(); i++)
    {
        if (!first)
            r += ",";
        first = false;
        r += std::to_string(digit_of(s[i]));
    }
    return r + "]";
}

int main(int argc, char **argv)
{
    if (argc < 3)
        return 2;
    auto cases = vh::read_cases(argv[1]);
    return vh::run_partitioned(argv[2], [&](vh::Out &o, int tid_, int nth_) -> int {
    long long ci = 0;
    for (size_t idx_ = 0; idx_ < cases.size(); idx_++)
    {
        auto &c = cases[idx_];
        ci = (long long)idx_ + 1;
        o.mute = (int)(idx_ % (size_t)nth_) != tid_; // every thread makes every call at (roughly) the same time; one of them records it
        const std::string &op = c[0];
        if (op == "in_u64" || op == "in_s64" || op == "in_s32")
        {
            uint64_t x = vh::parse_u64(c[1]);
            E r1, r2;
            const char *kind;
            if (op == "in_u64")
            {
                kind = "u64";
                Goldilocks::fromU64(r1, x);
                r2 = Goldilocks::fromU64(x);
            }
            else if (op == "in_s64")
            {
                kind = "s64";
                Goldilocks::fromS64(r1, (int64_t)x);
                r2 = Goldilocks::fromS64((int64_t)x);
            }
            else
            {
                kind = "s32";
                int32_t v = (int32_t)(uint32_t)x;
                x = (uint64_t)(int64_t)v; // sign-extended word logged
                Goldilocks::fromS32(r1, v);
                r2 = Goldilocks::fromS32(v);
            }
            for (int k = 0; k < 2; k++)
            {
                o.begin("in");
                o.num("ci", ci);
                o.str("kind", kind);
                o.str("form", k ? "val" : "ref");
                o.w64("x", x);
                o.w64("r", k ? r2.fe : r1.fe);
                o.end();
            }
        }
        else if (op == "out")
        {
            E a{vh::parse_u64(c[1])};
            uint64_t u = Goldilocks::toU64(a);
            uint64_t u2;
            Goldilocks::toU64(u2, a);
            int64_t s = Goldilocks::toS64(a);
            int64_t s2;
            Goldilocks::toS64(s2, a);
            int32_t v = 0x5A5A5A5A;
            // toS32 prints a diagnostic on refusal: silence stderr noise
            bool ok = Goldilocks::toS32(v, a);
            o.begin("out");
            o.num("ci", ci);
            o.w64("a", a.fe);
            o.w64("u", u);
            o.w64("s", (uint64_t)s);
            o.boolean("same", u == u2 && s == s2);
            o.boolean("ok", ok);
            o.w64("v", (uint64_t)(int64_t)v);
            std::string strs = "[";
            int radices[] = {10, 16, 2, 36, 7};
            for (int k = 0; k < 5; k++)
            {
                bool neg;
                std::string t = Goldilocks::toString(a, radices[k]);
                if (k)
                    strs += ",";
                strs += "{\"radix\":" + std::to_string(radices[k]) + ",\"d\":" + digits_json(t, neg) + "}";
            }
            strs += "]";
            o.raw("strs", strs);
            o.end();
        }
        else if (op == "str")
        {
            int radix = atoi(c[1].c_str());
            const std::string &s = c[2];
            bool neg;
            std::string dj = digits_json(s, neg);
            E r1, r2, r3;
            Goldilocks::fromString(r1, s, radix);
            r2 = Goldilocks::fromString(s, radix);
            mpz_class z(s, radix);
            Goldilocks::fromScalar(r3, z);
            E r4 = Goldilocks::fromScalar(z);
            const char *fn[4] = {"fromString", "fromStringVal", "fromScalar", "fromScalarVal"};
            uint64_t rs[4] = {r1.fe, r2.fe, r3.fe, r4.fe};
            for (int k = 0; k < 4; k++)
            {
                o.begin("str");
                o.num("ci", ci);
                o.str("fn", fn[k]);
                o.num("radix", radix);
                o.boolean("neg", neg);
                o.raw("d", dj);
                o.w64("r", rs[k]);
                o.end();
            }
        }
        else if (op == "rt_u64" || op == "rt_s64" || op == "rt_s32")
        {
            uint64_t x = vh::parse_u64(c[1]);
            o.begin("rt");
            o.num("ci", ci);
            if (op == "rt_u64")
            {
                o.str("kind", "u64");
                o.w64("x", x);
                o.boolean("ok", true);
                o.w64("r", Goldilocks::toU64(Goldilocks::fromU64(x)));
            }
            else if (op == "rt_s64")
            {
                o.str("kind", "s64");
                o.w64("x", x);
                o.boolean("ok", true);
                o.w64("r", (uint64_t)Goldilocks::toS64(Goldilocks::fromS64((int64_t)x)));
            }
            else
            {
                int32_t v = (int32_t)(uint32_t)x, w = 0x5A5A5A5A;
                bool ok = Goldilocks::toS32(w, Goldilocks::fromS32(v));
                o.str("kind", "s32");
                o.w64("x", (uint64_t)(int64_t)v);
                o.boolean("ok", ok);
                o.w64("r", (uint64_t)(int64_t)w);
            }
            o.end();
        }
        else if (op == "pred")
        {
            E ea{vh::parse_u64(c[1])}, eb{vh::parse_u64(c[2])};
            o.begin("pred");
            o.num("ci", ci);
            o.w64("a", ea.fe);
            o.w64("b", eb.fe);
            o.boolean("eq", Goldilocks::equal(ea, eb));
            o.boolean("opeq", ea == eb);
            o.boolean("z", Goldilocks::isZero(ea));
            o.boolean("o", Goldilocks::isOne(ea));
            o.boolean("n", Goldilocks::isNegone(ea));
            o.end();
        }
        else
        {
            fprintf(stderr, "unknown op %s\n", op.c_str());
            return 2;
        }
    }
    return 0;
    });
}
