// C01 conformance driver: executes scalar field operations of the library built from /repo on a case file and
// records one ndjson event per call (at the call's return).  Case line:  <op> <a> <b> <allforms:0|1>
#include "goldilocks_base_field.hpp"
#include "vh.hpp"

typedef Goldilocks::Element E;
static thread_local vh::Out *out;
static thread_local long long cur_case = 0;

static void ev(const char *op, const char *form, const char *alias, uint64_t a, uint64_t b, uint64_t r)
{
    out->begin("sc");
    out->num("ci", cur_case);
    out->str("op", op);
    out->str("form", form);
    out->str("alias", alias);
    out->w64("a", a);
    out->w64("b", b);
    out->w64("r", r);
    out->end();
}

// noinline so that each aliasing pattern is compiled as a genuine aliasing call site
#define BIN3(NAME, FN)                                                                                          \
    __attribute__((noinline)) static void NAME##_none(E &r, const E &a, const E &b) { Goldilocks::FN(r, a, b); } \
    __attribute__((noinline)) static void NAME##_oa(E &x, const E &b) { Goldilocks::FN(x, x, b); }              \
    __attribute__((noinline)) static void NAME##_ob(const E &a, E &x) { Goldilocks::FN(x, a, x); }              \
    __attribute__((noinline)) static void NAME##_ab(E &r, const E &x) { Goldilocks::FN(r, x, x); }              \
    __attribute__((noinline)) static void NAME##_all(E &x) { Goldilocks::FN(x, x, x); }
BIN3(add, add)
BIN3(sub, sub)
BIN3(mul, mul)

template <typename F3, typename FOA, typename FOB, typename FAB, typename FALL, typename FV, typename FO>
static void bin(const char *op, uint64_t a, uint64_t b, bool all, F3 f3, FOA foa, FOB fob, FAB fab, FALL fall, FV fv, FO fo)
{
    E ea{a}, eb{b}, r{0xDEADBEEFDEADBEEFULL};
    f3(r, ea, eb);
    ev(op, "ref3", "none", a, b, r.fe);
    if (!all)
        return;
    {
        E x{a};
        foa(x, eb);
        ev(op, "ref3", "out=a", a, b, x.fe);
    }
    {
        E x{b};
        fob(ea, x);
        ev(op, "ref3", "out=b", a, b, x.fe);
    }
    {
        E rr{1};
        fab(rr, ea);
        ev(op, "ref3", "a=b", a, a, rr.fe);
    }
    {
        E x{a};
        fall(x);
        ev(op, "ref3", "all", a, a, x.fe);
    }
    {
        E rr = fv(ea, eb);
        ev(op, "val", "none", a, b, rr.fe);
    }
    {
        E rr = fo(ea, eb);
        ev(op, "oper", "none", a, b, rr.fe);
    }
}

int main(int argc, char **argv)
{
    if (argc < 3)
    {
        fprintf(stderr, "usage: drv_scalar cases out.ndjson\n");
        return 2;
    }
    auto cases = vh::read_cases(argv[1]);
    return vh::run_partitioned(argv[2], [&](vh::Out &o, int tid_, int nth_) -> int {
    out = &o;
    for (size_t idx_ = 0; idx_ < cases.size(); idx_++)
    {
        auto &c = cases[idx_];
        cur_case = (long long)idx_ + 1;
        o.mute = (int)(idx_ % (size_t)nth_) != tid_; // every thread makes every call at (roughly) the same time; one of them records it
        const std::string &op = c[0];
        uint64_t a = vh::parse_u64(c[1]), b = vh::parse_u64(c[2]);
        bool all = c.size() > 3 && c[3] == "1";
        if (op == "add")
            bin("add", a, b, all, add_none, add_oa, add_ob, add_ab, add_all, [](const E &x, const E &y) { return Goldilocks::add(x, y); }, [](const E &x, const E &y) { return x + y; });
        else if (op == "sub")
            bin("sub", a, b, all, sub_none, sub_oa, sub_ob, sub_ab, sub_all, [](const E &x, const E &y) { return Goldilocks::sub(x, y); }, [](const E &x, const E &y) { return x - y; });
        else if (op == "mul")
            bin("mul", a, b, all, mul_none, mul_oa, mul_ob, mul_ab, mul_all, [](const E &x, const E &y) { return Goldilocks::mul(x, y); }, [](const E &x, const E &y) { return x * y; });
        else if (op == "square")
        {
            E ea{a}, r{7};
            Goldilocks::square(r, ea);
            ev("square", "ref2", "none", a, 0, r.fe);
            if (all)
            {
                E x{a};
                Goldilocks::square(x, x);
                ev("square", "ref2", "out=a", a, 0, x.fe);
                ev("square", "val", "none", a, 0, Goldilocks::square(ea).fe);
            }
        }
        else if (op == "neg")
        {
            E ea{a}, r{7};
            Goldilocks::neg(r, ea);
            ev("neg", "ref2", "none", a, 0, r.fe);
            if (all)
            {
                E x{a};
                Goldilocks::neg(x, x);
                ev("neg", "ref2", "out=a", a, 0, x.fe);
                ev("neg", "val", "none", a, 0, Goldilocks::neg(ea).fe);
                ev("neg", "oper", "none", a, 0, (-ea).fe);
            }
        }
        else if (op == "inc")
        {
            E ea{a};
            ev("inc", "val", "none", a, 0, Goldilocks::inc(ea).fe);
        }
        else if (op == "dec")
        {
            E ea{a};
            ev("dec", "val", "none", a, 0, Goldilocks::dec(ea).fe);
        }
        else if (op == "mulScalar")
        {
            E ea{a}, r{7};
            uint64_t s = b;
            Goldilocks::mulScalar(r, ea, s);
            ev("mulScalar", "ref3", "none", a, b, r.fe);
            if (all)
            {
                E x{a};
                Goldilocks::mulScalar(x, x, s);
                ev("mulScalar", "ref3", "out=a", a, b, x.fe);
                ev("mulScalar", "val", "none", a, b, Goldilocks::mulScalar(ea, s).fe);
            }
        }
        else if (op == "equal")
        {
            E ea{a}, eb{b};
            out->begin("pred");
            out->num("ci", cur_case);
            out->w64("a", a);
            out->w64("b", b);
            out->boolean("eq", Goldilocks::equal(ea, eb));
            out->boolean("opeq", ea == eb);
            out->boolean("z", Goldilocks::isZero(ea));
            out->boolean("o", Goldilocks::isOne(ea));
            out->boolean("n", Goldilocks::isNegone(ea));
            out->end();
        }
        else
        {
            fprintf(stderr, "unknown op %s\n", op.c_str());
            return 2;
        }
    }
    return 0;
    });
}
