// C06 / C07 / C08 conformance driver: Poseidon permutation variants, linear_hash sponge, Merkle tree builders.
// The permutation tracer hook (GOLDILOCKS_VERIF) records every (input state, output state) pair.
// case lines:
//   perm <12 words>                       all permutation entry points on one state (and, in AVX512 builds, on the pair (A, A') )
//   lh <len> <seed>                       linear_hash_seq / linear_hash / linear_hash_avx512 on a seeded input of that length
//   mt <rows> <cols> <dim> <batch> <nthreads> <seed>   every Merkle builder on a seeded matrix (batch = 0: unbatched only)
//   consts                                 dump the constant tables the library was compiled with
#include "poseidon_goldilocks.hpp"
#include "merklehash_goldilocks.hpp"
#if __has_include("goldilocks_verif.hpp")
#include "goldilocks_verif.hpp"
#endif
#ifndef GOLDILOCKS_VERIF_HPP
typedef void (*goldilocks_verif_tracer_t)(int kind, const uint64_t *in, const uint64_t *out, uint64_t n);
#endif
// the hook is optional instrumentation of the library: if the tree under test does not define the tracer variable, this weak
// definition keeps the driver linking and every event is produced without hook records (`hookless`)
__attribute__((weak)) goldilocks_verif_tracer_t goldilocks_verif_tracer = nullptr;
#include "vh.hpp"
#include <mutex>
#include <fcntl.h>
typedef Goldilocks::Element E;

struct PermRec
{
    int kind;
    std::vector<uint64_t> in, out;
};
static std::vector<PermRec> perms;
static std::mutex perm_mu;
static void tracer(int kind, const uint64_t *in, const uint64_t *out, uint64_t n)
{
    std::lock_guard<std::mutex> g(perm_mu);
    PermRec r;
    r.kind = kind;
    r.in.assign(in, in + n);
    r.out.assign(out, out + n);
    perms.push_back(std::move(r));
}
static std::string perms_json()
{
    std::string s = "[";
    for (size_t i = 0; i < perms.size(); i++)
    {
        if (i)
            s += ",";
        s += "{\"k\":" + std::to_string(perms[i].kind) + ",\"in\":[";
        for (size_t j = 0; j < perms[i].in.size(); j++)
        {
            if (j)
                s += ",";
            vh::Out::w64s(s, perms[i].in[j]);
        }
        s += "],\"out\":[";
        for (size_t j = 0; j < perms[i].out.size(); j++)
        {
            if (j)
                s += ",";
            vh::Out::w64s(s, perms[i].out[j]);
        }
        s += "]}";
    }
    return s + "]";
}

static void do_perm(vh::Out &o, long long ci, const std::vector<std::string> &t)
{
    uint64_t a[12], b[12];
    for (int i = 0; i < 12; i++)
    {
        a[i] = vh::parse_u64(t[1 + i]);
        b[i] = t.size() >= 25 ? vh::parse_u64(t[13 + i]) : a[11 - i] ^ 0x5555;
    }
    E in[12], s1[12], s2[12], h1[4], h2[4];
    memcpy(in, a, 96);
    PoseidonGoldilocks::hash_full_result_seq(s1, in);
    PoseidonGoldilocks::hash_full_result(s2, in);
    PoseidonGoldilocks::hash_seq(h1, (const E(&)[12])in);
    PoseidonGoldilocks::hash(h2, (const E(&)[12])in);
    // in place (state == input), as linear_hash uses it
    E ip1[12], ip2[12];
    memcpy(ip1, a, 96);
    memcpy(ip2, a, 96);
    PoseidonGoldilocks::hash_full_result_seq(ip1, ip1);
    PoseidonGoldilocks::hash_full_result(ip2, ip2);
    o.begin("perm");
    o.num("ci", ci);
    o.boolean("full", t[0] == "permfull");
    o.w64arr("in", a, 12);
    o.w64arr("seq", (uint64_t *)s1, 12);
    o.w64arr("avx", (uint64_t *)s2, 12);
    o.w64arr("seq_ip", (uint64_t *)ip1, 12);
    o.w64arr("avx_ip", (uint64_t *)ip2, 12);
    o.w64arr("hseq", (uint64_t *)h1, 4);
    o.w64arr("havx", (uint64_t *)h2, 4);
#ifdef __AVX512__
    {
        // two interleaved states: slot 0 = a, slot 1 = b
        E in2[24], out2[24], h3[8];
        for (int i = 0; i < 12; i++)
        {
            in2[8 * (i / 4) + (i % 4)].fe = a[i];
            in2[8 * (i / 4) + 4 + (i % 4)].fe = b[i];
        }
        PoseidonGoldilocks::hash_full_result_avx512(out2, in2);
        PoseidonGoldilocks::hash_avx512(h3, (const E(&)[24])in2);
        E sb[12], inb[12];
        memcpy(inb, b, 96);
        PoseidonGoldilocks::hash_full_result_seq(sb, inb);
        o.w64arr("inb", b, 12);
        o.w64arr("seqb", (uint64_t *)sb, 12);
        o.w64arr("in512", (uint64_t *)in2, 24);
        o.w64arr("out512", (uint64_t *)out2, 24);
        o.w64arr("h512", (uint64_t *)h3, 8);
    }
#endif
    o.end();
}

// iterate the permutation: every step is a full `perm` event on the current state, and the next state is the result of the
// IN-PLACE AVX2 call of this step (so an entry point that remembers anything about the previous call is exercised)
static void do_permchain(vh::Out &o, long long ci, const std::vector<std::string> &t)
{
    int k = atoi(t[1].c_str());
    std::vector<std::string> cur(t.begin() + 2, t.begin() + 14);
    for (int step = 0; step < k; step++)
    {
        std::vector<std::string> c;
        c.push_back(step % 2 ? "perm" : "permfull");
        for (auto &w : cur)
            c.push_back(w);
        do_perm(o, ci, c);
        // next state: in-place AVX2 (odd steps: in-place scalar) permutation of the current one
        E st[12];
        for (int i = 0; i < 12; i++)
            st[i].fe = vh::parse_u64(cur[i]);
        if (step % 2)
            PoseidonGoldilocks::hash_full_result_seq(st, st);
        else
            PoseidonGoldilocks::hash_full_result(st, st);
        for (int i = 0; i < 12; i++)
        {
            char buf[32];
            snprintf(buf, sizeof buf, "0x%llx", (unsigned long long)st[i].fe);
            cur[i] = buf;
        }
    }
}

// iterate ONE entry point on its own result, with no other call of that entry point in between (an entry point that
// remembers anything about its previous call - last block, last result, a pointer - is exercised by exactly this history):
// variant 0 = scalar in place, 1 = AVX2 in place, 2 = AVX2 ping-pong between two buffers, 3 = AVX512 in place (two slots
// carrying the same state).  The reference chain is the scalar out-of-place call, computed before (order 0) or after (1).
static void do_permiter(vh::Out &o, long long ci, const std::vector<std::string> &t)
{
    int k = atoi(t[1].c_str()), variant = atoi(t[2].c_str()), order = atoi(t[3].c_str());
    if (k < 1 || k > 16)
        k = 4;
    uint64_t a[12];
    for (int i = 0; i < 12; i++)
        a[i] = vh::parse_u64(t[4 + i]);
    std::vector<uint64_t> outs(12 * k), ref(12 * k);
    auto refchain = [&]() {
        E cur[12], nxt[12];
        memcpy(cur, a, 96);
        for (int s = 0; s < k; s++)
        {
            PoseidonGoldilocks::hash_full_result_seq(nxt, cur);
            memcpy(&ref[12 * s], nxt, 96);
            memcpy(cur, nxt, 96);
        }
    };
    if (order == 0)
        refchain();
    {
        E st[12], other[12];
        memcpy(st, a, 96);
#ifdef __AVX512__
        E st2[24];
        for (int i = 0; i < 12; i++)
            st2[8 * (i / 4) + (i % 4)].fe = st2[8 * (i / 4) + 4 + (i % 4)].fe = a[i];
#endif
        for (int s = 0; s < k; s++)
        {
            if (variant == 0)
                PoseidonGoldilocks::hash_full_result_seq(st, st);
            else if (variant == 1)
                PoseidonGoldilocks::hash_full_result(st, st);
            else if (variant == 2)
            {
                PoseidonGoldilocks::hash_full_result(other, st);
                memcpy(st, other, 96);
            }
#ifdef __AVX512__
            else if (variant == 3)
            {
                PoseidonGoldilocks::hash_full_result_avx512(st2, st2);
                for (int i = 0; i < 12; i++)
                    st[i].fe = (s % 2) ? st2[8 * (i / 4) + 4 + (i % 4)].fe : st2[8 * (i / 4) + (i % 4)].fe;
            }
#endif
            else
                PoseidonGoldilocks::hash_full_result_seq(st, st);
            memcpy(&outs[12 * s], st, 96);
        }
    }
    if (order != 0)
        refchain();
    o.begin("iter");
    o.num("ci", ci);
    o.num("k", k);
    o.num("variant", variant);
    o.num("order", order);
    o.w64arr("in", a, 12);
    o.w64arr("outs", outs.data(), outs.size());
    o.w64arr("ref", ref.data(), ref.size());
    o.end();
}

// concurrent callers: n plain threads (all with OpenMP thread number 0) permute their own states at the same time through
// one entry point; afterwards every result is compared with the scalar out-of-place call made single-threaded.  A sample
// of the calls and every disagreeing call is logged as an `iter` event of length one (judged by TLC like any other).
static void do_permconc(vh::Out &o, long long ci, const std::vector<std::string> &t)
{
    int n = atoi(t[1].c_str()), reps = atoi(t[2].c_str()), variant = atoi(t[3].c_str());
    uint64_t seed = vh::parse_u64(t[4]);
    if (n < 1 || n > 32)
        n = 8;
    std::vector<uint64_t> ins((size_t)n * reps * 12), outs((size_t)n * reps * 12);
    {
        vh::Rng r(seed);
        for (auto &x : ins)
            x = r.word();
    }
    vh::concurrently(n, [&](int tid) {
        for (int k = 0; k < reps; k++)
        {
            E st[12], res[12];
            size_t off = ((size_t)tid * reps + k) * 12;
            memcpy(st, &ins[off], 96);
            if (variant == 0)
                PoseidonGoldilocks::hash_full_result_seq(res, st);
            else if (variant == 1)
                PoseidonGoldilocks::hash_full_result(res, st);
            else
            {
                PoseidonGoldilocks::hash_full_result(st, st);
                memcpy(res, st, 96);
            }
            memcpy(&outs[off], res, 96);
        }
    });
    int logged = 0, bad = 0;
    for (size_t c = 0; c < (size_t)n * reps; c++)
    {
        E st[12], ref[12];
        memcpy(st, &ins[c * 12], 96);
        PoseidonGoldilocks::hash_full_result_seq(ref, st);
        bool differs = memcmp(ref, &outs[c * 12], 96) != 0;
        bool sample = c % (((size_t)n * reps) / 3 + 1) == 0;
        if ((differs && bad < 3) || sample)
        {
            o.begin("iter");
            o.num("ci", ci);
            o.num("k", 1);
            o.num("variant", 10 + variant);
            o.num("order", 1);
            o.num("concurrent", n);
            o.w64arr("in", &ins[c * 12], 12);
            o.w64arr("outs", &outs[c * 12], 12);
            o.w64arr("ref", (uint64_t *)ref, 12);
            o.end();
            logged++;
        }
        bad += differs;
    }
}


// ---- fallback when the tree under test carries no tracer hook in an entry point (the hook is optional instrumentation):
// the permutation pairs the definition needs are computed here with the library's scalar permutation (judged by C06) and
// handed to the trace specification in place of observed ones; the event says so (`hookless`).
static void oracle_pair(const uint64_t *in12, uint64_t *out12)
{
    E a[12], r[12];
    memcpy(a, in12, 96);
    goldilocks_verif_tracer_t saved = goldilocks_verif_tracer;
    goldilocks_verif_tracer = nullptr;
    PoseidonGoldilocks::hash_full_result_seq(r, a);
    goldilocks_verif_tracer = saved;
    memcpy(out12, r, 96);
    PermRec rec;
    rec.kind = 99;
    rec.in.assign(in12, in12 + 12);
    rec.out.assign(out12, out12 + 12);
    perms.push_back(std::move(rec));
}
// sponge of xs[0..n) through oracle pairs; digest in d[4]
static void oracle_sponge(const uint64_t *xs, uint64_t n, uint64_t *d)
{
    if (n <= 4)
    {
        for (int i = 0; i < 4; i++)
            d[i] = (uint64_t)i < n ? xs[i] : 0;
        return;
    }
    uint64_t cap[4] = {0, 0, 0, 0}, st[12], out[12];
    for (uint64_t k = 0; 8 * k < n; k++)
    {
        for (int i = 0; i < 8; i++)
            st[i] = 8 * k + i < n ? xs[8 * k + i] : 0;
        memcpy(st + 8, cap, 32);
        oracle_pair(st, out);
        memcpy(cap, out, 32);
    }
    memcpy(d, cap, 32);
}

static void fill(std::vector<uint64_t> &v, uint64_t seed)
{
    vh::Rng r(seed);
    for (auto &x : v)
        x = r.word();
}

// structured contents: 0 seeded words (any representation); 1 all zero; 2 one constant word; 3 period 8 (every block the
// same); 4 period 4; 5 period 12; 6 two blocks A,B laid out A,B,A,A,...; 7 all 2^64-1
static void fill_pat(std::vector<uint64_t> &v, uint64_t seed, int pat)
{
    fill(v, seed);
    if (pat == 0)
        return;
    std::vector<uint64_t> base(v.begin(), v.begin() + std::min<size_t>(v.size(), 24));
    base.resize(24, seed * 0x9E3779B97F4A7C15ULL + 12345);
    for (size_t i = 0; i < v.size(); i++)
    {
        switch (pat)
        {
        case 1: v[i] = 0; break;
        case 2: v[i] = base[0]; break;
        case 3: v[i] = base[i % 8]; break;
        case 4: v[i] = base[i % 4]; break;
        case 5: v[i] = base[i % 12]; break;
        case 6: v[i] = ((i / 8) % 4 == 1) ? base[8 + i % 8] : base[i % 8]; break;
        default: v[i] = 0xFFFFFFFFFFFFFFFFULL; break;
        }
    }
}

// alias: 0 the digest goes to a buffer of its own; 1 to the start of the input array; 2 into the input array at offset
// 5 (or len-4 when shorter); 3 at the end of the input array (offset len-4).  The call is judged on the input as it was
// when the call started.
static void do_lh(vh::Out &o, long long ci, uint64_t len, uint64_t seed, int pat = 0, int alias = 0)
{
    const char *names[3] = {"seq", "avx", "avx512"};
    for (int variant = 0; variant < 3; variant++)
    {
#ifndef __AVX512__
        if (variant == 2)
            continue;
#endif
        uint64_t n = variant == 2 ? 2 * len : len;
        uint64_t outw = variant == 2 ? 8 : 4;
        int al = (alias && n >= outw) ? alias : 0;
        vh::GBuf in = vh::galloc(n, 0);
        std::vector<uint64_t> data(n);
        fill_pat(data, seed + 17 * (variant == 2), pat);
        memcpy(in.p, data.data(), n * 8);
        vh::GBuf out = vh::galloc(outw, 0xEEEEEEEEEEEEEEEEULL);
        uint64_t off = al == 1 ? 0 : (al == 2 ? std::min<uint64_t>(5, n - outw) : n - outw);
        uint64_t *op = al ? in.p + off : out.p;
        perms.clear();
        goldilocks_verif_tracer = tracer;
        if (variant == 0)
            PoseidonGoldilocks::linear_hash_seq((E *)op, (E *)in.p, len);
        else if (variant == 1)
            PoseidonGoldilocks::linear_hash((E *)op, (E *)in.p, len);
#ifdef __AVX512__
        else
            PoseidonGoldilocks::linear_hash_avx512((E *)op, (E *)in.p, len);
#endif
        goldilocks_verif_tracer = nullptr;
        bool hookless = false;
        if (perms.empty() && len > 4)
        {
            hookless = true;
            if (variant != 2)
            {
                uint64_t d[4];
                oracle_sponge(data.data(), len, d);
            }
            else
            {
                // two streams, recorded as interleaved 24-word pairs like the AVX512 hook does
                std::vector<PermRec> a, b2;
                uint64_t d[4];
                oracle_sponge(data.data(), len, d);
                a.swap(perms);
                oracle_sponge(data.data() + len, len, d);
                b2.swap(perms);
                for (size_t k = 0; k < a.size() && k < b2.size(); k++)
                {
                    PermRec r;
                    r.kind = 99;
                    r.in.assign(24, 0);
                    r.out.assign(24, 0);
                    for (int i = 0; i < 12; i++)
                    {
                        r.in[8 * (i / 4) + (i % 4)] = a[k].in[i];
                        r.in[8 * (i / 4) + 4 + (i % 4)] = b2[k].in[i];
                        r.out[8 * (i / 4) + (i % 4)] = a[k].out[i];
                        r.out[8 * (i / 4) + 4 + (i % 4)] = b2[k].out[i];
                    }
                    perms.push_back(std::move(r));
                }
            }
        }
        bool same = true;
        for (uint64_t i = 0; i < n; i++)
            if (!(al && i >= off && i < off + outw) && in.p[i] != data[i])
                same = false;
        o.begin("lh");
        o.num("ci", ci);
        o.str("variant", names[variant]);
        o.num("len", len);
        o.num("pat", pat);
        o.num("alias", al);
        o.boolean("hookless", hookless);
        o.w64arr("input", data.data(), n);
        o.boolean("input_same", same);
        o.raw("perms", perms_json());
        o.w64arr("digest", op, outw);
        o.boolean("slack_ok", vh::gslack_ok(in) && vh::gslack_ok(out));
        o.end();
        vh::gfree(in);
        vh::gfree(out);
    }
}

// rowpat: 0 seeded; 1 all rows equal; 2 rows A,B,A,A repeated; 3 rows drawn from {A,B}; 4 all zero; 5 every row constant
// (one word repeated) with two alternating words.   env: OpenMP delivery environment (vh::with_env)
static void do_mt(vh::Out &o, long long ci, uint64_t rows, uint64_t cols, uint64_t dim, uint64_t batch, int nth, uint64_t seed, int rowpat = 0, int env = 0)
{
    uint64_t nelem = MerklehashGoldilocks::getTreeNumElements(rows);
    std::vector<uint64_t> data(rows * cols * dim);
    fill(data, seed);
    if (rowpat && rows * cols * dim > 0)
    {
        uint64_t w = cols * dim;
        std::vector<uint64_t> A(data.begin(), data.begin() + w), B(w);
        fill(B, seed ^ 0xB0B);
        vh::Rng pick(seed ^ 0x77);
        for (uint64_t r = 0; r < rows; r++)
            for (uint64_t c = 0; c < w; c++)
            {
                uint64_t &x = data[r * w + c];
                switch (rowpat)
                {
                case 1: x = A[c]; break;
                case 2: x = (r % 4 == 1) ? B[c] : A[c]; break;
                case 3: x = ((seed >> (r % 60)) & 1) ? B[c] : A[c]; break;
                case 4: x = 0; break;
                default: x = (r % 2) ? A[0] : B[0]; break;
                }
            }
    }
    const char *names[] = {"seq", "avx", "wrapper", "batch_seq", "batch_avx", "batch_wrapper", "avx512", "batch_avx512"};
    for (int b = 0; b < 8; b++)
    {
        bool batched = (b >= 3 && b <= 5) || b == 7;
        if (batched && batch == 0)
            continue;
#ifndef __AVX512__
        if (b >= 6)
            continue;
#endif
        vh::GBuf in = vh::galloc(data.size(), 0);
        memcpy(in.p, data.data(), data.size() * 8);
        vh::GBuf tree = vh::galloc(nelem, 0xABABABABABABABABULL ^ b);
        perms.clear();
        goldilocks_verif_tracer = tracer;
        E *T = (E *)tree.p, *I = (E *)in.p;
        vh::with_env(env, [&]() {
        switch (b)
        {
        case 0: PoseidonGoldilocks::merkletree_seq(T, I, cols, rows, nth, dim); break;
        case 1: PoseidonGoldilocks::merkletree_avx(T, I, cols, rows, nth, dim); break;
        case 2: PoseidonGoldilocks::merkletree(T, I, cols, rows, nth, dim); break;
        case 3: PoseidonGoldilocks::merkletree_batch_seq(T, I, cols, rows, batch, nth, dim); break;
        case 4: PoseidonGoldilocks::merkletree_batch_avx(T, I, cols, rows, batch, nth, dim); break;
        case 5: PoseidonGoldilocks::merkletree_batch(T, I, cols, rows, batch, nth, dim); break;
#ifdef __AVX512__
        case 6: PoseidonGoldilocks::merkletree_avx512(T, I, cols, rows, nth, dim); break;
        case 7: PoseidonGoldilocks::merkletree_batch_avx512(T, I, cols, rows, batch, nth, dim); break;
#endif
        }
        });
        goldilocks_verif_tracer = nullptr;
        bool hookless = false;
        if (perms.empty() && rows * (cols * dim > 4 ? 1 : 0) + (rows > 1 ? 1 : 0) > 0)
        {
            // no hook record although the definition needs permutations: supply the pairs of the definition evaluated on the
            // input rows and on the RECORDED tree levels
            hookless = true;
            uint64_t w = cols * dim, d[4];
            for (uint64_t r = 0; r < rows; r++)
            {
                const uint64_t *row = data.data() + r * w;
                if (!batched)
                    oracle_sponge(row, w, d);
                else
                {
                    uint64_t nb = cols > 0 ? (cols + batch - 1) / batch : 1;
                    std::vector<uint64_t> cat;
                    for (uint64_t j = 0; j < nb; j++)
                    {
                        uint64_t nn = (j == nb - 1) ? cols - (nb - 1) * batch : batch;
                        oracle_sponge(row + j * batch * dim, nn * dim, d);
                        cat.insert(cat.end(), d, d + 4);
                    }
                    oracle_sponge(cat.data(), cat.size(), d);
                }
            }
            uint64_t pending = rows, next = 0;
            while (pending > 1)
            {
                for (uint64_t i = 0; i < pending / 2; i++)
                {
                    uint64_t st[12] = {0}, out[12];
                    memcpy(st, tree.p + 4 * (next + 2 * i), 32);
                    memcpy(st + 4, tree.p + 4 * (next + 2 * i + 1), 32);
                    oracle_pair(st, out);
                }
                next += pending;
                pending /= 2;
            }
        }
        E root[4], root2[4];
        E *rootp = root;
        MerklehashGoldilocks::root(rootp, T, nelem);
        memcpy(root2, root, 32); // (the array-reference overload is ambiguous with the pointer one for array arguments)
        o.begin("mt");
        o.num("ci", ci);
        o.num("rowpat", rowpat);
        o.num("env", env);
        o.boolean("hookless", hookless);
        o.str("builder", names[b]);
        o.boolean("batched", batched);
        o.num("rows", rows);
        o.num("cols", cols);
        o.num("dim", dim);
        o.num("batch", batch);
        o.num("nth", nth);
        o.num("nelem", nelem);
        o.w64arr("input", data.data(), data.size());
        o.boolean("input_same", memcmp(in.p, data.data(), data.size() * 8) == 0);
        o.w64arr("tree", tree.p, nelem);
        o.w64arr("root", (uint64_t *)root, 4);
        o.boolean("root_forms_agree", memcmp(root, root2, 32) == 0);
        o.raw("perms", perms_json());
        o.boolean("slack_ok", vh::gslack_ok(in) && vh::gslack_ok(tree));
        o.end();
        vh::gfree(in);
        vh::gfree(tree);
    }
}

static void do_consts(vh::Out &o)
{
    namespace K = PoseidonGoldilocksConstants;
    o.begin("consts");
    o.w64arr("C", (const uint64_t *)K::C, 118);
    o.w64arr("M", (const uint64_t *)K::M, 144);
    o.w64arr("P", (const uint64_t *)K::P, 144);
    o.w64arr("S", (const uint64_t *)K::S, 507);
    o.w64arr("M_", (const uint64_t *)K::M_, 144);
    o.w64arr("P_", (const uint64_t *)K::P_, 144);
    o.end();
}

static void do_case(vh::Out &o, long long ci, const std::vector<std::string> &t)
{
    if (t[0] == "perm" || t[0] == "permfull")
        do_perm(o, ci, t);
    else if (t[0] == "permchain")
        do_permchain(o, ci, t);
    else if (t[0] == "permiter")
        do_permiter(o, ci, t);
    else if (t[0] == "permconc")
        do_permconc(o, ci, t);
    else if (t[0] == "lh")
        do_lh(o, ci, vh::parse_u64(t[1]), vh::parse_u64(t[2]), t.size() > 3 ? atoi(t[3].c_str()) : 0, t.size() > 4 ? atoi(t[4].c_str()) : 0);
    else if (t[0] == "mt")
        do_mt(o, ci, vh::parse_u64(t[1]), vh::parse_u64(t[2]), vh::parse_u64(t[3]), vh::parse_u64(t[4]), atoi(t[5].c_str()), vh::parse_u64(t[6]), t.size() > 7 ? atoi(t[7].c_str()) : 0, t.size() > 8 ? atoi(t[8].c_str()) : 0);
    else if (t[0] == "consts")
        do_consts(o);
}

int main(int argc, char **argv)
{
    if (argc < 3)
        return 2;
    auto cases = vh::read_cases(argv[1]);
    {
        FILE *f = fopen(argv[2], "w");
        fclose(f);
    }
    size_t i = 0;
    while (i < cases.size())
    {
        int fd[2];
        if (pipe(fd) != 0)
            return 3;
        fflush(nullptr);
        pid_t pid = fork();
        if (pid == 0)
        {
            close(fd[0]);
            int dn = open("/dev/null", O_WRONLY);
            if (dn >= 0)
                dup2(dn, 2);
            vh::Out o("/dev/null");
            fclose(o.f);
            o.f = fopen(argv[2], "a");
            for (size_t k = i; k < cases.size(); k++)
            {
                alarm(300);
                do_case(o, (long long)k + 1, cases[k]);
                fflush(o.f);
                char b = 1;
                if (write(fd[1], &b, 1) != 1)
                    _exit(9);
            }
            fflush(o.f);
            _exit(0);
        }
        close(fd[1]);
        size_t done = 0;
        char b;
        while (read(fd[0], &b, 1) == 1)
            done++;
        close(fd[0]);
        int st = 0;
        waitpid(pid, &st, 0);
        i += done;
        if (i < cases.size())
        {
            vh::Out o("/dev/null");
            fclose(o.f);
            o.f = fopen(argv[2], "a");
            o.begin("crash");
            o.num("ci", (long long)i + 1);
            std::string line;
            for (auto &s : cases[i])
                line += s + " ";
            o.str("case", line);
            o.str("kind", WIFSIGNALED(st) ? "signal" : "exit");
            o.num("code", WIFSIGNALED(st) ? WTERMSIG(st) : WEXITSTATUS(st));
            o.end();
            i++;
        }
    }
    return 0;
}
