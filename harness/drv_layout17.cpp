// C17 conformance driver: strided / offset / broadcast base-field helpers (batch, AVX2, AVX512) and parcpy / parSetZero.
//
// The call sites are generated: layout17_rows.inc (tools/gen_layout17.py, from tools/overloads17.json) holds one
// ROW(id, op, lanes, kind_a, kind_b, kind_c, aligned, <call pinned to the declared signature>) per overload of this
// build variant.  Everything else here is generic: exact-extent guard-paged arenas, designated cells, two runs per
// case with different garbage / pre-fills, event logging, crash-to-event handling in forked batches.
//
// Alias modes (Layout.tla AliasModes): none; sc / sa = the broadcast scalar argument is an lvalue inside the result array /
// inside the other operand's array (at the cell of designated lane aj); ca / cb = the result IS operand a / b (same pointer
// or register variable, same stride / index list).  Operand values are always the ones held BEFORE the call.
//
// Designation families (Layout.tla DesLevels / DesFamilies) of the binary overloads: level "sep" = separate arrays whose
// address sequences are related as the family says; level "base" = operands a and b are given
// by the SAME base pointer, each with its own stride / index list (distinct list objects unless ixo), and the two address
// sequences are related as the family says (eq: identical; h1 / h2: agree in the first / second half of the lanes and differ
// in the other; one: differ in exactly lane dl; perm: equal as multisets, permuted; any: unrelated); together with an in-place
// mode (ca / cb) all three operands are one array with one address map.  Level "word" = separate storage, the operand WORDS
// are related that way (the form for register and broadcast operands).
//
// OpenMP delivery environments (vh::with_env) of the bulk copies: 0 plain, 1 from inside an active parallel region, 2 / 3 the
// process-wide thread-count setting is 1 / 5.
//
// case line:  <ci> C <row id> <seed> <sa> <sb> <sc> <idxmode a> <idxmode b> <idxmode c> <padmask> <valuemode> <alias> <aj>
//                  [<level none|sep|base|word> <family> <dl> <ixo 0|1>]
//             <ci> P <parcpy|parSetZero> <size> <nthreads> <pad> <seed> [<env 0..3>]
//
// HUGE strides / index-list entries.  The stride fields take any 64-bit value; an index-list mode >= 100 builds a list from
// the unit h given in the stride field of that operand (gen_idx_huge: h, 2h, ... in order, permuted, one far entry, all
// entries near h, descending, repeated / offset multiples).  An array operand whose extent reaches WIDE elements lives in a
// SPARSE arena: the whole span (up to 7 * (2^32+3) elements, plus 2^31 elements below the base pointer) is reserved PROT_NONE +
// MAP_NORESERVE and only the pages that hold designated cells are made accessible - still end-aligned against an inaccessible
// page - plus DECOY pages at the positions a narrowed computation of lane k's position t would hit: (int32)t, (uint32)t, the
// same for the byte offset 8t, and k * (int32)stride, k * (uint32)stride (those that lie inside the reservation).  Every
// accessible cell that is not designated holds run-specific garbage (result arenas: the complementary pre-fills), is part of
// the snapshots and of the changed-cell scan: a lane fetched from / stored to a narrowed position gives a wrong value (decoy) or
// a fault (no decoy there), never silently the right one.  Such a call is logged with "wide": true and every stride, index
// entry, position, extent and changed position as a 64-bit limb word (saw iaw aaw eaw ... chgw): TLC integers are 32 bit.
// If the address range cannot be reserved the case is logged as a "skip" event (not judged).
#include "goldilocks_base_field.hpp"
#include "vh.hpp"
#include <fcntl.h>
#include <immintrin.h>
#include <algorithm>
#include <map>
typedef Goldilocks::Element E;
static_assert(sizeof(E) == 8, "Element is one 64-bit word");

enum Kind { K_NONE, K_REG, K_CONTIG, K_STRIDE, K_INDEX, K_SCALAR, K_SCALARREF };
enum Op { OP_COPY, OP_ADD, OP_SUB, OP_MUL };
static const char *OPN[] = {"copy", "add", "sub", "mul"};

// an array in front of an inaccessible page: ext designated-range elements (+ pad undesignated ones, which also
// de-align the start), every byte between the leading guard page and the array pattern-filled.
// dense: all n cells accessible (vh::galloc).  sparse: see the header comment; acc lists the accessible cells as ranges
// [lo, hi) relative to the base pointer p (lo may be negative: decoy cells below the base).
static const uint64_t WIDE = 1ULL << 24;                 // extents (elements) from which an arena is sparse
static const int64_t LOWCELLS = 1LL << 31;               // cells reserved below the base pointer of a sparse arena
struct Skip
{
    const char *why;
};
struct Arena
{
    vh::GBuf g;
    bool live = false, sparse = false;
    uint8_t pat = 0;
    uint64_t *p = nullptr;
    uint64_t n = 0;
    uint8_t *mbase = nullptr;
    size_t mlen = 0;
    std::vector<std::pair<int64_t, int64_t>> acc;
    std::vector<uint64_t> snap;
    void make(size_t n_, uint8_t pattern)
    {
        g = vh::galloc(n_, 0);
        live = true;
        sparse = false;
        pat = pattern;
        memset(g.base + 4096, pat, g.slack);
        p = g.p;
        n = n_;
        acc.assign(1, {0, (int64_t)n_});
    }
    // cells: positions relative to p that must be accessible (designated cells and decoys); positions outside
    // [-LOWCELLS, n) are ignored
    void make_sparse(uint64_t n_, const std::vector<int64_t> &cells, uint8_t pattern)
    {
        const uint64_t ps = 4096;
        uint64_t bytes = n_ * 8;
        uint64_t span = ((bytes + ps - 1) / ps) * ps;
        mlen = (size_t)(ps + (uint64_t)LOWCELLS * 8 + 2 * ps + span + ps);
        void *m = mmap(nullptr, mlen, PROT_NONE, MAP_PRIVATE | MAP_ANONYMOUS | MAP_NORESERVE, -1, 0);
        if (m == MAP_FAILED)
            throw Skip{"cannot reserve the address range of a huge stride / index list"};
        mbase = (uint8_t *)m;
        live = true;
        sparse = true;
        pat = pattern;
        n = n_;
        uint8_t *end = mbase + mlen - ps;
        p = (uint64_t *)(end - bytes);
        std::vector<intptr_t> pages;
        for (int64_t j : cells)
            if (j >= -LOWCELLS && j < (int64_t)n_)
                pages.push_back(((intptr_t)(p + j)) & ~(intptr_t)(ps - 1));
        std::sort(pages.begin(), pages.end());
        pages.erase(std::unique(pages.begin(), pages.end()), pages.end());
        acc.clear();
        for (intptr_t pg : pages)
        {
            if (mprotect((void *)pg, ps, PROT_READ | PROT_WRITE) != 0)
            {
                release();
                throw Skip{"cannot commit a page of a sparse arena"};
            }
            int64_t lo = (pg - (intptr_t)p) / 8;
            int64_t hi = std::min<int64_t>((int64_t)n_, lo + (int64_t)(ps / 8));
            acc.push_back({lo, hi});
        }
    }
    template <class F>
    void each(F f)
    {
        for (auto &r : acc)
            for (int64_t j = r.first; j < r.second; j++)
                f(j, p[j]);
    }
    void snapshot()
    {
        snap.clear();
        each([&](int64_t, uint64_t &c) { snap.push_back(c); });
    }
    bool same()
    {
        if (!live)
            return true;
        size_t i = 0;
        bool ok = true;
        each([&](int64_t, uint64_t &c) { ok = ok && i < snap.size() && snap[i] == c; i++; });
        return ok && i == snap.size();
    }
    // positions whose content differs from the snapshot
    void changed(std::vector<int64_t> &out)
    {
        size_t i = 0;
        each([&](int64_t j, uint64_t &c) { if (c != snap[i]) out.push_back(j); i++; });
    }
    bool slack_ok() const
    {
        if (!live || sparse) // sparse: the cells in front of the array that are accessible are ordinary snapshot cells
            return true;
        const uint8_t *s = g.base + 4096;
        for (size_t i = 0; i < g.slack; i++)
            if (s[i] != pat)
                return false;
        return true;
    }
    void release()
    {
        if (live && sparse)
            munmap(mbase, mlen);
        else if (live)
            vh::gfree(g);
        live = false;
    }
};

struct Operand
{
    Kind kind = K_NONE;
    int L = 4;
    uint64_t stride = 0;
    std::vector<uint64_t> idx;
    size_t pad = 0;
    Arena mem, ib;
    uint64_t v[8];
    __m256i r256;
#ifdef __AVX512__
    __m512i r512;
#endif
    Operand *same = nullptr; // in-place: this input operand IS that (result) operand
    Operand *base = nullptr; // same base pointer: this input operand lives in the array of that operand (own stride / index list)
    Operand *ixo = nullptr;  // ... and is given by the very same index-list object
    size_t minext = 0;       // elements the operands sharing this array need
    const E *sloc = nullptr; // broadcast scalar living inside another operand's array
    E own;                   // broadcast scalar in storage of its own
    bool inmem() const { return kind == K_CONTIG || kind == K_STRIDE || kind == K_INDEX || kind == K_SCALARREF; }
    uint64_t addr(int k) const
    {
        switch (kind)
        {
        case K_CONTIG: return k;
        case K_STRIDE: return (uint64_t)k * stride;
        case K_INDEX: return idx[k];
        case K_SCALAR: case K_SCALARREF: return 0;
        default: return k;
        }
    }
    size_t extent() const
    {
        if (!inmem())
            return 0;
        uint64_t m = 0;
        for (int k = 0; k < L; k++)
            m = std::max(m, addr(k));
        return m + 1;
    }
    bool sparse() const { return (kind == K_STRIDE || kind == K_INDEX) && extent() >= WIDE; }
    // the array of this operand: dense, or sparse with decoy pages where a narrowed position computation would land
    void alloc(uint8_t pat)
    {
        size_t n = std::max(extent(), minext) + pad;
        if (!sparse())
        {
            mem.make(n, pat);
            return;
        }
        std::vector<int64_t> cells;
        for (int k = 0; k < L; k++)
        {
            uint64_t t = addr(k);
            cells.push_back((int64_t)t);
            cells.push_back((int64_t)(int32_t)(uint32_t)t);
            cells.push_back((int64_t)(uint32_t)t);
            cells.push_back((int64_t)(int32_t)(uint32_t)(t * 8) / 8);
            cells.push_back((int64_t)(uint32_t)(t * 8) / 8);
            if (kind == K_STRIDE)
            {
                cells.push_back((int64_t)k * (int64_t)(int32_t)(uint32_t)stride);
                cells.push_back((int64_t)k * (int64_t)(uint32_t)stride);
            }
        }
        mem.make_sparse(n, cells, pat);
    }
    E *ptr() { return same ? same->ptr() : (base ? base->ptr() : (E *)mem.p); }
    uint64_t *idxp() { return same ? same->idxp() : (ixo ? ixo->idxp() : ib.g.p); }
    uint64_t *cells() { return (uint64_t *)ptr(); }
    // the scalar argument: an lvalue (copied by a by-value parameter, bound by a reference parameter)
    const E &sref() const { return sloc ? *sloc : (kind == K_SCALARREF ? *(const E *)mem.p : own); }
    __m256i &reg256() { return same ? same->r256 : r256; }
#ifdef __AVX512__
    __m512i &reg512() { return same ? same->r512 : r512; }
#endif
    void setreg(const uint64_t *w)
    {
        if (L == 4)
            r256 = _mm256_loadu_si256((const __m256i *)w);
#ifdef __AVX512__
        else
            r512 = _mm512_loadu_si512((const void *)w);
#endif
    }
    void getreg(uint64_t *w) const
    {
        if (L == 4)
            _mm256_storeu_si256((__m256i *)w, r256);
#ifdef __AVX512__
        else
            _mm512_storeu_si512((void *)w, r512);
#endif
    }
};
struct Ctx
{
    Operand A, B, C;
};
struct Row
{
    const char *id;
    Op op;
    int L;
    Kind a, b, c;
    int aligned;
    void (*call)(Ctx &);
};
#define ROW(ID, OPC, LN, KA, KB, KC, AL, ...) {ID, OPC, LN, KA, KB, KC, AL, [](Ctx &x) { __VA_ARGS__; }},
// the call sites name the overload by its declared signature; LAX_SIG (compiler flag or generated layout17_cfg.inc) leaves
// the choice to overload resolution, for trees whose declarations differ in by-value / by-reference passing
#include "layout17_cfg.inc"
#ifdef LAX_SIG
#define CALLSIG(FN, ...) Goldilocks::FN
#else
#define CALLSIG(FN, ...) static_cast<__VA_ARGS__>(&Goldilocks::FN)
#endif
static const Row rows[] = {
#include "layout17_rows.inc"
};
static std::map<std::string, const Row *> rowmap;

// ---- case material
static uint64_t bval(vh::Rng &r)
{
    static const uint64_t P = vh::PRIME;
    static const uint64_t b[] = {0, 1, 2, P - 1, P, P + 1, P - 2, ~0ULL, ~0ULL - 1, 0xFFFFFFFFULL, 0x100000000ULL, 0xFFFFFFFF00000000ULL,
                                 1ULL << 63, (1ULL << 63) - 1, 0xFFFFFFFEFFFFFFFFULL, 0x7FFFFFFF80000000ULL, (P - 1) / 2, (P + 1) / 2, 0xFFFFFFFF, P + 0xFFFFFFFEULL};
    return b[r.below(sizeof(b) / sizeof(b[0]))];
}
static uint64_t value(vh::Rng &r, int mode, int k)
{
    if (mode == 4)
        mode = (k + (int)r.below(4)) % 4;
    switch (mode)
    {
    case 0: return r.word();
    case 1: return r.next() % vh::PRIME;
    case 2: return vh::PRIME + r.below(0xFFFFFFFFULL);
    default: return bval(r);
    }
}
static std::vector<uint64_t> distinct(vh::Rng &r, int L, uint64_t range)
{
    std::vector<uint64_t> v;
    while ((int)v.size() < L)
    {
        uint64_t x = r.below(range);
        if (std::find(v.begin(), v.end(), x) == v.end())
            v.push_back(x);
    }
    return v;
}
// index lists: permuted, repeating (inputs only), spread; outputs always pairwise distinct
static std::vector<uint64_t> gen_idx(vh::Rng &r, int mode, int L, bool out)
{
    std::vector<uint64_t> v(L);
    switch (mode % 6)
    {
    case 0:
        for (int k = 0; k < L; k++) v[k] = k;
        break;
    case 1:
        v = distinct(r, L, L);
        break;
    case 2:
        if (out) v = distinct(r, L, L + 2);
        else for (int k = 0; k < L; k++) v[k] = r.below(L + 2);
        break;
    case 3:
        v = distinct(r, L, 3000);
        break;
    case 4:
        if (out) for (int k = 0; k < L; k++) v[k] = 2 * (L - 1 - k);
        else { uint64_t c = r.below(9); for (int k = 0; k < L; k++) v[k] = c; }
        break;
    default:
        if (out) v = distinct(r, L, 40);
        else { uint64_t c = r.below(5); for (int k = 0; k < L; k++) v[k] = 3 * (uint64_t)(k / 2) + c; }
        break;
    }
    return v;
}

// index lists with HUGE entries, built from the unit h (2^29+1 ... 2^32+3); outputs always pairwise distinct
static std::vector<uint64_t> gen_idx_huge(vh::Rng &r, int pat, int L, bool out, uint64_t h)
{
    std::vector<uint64_t> v(L), m = distinct(r, L, L); // m: a permutation of the lanes
    switch (pat % 6)
    {
    case 0: // looks like a uniform stride
        for (int k = 0; k < L; k++) v[k] = (uint64_t)k * h;
        break;
    case 1: // the same cells, permuted
        for (int k = 0; k < L; k++) v[k] = m[k] * h;
        break;
    case 2: // one far entry, the others near the base
    {
        std::vector<uint64_t> sm = distinct(r, L, 40);
        v = sm;
        v[r.below(L)] = h * (1 + r.below(L - 1));
        break;
    }
    case 3: // every entry far, all near h
        for (int k = 0; k < L; k++) v[k] = h + 3 * m[k] + (k == 0 ? 0 : 1);
        break;
    case 4: // descending
        for (int k = 0; k < L; k++) v[k] = (uint64_t)(L - 1 - k) * h + (uint64_t)k;
        break;
    default: // inputs: a few far cells, repeated; outputs: permuted multiples with small offsets
        if (out) for (int k = 0; k < L; k++) v[k] = m[k] * h + 5 * (uint64_t)k;
        else { uint64_t pool[3] = {0, h, (uint64_t)(L - 1) * h + 2}; for (int k = 0; k < L; k++) v[k] = pool[r.below(3)]; v[r.below(L)] = pool[2]; }
        break;
    }
    return v;
}

struct RunOut
{
    uint64_t a[8], b[8], r[8];
    std::vector<int64_t> chg;
    bool in_same, slack_ok;
};

enum Alias { AL_NONE, AL_SC, AL_SA, AL_CA, AL_CB };
static const char *ALN[] = {"none", "sc", "sa", "ca", "cb"};
enum DesLevel { DL_NONE, DL_BASE, DL_WORD, DL_SEP };
static const char *DLN[] = {"none", "base", "word", "sep"};
enum DesFam { DF_NONE, DF_EQ, DF_H1, DF_H2, DF_ONE, DF_PERM, DF_ANY };
static const char *DFN[] = {"none", "eq", "h1", "h2", "one", "perm", "any"};

static bool all_distinct(const std::vector<uint64_t> &v)
{
    for (size_t i = 0; i < v.size(); i++)
        for (size_t j = i + 1; j < v.size(); j++)
            if (v[i] == v[j])
                return false;
    return true;
}
// a value different from ref[k]: what another lane of ref holds, a neighbour, or something unrelated below `range`
static uint64_t other_than(vh::Rng &r, const std::vector<uint64_t> &ref, int k, uint64_t range, bool wordlevel)
{
    for (int tries = 0;; tries++)
    {
        uint64_t x;
        switch (tries < 8 ? r.below(4) : 1)
        {
        case 0: x = ref[r.below(ref.size())]; break;
        case 1: x = ref[k] + 1 + r.below(3); break;
        case 2: x = wordlevel ? (ref[k] ^ (1ULL << r.below(64))) : (ref[k] ? ref[k] - 1 : ref[k] + 2); break;
        default: x = wordlevel ? r.word() : r.below(range); break;
        }
        if (x != ref[k])
            return x;
    }
}
// a sequence related to ref as the family says (ref has at least two different entries for perm)
static std::vector<uint64_t> related(vh::Rng &r, DesFam f, const std::vector<uint64_t> &ref, int dl, bool wordlevel)
{
    int L = (int)ref.size(), h = L / 2;
    uint64_t range = *std::max_element(ref.begin(), ref.end()) + 6;
    std::vector<uint64_t> v(ref);
    switch (f)
    {
    case DF_H1:
    case DF_H2:
    {
        int lo = f == DF_H1 ? h : 0;
        uint64_t mask = r.below(3) == 0 ? r.below(1ULL << h) : (1ULL << h) - 1; // every lane of that half, or some of them
        if (mask == 0)
            mask = 1ULL << r.below(h);
        for (int k = 0; k < h; k++)
            if ((mask >> k) & 1)
                v[lo + k] = other_than(r, ref, lo + k, range, wordlevel);
        break;
    }
    case DF_ONE:
        v[dl] = other_than(r, ref, dl, range, wordlevel);
        break;
    case DF_PERM:
        for (int tries = 0; v == ref && tries < 1000; tries++)
            for (int k = L - 1; k > 0; k--)
                std::swap(v[k], v[r.below(k + 1)]);
        break;
    case DF_ANY:
        for (int k = 0; k < L; k++)
            v[k] = wordlevel ? r.word() : r.below(range);
        break;
    default:
        break;
    }
    return v;
}
static bool is_scalar(const Operand &X) { return X.kind == K_SCALAR || X.kind == K_SCALARREF; }

// array / register inputs (the broadcast scalar comes afterwards: it may live inside one of these arrays)
static void setup_input(Operand &X, const uint64_t *val, vh::Rng &garb, uint8_t pat, uint64_t *seen)
{
    int L = X.L;
    X.sloc = nullptr;
    if (X.same)
    {
        // in place: the operand values go into the result operand (its arena / register variable)
        Operand &C = *X.same;
        if (C.kind == K_REG)
            C.setreg(val);
        else
            for (int k = 0; k < L; k++)
                C.mem.p[C.addr(k)] = val[k];
        for (int k = 0; k < L; k++)
            seen[k] = X.v[k] = C.kind == K_REG ? val[k] : C.mem.p[C.addr(k)];
        return;
    }
    if (X.base)
    {
        // same base pointer: the operand lives in the other operand's array (already set up).  Cells the other operand does not
        // designate take this operand's values; a cell designated by both holds one word, the one already there.
        Operand &O = *X.base;
        uint64_t *m = O.cells();
        for (int k = 0; k < L; k++)
        {
            bool theirs = false;
            for (int j = 0; j < L; j++)
                theirs = theirs || O.addr(j) == X.addr(k);
            if (!theirs)
                m[X.addr(k)] = val[k];
        }
        for (int k = 0; k < L; k++)
            seen[k] = X.v[k] = m[X.addr(k)];
        if (!O.same)
            O.mem.snapshot();
        uint64_t g8[8];
        for (int k = 0; k < 8; k++)
            g8[k] = garb.next();
        X.setreg(g8);
        if (X.kind == K_INDEX && !X.ixo)
        {
            X.ib.make(L, pat ^ 0x5A);
            for (int k = 0; k < L; k++)
                X.ib.g.p[k] = X.idx[k];
            X.ib.snapshot();
        }
        return;
    }
    if (X.inmem() && X.kind != K_SCALARREF)
    {
        X.alloc(pat);
        X.mem.each([&](int64_t, uint64_t &c) { c = garb.next(); });
        for (int k = 0; k < L; k++)
            X.mem.p[X.addr(k)] = val[k];
        for (int k = 0; k < L; k++)
            seen[k] = X.v[k] = X.mem.p[X.addr(k)]; // what the call will find in the designated cells
        X.mem.snapshot();
    }
    else if (X.kind == K_REG)
    {
        for (int k = 0; k < L; k++)
            seen[k] = X.v[k] = val[k];
        X.setreg(val);
    }
    else if (!is_scalar(X))
        for (int k = 0; k < L; k++)
            seen[k] = 0;
    if (X.kind != K_REG && X.kind != K_NONE)
    {
        uint64_t g8[8];
        for (int k = 0; k < 8; k++)
            g8[k] = garb.next();
        X.setreg(g8);
    }
    if (X.kind == K_INDEX && !X.ixo)
    {
        X.ib.make(L, pat ^ 0x5A);
        for (int k = 0; k < L; k++)
            X.ib.g.p[k] = X.idx[k];
        X.ib.snapshot();
    }
}

// the broadcast scalar: in storage of its own, or an element of the result array (sc) / of the other operand's array (sa)
static void setup_scalar(Operand &S, Operand &other, Operand &C, Alias al, int aj, uint64_t val, vh::Rng &garb, uint8_t pat, uint64_t *seen)
{
    S.sloc = nullptr;
    if (al == AL_SC)
    {
        uint64_t *cell = C.mem.p + C.addr(aj);
        *cell = val;
        S.sloc = (const E *)cell;
    }
    else if (al == AL_SA)
        S.sloc = (const E *)(other.ptr() + other.addr(aj)); // the scalar IS that element: its value is the element's
    else if (S.kind == K_SCALARREF)
    {
        S.mem.make(1 + S.pad, pat);
        for (size_t i = 0; i < S.mem.n; i++)
            S.mem.p[i] = garb.next();
        S.mem.p[0] = val;
        S.mem.snapshot();
    }
    else
        S.own.fe = val;
    for (int k = 0; k < S.L; k++)
        seen[k] = S.v[k] = S.sref().fe;
}

static void one_run(const Row &row, Ctx &x, const uint64_t *va, const uint64_t *vb, uint64_t seed, int run, Alias al, int aj, RunOut &o)
{
    vh::Rng garb(seed * 0x9E3779B97F4A7C15ULL + 0xABCDEF12345ULL * (uint64_t)(run + 1));
    uint8_t pat = run ? 0x3C : 0xC7;
    Operand &C = x.C;
    // result operand first: in the alias modes operand values are placed inside it
    if (C.inmem())
    {
        C.alloc(pat ^ 0x22);
        vh::Rng pre(seed ^ 0x5151515151515151ULL); // same stream in both runs; run 1 stores the complement
        C.mem.each([&](int64_t, uint64_t &c) {
            uint64_t h = pre.next();
            c = run ? ~h : h;
        });
    }
    {
        uint64_t g8[8];
        for (int k = 0; k < 8; k++)
            g8[k] = garb.next();
        C.setreg(g8);
    }
    if (C.kind == K_INDEX)
    {
        C.ib.make(C.L, pat ^ 0x77);
        for (int k = 0; k < C.L; k++)
            C.ib.g.p[k] = C.idx[k];
        C.ib.snapshot();
    }
    if (x.A.base)
    {
        // the owner of the shared array first
        setup_input(x.B, vb, garb, pat ^ 0x11, o.b);
        setup_input(x.A, va, garb, pat, o.a);
    }
    else
    {
        if (!is_scalar(x.A))
            setup_input(x.A, va, garb, pat, o.a);
        if (!is_scalar(x.B))
            setup_input(x.B, vb, garb, pat ^ 0x11, o.b);
    }
    if (is_scalar(x.A))
        setup_scalar(x.A, x.B, C, al, aj, va[0], garb, pat, o.a);
    if (is_scalar(x.B))
        setup_scalar(x.B, x.A, C, al, aj, vb[0], garb, pat ^ 0x11, o.b);
    if (C.inmem())
        C.mem.snapshot(); // after the operand values that live in the result array have been placed
    row.call(x);
    if (C.kind == K_REG)
        C.getreg(o.r);
    else
        for (int k = 0; k < C.L; k++)
            o.r[k] = C.mem.p[C.addr(k)];
    o.chg.clear();
    if (C.inmem())
        C.mem.changed(o.chg);
    o.in_same = x.A.mem.same() && x.B.mem.same() && x.A.ib.same() && x.B.ib.same() && C.ib.same();
    o.slack_ok = x.A.mem.slack_ok() && x.B.mem.slack_ok() && C.mem.slack_ok() && x.A.ib.slack_ok() && x.B.ib.slack_ok() && C.ib.slack_ok();
    Operand *all[3] = {&x.A, &x.B, &x.C};
    for (auto *X : all)
    {
        X->mem.release();
        X->ib.release();
        X->sloc = nullptr;
    }
}

static void intarr(vh::Out &o, const char *k, const std::vector<uint64_t> &v)
{
    std::vector<long long> w(v.begin(), v.end());
    o.intarr(k, w.data(), w.size());
}

static void do_call(vh::Out &o, const std::vector<std::string> &t)
{
    long long ci = atoll(t[0].c_str());
    auto it = rowmap.find(t[2]);
    if (it == rowmap.end())
    {
        fprintf(stderr, "row %s is not part of this build variant\n", t[2].c_str());
        _exit(2);
    }
    const Row &row = *it->second;
    uint64_t seed = vh::parse_u64(t[3]);
    uint64_t st[3] = {vh::parse_u64(t[4]), vh::parse_u64(t[5]), vh::parse_u64(t[6])};
    int im[3] = {atoi(t[7].c_str()), atoi(t[8].c_str()), atoi(t[9].c_str())};
    int padmask = atoi(t[10].c_str()), vmode = atoi(t[11].c_str());
    Alias al = AL_NONE;
    for (int i = 0; i < 5; i++)
        if (t.size() > 12 && t[12] == ALN[i])
            al = (Alias)i;
    int aj = t.size() > 13 ? atoi(t[13].c_str()) : 0;
    DesLevel dlv = DL_NONE;
    DesFam des = DF_NONE;
    for (int i = 0; i < 4; i++)
        if (t.size() > 14 && t[14] == DLN[i])
            dlv = (DesLevel)i;
    for (int i = 0; i < 7; i++)
        if (t.size() > 15 && t[15] == DFN[i])
            des = (DesFam)i;
    int dl = t.size() > 16 ? atoi(t[16].c_str()) : 0;
    bool ixo = t.size() > 17 && atoi(t[17].c_str()) != 0;
    int L = row.L;
    Ctx x;
    Operand *ops[3] = {&x.A, &x.B, &x.C};
    Kind ks[3] = {row.a, row.b, row.c};
    vh::Rng rs(seed);
    for (int i = 0; i < 3; i++)
    {
        Operand &X = *ops[i];
        X.kind = ks[i];
        X.L = L;
        X.stride = X.kind == K_STRIDE ? st[i] : 0;
        if (X.kind == K_INDEX)
            X.idx = im[i] >= 100 ? gen_idx_huge(rs, im[i] - 100, L, i == 2, st[i]) : gen_idx(rs, im[i], L, i == 2);
        X.pad = (!row.aligned && X.inmem() && ((padmask >> i) & 1)) ? 1 : 0;
    }
    aj = aj % L;
    dl = dl % L;
    auto misfit = [&](const char *what) {
        fprintf(stderr, "designation %s %s %s does not fit row %s\n", DLN[dlv], DFN[des], what, row.id);
        _exit(2);
    };
    if ((dlv == DL_NONE) != (des == DF_NONE) || (dlv != DL_NONE && row.op == OP_COPY))
        misfit("(level / family)");
    auto ismem = [](const Operand &X) { return X.kind == K_CONTIG || X.kind == K_STRIDE || X.kind == K_INDEX; };
    auto addrs = [&](const Operand &X) {
        std::vector<uint64_t> v;
        for (int k = 0; k < L; k++)
            v.push_back(X.addr(k));
        return v;
    };
    if (dlv == DL_BASE || dlv == DL_SEP)
    {
        if (!ismem(x.A) || !ismem(x.B) || !(al == AL_NONE || al == AL_CA || al == AL_CB))
            misfit("(both operands must be arrays)");
        if (al != AL_NONE)
        {
            // in place and same base: ONE array and ONE address map for a, b and the result (any other overlap of operands
            // with the result is outside the property)
            if (des != DF_EQ || !ismem(x.C))
                misfit("(in place: only the family eq)");
            bool contig = x.A.kind == K_CONTIG || x.B.kind == K_CONTIG || x.C.kind == K_CONTIG;
            bool strided = x.A.kind == K_STRIDE || x.B.kind == K_STRIDE || x.C.kind == K_STRIDE;
            uint64_t s = contig ? 1 : (x.C.kind == K_STRIDE ? x.C.stride : (x.A.kind == K_STRIDE ? x.A.stride : x.B.stride));
            if (s == 0)
                s = 1;
            std::vector<uint64_t> seq(L);
            for (int k = 0; k < L; k++)
                seq[k] = (contig || strided) ? (uint64_t)k * s : x.C.idx[k];
            for (auto *X : ops)
            {
                X->stride = X->kind == K_STRIDE ? s : 0;
                if (X->kind == K_INDEX)
                    X->idx = seq;
            }
        }
        else if (x.A.kind == K_INDEX || x.B.kind == K_INDEX)
        {
            // the index list of one operand is derived from the address sequence of the other
            Operand &D = x.B.kind == K_INDEX ? x.B : x.A;
            Operand &R = &D == &x.B ? x.A : x.B;
            if (des == DF_PERM)
            {
                if (R.kind == K_STRIDE && R.stride == 0)
                    R.stride = 1;
                if (R.kind == K_INDEX && !all_distinct(R.idx))
                    R.idx = distinct(rs, L, 3000);
            }
            D.idx = related(rs, des, addrs(R), dl, false);
        }
        else
        {
            // contiguous / strided on both sides: the address sequences are identical or agree in lane 0 only
            bool can_differ = x.A.kind == K_STRIDE || x.B.kind == K_STRIDE;
            if (des == DF_EQ)
            {
                uint64_t s = (x.A.kind == K_CONTIG || x.B.kind == K_CONTIG) ? 1 : x.A.stride;
                x.A.stride = x.A.kind == K_STRIDE ? s : 0;
                x.B.stride = x.B.kind == K_STRIDE ? s : 0;
            }
            else if (des == DF_ANY && can_differ)
            {
                if (addrs(x.A) == addrs(x.B))
                    (x.B.kind == K_STRIDE ? x.B : x.A).stride += 1 + rs.below(3);
            }
            else
                misfit("(no index list to shape)");
        }
    }
    if (dlv == DL_WORD)
    {
        // the relation is one between the words the call finds: every lane of an array operand in a cell of its own
        if (al != AL_NONE || (des == DF_PERM && (is_scalar(x.A) || is_scalar(x.B))) || des == DF_ANY)
            misfit("(word level)");
        for (Operand *X : {&x.A, &x.B})
        {
            if (X->kind == K_STRIDE && X->stride == 0)
                X->stride = 1;
            if (X->kind == K_INDEX && !all_distinct(X->idx))
                X->idx = distinct(rs, L, 40);
        }
    }
    if (al == AL_CA || al == AL_CB)
    {
        // in place: one array (or register variable) and one address map for the operand and the result
        Operand &X = al == AL_CA ? x.A : x.B;
        if (X.kind != x.C.kind || is_scalar(X) || X.kind == K_NONE)
        {
            fprintf(stderr, "alias mode %s does not fit row %s\n", ALN[al], row.id);
            _exit(2);
        }
        if (x.C.kind == K_STRIDE && x.C.stride == 0)
            x.C.stride = 1; // lanes must stay pairwise distinct
        X.same = &x.C;
        X.stride = x.C.stride;
        X.idx = x.C.idx;
        X.pad = 0;
    }
    if ((al == AL_SC && (!x.C.inmem() || !(is_scalar(x.A) || is_scalar(x.B)))) ||
        (al == AL_SA && !((is_scalar(x.A) && x.B.inmem() && !is_scalar(x.B)) || (is_scalar(x.B) && x.A.inmem() && !is_scalar(x.A)))))
    {
        fprintf(stderr, "alias mode %s does not fit row %s\n", ALN[al], row.id);
        _exit(2);
    }
    if (dlv == DL_BASE || dlv == DL_SEP)
    {
        // owner of the array: operand a, or the operand that IS the result (in place); the other one shares its base pointer
        // (level sep: it has an array of its own and only the address sequences - or even the index-list object - are related)
        Operand &S = al == AL_CB ? x.A : x.B;
        Operand &O = al == AL_CB ? x.B : x.A;
        if (dlv == DL_BASE)
        {
            S.base = &O;
            S.pad = 0;
            (O.same ? *O.same : O).minext = S.extent();
        }
        if (ixo)
        {
            if (S.kind != K_INDEX || O.kind != K_INDEX || S.idx != O.idx)
                misfit("(one index-list object needs two equal index lists)");
            S.ixo = &O;
        }
    }
    else if (ixo)
        misfit("(ixo)");
    // a huge stride / index list anywhere: sparse arenas, positions logged as limb words; only separate objects or the
    // result in place (one address map)
    const bool wide = x.A.sparse() || x.B.sparse() || x.C.sparse();
    if (wide && (dlv != DL_NONE || al == AL_SC || al == AL_SA))
        misfit("(huge strides: alias modes none / ca / cb only, no designation family)");
    for (Operand *X : ops)
        if (X->inmem() && X->kind != K_SCALARREF && X->extent() > (1ULL << 40))
            misfit("(extent beyond 2^40 elements)");
    uint64_t va[8], vb[8];
    for (int k = 0; k < 8; k++)
    {
        va[k] = value(rs, vmode, k);
        vb[k] = value(rs, vmode, k + 1);
    }
    if (dlv == DL_WORD)
    {
        // one operand is the reference (a broadcast operand always: all its lanes hold one word), the other is shaped after it
        bool bref = is_scalar(x.B) || (!is_scalar(x.A) && (seed & 1));
        uint64_t *vr = bref ? vb : va, *vs = bref ? va : vb;
        if (is_scalar(bref ? x.B : x.A))
            std::fill(vr, vr + L, vr[0]);
        else if (des == DF_PERM && std::count(vr, vr + L, vr[0]) == L)
            vr[1] = vr[0] + 1; // a permutation that differs needs two different words
        std::vector<uint64_t> rel = related(rs, des, std::vector<uint64_t>(vr, vr + L), dl, true);
        std::copy(rel.begin(), rel.end(), vs);
    }
    RunOut r0, r1;
    try
    {
        one_run(row, x, va, vb, seed, 0, al, aj, r0);
        one_run(row, x, va, vb, seed, 1, al, aj, r1);
    }
    catch (Skip &sk)
    {
        // the address range could not be reserved on this machine: recorded, not judged
        for (Operand *X : ops)
        {
            X->mem.release();
            X->ib.release();
        }
        o.begin("skip");
        o.num("ci", ci);
        o.str("id", row.id);
        o.str("why", sk.why);
        o.end();
        return;
    }
    bool same = memcmp(r0.r, r1.r, 8 * L) == 0 && memcmp(r0.a, r1.a, 8 * L) == 0 && memcmp(r0.b, r1.b, 8 * L) == 0;
    std::vector<long long> chg(r0.chg.begin(), r0.chg.end());
    for (long long i : r1.chg)
        if (std::find(chg.begin(), chg.end(), i) == chg.end())
            chg.push_back(i);
    std::sort(chg.begin(), chg.end());
    o.begin("call");
    o.num("ci", ci);
    o.str("id", row.id);
    o.str("op", OPN[row.op]);
    o.num("nl", L);
    o.str("alias", ALN[al]);
    o.num("aj", aj);
    o.str("dlv", DLN[dlv]);
    o.str("des", DFN[des]);
    o.num("dl", dl);
    o.boolean("ixo", ixo);
    o.num("esh", dlv == DL_BASE ? (long long)std::max(x.A.extent(), x.B.extent()) : 0);
    long long pads[3] = {(long long)x.A.pad, (long long)x.B.pad, (long long)x.C.pad};
    o.intarr("pad", pads, 3);
    o.boolean("wide", wide);
    const char *sk[3] = {"sa", "sb", "sc"}, *ik[3] = {"ia", "ib", "ic"}, *ak[3] = {"aa", "ab", "ac"}, *ek[3] = {"ea", "eb", "ec"};
    const char *skw[3] = {"saw", "sbw", "scw"}, *ikw[3] = {"iaw", "ibw", "icw"}, *akw[3] = {"aaw", "abw", "acw"}, *ekw[3] = {"eaw", "ebw", "ecw"};
    for (int i = 0; i < 3; i++)
    {
        Operand &X = *ops[i];
        std::vector<uint64_t> ad;
        for (int k = 0; k < L; k++)
            ad.push_back(X.addr(k));
        if (wide)
        {
            // 64-bit limb words: strides, index-list entries, designated positions, extent
            o.w64(skw[i], X.stride);
            o.w64arr(ikw[i], X.idx.data(), X.idx.size());
            o.w64arr(akw[i], ad.data(), ad.size());
            o.w64(ekw[i], X.extent());
            o.boolean(i == 0 ? "spa" : i == 1 ? "spb" : "spc", X.sparse());
            continue;
        }
        o.num(sk[i], (long long)X.stride);
        intarr(o, ik[i], X.idx);
        intarr(o, ak[i], ad);
        o.num(ek[i], (long long)X.extent());
    }
    o.w64arr("a", r0.a, L);
    o.w64arr("b", r0.b, row.op == OP_COPY ? 0 : L);
    o.w64arr("r", r0.r, L);
    if (wide)
    {
        // changed positions as two's-complement words (a decoy cell below the base pointer has a negative position); a scan
        // that finds more than 64 changed cells is cut there (the write footprint has at most 8)
        std::vector<uint64_t> cw(chg.begin(), chg.end());
        o.w64arr("chgw", cw.data(), std::min<size_t>(cw.size(), 64));
        o.num("nchg", (long long)cw.size());
    }
    else
        o.intarr("chg", chg.data(), chg.size());
    o.boolean("same", same);
    o.boolean("in_same", r0.in_same && r1.in_same);
    o.boolean("slack_ok", r0.slack_ok && r1.slack_ok);
    o.end();
}

static void do_par(vh::Out &o, const std::vector<std::string> &t)
{
    long long ci = atoll(t[0].c_str());
    const std::string &fn = t[2];
    uint64_t size = vh::parse_u64(t[3]);
    int nt = atoi(t[4].c_str());
    size_t pad = (size_t)atoi(t[5].c_str());
    vh::Rng r(vh::parse_u64(t[6]));
    int env = t.size() > 7 ? atoi(t[7].c_str()) : 0;
    bool cpy = fn == "parcpy";
    Arena src, dst;
    src.make(size, 0xC7);
    for (uint64_t i = 0; i < size; i++)
        src.g.p[i] = r.word();
    src.snapshot();
    dst.make(size + pad, 0x3C);
    for (uint64_t i = 0; i < size + pad; i++)
        dst.g.p[i] = i < size ? (cpy ? ~src.g.p[i] : (r.next() | 1)) : r.next(); // differs from the expected word everywhere
    dst.snapshot();
    vh::with_env(env, [&]() {
        if (cpy)
            Goldilocks::parcpy((E *)dst.g.p, (const E *)src.g.p, size, nt);
        else
            Goldilocks::parSetZero((E *)dst.g.p, size, nt);
    });
    o.begin("par");
    o.num("ci", ci);
    o.str("fn", fn);
    o.num("size", (long long)size);
    o.num("nt", nt);
    o.num("env", env);
    o.num("pad", (long long)pad);
    o.w64arr("src", src.g.p, size);
    o.w64arr("d0", dst.snap.data(), size + pad);
    o.w64arr("d1", dst.g.p, size + pad);
    o.boolean("src_same", src.same());
    o.boolean("slack_ok", src.slack_ok() && dst.slack_ok());
    o.end();
    src.release();
    dst.release();
}

static void do_case(vh::Out &o, const std::vector<std::string> &t)
{
    if (t[1] == "C")
        do_call(o, t);
    else
        do_par(o, t);
}

int main(int argc, char **argv)
{
    if (argc < 3)
    {
        fprintf(stderr, "usage: drv_layout17 cases out.ndjson   |   drv_layout17 --rows\n");
        for (const Row &r : rows)
            printf("%s\n", r.id);
        return argc == 2 ? 0 : 2;
    }
    for (const Row &r : rows)
        rowmap[r.id] = &r;
    auto cases = vh::read_cases(argv[1]);
    {
        vh::Out o(argv[2]); // truncate
    }
    size_t i = 0;
    while (i < cases.size())
    {
        int fd[2];
        if (pipe(fd) != 0)
            return 3;
        fflush(nullptr);
        pid_t pid = fork();
        if (pid == 0)
        {
            close(fd[0]);
            int dn = open("/dev/null", O_WRONLY);
            if (dn >= 0)
                dup2(dn, 2);
            vh::Out o2("/dev/null");
            fclose(o2.f);
            o2.f = fopen(argv[2], "a");
            for (size_t k = i; k < cases.size(); k++)
            {
                alarm(120);
                do_case(o2, cases[k]);
                fflush(o2.f);
                char b = 1;
                if (write(fd[1], &b, 1) != 1)
                    _exit(9);
            }
            fflush(o2.f);
            _exit(0);
        }
        close(fd[1]);
        size_t done = 0;
        char b;
        while (read(fd[0], &b, 1) == 1)
            done++;
        close(fd[0]);
        int st = 0;
        waitpid(pid, &st, 0);
        i += done;
        if (i < cases.size())
        {
            // the child ended while executing case i: the crash is the event
            if (WIFEXITED(st) && WEXITSTATUS(st) == 2)
                return 2;
            vh::Out o("/dev/null");
            fclose(o.f);
            o.f = fopen(argv[2], "a");
            const auto &t = cases[i];
            o.begin("crash");
            o.num("ci", atoll(t[0].c_str()));
            o.str("id", t[2]);
            std::string line;
            for (auto &s : t)
                line += s + " ";
            o.str("case", line);
            o.str("kind", WIFSIGNALED(st) ? "signal" : "exit");
            o.num("code", WIFSIGNALED(st) ? WTERMSIG(st) : WEXITSTATUS(st));
            o.end();
            i++;
        }
    }
    return 0;
}
