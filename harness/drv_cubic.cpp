// C09 conformance driver: scalar cubic-extension operations.
// case line: <op> a0 a1 a2 b0 b1 b2 [extra]     (b1,b2 ignored for base-field / integer operands)
#include "goldilocks_cubic_extension.hpp"
#include "vh.hpp"
typedef Goldilocks::Element E;
typedef Goldilocks3::Element E3;
static thread_local vh::Out *o;
static thread_local long long ci = 0;
static void ev(const char *op, const char *alias, const uint64_t *a, const uint64_t *b, int nb, const E3 &r)
{
    uint64_t rr[3] = {r[0].fe, r[1].fe, r[2].fe};
    o->begin("c3");
    o->num("ci", ci);
    o->str("op", op);
    o->str("alias", alias);
    o->w64arr("a", a, 3);
    o->w64arr("b", b, nb);
    o->w64arr("r", rr, 3);
    o->end();
}
static void set3(E3 &x, const uint64_t *v)
{
    x[0].fe = v[0];
    x[1].fe = v[1];
    x[2].fe = v[2];
}
int main(int argc, char **argv)
{
    if (argc < 3)
        return 2;
    auto cases = vh::read_cases(argv[1]);
    return vh::run_partitioned(argv[2], [&](vh::Out &out, int tid_, int nth_) -> int {
    o = &out;
    for (size_t idx_ = 0; idx_ < cases.size(); idx_++)
    {
        auto &c = cases[idx_];
        ci = (long long)idx_ + 1;
        out.mute = (int)(idx_ % (size_t)nth_) != tid_; // every thread makes every call at (roughly) the same time; one of them records it
        const std::string &op = c[0];
        if (op == "batchinv")
        {
            // batchinv n seed : n non-zero elements derived from seed
            uint64_t n = vh::parse_u64(c[1]);
            vh::Rng rng(vh::parse_u64(c[2]));
            std::vector<uint64_t> src(3 * n), res(3 * n);
            for (uint64_t i = 0; i < 3 * n; i++)
                src[i] = rng.word();
            for (uint64_t i = 0; i < n; i++)
                if ((src[3 * i] % vh::PRIME) == 0 && (src[3 * i + 1] % vh::PRIME) == 0 && (src[3 * i + 2] % vh::PRIME) == 0)
                    src[3 * i] = 1;
            int env = c.size() > 3 ? atoi(c[3].c_str()) : 0;
            std::vector<uint64_t> inpl(src);
            vh::with_env(env, [&]() {
                Goldilocks3::batchInverse((E3 *)res.data(), (E3 *)src.data(), n);
                // also in place
                Goldilocks3::batchInverse((E3 *)inpl.data(), (E3 *)inpl.data(), n);
            });
            o->begin("binv");
            o->num("ci", ci);
            o->num("n", n);
            o->w64arr("src", src.data(), 3 * n);
            o->w64arr("res", res.data(), 3 * n);
            o->boolean("inplace_same", inpl == res);
            o->end();
            continue;
        }
        if (op == "chain")
        {
            // chain <op> <k> a0 a1 a2 b0 b1 b2 : x = a; k times x = op(x) / op(x, b) / op(b, x) with the result written over
            // the operand it replaces; every step is an ordinary c3 event on the value the step started from
            const std::string &f = c[1];
            int k = atoi(c[2].c_str());
            uint64_t x[3] = {vh::parse_u64(c[3]), vh::parse_u64(c[4]), vh::parse_u64(c[5])};
            uint64_t b[3] = {vh::parse_u64(c[6]), vh::parse_u64(c[7]), vh::parse_u64(c[8])};
            E3 X, B;
            set3(X, x);
            set3(B, b);
            for (int s = 0; s < k; s++)
            {
                uint64_t before[3] = {X[0].fe, X[1].fe, X[2].fe};
                if (f == "inv") Goldilocks3::inv(X, X);
                else if (f == "neg") Goldilocks3::neg(X, X);
                else if (f == "square") Goldilocks3::square(X, X);
                else if (f == "mul") Goldilocks3::mul(X, X, B);
                else if (f == "add") Goldilocks3::add(X, X, B);
                else if (f == "sub") Goldilocks3::sub(X, X, B);
                else if (f == "rmul") Goldilocks3::mul(X, B, X);
                else if (f == "rsub") Goldilocks3::sub(X, B, X);
                bool un = f == "inv" || f == "neg" || f == "square";
                bool rev = f == "rmul" || f == "rsub";
                const char *name = f == "rmul" ? "mul" : (f == "rsub" ? "sub" : f.c_str());
                if (rev)
                    ev(name, "chain out=b", b, before, 3, X);
                else
                    ev(name, "chain out=a", before, b, un ? 0 : 3, X);
            }
            continue;
        }
        uint64_t a[3] = {vh::parse_u64(c[1]), vh::parse_u64(c[2]), vh::parse_u64(c[3])};
        uint64_t b[3] = {vh::parse_u64(c[4]), vh::parse_u64(c[5]), vh::parse_u64(c[6])};
        E3 A, B, R, X;
        set3(A, a);
        set3(B, b);
        set3(R, (const uint64_t[3]){11, 22, 33});
        if (op == "add" || op == "sub" || op == "mul")
        {
            // ext (op) ext, all whole-object aliasing patterns
            auto f = [&](E3 &r, E3 &x, E3 &y) { if (op == "add") Goldilocks3::add(r, x, y); else if (op == "sub") Goldilocks3::sub(r, x, y); else Goldilocks3::mul(r, x, y); };
            f(R, A, B);
            ev(op.c_str(), "none", a, b, 3, R);
            set3(X, a);
            f(X, X, B);
            ev(op.c_str(), "out=a", a, b, 3, X);
            set3(X, b);
            f(X, A, X);
            ev(op.c_str(), "out=b", a, b, 3, X);
            f(R, A, A);
            ev(op.c_str(), "a=b", a, a, 3, R);
            set3(X, a);
            f(X, X, X);
            ev(op.c_str(), "all", a, a, 3, X);
            if (op == "mul")
            {
                Goldilocks3::mul(&R, &A, &B);
                ev("mul", "ptr", a, b, 3, R);
            }
        }
        else if (op == "add_eb" || op == "add_be" || op == "add_eu" || op == "sub_eb" || op == "sub_be" || op == "sub_eu" || op == "mul_eb" || op == "mul_be" || op == "mul_eu" || op == "div_eb")
        {
            E bs{b[0]};
            uint64_t bu = b[0];
            for (int al = 0; al < 2; al++)
            {
                E3 &dst = al ? X : R;
                if (al)
                    set3(X, a);
                E3 &src = al ? X : A;
                if (op == "add_eb") Goldilocks3::add(dst, src, bs);
                else if (op == "add_be") Goldilocks3::add(dst, bs, src);
                else if (op == "add_eu") Goldilocks3::add(dst, src, bu);
                else if (op == "sub_eb") Goldilocks3::sub(dst, src, bs);
                else if (op == "sub_be") Goldilocks3::sub(dst, bs, src);
                else if (op == "sub_eu") Goldilocks3::sub(dst, src, bu);
                else if (op == "mul_eb") Goldilocks3::mul(dst, src, bs);
                else if (op == "mul_be") Goldilocks3::mul(dst, bs, src);
                else if (op == "mul_eu") Goldilocks3::mul(dst, src, bu);
                else Goldilocks3::div(dst, src, bs);
                ev(op.c_str(), al ? "out=a" : "none", a, b, 1, dst);
            }
        }
        else if (op == "neg" || op == "square" || op == "inv")
        {
            for (int al = 0; al < 2; al++)
            {
                E3 &dst = al ? X : R;
                if (al)
                    set3(X, a);
                E3 &src = al ? X : A;
                if (op == "neg") Goldilocks3::neg(dst, src);
                else if (op == "square") Goldilocks3::square(dst, src);
                else Goldilocks3::inv(dst, src);
                ev(op.c_str(), al ? "out=a" : "none", a, b, 0, dst);
            }
            if (op == "inv")
            {
                Goldilocks3::inv(&R, &A);
                ev("inv", "ptr", a, b, 0, R);
            }
        }
        else if (op == "mulscalar")
        {
            // decimal string in c[7]
            std::string s = c[7];
            Goldilocks3::mulScalar(R, A, s);
            o->begin("c3s");
            o->num("ci", ci);
            o->w64arr("a", a, 3);
            std::string dj = "[";
            bool neg = false;
            size_t i0 = 0;
            if (s[0] == '-') { neg = true; i0 = 1; }
            for (size_t i = i0; i < s.size(); i++) { if (i > i0) dj += ","; dj += std::to_string(s[i] - '0'); }
            dj += "]";
            o->boolean("neg", neg);
            o->raw("d", dj);
            uint64_t rr[3] = {R[0].fe, R[1].fe, R[2].fe};
            o->w64arr("r", rr, 3);
            o->end();
        }
        else if (op == "isone")
        {
            o->begin("isone");
            o->num("ci", ci);
            o->w64arr("a", a, 3);
            o->boolean("r", Goldilocks3::isOne(A));
            o->end();
        }
        else if (op == "conv")
        {
            uint64_t u[3];
            Goldilocks3::toU64(u, A);
            E3 F;
            Goldilocks3::fromU64(F, a);
            int32_t s32[3] = {(int32_t)(uint32_t)b[0], (int32_t)(uint32_t)b[1], (int32_t)(uint32_t)b[2]};
            E3 G;
            Goldilocks3::fromS32(G, s32);
            uint64_t sx[3] = {(uint64_t)(int64_t)s32[0], (uint64_t)(int64_t)s32[1], (uint64_t)(int64_t)s32[2]};
            uint64_t f[3] = {F[0].fe, F[1].fe, F[2].fe}, g[3] = {G[0].fe, G[1].fe, G[2].fe};
            E3 Z, O1;
            Goldilocks3::zero(Z);
            Goldilocks3::one(O1);
            uint64_t z[3] = {Z[0].fe, Z[1].fe, Z[2].fe}, o1[3] = {O1[0].fe, O1[1].fe, O1[2].fe};
            E3 Cp;
            Goldilocks3::copy(Cp, A);
            uint64_t cp[3] = {Cp[0].fe, Cp[1].fe, Cp[2].fe};
            o->begin("conv3");
            o->num("ci", ci);
            o->w64arr("a", a, 3);
            o->w64arr("u", u, 3);
            o->w64arr("f", f, 3);
            o->w64arr("sx", sx, 3);
            o->w64arr("g", g, 3);
            o->w64arr("z", z, 3);
            o->w64arr("o", o1, 3);
            o->w64arr("cp", cp, 3);
            o->end();
        }
        else
        {
            fprintf(stderr, "unknown op %s\n", op.c_str());
            return 2;
        }
    }
    return 0;
    });
}
