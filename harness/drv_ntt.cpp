// C03/C04/C05 (+C19 histories) conformance driver.  Runs transform configurations on the library built from /repo
// and records one event per call.  Cases run in forked batches; a crash (assert -> SIGABRT, SIGSEGV, exit) becomes
// an event of its own and the batch resumes after it.
//
// input file (text):   X <d> <2^d words>        one line per size: the base vector x^(d)
//                      M <k> <k words>          column multipliers m_c
// case line: <id> <call:ntt|intt|ext> <S> <d> <e> <ncols> <nphase> <nblock> <dst:same|other|null> <buf:null|caller> <nthreads>
// history line (C19): H <id> <S> <nthreads> <k> then k call descriptors "call:d:e:ncols:nphase:nblock:dst:buf" (shared object)
#include "ntt_run.hpp"
#include <fcntl.h>

static void cfg_fields(vh::Out &o, const Call &c, int S, int nth)
{
    o.str("call", c.call);
    o.num("S", S);
    o.num("d", c.d);
    o.num("x", c.e);
    o.num("ncols", c.ncols);
    o.num("nphase", c.nphase > 1000000 ? 1000000 : c.nphase);
    o.num("nblock", c.nblock > 1000000 ? 1000000 : c.nblock);
    o.str("dst", c.dst);
    o.str("buf", c.buf);
    o.num("nth", nth);
    o.num("xv", c.xv);
    o.num("env", c.env);
}

static Call parse_call(const std::vector<std::string> &t, size_t i)
{
    Call c;
    c.call = t[i];
    c.d = atoi(t[i + 2].c_str());
    c.e = atoi(t[i + 3].c_str());
    c.ncols = vh::parse_u64(t[i + 4]);
    c.nphase = vh::parse_u64(t[i + 5]);
    c.nblock = vh::parse_u64(t[i + 6]);
    c.dst = t[i + 7];
    c.buf = t[i + 8];
    c.xv = t.size() > i + 10 ? atoi(t[i + 10].c_str()) : 0;
    c.env = t.size() > i + 11 ? atoi(t[i + 11].c_str()) : 0;
    return c;
}
static uint64_t bigval(uint64_t v) { return v == 1000000 ? 0xFFFFFFFFFFFFFFF0ULL : v; }

static void do_case(vh::Out &o, const std::vector<std::string> &t)
{
    if (t[0] == "H")
    {
        // history on a shared object, each call also on a fresh object
        long long id = atoll(t[1].c_str());
        int S = atoi(t[2].c_str()), nth = atoi(t[3].c_str()), k = atoi(t[4].c_str());
        NTT_Goldilocks shared(1ULL << S, nth);
        for (int i = 0; i < k; i++)
        {
            // descriptor call:d:e:ncols:nphase:nblock:dst:buf
            std::vector<std::string> f;
            std::stringstream ss(t[5 + i]);
            std::string part;
            while (std::getline(ss, part, ':'))
                f.push_back(part);
            Call c;
            c.call = f[0];
            c.d = atoi(f[1].c_str());
            c.e = atoi(f[2].c_str());
            c.ncols = vh::parse_u64(f[3]);
            c.nphase = bigval(vh::parse_u64(f[4]));
            c.nblock = bigval(vh::parse_u64(f[5]));
            c.dst = f[6];
            c.buf = f[7];
            c.xv = f.size() > 8 ? atoi(f[8].c_str()) : 0;
            c.env = f.size() > 9 ? atoi(f[9].c_str()) : 0;
            Result rs = run_call(shared, c);
            NTT_Goldilocks fresh(1ULL << S, nth);
            Result rf = run_call(fresh, c);
            o.begin("hist");
            o.num("ci", id);
            o.num("step", i + 1);
            o.num("of", k);
            cfg_fields(o, c, S, nth);
            o.w64arr("out", rs.out.data(), rs.out.size());
            o.w64arr("fresh", rf.out.data(), rf.out.size());
            o.boolean("src_same", rs.src_same && rf.src_same);
            o.boolean("slack_ok", rs.slack_ok && rf.slack_ok);
            o.end();
            o.flush();
        }
        return;
    }
    if (t[0] == "S")
    {
        // sampled rows of a large transform: S <id> <call> <S> <d> <e> <ncols> <nphase> <nblock> <dst> <buf> <nth>
        long long id = atoll(t[1].c_str());
        int S = atoi(t[3].c_str());
        int nth = atoi(t[11].c_str());
        Call c = parse_call(t, 2);
        c.nphase = bigval(c.nphase);
        c.nblock = bigval(c.nblock);
        NTT_Goldilocks obj(1ULL << S, nth);
        Result r = run_call(obj, c);
        int dd = c.d + (c.call == "ext" ? c.e : 0);
        const std::vector<uint64_t> &K = Krows[dd];
        std::vector<uint64_t> rows;
        for (uint64_t k : K)
            for (uint64_t col = 0; col < c.ncols; col++)
                rows.push_back(r.out[k * c.ncols + col]);
        // everything else is summarised by a digest so that a second run can be compared bit for bit
        uint64_t h = 0xcbf29ce484222325ULL;
        for (uint64_t x : r.out)
        {
            h ^= (x >= vh::PRIME ? x - vh::PRIME : x); // canonical value: configurations may legitimately differ in representation
            h *= 0x100000001b3ULL;
        }
        o.begin("trs");
        o.num("ci", id);
        cfg_fields(o, c, S, nth);
        o.w64arr("out", rows.data(), rows.size());
        o.w64("canon_digest", h);
        o.boolean("src_same", r.src_same);
        o.boolean("slack_ok", r.slack_ok);
        o.end();
        return;
    }
    long long id = atoll(t[0].c_str());
    int S = atoi(t[2].c_str());
    int nth = atoi(t[10].c_str());
    Call c = parse_call(t, 1);
    c.nphase = bigval(c.nphase);
    c.nblock = bigval(c.nblock);
    NTT_Goldilocks obj(1ULL << S, nth);
    Result r = run_call(obj, c);
    o.begin("tr");
    o.num("ci", id);
    cfg_fields(o, c, S, nth);
    o.w64arr("out", r.out.data(), r.out.size());
    o.boolean("src_same", r.src_same);
    o.boolean("slack_ok", r.slack_ok);
    o.end();
    o.flush();
}

int main(int argc, char **argv)
{
    if (argc < 4)
    {
        fprintf(stderr, "usage: drv_ntt inputs cases out.ndjson\n");
        return 2;
    }
    load_inputs(argv[1]);
    auto cases = vh::read_cases(argv[2]);
    {
        // log the input matrices the calls will use: one "input" event per size, all column multipliers
        vh::Out o(argv[3]);
        for (auto &kv : X)
            for (size_t v = 0; v < kv.second.size(); v++)
            {
                uint64_t n = kv.second[v].size();
                std::vector<uint64_t> cells;
                for (uint64_t j = 0; j < n; j++)
                    for (uint64_t c = 0; c < Mc.size(); c++)
                        cells.push_back(cell(kv.first, (int)v, j, c));
                o.begin("input");
                o.num("ci", 0);
                o.num("d", kv.first);
                o.num("xv", (long long)v);
                o.num("ncols", Mc.size());
                o.w64arr("cells", cells.data(), cells.size());
                o.end();
            }
    }
    size_t i = 0;
    while (i < cases.size())
    {
        int fd[2];
        if (pipe(fd) != 0)
            return 3;
        fflush(nullptr);
        pid_t pid = fork();
        if (pid == 0)
        {
            close(fd[0]);
            int dn = open("/dev/null", O_WRONLY);
            if (dn >= 0)
                dup2(dn, 2);
            FILE *f = fopen(argv[3], "a");
            vh::Out o2("/dev/null");
            fclose(o2.f);
            o2.f = f;
            for (size_t k = i; k < cases.size(); k++)
            {
                alarm(120);
                do_case(o2, cases[k]);
                fflush(f);
                char b = 1;
                if (write(fd[1], &b, 1) != 1)
                    _exit(9);
            }
            fflush(f);
            _exit(0);
        }
        close(fd[1]);
        size_t done = 0;
        char b;
        while (read(fd[0], &b, 1) == 1)
            done++;
        close(fd[0]);
        int st = 0;
        waitpid(pid, &st, 0);
        i += done;
        if (i < cases.size())
        {
            // the child died while executing case i
            vh::Out o(("/dev/null"));
            fclose(o.f);
            o.f = fopen(argv[3], "a");
            const auto &t = cases[i];
            o.begin("crash");
            o.num("ci", atoll(t[(t[0] == "H" || t[0] == "S") ? 1 : 0].c_str()));
            std::string line;
            for (auto &s : t)
                line += s + " ";
            o.str("case", line);
            if (WIFSIGNALED(st))
            {
                o.str("kind", "signal");
                o.num("code", WTERMSIG(st));
            }
            else
            {
                o.str("kind", "exit");
                o.num("code", WEXITSTATUS(st));
            }
            o.end();
            i++;
        }
    }
    return 0;
}
