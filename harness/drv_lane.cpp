// C02 / C11 / C13 / C14 conformance driver: lane kernels and 12-wide matrix kernels of the AVX2 / AVX512 headers.
// case lines:
//   lane <kernel> <L pairs a b>            L = 4 (avx2 kernels) or 8 (avx512 kernels): per-lane operands
//   mat <kernel> <ns> <state words> <nm> <coefficient words>
// events: {"e":"lane","k":..,"a":[L],"b":[L],"r":[L],"r2":[L]}   {"e":"mat","k":..,"s":[..],"m":[..],"r":[..]}
#include "goldilocks_base_field.hpp"
#include "vh.hpp"
#include <map>
#include <fcntl.h>
typedef Goldilocks::Element E;

static void do_lane(vh::Out &o, long long ci, const std::vector<std::string> &t)
{
    const std::string &k = t[1];
    // aliasing mode of the register arguments: n = three distinct registers, ca = output register is operand a,
    // cb = output register is operand b, all = one register for everything (b := a)
    std::string al = t[0].size() > 5 ? t[0].substr(5) : "n";
    bool is512 = k.find("512") != std::string::npos;
    int L = is512 ? 8 : 4;
    alignas(64) uint64_t a[8] = {0}, b[8] = {0}, r[8] = {0}, r2[8] = {0};
    for (int i = 0; i < L; i++)
    {
        a[i] = vh::parse_u64(t[2 + 2 * i]);
        b[i] = vh::parse_u64(t[3 + 2 * i]);
    }
    if (al == "all")
        for (int i = 0; i < L; i++)
            b[i] = a[i];
    bool two = false;
    if (!is512)
    {
        __m256i A, B, R, R2 = _mm256_setzero_si256();
        // operands go through the library's own load (unaligned source on purpose: &a[0] is aligned, use set_avx for variety)
        if (ci % 2)
        {
            Goldilocks::load_avx(A, (E *)a);
            Goldilocks::load_avx_a(B, (E *)b);
        }
        else
        {
            Goldilocks::set_avx(A, E{a[0]}, E{a[1]}, E{a[2]}, E{a[3]});
            Goldilocks::load_avx(B, (E *)b);
        }
#define BIN2(FN)                                  \
    do                                            \
    {                                             \
        if (al == "ca") { FN(A, A, B); R = A; }   \
        else if (al == "cb") { FN(B, A, B); R = B; } \
        else if (al == "all") { FN(A, A, A); R = A; } \
        else FN(R, A, B);                         \
    } while (0)
#define UN2(FN)                                  \
    do                                           \
    {                                            \
        if (al == "ca" || al == "all") { FN(A, A); R = A; } \
        else FN(R, A);                           \
    } while (0)
        if (k == "toCanonical_avx") UN2(Goldilocks::toCanonical_avx);
        else if (k == "toCanonical_avx_s") UN2(Goldilocks::toCanonical_avx_s);
        else if (k == "shift_avx") UN2(Goldilocks::shift_avx);
        else if (k == "add_avx") BIN2(Goldilocks::add_avx);
        else if (k == "add_avx_a_sc") BIN2(Goldilocks::add_avx_a_sc);
        else if (k == "add_avx_s_b_small") BIN2(Goldilocks::add_avx_s_b_small);
        else if (k == "add_avx_b_small") BIN2(Goldilocks::add_avx_b_small);
        else if (k == "sub_avx") BIN2(Goldilocks::sub_avx);
        else if (k == "sub_avx_s_b_small") BIN2(Goldilocks::sub_avx_s_b_small);
        else if (k == "mult_avx") BIN2(Goldilocks::mult_avx);
        else if (k == "mult_avx_8") BIN2(Goldilocks::mult_avx_8);
        else if (k == "mult_avx_128") { Goldilocks::mult_avx_128(R, R2, A, B); two = true; }
        else if (k == "mult_avx_72") { Goldilocks::mult_avx_72(R, R2, A, B); two = true; }
        else if (k == "reduce_avx_128_64") BIN2(Goldilocks::reduce_avx_128_64);
        else if (k == "reduce_avx_96_64") BIN2(Goldilocks::reduce_avx_96_64);
        else if (k == "square_avx") UN2(Goldilocks::square_avx);
        else if (k == "square_avx_128") { Goldilocks::square_avx_128(R, R2, A); two = true; }
        else { fprintf(stderr, "unknown kernel %s\n", k.c_str()); exit(2); }
        if (ci % 2)
            Goldilocks::store_avx((E *)r, R);
        else
            Goldilocks::store_avx_a((E *)r, R);
        Goldilocks::store_avx((E *)r2, R2);
    }
#ifdef __AVX512__
    else
    {
        __m512i A, B, R, R2 = _mm512_setzero_si512();
        if (ci % 2)
        {
            Goldilocks::load_avx512(A, (E *)a);
            Goldilocks::load_avx512_a(B, (E *)b);
        }
        else
        {
            Goldilocks::load_avx512_a(A, (E *)a);
            Goldilocks::load_avx512(B, (E *)b);
        }
        if (k == "toCanonical_avx512") UN2(Goldilocks::toCanonical_avx512);
        else if (k == "add_avx512") BIN2(Goldilocks::add_avx512);
        else if (k == "add_avx512_b_c") BIN2(Goldilocks::add_avx512_b_c);
        else if (k == "sub_avx512") BIN2(Goldilocks::sub_avx512);
        else if (k == "sub_avx512_b_c") BIN2(Goldilocks::sub_avx512_b_c);
        else if (k == "mult_avx512") BIN2(Goldilocks::mult_avx512);
        else if (k == "mult_avx512_8") BIN2(Goldilocks::mult_avx512_8);
        else if (k == "mult_avx512_128") { Goldilocks::mult_avx512_128(R, R2, A, B); two = true; }
        else if (k == "mult_avx512_72") { Goldilocks::mult_avx512_72(R, R2, A, B); two = true; }
        else if (k == "reduce_avx512_128_64") BIN2(Goldilocks::reduce_avx512_128_64);
        else if (k == "reduce_avx512_96_64") BIN2(Goldilocks::reduce_avx512_96_64);
        else if (k == "square_avx512") UN2(Goldilocks::square_avx512);
        else if (k == "square_avx512_128") { Goldilocks::square_avx512_128(R, R2, A); two = true; }
        else { fprintf(stderr, "unknown kernel %s\n", k.c_str()); exit(2); }
        if (ci % 2)
            Goldilocks::store_avx512((E *)r, R);
        else
            Goldilocks::store_avx512_a((E *)r, R);
        Goldilocks::store_avx512((E *)r2, R2);
    }
#else
    else
        return;
#endif
    o.begin("lane");
    o.num("ci", ci);
    o.str("k", k);
    o.str("al", al);
    o.w64arr("a", a, L);
    o.w64arr("b", b, L);
    o.w64arr("r", r, L);
    if (two)
        o.w64arr("r2", r2, L);
    o.end();
}

static void do_mat(vh::Out &o, long long ci, const std::vector<std::string> &t)
{
    const std::string &k = t[1];
    // the output register is one of the state registers: @ca first, @c1 second, @c2 third
    std::string tag = t[0].size() > 4 ? t[0].substr(4) : "";
    int al = tag == "ca" ? 1 : (tag == "c1" ? 2 : (tag == "c2" ? 3 : 0));
    bool inplace = al != 0;
    bool is512 = k.find("512") != std::string::npos;
    size_t ns = atoi(t[2].c_str());
    alignas(64) uint64_t s[24] = {0};
    for (size_t i = 0; i < ns; i++)
        s[i] = vh::parse_u64(t[3 + i]);
    size_t nm = atoi(t[3 + ns].c_str());
    // coefficient array: an exact-extent buffer that ends at an inaccessible page (32-byte aligned start: nm*8 is a multiple
    // of 32) or a deliberately misaligned (8 mod 32) one; always for the _a variants the former.  Both are PERSISTENT
    // (one per size, rewritten in place for every call) and consecutive calls use the same one twice in a row, so that
    // anything a kernel remembers about "the matrix at this address" meets new contents at the old address.
    static std::map<size_t, vh::GBuf> exact_bufs;
    static std::vector<uint64_t> store(160);
    bool aligned = k.size() > 2 && k.substr(k.size() - 2) == "_a";
    uint64_t *base = store.data();
    while (((uintptr_t)base) % 32 != 0)
        base++;
    bool exact = aligned || ((ci / 2) % 2 == 0);
    if (exact && !exact_bufs.count(nm))
        exact_bufs[nm] = vh::galloc(nm, 0);
    uint64_t *m = exact ? exact_bufs[nm].p : base + 1;
    for (size_t i = 0; i < nm; i++)
        m[i] = vh::parse_u64(t[4 + ns + i]);
    alignas(64) uint64_t r[24] = {0};
    size_t nr = 0;
    if (!is512)
    {
        __m256i a0, a1, a2, c;
        Goldilocks::load_avx(a0, (E *)&s[0]);
        Goldilocks::load_avx(a1, (E *)&s[4]);
        Goldilocks::load_avx(a2, (E *)&s[8]);
        if (k == "dot_avx") { r[0] = Goldilocks::dot_avx(a0, a1, a2, (E *)m).fe; nr = 1; }
        else if (k == "dot_avx_a") { r[0] = Goldilocks::dot_avx_a(a0, a1, a2, (E *)m).fe; nr = 1; }
        else if (k == "spmv_avx_4x12") { { auto &dst = al == 1 ? a0 : (al == 2 ? a1 : (al == 3 ? a2 : c)); Goldilocks::spmv_avx_4x12(dst, a0, a1, a2, (E *)m); c = dst; } Goldilocks::store_avx((E *)r, c); nr = 4; }
        else if (k == "spmv_avx_4x12_a") { { auto &dst = al == 1 ? a0 : (al == 2 ? a1 : (al == 3 ? a2 : c)); Goldilocks::spmv_avx_4x12_a(dst, a0, a1, a2, (E *)m); c = dst; } Goldilocks::store_avx((E *)r, c); nr = 4; }
        else if (k == "spmv_avx_4x12_8") { { auto &dst = al == 1 ? a0 : (al == 2 ? a1 : (al == 3 ? a2 : c)); Goldilocks::spmv_avx_4x12_8(dst, a0, a1, a2, (E *)m); c = dst; } Goldilocks::store_avx((E *)r, c); nr = 4; }
        else if (k == "mmult_avx_4x12") { { auto &dst = al == 1 ? a0 : (al == 2 ? a1 : (al == 3 ? a2 : c)); Goldilocks::mmult_avx_4x12(dst, a0, a1, a2, (E *)m); c = dst; } Goldilocks::store_avx((E *)r, c); nr = 4; }
        else if (k == "mmult_avx_4x12_a") { { auto &dst = al == 1 ? a0 : (al == 2 ? a1 : (al == 3 ? a2 : c)); Goldilocks::mmult_avx_4x12_a(dst, a0, a1, a2, (E *)m); c = dst; } Goldilocks::store_avx((E *)r, c); nr = 4; }
        else if (k == "mmult_avx_4x12_8") { { auto &dst = al == 1 ? a0 : (al == 2 ? a1 : (al == 3 ? a2 : c)); Goldilocks::mmult_avx_4x12_8(dst, a0, a1, a2, (E *)m); c = dst; } Goldilocks::store_avx((E *)r, c); nr = 4; }
        else if (k == "mmult_avx" || k == "mmult_avx_a" || k == "mmult_avx_8")
        {
            if (k == "mmult_avx") Goldilocks::mmult_avx(a0, a1, a2, (E *)m);
            else if (k == "mmult_avx_a") Goldilocks::mmult_avx_a(a0, a1, a2, (E *)m);
            else Goldilocks::mmult_avx_8(a0, a1, a2, (E *)m);
            Goldilocks::store_avx((E *)&r[0], a0);
            Goldilocks::store_avx((E *)&r[4], a1);
            Goldilocks::store_avx((E *)&r[8], a2);
            nr = 12;
        }
        else { fprintf(stderr, "unknown kernel %s\n", k.c_str()); exit(2); }
    }
#ifdef __AVX512__
    else
    {
        __m512i a0, a1, a2, c;
        Goldilocks::load_avx512(a0, (E *)&s[0]);
        Goldilocks::load_avx512(a1, (E *)&s[8]);
        Goldilocks::load_avx512(a2, (E *)&s[16]);
        if (k == "dot_avx512") { E d[2]; Goldilocks::dot_avx512(d, a0, a1, a2, (E *)m); r[0] = d[0].fe; r[1] = d[1].fe; nr = 2; }
        else if (k == "spmv_avx512_4x12") { { auto &dst = al == 1 ? a0 : (al == 2 ? a1 : (al == 3 ? a2 : c)); Goldilocks::spmv_avx512_4x12(dst, a0, a1, a2, (E *)m); c = dst; } Goldilocks::store_avx512((E *)r, c); nr = 8; }
        else if (k == "spmv_avx512_4x12_8") { { auto &dst = al == 1 ? a0 : (al == 2 ? a1 : (al == 3 ? a2 : c)); Goldilocks::spmv_avx512_4x12_8(dst, a0, a1, a2, (E *)m); c = dst; } Goldilocks::store_avx512((E *)r, c); nr = 8; }
        else if (k == "mmult_avx512_4x12") { { auto &dst = al == 1 ? a0 : (al == 2 ? a1 : (al == 3 ? a2 : c)); Goldilocks::mmult_avx512_4x12(dst, a0, a1, a2, (E *)m); c = dst; } Goldilocks::store_avx512((E *)r, c); nr = 8; }
        else if (k == "mmult_avx512_4x12_8") { { auto &dst = al == 1 ? a0 : (al == 2 ? a1 : (al == 3 ? a2 : c)); Goldilocks::mmult_avx512_4x12_8(dst, a0, a1, a2, (E *)m); c = dst; } Goldilocks::store_avx512((E *)r, c); nr = 8; }
        else if (k == "mmult_avx512" || k == "mmult_avx512_8")
        {
            if (k == "mmult_avx512") Goldilocks::mmult_avx512(a0, a1, a2, (E *)m);
            else Goldilocks::mmult_avx512_8(a0, a1, a2, (E *)m);
            Goldilocks::store_avx512((E *)&r[0], a0);
            Goldilocks::store_avx512((E *)&r[8], a1);
            Goldilocks::store_avx512((E *)&r[16], a2);
            nr = 24;
        }
        else { fprintf(stderr, "unknown kernel %s\n", k.c_str()); exit(2); }
    }
#else
    else
        return;
#endif
    o.begin("mat");
    o.num("ci", ci);
    o.str("k", k);
    o.boolean("inplace", inplace);
    o.num("al", al);
    o.w64arr("s", s, ns);
    o.w64arr("m", m, nm);
    o.w64arr("r", r, nr);
    o.end();
}

int main(int argc, char **argv)
{
    if (argc < 3)
        return 2;
    auto cases = vh::read_cases(argv[1]);
    vh::Out o(argv[2]);
    long long ci = 0;
    for (auto &t : cases)
    {
        ci++;
        if (t[0].compare(0, 4, "lane") == 0)
            do_lane(o, ci, t);
        else if (t[0].compare(0, 3, "mat") == 0)
            do_mat(o, ci, t);
    }
    return 0;
}
