// C10 conformance driver: inv / div / exp. Zero-class operands of inv run in a forked child (the library ends the process).
#include "goldilocks_base_field.hpp"
#include "vh.hpp"
#include <fcntl.h>
typedef Goldilocks::Element E;
int main(int argc, char **argv)
{
    if (argc < 3)
        return 2;
    auto cases = vh::read_cases(argv[1]);
    vh::Out o(argv[2]);
    long long ci = 0;
    for (auto &c : cases)
    {
        ci++;
        const std::string &op = c[0];
        if (op == "conc")
        {
            // conc <nthreads> <seed> : in a FRESH process (forked child whose first library calls these are) n plain threads
            // invert / divide at the same time; every returned value comes back through a pipe and is logged as an ordinary event
            int n = atoi(c[1].c_str());
            uint64_t seed = vh::parse_u64(c[2]);
            if (n < 1 || n > 32)
                n = 8;
            const int per = 6;
            std::vector<uint64_t> as((size_t)n * per), bs((size_t)n * per), rs((size_t)n * per, 0);
            {
                vh::Rng r(seed);
                for (size_t i = 0; i < as.size(); i++)
                {
                    uint64_t w = r.word();
                    as[i] = (i % 3 == 0) ? 1 + (w % 0xFFFF) : ((i % 3 == 1) ? 1 + (w % 0xFFFFFFFFULL) : w); // small, medium, any
                    if (as[i] == 0 || as[i] == vh::PRIME)
                        as[i] = 7;
                    bs[i] = r.word();
                }
            }
            int fd[2];
            if (pipe(fd) != 0)
                return 3;
            auto end = vh::in_child([&]() {
                vh::concurrently(n, [&](int tid) {
                    for (int k = 0; k < per; k++)
                    {
                        size_t i = (size_t)tid * per + k;
                        E r = (k % 2) ? Goldilocks::div(E{bs[i]}, E{as[i]}) : Goldilocks::inv(E{as[i]});
                        rs[i] = r.fe;
                    }
                });
                if (write(fd[1], rs.data(), rs.size() * 8) != (ssize_t)(rs.size() * 8))
                    _exit(9);
            });
            close(fd[1]);
            bool returned = read(fd[0], rs.data(), rs.size() * 8) == (ssize_t)(rs.size() * 8);
            close(fd[0]);
            if (!returned)
            {
                o.begin("ended");
                o.num("ci", ci);
                o.str("op", "conc");
                o.str("form", "child");
                o.w64("a", as[0]);
                o.w64("b", 0);
                o.str("kind", end.kind);
                o.num("code", end.code);
                o.end();
                continue;
            }
            for (size_t i = 0; i < as.size(); i++)
            {
                bool isdiv = (i % per) % 2;
                o.begin(isdiv ? "div" : "inv");
                o.num("ci", ci);
                o.str("op", isdiv ? "div" : "inv");
                o.str("form", "concurrent");
                o.w64("a", isdiv ? bs[i] : as[i]);
                o.w64("b", isdiv ? as[i] : 0);
                o.w64("r", rs[i]);
                o.end();
            }
            continue;
        }
        if (op == "chain")
        {
            // chain <inv|div|rdiv|exp> <k> <a> <b> : x = a; k times x = inv(x) / x / b / b / x / x^b, the result object being the
            // operand it replaces; every step is an ordinary event on the value the step started from
            const std::string &f = c[1];
            int k = atoi(c[2].c_str());
            uint64_t bb = c.size() > 4 ? vh::parse_u64(c[4]) : 0;
            E x{vh::parse_u64(c[3])};
            for (int s = 0; s < k; s++)
            {
                uint64_t before = x.fe;
                if (x.fe == 0 || x.fe == vh::PRIME)
                    break;
                if (f == "inv") Goldilocks::inv(x, x);
                else if (f == "div") Goldilocks::div(x, x, E{bb});
                else if (f == "rdiv") Goldilocks::div(x, E{bb}, x);
                else Goldilocks::exp(x, x, bb);
                const char *name = f == "inv" ? "inv" : (f == "exp" ? "exp" : "div");
                o.begin(name);
                o.num("ci", ci);
                o.str("op", name);
                o.str("form", "chain");
                o.w64("a", f == "rdiv" ? bb : before);
                o.w64("b", f == "rdiv" ? before : bb);
                o.w64("r", x.fe);
                o.end();
            }
            continue;
        }
        uint64_t a = vh::parse_u64(c[1]), b = c.size() > 2 ? vh::parse_u64(c[2]) : 0;
        if (op == "inv" || op == "div")
        {
            uint64_t divisor = op == "inv" ? a : b;
            bool zero_class = (divisor == 0 || divisor == vh::PRIME);
            bool in_child = zero_class || (c.size() > 3 && c[3] == "fork");
            if (in_child)
            {
                // run in a child; the child reports a returned value through a pipe
                int fd[2];
                if (pipe(fd) != 0)
                    return 3;
                auto end = vh::in_child([&]() {
                    int devnull = open("/dev/null", 1);
                    if (devnull >= 0) dup2(devnull, 2);
                    E r = op == "inv" ? Goldilocks::inv(E{a}) : Goldilocks::div(E{a}, E{b});
                    if (write(fd[1], &r.fe, 8) != 8) _exit(9);
                });
                close(fd[1]);
                uint64_t rv = 0;
                bool returned = read(fd[0], &rv, 8) == 8;
                close(fd[0]);
                o.begin(returned ? op.c_str() : "ended");
                o.num("ci", ci);
                o.str("op", op);
                o.str("form", "child");
                o.w64("a", a);
                o.w64("b", b);
                if (returned)
                    o.w64("r", rv);
                o.str("kind", end.kind);
                o.num("code", end.code);
                o.end();
                continue;
            }
            E r1, r2;
            if (op == "inv")
            {
                Goldilocks::inv(r1, E{a});
                r2 = Goldilocks::inv(E{a});
            }
            else
            {
                Goldilocks::div(r1, E{a}, E{b});
                r2 = E{a} / E{b};
            }
            for (int k = 0; k < 2; k++)
            {
                o.begin(op.c_str());
                o.num("ci", ci);
                o.str("op", op);
                o.str("form", k ? "val" : "ref");
                o.w64("a", a);
                o.w64("b", b);
                o.w64("r", k ? r2.fe : r1.fe);
                o.end();
            }
            if (op == "div")
            { // aliasing: the result object is the dividend / the divisor
                E x{a};
                Goldilocks::div(x, x, E{b});
                o.begin("div");
                o.num("ci", ci);
                o.str("op", op);
                o.str("form", "out=a");
                o.w64("a", a);
                o.w64("b", b);
                o.w64("r", x.fe);
                o.end();
                E y{b};
                Goldilocks::div(y, E{a}, y);
                o.begin("div");
                o.num("ci", ci);
                o.str("op", op);
                o.str("form", "out=b");
                o.w64("a", a);
                o.w64("b", b);
                o.w64("r", y.fe);
                o.end();
            }
            if (op == "inv")
            { // aliasing: result is the operand
                E x{a};
                Goldilocks::inv(x, x);
                o.begin("inv");
                o.num("ci", ci);
                o.str("op", op);
                o.str("form", "out=a");
                o.w64("a", a);
                o.w64("b", b);
                o.w64("r", x.fe);
                o.end();
            }
        }
        else if (op == "exp")
        {
            E r1;
            Goldilocks::exp(r1, E{a}, b);
            E r2 = Goldilocks::exp(E{a}, b);
            for (int k = 0; k < 2; k++)
            {
                o.begin("exp");
                o.num("ci", ci);
                o.str("op", op);
                o.str("form", k ? "val" : "ref");
                o.w64("a", a);
                o.w64("b", b);
                o.w64("r", k ? r2.fe : r1.fe);
                o.end();
            }
        }
        else
            return 2;
    }
    return 0;
}
