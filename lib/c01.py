"""C01 — scalar field ops exact mod p on every 64-bit representation.
Model: GL + ScalarAsm_gen (generated from the asm of the current tree) + ScalarOps.
 (a) TLC exhaustive over all word pairs at W in {2,3,4} (quick) and 5 (thorough)
 (b) Apalache at W = 32: all 2^128 pairs for the linear chains, all (hi,lo) for the mul reduction
 (c) replay: corner family (path-complete at W=4 per MC_ScalarSig), model counterexamples lifted to 64 bit,
     seeded random in all representations, through every call form / alias pattern of the real library;
     every recorded call validated by TLC (Trace_Scalar over W64)."""
import os, sys, json, time, subprocess
from concurrent.futures import ThreadPoolExecutor
import vlib
from vlib import Check, tlc, apalache, workdir, build_driver, validate_trace, sh, log

HALVES = [0, 1, 2, 3, 0x7FFFFFFF, 0x80000000, 0x80000001, 0xFFFFFFFC, 0xFFFFFFFD, 0xFFFFFFFE, 0xFFFFFFFF]
BIN = ['add', 'sub', 'mul']
UN = ['square', 'neg', 'inc', 'dec']


def lift(v, W):
    """lift a 2W-bit model word to a 64-bit word, digit-wise (halves near Phi stay near 2^32)."""
    phi = 1 << W
    def l(h):
        return h if h < phi // 2 else (1 << 32) - (phi - h)
    return (l(v >> W) << 32) | l(v & (phi - 1))


def gen_model(wd):
    import asm2tla
    try:
        text, info = asm2tla.generate(os.path.join(vlib.REPO, 'src'))
        open(os.path.join(wd, 'ScalarAsm_gen.tla'), 'w').write(text)
        return True, None
    except asm2tla.ParseError as e:
        return False, str(e)


def model_phase(ck, wd, tier):
    """TLC + Apalache on the generated model. Returns list of lead cases (op,a,b)."""
    leads = []
    widths = [2, 3, 4] if tier == 'quick' else [2, 3, 4, 5, 6]
    for W in widths:
        cfg = 'MC_Scalar_W%d.cfg' % W
        open(os.path.join(wd, cfg), 'w').write(open(os.path.join(wd, 'MC_Scalar.cfg')).read().replace('Phi = 16', 'Phi = %d' % (1 << W)))
        r = tlc(wd, 'MC_Scalar', cfg, timeout=1800, xmx='16g', tag='W%d' % W)
        ck.add_tlc(r, 'MC_Scalar W=%d (all %d word pairs, 8 ops)' % (W, 1 << (4 * W)))
        if r.violated:
            import re
            m = re.search(r'/\\ a = (\d+)\s*\n/\\ b = (\d+)', r.out) or re.search(r'a = (\d+)[\s\S]*?b = (\d+)', r.out)
            if m:
                a, b = int(m.group(1)), int(m.group(2))
                ck.note('model-level lead: MC_Scalar W=%d violates %s at a=%d b=%d; lifted to 64 bit and replayed' % (W, r.violated, a, b))
                for op in BIN + ['mulScalar']:
                    leads.append((op, lift(a, W), lift(b, W)))
                    leads.append((op, lift(b, W), lift(a, W)))
                for op in UN:
                    leads.append((op, lift(a, W), 0))
        elif not r.ok:
            ck.note('MC_Scalar W=%d did not complete: %s' % (W, (r.error or 'rc=%s' % r.rc)))
    # path-signature coverage of the corner family at W=4
    r = tlc(wd, 'MC_ScalarSig', 'MC_ScalarSig.cfg', timeout=600, workers=4)
    ck.add_tlc(r, 'MC_ScalarSig W=4: corner family reaches every path signature')
    ck.cov['corner_family_path_complete_W4'] = bool(r.ok)
    # Apalache, full width
    invs = ['InvAdd', 'InvSub', 'InvNeg', 'InvInc', 'InvDec', 'InvToU', 'InvEq', 'InvMulRedAll']
    def one(inv):
        return inv, apalache(wd, 'Apa_Scalar', inv, timeout=(240 if tier == 'quick' else 900))
    with ThreadPoolExecutor(max_workers=8) as ex:
        for inv, res in ex.map(one, invs):
            ck.add_symbolic('W=32 %s (all inputs)' % inv, res)
            if res.status == 'violated' and res.cex:
                a, b = res.cex.get('a'), res.cex.get('b')
                ck.note('model-level lead: Apalache W=32 %s counterexample a=%s b=%s; replayed on the library' % (inv, a, b))
                if inv == 'InvMulRedAll':
                    continue   # (hi,lo) pair: not directly an operand pair
                for op in BIN + ['mulScalar']:
                    leads.append((op, a, b)); leads.append((op, b, a))
                for op in UN:
                    leads.append((op, a, 0)); leads.append((op, b, 0))
                leads.append(('equal', a, b))
    return leads


def gen_cases(seed, tier, leads):
    rng = vlib.Rng(seed)
    words = [(h1 << 32) | h0 for h1 in HALVES for h0 in HALVES]
    words += [vlib.P - 2, vlib.P - 1, vlib.P, vlib.P + 1, vlib.P + 2, 2**63 - 1, 2**63, 2**63 + 1]
    words = sorted(set(words))
    cases = []
    for op, a, b in leads:
        cases.append((op, a, b, 1))
    nall = 0
    for a in words:
        for b in words:
            allf = 1 if (nall % 13 == 0) else 0
            nall += 1
            for op in BIN:
                cases.append((op, a, b, allf))
            if nall % 5 == 0:
                cases.append(('mulScalar', a, b, allf))
                cases.append(('equal', a, b, 0))
        for op in UN:
            cases.append((op, a, 0, 1))
    # words around p with every small delta, and the inc/dec thresholds
    for d in range(-6, 7):
        for base in (0, vlib.P, 2**64, 2**32, 2**63):
            x = (base + d) % 2**64
            for op in UN:
                cases.append((op, x, 0, 1))
            cases.append(('equal', x, (x + vlib.P) % 2**64, 0))
            cases.append(('equal', x, (x - vlib.P) % 2**64, 0))
    nrand = 3000 if tier == 'quick' else 40000
    for i in range(nrand):
        a, b = rng.word(), rng.word()
        op = (BIN + ['mulScalar'])[i % 4]
        cases.append((op, a, b, 1 if i % 4 == 0 else 0))
        if i % 10 == 0:
            cases.append((UN[(i // 10) % 4], a, 0, 1))
            cases.append(('equal', a, b, 0))
    # collision sequences: consecutive calls of one operation whose operands agree under the keys a remembering
    # implementation might use (low half, high half, residue class, xor / sum of halves): nothing may survive a call
    M = 2**64
    def colliders(w):
        lo, hi = w & 0xFFFFFFFF, w >> 32
        out = [lo, hi << 32, hi, (lo << 32) | hi, (w + vlib.P) % M if w + vlib.P < M else (w - vlib.P) % M if w >= vlib.P else w ^ (1 << 63),
               w ^ (1 << 32), (w + (1 << 32)) % M, ((hi ^ lo) << 32), (hi + lo) % M, w ^ 1, w]
        return out
    bases = [0x100000005, vlib.P, 2**32, M - 1, 0xFFFFFFFF00000005, 0x8000000080000000] + [rng.word() | (1 << 40) for _ in range(6 if tier == 'quick' else 60)]
    for w in bases:
        fixed = rng.word()
        for op in BIN + ['mulScalar']:
            for c in colliders(w):
                cases.append((op, fixed, w, 0)); cases.append((op, fixed, c, 0))      # second operand / scalar collides with the previous one
                cases.append((op, w, fixed, 0)); cases.append((op, c, fixed, 0))      # first operand collides
        for op in UN:
            for c in colliders(w):
                cases.append((op, w, 0, 0)); cases.append((op, c, 0, 0))
    return cases


def write_cases(path, cases):
    with open(path, 'w') as f:
        for op, a, b, allf in cases:
            f.write('%s 0x%x 0x%x %d\n' % (op, a, b, allf))


def run(tier, seed, replay=None):
    ck = Check('C01', tier, seed)
    wd = workdir('C01')
    ck.assumptions += ['x86-64 `mul` (64x64->128) instruction semantics trusted; its (hi,lo) result is universally quantified at W=32',
                       'reduced-width models share the generated operator text with the W=32 model (uniform in Phi)',
                       'replay executes the library compiled from /repo with -O2 -mavx2 (gcc)']
    leads = []
    if replay:
        j = json.load(open(replay))
        cases = [tuple(c) for c in j['case']['cases']]
    else:
        ok, err = gen_model(wd)
        if ok:
            leads = model_phase(ck, wd, tier)
        else:
            ck.note('model not derived from current source (asm2tla: %s); replay families still run' % err)
        cases = gen_cases(seed, tier, leads)
    exe = build_driver('drv_scalar')
    cpath = os.path.join(wd, 'cases.txt'); tpath = os.path.join(wd, 'trace.ndjson')
    write_cases(cpath, cases)
    r = sh([exe, cpath, tpath], timeout=600)
    if r.returncode != 0:
        ck.violation('driver-crash rc=%d' % r.returncode, 'scalar driver ended abnormally: %s' % r.stderr[-300:], dict(cases=cases[:50]))
        return ck.finish()
    v = validate_trace(wd, 'Trace_Scalar', 'Trace_Scalar.cfg', tpath)
    ck.add_validation(v, 'scalar calls (%d cases incl. %d model leads)' % (len(cases), len(leads)))
    ck.sample_trace(tpath)
    for msg in v['infra']:
        ck.note('infrastructure: ' + msg)
    for idx, rec in v['rejected'][:8]:
        ci = rec.get('ci', 1)
        case = cases[ci - 1]
        how = vlib.confirm_case(wd, 'Trace_Scalar', 'Trace_Scalar.cfg', lambda cp, tp: [exe, cp, tp], write_cases, cases, ci)
        if how:
            key = 'op=%s form=%s alias=%s a=0x%x b=0x%x' % (rec.get('op', 'pred'), rec.get('form'), rec.get('alias'), case[1], case[2])
            ck.violation(key + (vlib.HIST if how == 'history' else ''), 'recorded result %s is not the field result' % (rec.get('r') or rec),
                         dict(cases=[list(x) for x in (cases[:ci] if how == 'history' else [case])], event=rec))
        else:
            ck.note('rejection at event %d not reproduced on re-run (neither alone nor after its process history)' % idx)
    if len(v['rejected']) > 8:
        ck.note('%d further rejected records not individually confirmed' % (len(v['rejected']) - 8))
    if not replay and not ck.violations:
        vlib.concurrent_pass(ck, wd, 'Trace_Scalar', 'Trace_Scalar.cfg', lambda cp, tp: [exe, cp, tp], write_cases, cases, 'scalar operations', max_cases=3000)
    ck.cov['cases'] = len(cases)
    ck.cov['exhaustive'] = False
    return ck.finish()
