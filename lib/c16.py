"""C16 — every batched / AVX2 / AVX512 cubic-extension variant equals the scalar operation.
Specification: tools/overloads16.json (ONE table, one row per overload: operation, lanes, operand / result descriptors) ->
spec/Overloads16.tla; spec/Layout16.tla gives the rows their meaning (Addr, Footprint, Extent, Expected = the scalar
extension operation of C09 on the k-th operands).  Model (TLC, MC_Layout16): every row well-formed, footprints inside exact
extents, result cells pairwise distinct, an offset array is addressed like a strided operand exactly when the WHOLE array is
uniform (not when its ends are), two inputs sharing one array fit SharedExtent and satisfy SharedAgree, and over F_13 the A..G formulas of the code (with precomputed challenge sums) and the
mixed base/ext shortcuts equal the definition.  Conformance: tools/gen_layout16.py generates one call site per row (overload
selected by its exact declared signature); harness/layout16/rt16.cpp runs every row >= 96 (quick) / 400 (thorough) times in
exact-extent guard-paged arenas (strides {0,1,2,3,4,5,7,1000,65537} for inputs, {3,4,5,7,1000,65537} for results, permuted /
repeated / overlapping / spaced index lists, coefficients in all representations), twice with different garbage in every
undesignated cell and complementary result pre-fills, in forked batches; every row whose result may be the same object as
an extension operand (planar register triples; interleaved arrays with result pointer == operand pointer and the same
stride / index list) is also called in place (alias a, alias b), expected = Expected on the pre-call operands; every
stride-taking input is also called with strides 2^30, 2^31-1, 2^32+3 in sparse arenas (address range reserved PROT_NONE,
only pages with designated cells accessible); Trace_Layout16 accepts an event iff the driver
addressed the operands as the row says, each result element is congruent to Expected, the changed cells are exactly the
row's write footprint and the re-run agreed; crashes are never accepted.
CALL HISTORIES: every row is also exercised as sequences of 6..12 calls made one after the other in one process and thread on
the SAME objects (operand / result arenas, offset arrays, precomputed sums, register context keep their addresses) whose
contents are overwritten in place between the calls: coordinates of every element (of the broadcast constant) permuted, basis
elements (1,0,0) (0,1,0) (0,0,1), a value with the same xor / the same sum of its three words, one coordinate changed, the
other representation of the same value, small / corner words, lanes reversed, the identical call repeated, offset arrays
permuted in place; also in place (result = operand).  Every call of a history is an ordinary l16 event judged by itself from the
operands as they are at that call (Trace_Layout16 has no state besides the position in the trace), so anything the library
keeps from one call to the next and lets influence a result is a rejection.
OFFSET ARRAY FAMILIES: every per-element offset array (inputs and results) also gets arrays that agree with a packed / uniform
array on a chosen set of lanes only (first and last entry, first half, second half, even, odd, all but one, one, none ...) and
on the others are a permutation / the reverse of the remaining uniform values or far positions (inputs also: equal to the first
entry, shifted by one), descending, rotated, adjacent entries swapped, first = last, all equal; result offsets stay pairwise
disjoint 3-cell slots.  SHARED INPUTS: rows whose two inputs live in memory are also called with a and b being the same array
(same pointer) with equal, nearly equal and unrelated strides / offset arrays (Layout16!SharedExtent, SharedAgree)."""
import os, json, glob, shutil, time
from concurrent.futures import ThreadPoolExecutor
import vlib
from vlib import Check, tlc, workdir, validate_trace, sh
import gen_layout16 as G

P = vlib.P
RT = os.path.join(vlib.HARNESS, 'layout16')
IN_EXT = [3, 4, 7, 1000, 0, 1, 2, 5, 65537]
IN_BASE = [1, 3, 4, 7, 1000, 0, 2, 5, 65537]
OUT_STR = [3, 4, 7, 1000, 5, 65537]


# ------------------------------------------------------------------------------------------------- build
def _compile(flags, src, obj):
    r = sh(['g++'] + flags + ['-I' + os.path.join(vlib.REPO, 'src'), '-I' + vlib.HARNESS, '-I' + RT, '-c', src, '-o', obj], timeout=900)
    return r.returncode == 0, r.stderr[-1500:]


def build(variant, rows, wd, lax=()):
    """-> (exe, rows_in_build, {row id: reason it could not be built}, note or None)
    lax: ids of rows whose declared signature differs from the table's in cv / reference qualifiers only (their call sites
    use plain overload resolution).  If the pinned call sites do not compile, everything is rebuilt with -DLAX_SIG (plain
    overload resolution for every row) before rows are isolated and dropped."""
    flags = vlib.BASEFLAGS + vlib.VARIANTS[variant]
    nparts = 6 if variant == 'avx2' else 3
    gdir = os.path.join(wd, 'gen_' + variant)
    files, vrows = G.gen_cpp(rows, variant, gdir, nparts, lax)
    note = None
    fixed = [os.path.join(RT, 'rt16.cpp'), os.path.join(RT, 'rt16.hpp'), os.path.join(vlib.HARNESS, 'vh.hpp')]
    key = vlib._hash_files(vlib.repo_sources() + fixed + files, ' '.join(flags))
    d = os.path.join(vlib.CACHE, 'build', 'drv_l16_%s_%s' % (variant, key))
    exe = os.path.join(d, 'drv16')
    skipped = {}
    if os.path.exists(exe):
        sk = os.path.join(d, 'skipped.json')
        if os.path.exists(sk):
            j = json.load(open(sk))
            skipped, note = j['skipped'], j['note']
        return exe, [r for r in vrows if r['id'] not in skipped], skipped, note
    os.makedirs(d, exist_ok=True)
    libobjs = vlib.build_lib(variant)
    t0 = time.time()
    srcs = files + [os.path.join(RT, 'rt16.cpp')]
    objs = [os.path.join(d, os.path.basename(s) + '.o') for s in srcs]
    with ThreadPoolExecutor(max_workers=8) as ex:
        res = list(ex.map(lambda so: _compile(flags, so[0], so[1]), zip(srcs, objs)))
    if not all(ok for ok, _ in res):
        if not res[-1][0] or not res[-2][0]:
            raise vlib.BuildError('C16 driver engine does not compile (%s):\n%s' % (variant, res[-1][1] + res[-2][1]))
        # some call site pinned to its declared signature does not compile against this tree: first fall back to plain
        # overload resolution (a signature that changed only in cv / reference qualifiers still takes the same arguments)
        bad = [p for p, (ok, _) in enumerate(res[:-2]) if not ok]
        badrows = [r['id'] for p in bad for r in vrows[p::nparts]]
        vlib.log('C16: %d generated part(s) do not compile (%s); retrying with -DLAX_SIG' % (len(bad), variant))
        with ThreadPoolExecutor(max_workers=8) as ex:
            res = list(ex.map(lambda so: _compile(flags + ['-DLAX_SIG'], so[0], so[1]), zip(srcs, objs)))
        if all(ok for ok, _ in res):
            note = ('%s: call sites pinned to the declared signatures did not compile (parts holding %s); the driver was built with plain '
                    'overload resolution (-DLAX_SIG)' % (variant, ', '.join(badrows)))
    if not all(ok for ok, _ in res):
        # isolate: one row per translation unit (plain overload resolution), rows that still do not compile are dropped
        vlib.log('C16: a generated part does not compile (%s); isolating rows' % variant)
        shutil.rmtree(gdir)
        files, vrows = G.gen_cpp(rows, variant, gdir, len(vrows), lax)
        srcs = files[:-1]
        objs1 = [os.path.join(d, 'row_' + os.path.basename(s) + '.o') for s in srcs]

        def row_compile(so):
            ok, err = _compile(flags, so[0], so[1])
            if ok:
                return True, '', False
            ok2, err2 = _compile(flags + ['-DLAX_SIG'], so[0], so[1])
            return ok2, err2, ok2
        with ThreadPoolExecutor(max_workers=12) as ex:
            res1 = list(ex.map(row_compile, zip(srcs, objs1)))
        laxed = [vrows[p]['id'] for p, t in enumerate(res1) if t[2]]
        note = '%s: rows isolated one per translation unit%s' % (variant, ('; built with plain overload resolution (-DLAX_SIG): ' + ', '.join(laxed)) if laxed else '')
        res1 = [(t[0], t[1]) for t in res1]
        good = []
        for p, (ok, err) in enumerate(res1):
            if ok:
                good.append(p)
            else:
                skipped[vrows[p]['id']] = 'call site does not compile against this tree: ' + ' '.join(err.split())[-300:]
        reg = os.path.join(gdir, 'reg_good.cpp')
        o = ['#include "rt16.hpp"'] + ['void l16_register_%d(std::vector<l16::Row> &t);' % p for p in good]
        o += ['void l16_register_all(std::vector<l16::Row> &t)', '{'] + ['    l16_register_%d(t);' % p for p in good] + ['}']
        open(reg, 'w').write('\n'.join(o) + '\n')
        ok, err = _compile(flags, reg, os.path.join(d, 'reg_good.o'))
        if not ok:
            raise vlib.BuildError('C16 registration unit: ' + err)
        objs = [objs1[p] for p in good] + [os.path.join(d, 'reg_good.o'), objs[-1]]
    r = sh(['g++'] + flags + objs + libobjs + ['-o', exe + '.tmp', '-lgmp', '-lgmpxx'], timeout=900)
    if r.returncode != 0:
        raise vlib.BuildError('C16 driver link failed (%s):\n%s' % (variant, r.stderr[-3000:]))
    json.dump(dict(skipped=skipped, note=note), open(os.path.join(d, 'skipped.json'), 'w'))
    os.rename(exe + '.tmp', exe)
    vlib.log('built C16 driver (%s, %d rows) in %.1fs' % (variant, len(vrows) - len(skipped), time.time() - t0))
    return exe, [r for r in vrows if r['id'] not in skipped], skipped, note


# ------------------------------------------------------------------------------------------------- cases
def perm(rng, xs):
    xs = list(xs)
    for i in range(len(xs) - 1, 0, -1):
        j = rng.below(i + 1)
        xs[i], xs[j] = xs[j], xs[i]
    return xs


def in_index(rng, L, w, j):
    k = j % 6
    if k == 0:
        return perm(rng, [w * t for t in range(L)])                       # the contiguous elements, permuted
    if k == 1:
        return perm(rng, [t * (w + 2) + 1 for t in range(L)])             # spaced, permuted
    if k == 2:
        pool = [0, w, 2 * w + 1]
        return [pool[rng.below(3)] for _ in range(L)]                     # repeated elements
    if k == 3:
        return [rng.below(2 * L) for _ in range(L)]                       # arbitrary, overlapping elements
    if k == 4:
        return [rng.below(5000) for _ in range(L)]                        # far apart
    return [w * t for t in reversed(range(L))]


def out_index(rng, L, j):
    k = j % 4
    if k == 3:
        slots = set()
        while len(slots) < L:
            slots.add(rng.below(2000))
        return perm(rng, [3 * t for t in sorted(slots)])
    g = [3, 4, 6][k]
    off = [0, 1, 5][(j // 4) % 3]
    slots = perm(rng, range(L + 3))[:L]
    return [t * g + off for t in slots]


HUGE = [2**30, 2**31 - 1, 2**32 + 3]      # 3 * stride >= 2^31: 32-bit index arithmetic overflows / truncates


def base_par(rng, r, j):
    L = r['L']
    par = dict(sa=0, sb=0, sc=0, ia=None, ib=None, ic=None)
    for X, sh_ in (('a', 0), ('b', 4)):
        d = r[X]
        w = 3 if d['elem'] == 'ext' else 1
        if d['kind'] == 'stride':
            S = IN_EXT if w == 3 else IN_BASE
            par['s' + X] = S[(j + sh_ * (1 + j // len(S))) % len(S)] if j < 3 * len(S) else S[rng.below(len(S))]
        elif d['kind'] == 'index':
            par['i' + X] = in_index(rng, L, w, j + sh_)
    if r['c']['kind'] == 'stride':
        par['sc'] = OUT_STR[(j // 2) % len(OUT_STR)] if j < 24 else OUT_STR[rng.below(len(OUT_STR))]
    elif r['c']['kind'] == 'index':
        par['ic'] = out_index(rng, L, j)
    return par


def alias_par(rng, r, X, j):
    """in place: operand X is addressed exactly like the result (Layout16!SameCells)"""
    L = r['L']
    par = base_par(rng, r, j)
    ck, xk = r['c']['kind'], r[X]['kind']
    if ck in G.REGK:
        return par
    if xk == 'contig':                       # the operand is fixed at 3k: the result follows
        if ck == 'stride':
            par['sc'] = 3
        elif ck == 'index':
            par['ic'] = [3 * k for k in range(L)]
    elif xk == 'stride':
        if ck == 'contig':
            par['s' + X] = 3
        elif ck == 'stride':
            par['s' + X] = par['sc']
        else:
            st = [3, 4, 7, 1000][j % 4]
            par['ic'] = [k * st for k in range(L)]
            par['s' + X] = st
    else:                                    # index list = the result's element positions
        pos = [3 * k for k in range(L)] if ck == 'contig' else [k * par['sc'] for k in range(L)] if ck == 'stride' else par['ic']
        par['i' + X] = list(pos)
    return par



# ------------------------------------------------------------------------------------------------- offset / index array families
def _uniform(L, st, base):
    return [base + st * k for k in range(L)]


def lane_subsets(L):
    """named sets of lanes on which an offset array AGREES with a packed / uniform array (it deviates on the other lanes)"""
    h = L // 2
    return [('ends', [0, L - 1]), ('first_half', list(range(h))), ('second_half', list(range(h, L))), ('even', list(range(0, L, 2))),
            ('odd', list(range(1, L, 2))), ('none', []), ('first', [0]), ('last', [L - 1]), ('all_but_1', [k for k in range(L) if k != 1]),
            ('all_but_L-2', [k for k in range(L) if k != L - 2]), ('first2', [0, 1]), ('last2', [L - 2, L - 1]), ('ends+1', [0, 1, L - 1])]


def deviate(rng, U, S, mode, w, out):
    """the array that equals U on the lanes S; on the other lanes D:
       perm   the U-values of D permuted among D (not the identity)          rev    ... in reverse order
       sparse distinct positions outside the range of U (above it; below it when there is room), w cells each, never
              overlapping each other or U
       equal  (inputs) the value of the first entry                           shift  (inputs) U + 1 (misaligned, overlapping)
    -> list, or None when the mode does not apply (fewer than two deviating lanes for perm / rev)"""
    L = len(U)
    D = [k for k in range(L) if k not in S]
    v = list(U)
    if not D:
        return None
    if mode in ('perm', 'rev'):
        if len(D) < 2:
            return None
        if mode == 'rev':
            src = list(reversed(D))
        else:
            while True:
                src = perm(rng, D)
                if src != D:
                    break
        for k, q in zip(D, src):
            v[k] = U[q]
    elif mode == 'sparse':
        top = max(U) + w
        g = max(w, 3) + rng.below(3)
        lo_room = min(U) // g          # slots t*g .. t*g+w-1 entirely below min(U)
        ts = perm(rng, range(40))[:len(D)]
        lows = perm(rng, range(lo_room)) if lo_room else []
        for n_, k in enumerate(D):
            if lows and rng.below(3) == 0:
                v[k] = lows.pop() * g
            else:
                v[k] = top + rng.below(3) + g * ts[n_] + (3 if out else 0)
        if out:   # keep the far result slots clear of each other and of U whatever the offsets drawn above
            used = {v[k] for k in S}
            for k in D:
                while any(abs(v[k] - u) < 3 for u in used):
                    v[k] += 3
                used.add(v[k])
    elif mode == 'equal':
        if out:
            return None
        for k in D:
            v[k] = U[0]
        if v == list(U):
            return None
    elif mode == 'shift':
        if out:
            return None
        for k in D:
            v[k] = U[k] + 1
    return v


def _injective(v, w=3):
    return all(abs(x - y) >= w for i, x in enumerate(v) for y in v[i + 1:])


def family_lists(rng, L, w, out, thorough=False):
    """structured offset arrays for one per-element offset parameter (w = 3: extension elements, 1: base-field elements);
    out: result offsets (3-cell slots pairwise disjoint).  -> [(family name, list)]"""
    res = []
    sts = [w, w + 1, 7] if w == 3 else [1, 3, 4]
    bases = [0, 5, 40]
    n = 0
    for name, S in lane_subsets(L):
        modes = ['perm', 'sparse', 'rev']
        if not out and (thorough or name in ('ends', 'first_half', 'second_half', 'none', 'all_but_1', 'last')):
            modes += ['equal', 'shift']
        for mode in modes:
            # the packed reference (st = w) every time, another uniform reference every third time
            combos = [(sts[0], bases[n % 3])] + ([(sts[1 + (n // 3) % 2], bases[(n + 1) % 3])] if n % 3 == 0 else [])
            if thorough:
                combos = [(st, b) for st in sts for b in bases]
            n += 1
            for st, b in combos:
                v = deviate(rng, _uniform(L, st, b), S, mode, w, out)
                if v is not None:
                    res.append(('%s/%s/st%d+%d' % (name, mode, st, b), v))
    for st in sts:
        U = _uniform(L, st, bases[n % 3]); n += 1
        res.append(('descending/st%d' % st, list(reversed(U))))
        r_ = 1 + rng.below(L - 1)
        res.append(('rotated/st%d' % st, U[r_:] + U[:r_]))
        k = rng.below(L - 1)
        sw = list(U); sw[k], sw[k + 1] = sw[k + 1], sw[k]
        res.append(('adjacent_swap/st%d' % st, sw))
    slots = sorted(perm(rng, range(300))[:L], reverse=True)
    res.append(('descending/sparse', [3 * t + 2 for t in slots]))
    if not out:
        U = _uniform(L, sts[0], 0)
        res.append(('first=last/packed_middle', U[:-1] + [U[0]]))
        res.append(('first=last/sparse_middle', [7] + [20 + 5 * t for t in perm(rng, range(30))[:L - 2]] + [7]))
        res.append(('all_equal', [4] * L))
        res.append(('first=last/descending_middle', [U[-1]] + list(reversed(U[1:-1])) + [U[-1]]))
    if out:
        for nm, v in res:
            assert _injective(v), (nm, v)
    return res


def family_random(rng, L, w, out):
    """one random member: random agreeing subset, random deviation, random uniform reference"""
    while True:
        S = [k for k in range(L) if rng.below(2)]
        mode = ['perm', 'sparse', 'rev', 'equal', 'shift'][rng.below(3 if out else 5)]
        st = ([w, w, w + 1, 7, 1000] if w == 3 else [1, 1, 3, 4, 7])[rng.below(5)]
        b = [0, 0, 1, 5, 40, 999][rng.below(6)]
        v = deviate(rng, _uniform(L, st, b), S, mode, w, out)
        if v is not None and (not out or _injective(v)):
            return ('random/%s/st%d+%d' % (mode, st, b), v)


IDXP = (('a', 'ia'), ('b', 'ib'), ('c', 'ic'))


def index_ops(r):
    return [X for X in 'abc' if r[X]['kind'] == 'index']


def family_cases(rng, r, thorough):
    """-> [(par, family tag)] for a row with at least one per-element offset array"""
    L = r['L']
    ops = index_ops(r)
    lists = {}
    for X in ops:
        w = 3 if r[X]['elem'] == 'ext' else 1
        fl = family_lists(rng, L, w, X == 'c', thorough)
        fl += [family_random(rng, L, w, X == 'c') for _ in range(200 if thorough else 8)]
        lists[X] = fl
    n = max(len(v) for v in lists.values())
    out = []
    for j in range(n):
        par = base_par(rng, r, j)
        tags = []
        for q, X in enumerate(ops):
            fl = lists[X]
            nm, v = fl[(j + 7 * q) % len(fl)]       # two offset arrays of one row walk their families out of step
            par['i' + X] = list(v)
            tags.append('%s:%s' % (X, nm))
        out.append((par, ' '.join(tags)))
    return out


def shareable(r):
    """both inputs are arrays / in-memory constants: they may be the same object (same base pointer)"""
    mem = lambda d: d['kind'] in G.ARRK or (d['kind'] == 'const' and d['elem'] == 'ext')
    return mem(r['a']) and mem(r['b'])


def share_par(rng, r, j):
    """a and b share the base pointer; equal or nearly equal strides / offset arrays"""
    L = r['L']
    par = base_par(rng, r, j)
    ka, kb = r['a']['kind'], r['b']['kind']
    wb = 3 if r['b']['elem'] == 'ext' else 1
    if ka == 'stride' and kb == 'stride':
        k = j % 4
        if k == 0:
            par['sb'] = par['sa']
        elif k == 1:
            par['sb'] = par['sa'] + 1
        elif k == 2:
            par['sa'] = par['sb'] + 1
    elif ka == 'index' and kb == 'index':
        k = j % 6
        ia = par['ia']
        if k == 0:
            par['ib'] = list(ia)
        elif k == 1:
            par['ib'] = list(ia); q = rng.below(L); par['ib'][q] += 1
        elif k == 2:
            par['ib'] = list(ia); q = rng.below(L - 1); par['ib'][q], par['ib'][q + 1] = par['ib'][q + 1], par['ib'][q]
        elif k == 3:
            par['ib'] = [v + wb for v in ia]
        elif k == 4:
            par['ib'] = list(reversed(ia))
    return par


# histories: one letter per call (harness/layout16/rt16.cpp mutate_vals); every row gets the fixed ones, rows with offset
# arrays also HIST_INDEX (the offset arrays are permuted in place between calls)
HIST_FIXED = ['fpxoapxo', '0120cppx', 'snnpx210']
HIST_INDEX = 'fikixipo'
HIST_ALIAS = 'fpx01n'
HIST_ALPHABET = 'fpxoanscrk012'


def random_hist(rng, n, index):
    al = HIST_ALPHABET + ('iii' if index else '')
    return ''.join(al[rng.below(len(al))] for _ in range(n))


def gen_cases(rows, seed, ncalls, nalias, huge=True, tier='quick'):
    rng = vlib.Rng(seed ^ 0xC16)
    cs = []
    ci = 0

    def emit(r, par, j, al, hist='-', share=0, g=None):
        nonlocal ci
        ci += 1
        lst = lambda v: ','.join(str(x) for x in v) if v is not None else '-'
        cs.append((ci, r['id'], '0x%x' % (g or rng).next(), 1 if j % 4 == 1 else 0, par['sa'], par['sb'], par['sc'], lst(par['ia']), lst(par['ib']), lst(par['ic']), al, hist, share))
    for r in rows:
        for j in range(ncalls):
            emit(r, base_par(rng, r, j), j, 'none')
        for X in G.alias_modes(r):
            for j in range(nalias):
                emit(r, alias_par(rng, r, X, j), j, X)
        if huge:
            for X in 'ab':
                if r[X]['kind'] == 'stride':
                    for j, hs in enumerate(HUGE):
                        if hs >= 2 ** r[X].get('pbits', 64):
                            continue
                        par = base_par(rng, r, j)
                        par['s' + X] = hs
                        emit(r, par, j, 'none')
    # ---- call histories, offset-array families, inputs sharing a base pointer (their own generator: the cases above do
    # not depend on how many of these there are)
    g = vlib.Rng(seed ^ 0xC16B)
    th = tier != 'quick'
    groups = dict(history=[], family={}, shared=[])
    for r in rows:
        idx = bool(index_ops(r))
        hs = list(HIST_FIXED) + ([HIST_INDEX] if idx else [])
        hs += [random_hist(g, 12, idx) for _ in range(10)] if th else [random_hist(g, 8, idx)]
        for j, h in enumerate(hs):
            emit(r, base_par(g, r, j + (3 if idx else 0)), j, 'none', h, 0, g)
            groups['history'].append(ci)
        for X in G.alias_modes(r):
            for j, h in enumerate([HIST_ALIAS] + ([random_hist(g, 10, idx) for _ in range(3)] if th else [])):
                emit(r, alias_par(g, r, X, j), j, X, h, 0, g)
                groups['history'].append(ci)
        if idx:
            for j, (par, tag) in enumerate(family_cases(g, r, th)):
                emit(r, par, j, 'none', '-', 0, g)
                groups['family'][ci] = tag
        if shareable(r):
            for j in range(36 if th else 6):
                emit(r, share_par(g, r, j), j, 'none', '-', 1, g)
                groups['shared'].append(ci)
    return cs, groups


def write_cases(path, cases):
    with open(path, 'w') as f:
        for c in cases:
            f.write(' '.join(str(x) for x in c) + '\n')


def run_driver(exe, cases, wd, tag, nshard):
    """run the cases in nshard concurrent driver processes; returns the path of the concatenated trace"""
    shards = [cases[i::nshard] for i in range(nshard)]
    shards = [s for s in shards if s]

    def one(i):
        cp = os.path.join(wd, '%s_cases_%d.txt' % (tag, i)); tp = os.path.join(wd, '%s_trace_%d.ndjson' % (tag, i))
        write_cases(cp, shards[i])
        r = sh([exe, cp, tp], timeout=3000)
        return r.returncode, r.stderr[-300:], tp
    with ThreadPoolExecutor(max_workers=len(shards) or 1) as ex:
        res = list(ex.map(one, range(len(shards))))
    out = os.path.join(wd, tag + '_trace.ndjson')
    with open(out, 'w') as f:
        for rc, err, tp in res:
            if rc != 0:
                raise RuntimeError('C16 driver ended with rc=%d: %s' % (rc, err))
            f.write(open(tp).read())
    return out


# ------------------------------------------------------------------------------------------------- diagnosis (description only)
def describe(rec, row):
    """human-readable reason for a rejected event, recomputed with Python integers (the verdict is TLC's)"""
    if rec.get('e') == 'crash':
        return 'the call ended with %s %s (guard-page fault / abort): an access outside the designated positions' % (rec.get('kind'), rec.get('code'))
    u = vlib.unw64
    msgs = []
    L = row['L']
    if rec.get('hn', 1) > 1:
        msgs.append('call %d of a history of %d calls on the same buffers (operand contents overwritten in place, step kind %r); operands are '
                    'the values at this call' % (rec['hs'], rec['hn'], rec.get('hk')))
    if rec.get('sh'):
        msgs.append('a and b are the same array (same pointer)')
    if rec.get('al', 'none') != 'none':
        msgs.append('called in place (result is the same object as operand %s; operands are the values before the call)' % rec['al'])
    for X in 'ab':
        if rec.get('w' + X):
            msgs.append('stride of %s = %d' % (X, u(rec['s%sw' % X])))

    def emb(d, v):
        return [u(v[0]) % P, 0, 0] if d['elem'] == 'base' else [u(x) % P for x in v]

    def mul(a, b):
        d0 = a[0] * b[0]; d1 = a[0] * b[1] + a[1] * b[0]; d2 = a[0] * b[2] + a[1] * b[1] + a[2] * b[0]; d3 = a[1] * b[2] + a[2] * b[1]; d4 = a[2] * b[2]
        return [(d0 + d3) % P, (d1 + d3 + d4) % P, (d2 + d4) % P]
    try:
        for k in range(L):
            a = emb(row['a'], rec['a'][k]); b = emb(row['b'], rec['b'][k])
            e = [(x + y) % P for x, y in zip(a, b)] if row['op'] == 'add' else [(x - y) % P for x, y in zip(a, b)] if row['op'] == 'sub' else mul(a, b)
            got = [u(x) % P for x in rec['r'][k]]
            if got != e:
                msgs.append('element %d: got (%s) expected (%s) for a=(%s) b=(%s)' % (k, ', '.join(hex(x) for x in got), ', '.join(hex(x) for x in e),
                                                                                     ', '.join(hex(u(x)) for x in rec['a'][k]), ', '.join(hex(u(x)) for x in rec['b'][k])))
                break
        w = 3
        foot = set()
        if row['c']['kind'] in ('contig', 'stride', 'index'):
            for k in range(L):
                base = 3 * k if row['c']['kind'] == 'contig' else rec['sc'] * k if row['c']['kind'] == 'stride' else rec['ic'][k]
                foot |= {base + i for i in range(w)}
        chg = set(rec['chg'])
        if rec.get('al', 'none') != 'none':
            if not chg <= foot or rec['nchg'] != len(rec['chg']):
                msgs.append('in-place call: cells changed %s (count %d) outside the write footprint %s' % (sorted(chg - foot)[:24], rec['nchg'], sorted(foot)[:24]))
        elif rec['nchg'] != len(foot) or chg != foot:
            msgs.append('cells changed %s (count %d) but the write footprint is %s' % (sorted(chg)[:24], rec['nchg'], sorted(foot)[:24]))
        if not rec['same']:
            msgs.append('a second run with different garbage in undesignated cells gave a different result (stray read)')
        if not rec['inw']:
            msgs.append('an input arena / index list was modified')
        if not rec['slack']:
            msgs.append('cells before the start of an arena were written')
    except Exception as ex:   # pragma: no cover
        msgs.append('(diagnosis failed: %s)' % ex)
    return '; '.join(msgs) or 'event rejected by Trace_Layout16'


# ------------------------------------------------------------------------------------------------- check
def run(tier, seed, replay=None):
    ck = Check('C16', tier, seed)
    wd = workdir('C16')
    rows = G.load()
    byid = {r['id']: r for r in rows}
    G.gen_tla(rows, os.path.join(wd, 'Overloads16.tla'))           # the specification is always the current table
    if open(os.path.join(wd, 'Overloads16.tla')).read() != open(os.path.join(vlib.SPEC, 'Overloads16.tla')).read():
        ck.note('spec/Overloads16.tla is stale with respect to tools/overloads16.json (the run uses the regenerated table)')
    ck.assumptions += ['tools/overloads16.json (drafted from the declarations, reviewed against every implementation) is the specification of the layouts; '
                       'Expected is the scalar operation of C09 on the k-th operands, compared modulo p',
                       'in-place calls (result = the same register triple / the same array with the same stride or index list as an extension '
                       'operand) are exercised; partial overlaps of result and operand arrays (element k of the result on cells of another '
                       'operand element) are out of scope; result strides >= 3 and result index lists spaced by >= 3 (distinct result elements)',
                       'call histories keep the overload, the strides and the footprint of every offset array fixed (offset arrays are permuted in '
                       'place, operand contents are rewritten in place); histories mixing different overloads on one buffer are not exercised',
                       'huge input strides (2^30, 2^31-1, 2^32+3) are exercised for uniform-stride inputs only (not for index lists or result strides)',
                       'register operands passed by non-const reference may be clobbered by the callee (not observed)']
    not_ex = {}
    build_notes = []
    rows_live, lax, miss, gone = G.match_rows(vlib.REPO)
    for name, sig in miss:
        not_ex['%s(%s)' % (name, sig)] = 'declared in the tree under check but not in tools/overloads16.json'
    for rid in gone:
        not_ex[rid] = 'table row has no declaration with this signature in the tree under check'
    for rid, sig in lax.items():
        build_notes.append('%s: declared signature differs from the table in cv / reference qualifiers only (%s); call site uses plain overload resolution' % (rid, sig))
    if not replay and not os.environ.get('VERIF_NOMODEL'):
        cfg = 'MC_Layout16_run.cfg'
        open(os.path.join(wd, cfg), 'w').write(open(os.path.join(wd, 'MC_Layout16.cfg')).read().replace('BSub = TRUE', 'BSub = %s' % ('TRUE' if tier == 'quick' else 'FALSE')))
        r = tlc(wd, 'MC_Layout16', cfg, workers=8, timeout=1500)
        ck.add_tlc(r, 'MC_Layout16: 156 rows well-formed; footprints/extents/disjointness of every descriptor (4, 8 lanes, strides 0..7, index lists '
                      'incl. arrays that look packed at their ends / on one half only); inputs sharing one array; over F_13^3: Karatsuba forms with challenge sums and mixed-shape shortcuts = definition (%s second operands)' % ('generating subset of' if tier == 'quick' else '650'))
        if not r.ok:
            ck.note('model-level: MC_Layout16: %s' % (r.violated or r.error))
    variants = ['avx2'] + (['avx512'] if vlib.have_avx512() else [])
    if 'avx512' not in variants:
        for r in rows_live:
            if r['variant'] == 'avx512':
                not_ex[r['id']] = 'this machine has no AVX512'
    exes = {}
    built = []
    for v in variants:
        exe, vrows, skipped, note = build(v, rows_live, wd, lax)
        exes[v] = exe
        built += vrows
        not_ex.update(skipped)
        if note:
            build_notes.append(note)
    ncalls, nalias = (96, 16) if tier == 'quick' else (400, 60)
    if replay:
        cases = [tuple(c) + ('none', '-', 0)[max(0, len(c) - 10):] for c in json.load(open(replay))['case']['cases']]
        groups = dict(history=[], family={}, shared=[])
    else:
        cases, groups = gen_cases(built, seed, ncalls, nalias, tier=tier)
    t0 = time.time()
    traces = []
    for v in variants:
        vc = [c for c in cases if c[1] in byid and byid[c[1]]['variant'] == v]
        if vc:
            traces.append(run_driver(exes[v], vc, wd, v, 10 if v == 'avx2' else 6))
    tpath = os.path.join(wd, 'trace.ndjson')
    with open(tpath, 'w') as f:
        for t in traces:
            f.write(open(t).read())
    t_drv = time.time() - t0
    recs = [json.loads(ln) for ln in open(tpath) if ln.strip()]
    hs = [x for x in recs if x.get('e') == 'harness']
    if hs:
        raise RuntimeError('C16 harness self-check failed: %s' % hs[:3])
    skips = [x for x in recs if x.get('e') == 'skip']
    if skips:
        # the address range of a huge stride could not be reserved here: recorded, not judged
        recs = [x for x in recs if x.get('e') != 'skip']
        with open(tpath, 'w') as f:
            for x in recs:
                f.write(json.dumps(x, separators=(',', ':')) + '\n')
        ck.note('huge strides not exercised in %d call(s): %s' % (len(skips), skips[0].get('why')))
    t0 = time.time()
    v = validate_trace(wd, 'Trace_Layout16', 'Trace_Layout16.cfg', tpath, min_chunk=60, xmx='2g')
    t_val = time.time() - t0
    ck.add_validation(v, 'batched/AVX2/AVX512 cubic add/sub/mul calls (%d cases, %d overloads)' % (len(cases), len({c[1] for c in cases})))
    ck.sample_trace(tpath)
    for msg in v['infra']:
        ck.note('infrastructure: ' + msg)
    bycase = {c[0]: c for c in cases}
    seen = set()
    for idx, rec in v['rejected']:
        rid = rec.get('id')
        if rid in seen or len(ck.violations) >= 12:
            continue
        seen.add(rid)
        case = bycase.get(rec.get('ci'))
        if case is None or rid not in byid:
            ck.note('infrastructure: rejected record without a case: %s' % str(rec)[:200])
            continue
        row = byid[rid]
        # confirm by re-running exactly that case
        t2 = run_driver(exes[row['variant']], [case], wd, 'confirm', 1)
        v2 = validate_trace(wd, 'Trace_Layout16', 'Trace_Layout16.cfg', t2, nsplit=1)
        if v2['rejected']:
            rec2 = v2['rejected'][0][1]
            kind = 'crash' if rec2.get('e') == 'crash' else 'mismatch'
            if case[10] != 'none':
                kind += ' in-place(result=%s)' % case[10]
            if len(case) > 11 and case[11] != '-':
                kind += ' history(%s)' % case[11]
            if len(case) > 12 and str(case[12]) == '1':
                kind += ' shared-inputs'
            if case[0] in groups['family']:
                kind += ' offsets(%s)' % groups['family'][case[0]]
            ck.violation('%s %s case=%s' % (rid, kind, ' '.join(str(x) for x in case[2:])),
                         '%s (header line %d, %s): %s' % (rid, row['line'], row['sig'], describe(rec2, row)),
                         dict(cases=[list(case)], event=vlib.compact(rec2)))
        else:
            ck.note('rejected record for %s did not reproduce on re-run (case %s)' % (rid, case))
    # coverage
    calls = {}
    for x in recs:
        calls[x.get('id')] = calls.get(x.get('id'), 0) + 1
    fam = {}
    for r in rows:
        f = G.family(r)
        t = fam.setdefault(f, dict(in_table=0, exercised=0))
        t['in_table'] += 1
        if calls.get(r['id'], 0) > 0:
            t['exercised'] += 1
    ck.cov['overloads_in_table'] = len(rows)
    ck.cov['overloads_exercised'] = sum(1 for r in rows if calls.get(r['id'], 0) > 0)
    ck.cov['families'] = fam
    ck.cov['min_calls_per_exercised_overload'] = min([n for n in calls.values()] or [0])
    ck.cov['calls'] = len(recs)
    l16 = [x for x in recs if x.get('e') == 'l16']
    ck.cov['in_place_calls'] = dict(result_is_a=sum(1 for x in l16 if x['al'] == 'a'), result_is_b=sum(1 for x in l16 if x['al'] == 'b'),
                                    rows_with_in_place_mode=sum(1 for r in rows if G.alias_modes(r)),
                                    rows_called_in_place=len({x['id'] for x in l16 if x['al'] != 'none'}))
    hist = [x for x in l16 if x.get('hn', 1) > 1]
    ck.cov['history_calls'] = dict(calls=len(hist), histories=len({x['ci'] for x in hist}), rows=len({x['id'] for x in hist}),
                                   in_place=sum(1 for x in hist if x['al'] != 'none'),
                                   step_kinds={k: sum(1 for x in hist if x.get('hk') == k) for k in sorted({x.get('hk') for x in hist})})
    famc = {}
    for ci_, tag in groups['family'].items():
        for part in tag.split(' '):
            X, nm = part.split(':', 1)
            key = ('result ' if X == 'c' else 'input ') + '/'.join(nm.split('/')[:2])
            famc[key] = famc.get(key, 0) + 1
    ck.cov['offset_family_calls'] = dict(calls=len(groups['family']), rows=len({x['id'] for x in l16 if x['ci'] in groups['family']}),
                                         rows_with_offset_array=sum(1 for r in rows if index_ops(r)), families=famc)
    ck.cov['shared_input_calls'] = dict(calls=sum(1 for x in l16 if x.get('sh')), rows=len({x['id'] for x in l16 if x.get('sh')}),
                                        rows_with_two_memory_inputs=sum(1 for r in rows if shareable(r)))
    nh = sum(1 for x in l16 if x['wa'] or x['wb'])
    ck.cov['huge_stride_calls'] = dict(calls=nh, rows=len({x['id'] for x in l16 if x['wa'] or x['wb']}), strides=[str(h) for h in HUGE],
                                       rows_with_stride_input=sum(1 for r in rows if 'stride' in (r['a']['kind'], r['b']['kind'])),
                                       not_exercised=('huge strides not exercised: %s' % skips[0].get('why')) if skips else '')
    if build_notes:
        ck.cov['build_notes'] = build_notes
        for n in build_notes:
            ck.note('build: ' + n)
    ck.cov['not_exercised'] = not_ex
    for k, why in not_ex.items():
        ck.note('not exercised: %s: %s' % (k, why))
    ck.cov['rejected_records'] = len(v['rejected'])
    ck.cov['timing_s'] = dict(driver=round(t_drv, 1), validation=round(t_val, 1))
    return ck.finish()
