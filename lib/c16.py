"""C16 — every batched / AVX2 / AVX512 cubic-extension variant equals the scalar operation.
Specification: tools/overloads16.json (ONE table, one row per overload: operation, lanes, operand / result descriptors) ->
spec/Overloads16.tla; spec/Layout16.tla gives the rows their meaning (Addr, Footprint, Extent, Expected = the scalar
extension operation of C09 on the k-th operands).  Model (TLC, MC_Layout16): every row well-formed, footprints inside exact
extents, result cells pairwise distinct, and over F_13 the A..G formulas of the code (with precomputed challenge sums) and the
mixed base/ext shortcuts equal the definition.  Conformance: tools/gen_layout16.py generates one call site per row (overload
selected by its exact declared signature); harness/layout16/rt16.cpp runs every row >= 96 (quick) / 400 (thorough) times in
exact-extent guard-paged arenas (strides {0,1,2,3,4,5,7,1000,65537} for inputs, {3,4,5,7,1000,65537} for results, permuted /
repeated / overlapping / spaced index lists, coefficients in all representations), twice with different garbage in every
undesignated cell and complementary result pre-fills, in forked batches; Trace_Layout16 accepts an event iff the driver
addressed the operands as the row says, each result element is congruent to Expected, the changed cells are exactly the
row's write footprint and the re-run agreed; crashes are never accepted."""
import os, json, glob, shutil, time
from concurrent.futures import ThreadPoolExecutor
import vlib
from vlib import Check, tlc, workdir, validate_trace, sh
import gen_layout16 as G

P = vlib.P
RT = os.path.join(vlib.HARNESS, 'layout16')
IN_EXT = [3, 4, 7, 1000, 0, 1, 2, 5, 65537]
IN_BASE = [1, 3, 4, 7, 1000, 0, 2, 5, 65537]
OUT_STR = [3, 4, 7, 1000, 5, 65537]


# ------------------------------------------------------------------------------------------------- build
def _compile(flags, src, obj):
    r = sh(['g++'] + flags + ['-I' + os.path.join(vlib.REPO, 'src'), '-I' + vlib.HARNESS, '-I' + RT, '-c', src, '-o', obj], timeout=900)
    return r.returncode == 0, r.stderr[-1500:]


def build(variant, rows, wd):
    """-> (exe, rows_in_build, {row id: reason it could not be built})"""
    flags = vlib.BASEFLAGS + vlib.VARIANTS[variant]
    nparts = 6 if variant == 'avx2' else 3
    gdir = os.path.join(wd, 'gen_' + variant)
    files, vrows = G.gen_cpp(rows, variant, gdir, nparts)
    fixed = [os.path.join(RT, 'rt16.cpp'), os.path.join(RT, 'rt16.hpp'), os.path.join(vlib.HARNESS, 'vh.hpp')]
    key = vlib._hash_files(vlib.repo_sources() + fixed + files, ' '.join(flags))
    d = os.path.join(vlib.CACHE, 'build', 'drv_l16_%s_%s' % (variant, key))
    exe = os.path.join(d, 'drv16')
    skipped = {}
    if os.path.exists(exe):
        sk = os.path.join(d, 'skipped.json')
        if os.path.exists(sk):
            skipped = json.load(open(sk))
        return exe, [r for r in vrows if r['id'] not in skipped], skipped
    os.makedirs(d, exist_ok=True)
    libobjs = vlib.build_lib(variant)
    t0 = time.time()
    srcs = files + [os.path.join(RT, 'rt16.cpp')]
    objs = [os.path.join(d, os.path.basename(s) + '.o') for s in srcs]
    with ThreadPoolExecutor(max_workers=8) as ex:
        res = list(ex.map(lambda so: _compile(flags, so[0], so[1]), zip(srcs, objs)))
    if not all(ok for ok, _ in res):
        if not res[-1][0] or not res[-2][0]:
            raise vlib.BuildError('C16 driver engine does not compile (%s):\n%s' % (variant, res[-1][1] + res[-2][1]))
        # some call site does not compile against this tree: isolate it, one row per translation unit
        vlib.log('C16: a generated part does not compile (%s); isolating rows' % variant)
        shutil.rmtree(gdir)
        files, vrows = G.gen_cpp(rows, variant, gdir, len(vrows))
        srcs = files[:-1]
        objs1 = [os.path.join(d, 'row_' + os.path.basename(s) + '.o') for s in srcs]
        with ThreadPoolExecutor(max_workers=12) as ex:
            res1 = list(ex.map(lambda so: _compile(flags, so[0], so[1]), zip(srcs, objs1)))
        good = []
        for p, (ok, err) in enumerate(res1):
            if ok:
                good.append(p)
            else:
                skipped[vrows[p]['id']] = 'call site does not compile against this tree: ' + ' '.join(err.split())[-300:]
        reg = os.path.join(gdir, 'reg_good.cpp')
        o = ['#include "rt16.hpp"'] + ['void l16_register_%d(std::vector<l16::Row> &t);' % p for p in good]
        o += ['void l16_register_all(std::vector<l16::Row> &t)', '{'] + ['    l16_register_%d(t);' % p for p in good] + ['}']
        open(reg, 'w').write('\n'.join(o) + '\n')
        ok, err = _compile(flags, reg, os.path.join(d, 'reg_good.o'))
        if not ok:
            raise vlib.BuildError('C16 registration unit: ' + err)
        objs = [objs1[p] for p in good] + [os.path.join(d, 'reg_good.o'), objs[-1]]
    r = sh(['g++'] + flags + objs + libobjs + ['-o', exe + '.tmp', '-lgmp', '-lgmpxx'], timeout=900)
    if r.returncode != 0:
        raise vlib.BuildError('C16 driver link failed (%s):\n%s' % (variant, r.stderr[-3000:]))
    json.dump(skipped, open(os.path.join(d, 'skipped.json'), 'w'))
    os.rename(exe + '.tmp', exe)
    vlib.log('built C16 driver (%s, %d rows) in %.1fs' % (variant, len(vrows) - len(skipped), time.time() - t0))
    return exe, [r for r in vrows if r['id'] not in skipped], skipped


# ------------------------------------------------------------------------------------------------- cases
def perm(rng, xs):
    xs = list(xs)
    for i in range(len(xs) - 1, 0, -1):
        j = rng.below(i + 1)
        xs[i], xs[j] = xs[j], xs[i]
    return xs


def in_index(rng, L, w, j):
    k = j % 6
    if k == 0:
        return perm(rng, [w * t for t in range(L)])                       # the contiguous elements, permuted
    if k == 1:
        return perm(rng, [t * (w + 2) + 1 for t in range(L)])             # spaced, permuted
    if k == 2:
        pool = [0, w, 2 * w + 1]
        return [pool[rng.below(3)] for _ in range(L)]                     # repeated elements
    if k == 3:
        return [rng.below(2 * L) for _ in range(L)]                       # arbitrary, overlapping elements
    if k == 4:
        return [rng.below(5000) for _ in range(L)]                        # far apart
    return [w * t for t in reversed(range(L))]


def out_index(rng, L, j):
    k = j % 4
    if k == 3:
        slots = set()
        while len(slots) < L:
            slots.add(rng.below(2000))
        return perm(rng, [3 * t for t in sorted(slots)])
    g = [3, 4, 6][k]
    off = [0, 1, 5][(j // 4) % 3]
    slots = perm(rng, range(L + 3))[:L]
    return [t * g + off for t in slots]


def gen_cases(rows, seed, ncalls):
    rng = vlib.Rng(seed ^ 0xC16)
    cs = []
    ci = 0
    for r in rows:
        L = r['L']
        for j in range(ncalls):
            par = dict(sa=0, sb=0, sc=0, ia='-', ib='-', ic='-')
            for X, sh_ in (('a', 0), ('b', 4)):
                d = r[X]
                w = 3 if d['elem'] == 'ext' else 1
                if d['kind'] == 'stride':
                    S = IN_EXT if w == 3 else IN_BASE
                    par['s' + X] = S[(j + sh_ * (1 + j // len(S))) % len(S)] if j < 3 * len(S) else S[rng.below(len(S))]
                elif d['kind'] == 'index':
                    par['i' + X] = ','.join(str(v) for v in in_index(rng, L, w, j + sh_))
            if r['c']['kind'] == 'stride':
                par['sc'] = OUT_STR[(j // 2) % len(OUT_STR)] if j < 24 else OUT_STR[rng.below(len(OUT_STR))]
            elif r['c']['kind'] == 'index':
                par['ic'] = ','.join(str(v) for v in out_index(rng, L, j))
            ci += 1
            cs.append((ci, r['id'], '0x%x' % rng.next(), 1 if j % 4 == 1 else 0, par['sa'], par['sb'], par['sc'], par['ia'], par['ib'], par['ic']))
    return cs


def write_cases(path, cases):
    with open(path, 'w') as f:
        for c in cases:
            f.write(' '.join(str(x) for x in c) + '\n')


def run_driver(exe, cases, wd, tag, nshard):
    """run the cases in nshard concurrent driver processes; returns the path of the concatenated trace"""
    shards = [cases[i::nshard] for i in range(nshard)]
    shards = [s for s in shards if s]

    def one(i):
        cp = os.path.join(wd, '%s_cases_%d.txt' % (tag, i)); tp = os.path.join(wd, '%s_trace_%d.ndjson' % (tag, i))
        write_cases(cp, shards[i])
        r = sh([exe, cp, tp], timeout=3000)
        return r.returncode, r.stderr[-300:], tp
    with ThreadPoolExecutor(max_workers=len(shards) or 1) as ex:
        res = list(ex.map(one, range(len(shards))))
    out = os.path.join(wd, tag + '_trace.ndjson')
    with open(out, 'w') as f:
        for rc, err, tp in res:
            if rc != 0:
                raise RuntimeError('C16 driver ended with rc=%d: %s' % (rc, err))
            f.write(open(tp).read())
    return out


# ------------------------------------------------------------------------------------------------- diagnosis (description only)
def describe(rec, row):
    """human-readable reason for a rejected event, recomputed with Python integers (the verdict is TLC's)"""
    if rec.get('e') == 'crash':
        return 'the call ended with %s %s (guard-page fault / abort): an access outside the designated positions' % (rec.get('kind'), rec.get('code'))
    u = vlib.unw64
    msgs = []
    L = row['L']

    def emb(d, v):
        return [u(v[0]) % P, 0, 0] if d['elem'] == 'base' else [u(x) % P for x in v]

    def mul(a, b):
        d0 = a[0] * b[0]; d1 = a[0] * b[1] + a[1] * b[0]; d2 = a[0] * b[2] + a[1] * b[1] + a[2] * b[0]; d3 = a[1] * b[2] + a[2] * b[1]; d4 = a[2] * b[2]
        return [(d0 + d3) % P, (d1 + d3 + d4) % P, (d2 + d4) % P]
    try:
        for k in range(L):
            a = emb(row['a'], rec['a'][k]); b = emb(row['b'], rec['b'][k])
            e = [(x + y) % P for x, y in zip(a, b)] if row['op'] == 'add' else [(x - y) % P for x, y in zip(a, b)] if row['op'] == 'sub' else mul(a, b)
            got = [u(x) % P for x in rec['r'][k]]
            if got != e:
                msgs.append('element %d: got (%s) expected (%s) for a=(%s) b=(%s)' % (k, ', '.join(hex(x) for x in got), ', '.join(hex(x) for x in e),
                                                                                     ', '.join(hex(u(x)) for x in rec['a'][k]), ', '.join(hex(u(x)) for x in rec['b'][k])))
                break
        w = 3
        foot = set()
        if row['c']['kind'] in ('contig', 'stride', 'index'):
            for k in range(L):
                base = 3 * k if row['c']['kind'] == 'contig' else rec['sc'] * k if row['c']['kind'] == 'stride' else rec['ic'][k]
                foot |= {base + i for i in range(w)}
        chg = set(rec['chg'])
        if rec['nchg'] != len(foot) or chg != foot:
            msgs.append('cells changed %s (count %d) but the write footprint is %s' % (sorted(chg)[:24], rec['nchg'], sorted(foot)[:24]))
        if not rec['same']:
            msgs.append('a second run with different garbage in undesignated cells gave a different result (stray read)')
        if not rec['inw']:
            msgs.append('an input arena / index list was modified')
        if not rec['slack']:
            msgs.append('cells before the start of an arena were written')
    except Exception as ex:   # pragma: no cover
        msgs.append('(diagnosis failed: %s)' % ex)
    return '; '.join(msgs) or 'event rejected by Trace_Layout16'


# ------------------------------------------------------------------------------------------------- check
def run(tier, seed, replay=None):
    ck = Check('C16', tier, seed)
    wd = workdir('C16')
    rows = G.load()
    byid = {r['id']: r for r in rows}
    G.gen_tla(rows, os.path.join(wd, 'Overloads16.tla'))           # the specification is always the current table
    if open(os.path.join(wd, 'Overloads16.tla')).read() != open(os.path.join(vlib.SPEC, 'Overloads16.tla')).read():
        ck.note('spec/Overloads16.tla is stale with respect to tools/overloads16.json (the run uses the regenerated table)')
    ck.assumptions += ['tools/overloads16.json (drafted from the declarations, reviewed against every implementation) is the specification of the layouts; '
                       'Expected is the scalar operation of C09 on the k-th operands, compared modulo p',
                       'operands and result do not alias; result strides >= 3 and result index lists spaced by >= 3 (distinct result elements)',
                       'register operands passed by non-const reference may be clobbered by the callee (not observed)']
    not_ex = {}
    miss, gone = G.check_against(vlib.REPO)
    for name, sig in miss:
        not_ex['%s(%s)' % (name, sig)] = 'declared in the tree under check but not in tools/overloads16.json'
    gone = set(gone)
    rows_live = []
    for r in rows:
        if (r['name'], r['sig']) in gone:
            not_ex[r['id']] = 'table row has no declaration with this signature in the tree under check'
        else:
            rows_live.append(r)
    if not replay:
        cfg = 'MC_Layout16_run.cfg'
        open(os.path.join(wd, cfg), 'w').write(open(os.path.join(wd, 'MC_Layout16.cfg')).read().replace('BSub = TRUE', 'BSub = %s' % ('TRUE' if tier == 'quick' else 'FALSE')))
        r = tlc(wd, 'MC_Layout16', cfg, workers=8, timeout=1500)
        ck.add_tlc(r, 'MC_Layout16: 156 rows well-formed; footprints/extents/disjointness of every descriptor (4, 8 lanes, strides 0..7, index lists); '
                      'over F_13^3: Karatsuba forms with challenge sums and mixed-shape shortcuts = definition (%s second operands)' % ('generating subset of' if tier == 'quick' else '650'))
        if not r.ok:
            ck.note('model-level: MC_Layout16: %s' % (r.violated or r.error))
    variants = ['avx2'] + (['avx512'] if vlib.have_avx512() else [])
    if 'avx512' not in variants:
        for r in rows_live:
            if r['variant'] == 'avx512':
                not_ex[r['id']] = 'this machine has no AVX512'
    exes = {}
    built = []
    for v in variants:
        exe, vrows, skipped = build(v, rows_live, wd)
        exes[v] = exe
        built += vrows
        not_ex.update(skipped)
    ncalls = 96 if tier == 'quick' else 400
    if replay:
        cases = [tuple(c) for c in json.load(open(replay))['case']['cases']]
    else:
        cases = gen_cases(built, seed, ncalls)
    t0 = time.time()
    traces = []
    for v in variants:
        vc = [c for c in cases if c[1] in byid and byid[c[1]]['variant'] == v]
        if vc:
            traces.append(run_driver(exes[v], vc, wd, v, 10 if v == 'avx2' else 6))
    tpath = os.path.join(wd, 'trace.ndjson')
    with open(tpath, 'w') as f:
        for t in traces:
            f.write(open(t).read())
    t_drv = time.time() - t0
    recs = [json.loads(ln) for ln in open(tpath) if ln.strip()]
    hs = [x for x in recs if x.get('e') == 'harness']
    if hs:
        raise RuntimeError('C16 harness self-check failed: %s' % hs[:3])
    t0 = time.time()
    v = validate_trace(wd, 'Trace_Layout16', 'Trace_Layout16.cfg', tpath, min_chunk=60, xmx='2g')
    t_val = time.time() - t0
    ck.add_validation(v, 'batched/AVX2/AVX512 cubic add/sub/mul calls (%d cases, %d overloads)' % (len(cases), len({c[1] for c in cases})))
    ck.sample_trace(tpath)
    for msg in v['infra']:
        ck.note('infrastructure: ' + msg)
    bycase = {c[0]: c for c in cases}
    seen = set()
    for idx, rec in v['rejected']:
        rid = rec.get('id')
        if rid in seen or len(ck.violations) >= 12:
            continue
        seen.add(rid)
        case = bycase.get(rec.get('ci'))
        if case is None or rid not in byid:
            ck.note('infrastructure: rejected record without a case: %s' % str(rec)[:200])
            continue
        row = byid[rid]
        # confirm by re-running exactly that case
        t2 = run_driver(exes[row['variant']], [case], wd, 'confirm', 1)
        v2 = validate_trace(wd, 'Trace_Layout16', 'Trace_Layout16.cfg', t2, nsplit=1)
        if v2['rejected']:
            rec2 = v2['rejected'][0][1]
            kind = 'crash' if rec2.get('e') == 'crash' else 'mismatch'
            ck.violation('%s %s case=%s' % (rid, kind, ' '.join(str(x) for x in case[2:])),
                         '%s (header line %d, %s): %s' % (rid, row['line'], row['sig'], describe(rec2, row)),
                         dict(cases=[list(case)], event=vlib.compact(rec2)))
        else:
            ck.note('rejected record for %s did not reproduce on re-run (case %s)' % (rid, case))
    # coverage
    calls = {}
    for x in recs:
        calls[x.get('id')] = calls.get(x.get('id'), 0) + 1
    fam = {}
    for r in rows:
        f = G.family(r)
        t = fam.setdefault(f, dict(in_table=0, exercised=0))
        t['in_table'] += 1
        if calls.get(r['id'], 0) > 0:
            t['exercised'] += 1
    ck.cov['overloads_in_table'] = len(rows)
    ck.cov['overloads_exercised'] = sum(1 for r in rows if calls.get(r['id'], 0) > 0)
    ck.cov['families'] = fam
    ck.cov['min_calls_per_exercised_overload'] = min([n for n in calls.values()] or [0])
    ck.cov['calls'] = len(recs)
    ck.cov['not_exercised'] = not_ex
    for k, why in not_ex.items():
        ck.note('not exercised: %s: %s' % (k, why))
    ck.cov['rejected_records'] = len(v['rejected'])
    ck.cov['timing_s'] = dict(driver=round(t_drv, 1), validation=round(t_val, 1))
    return ck.finish()
