"""C05 — extendPol is the low-degree extension onto the coset 7*<w_Next>.
Same state machine, two legs: INTT with the fused r_[k] = 7^k/N scaling into the output buffer, then a forward NTT of
size N_ext on a second object whose bit reversal zero-fills rows >= N (out of place, or in place when output and
scratch parity demand it).  TLC: every N <= N_ext (N = 1 and N = N_ext included), all nphase/nblock, in-place and
out-of-place, with and without scratch; result = f(7 w_Next^k) for the interpolant f.  Conformance: every
configuration on the compiled library against the LDE definition evaluated by TLC."""
import nttlib


def run(tier, seed, replay=None):
    return nttlib.run_property('C05', ['ext'], tier, seed, replay)
