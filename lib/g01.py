"""G01 — the GPU DEVICE code built on gl64_t implements the same cubic extension, Poseidon permutation and sponge as the
CPU library (growth of the specification; not one of the listed properties).
No GPU, no nvcc.  What is bound is the TEXT of the current tree, executed on the host:
 (0) tools/gpuhost.py builds a host gl64_t per __CUDA_ARCH__ variant (>= 700, < 700) = the class text of gl64_t.cuh with its
     seven PTX-bearing leaf members bound to the PTX executor that C20's translator (tools/ptx2tla.py) generates from the
     inline asm of the current tree; goldilocks_cubic_extension.cuh is compiled verbatim, the __device__/__global__
     functions of poseidon_goldilocks.cu (+ init_gpu_const) are cut out mechanically; thread indices are host variables.
 (1) harness/drv_gpudev.cpp runs them: every Goldilocks3GPU operation and aliasing pattern, neg_element / inv_element /
     reciprocal / heptaroot, the *_gpu expression helpers for every thread of blocks of 1..4 threads, the building blocks
     of the permutation, the device permutation (out of place, in place, iterated), hash_one, and the kernels
     linear_hash_gpu, linear_partial_*_gpu, hash_gpu launched as loops over blocks and threads.
 (2) every event is judged by TLC: Trace_GpuDev = Trace_Cubic ("c3" "conv3" "isone") + Trace_Poseidon ("iter": the CPU
     scalar permutation is the reference, and the reference is re-derived from Poseidon.Perm with the tables of the tree) +
     Trace_Sponge ("lh": the absorb sequence of the definition, pairs supplied by the CPU permutation like drv_poseidon's
     hook-less fallback) + the thread-layout specification of the expression helpers and the scalar routines.
 (3) a rejected record is confirmed by re-running exactly its case; the known-findings classifier (Trace_GpuDev with
     Lit = TRUE) separates what the text of the tree explains when read literally (known_findings.json, exit 0 with
     KNOWN-FINDING lines) from anything else (VIOLATION)."""
import os, json, re, time
from concurrent.futures import ThreadPoolExecutor
import vlib
from vlib import Check, workdir, build_driver, validate_trace, sh

P = vlib.P
ARCHS = (700, 600)
MOD, CFG, CFG_LIT = 'Trace_GpuDev', 'Trace_GpuDev.cfg', 'Trace_GpuDevLit.cfg'
HEAVY = ('iter', 'h4')
ROUTINE = {('copy3', 9): 'Goldilocks3GPU::copy_gpu', ('add3', 9): 'Goldilocks3GPU::add_gpu', ('add3', 0): 'Goldilocks3GPU::op_gpu(op=0)',
           ('sub3', 9): 'Goldilocks3GPU::sub_gpu', ('sub3', 1): 'Goldilocks3GPU::op_gpu(op=1)', ('mul3', 9): 'Goldilocks3GPU::mul_gpu',
           ('mul3', 2): 'Goldilocks3GPU::op_gpu(op=2)', ('rsub3', 3): 'Goldilocks3GPU::op_gpu(op=3)', ('mulch3', 9): 'Goldilocks3GPU::mul_gpu(challenge)',
           ('a31', 0): 'Goldilocks3GPU::op_31_gpu(op=0)', ('s31', 1): 'Goldilocks3GPU::op_31_gpu(op=1)', ('m31', 2): 'Goldilocks3GPU::op_31_gpu(op=2)',
           ('r31', 3): 'Goldilocks3GPU::op_31_gpu(op=3)', ('copy1', 9): 'gl64_t::copy_gpu', ('add1', 0): 'gl64_t::op_gpu(op=0)',
           ('sub1', 1): 'gl64_t::op_gpu(op=1)', ('mul1', 2): 'gl64_t::op_gpu(op=2)', ('rsub1', 3): 'gl64_t::op_gpu(op=3)'}
THREAD_FAM = ('copy3', 'add3', 'sub3', 'rsub3')
BLOCK_FAM = ('mul3', 'mulch3', 'a31', 's31', 'm31', 'r31')


class Infra(Exception):
    """the machinery contradicts itself or meets device code outside what it can execute: exit 2, never a VIOLATION."""


def hx(x):
    return '0x%x' % x


# ------------------------------------------------------------------------------------------------ cases
def gen_cases(seed, tier):
    rng = vlib.Rng(seed ^ 0x601)
    quick = tier == 'quick'
    cw = lambda: rng.word() % P
    cases = [['init']]
    corners = [0, 1, 2, P - 1, P - 2, 0xFFFFFFFF, 1 << 32, (1 << 32) + 1, 1 << 63, 0xFFFFFFFE00000002, 0x7FFFFFFF80000001]
    # ---- cubic extension: structured triples (zero / one / x / base-field elements / boundary coefficients), then seeded
    tri = [(1, 0, 0), (0, 1, 0), (0, 0, 1), (P - 1, P - 1, P - 1), (P - 1, 0, 1), (7, 0, 0), (0xFFFFFFFF, 1 << 32, P - 2),
           (1 << 63, 0xFFFFFFFE00000002, 3)]
    pairs = [(tri[i], tri[(i * 3 + 1) % len(tri)]) for i in range(len(tri))]
    pairs += [((0, 0, 0), (5, 6, 7)), ((5, 6, 7), (0, 0, 0)), ((3, 4, 5), (0xFFFFFFFF, 0, 0)), ((3, 4, 5), (0x100000000, 1, 2)),
              ((P - 1, P - 2, P - 3), (P - 1, 2, 3)), ((9, 8, 7), (0xFFFFFFFF00000000, 0, 0))]
    for i in range(8 if quick else 160):
        b0 = cw() if i % 3 else rng.below(1 << 32)             # the integer forms with factors below and above 2^32
        pairs.append(((cw(), cw(), cw()), (b0, cw(), cw())))
    for a, b in pairs:
        cases.append(['c3'] + [hx(x) for x in a + b])
    # information only: raw words in [p, 2^64) as coefficients (legal for the CPU library, outside gl64_t's invariant)
    for a, b in (((P, P + 1, 2**64 - 1), (3, 4, 5)), ((3, 4, 5), (2**64 - 1, P + 7, P)), ((2**64 - 1, 2**64 - 1, P + 1), (2**64 - 1, P, 2**64 - 2))):
        cases.append(['c3'] + [hx(x) for x in a + b] + ['raw'])
    for i in range(6 if quick else 40):
        a = [rng.word() for _ in range(3)] if i else [P, P + 1, 2**64 - 1]
        s = [rng.next() & 0xFFFFFFFF for _ in range(3)] if i else [0x80000000, 0xFFFFFFFF, 0x7FFFFFFF]
        cases.append(['conv3'] + [hx(x) for x in a + s])
    cases.append(['conv3', '1', '0', '0', '0', '1', '2'])
    cases.append(['conv3', hx(P + 1), hx(P), '0', '5', '0', '0'])
    cases.append(['conv3', '1', '1', '0', '5', '0', '0'])
    for i, a in enumerate(corners):
        cases.append(['f1', hx(a), hx(corners[(i * 5 + 3) % len(corners)])])
    for i in range(12 if quick else 200):
        cases.append(['f1', hx(cw()), hx(cw())])
    for a in [P, P + 1, 2**64 - 1, 2**64 - 2**32, P - 1, 0] + [rng.word() for _ in range(4 if quick else 60)]:
        cases.append(['f1c', hx(a)])
    # ---- expression helpers: every thread of blocks of 1..4 threads (the literal index blockDim.x << (1 + blockDim.x)
    # stays inside the logged window of 160 cells for blockDim.x <= 4)
    for bd in (1, 2, 3, 4):
        for tid in range(bd):
            for (fn, op) in ROUTINE:
                cases.append(['gx', fn, str(op), str(bd), str(tid), hx(rng.next() & 0xFFFFFFFF), '0'])
            for fn in ('add3', 'mul3', 'add1', 'mul1'):
                cases.append(['gx', fn, '9' if fn[-1] == '3' else {'add1': '0', 'mul1': '2'}[fn], str(bd), str(tid), hx(rng.next() & 0xFFFFFFFF), '1'])
            for stride in (1, 3):
                cases.append(['gx', 'copy1s', str(stride), str(bd), str(tid), hx(rng.next() & 0xFFFFFFFF), '0'])
    # ---- Poseidon
    for fn in ('pow7', 'pow7_', 'add_', 'prod_', 'pow7add_', 'dot_', 'mvp_'):
        for k in range(2 if quick else 12):
            cases.append(['pp', fn, hx((rng.next() & 0xFFFFFFF0) | k)])
    states = [[0] * 12, [P - 1] * 12, [2**64 - 1] * 12, list(range(1, 13)), [P + i for i in range(12)]]
    states += [[cw() for _ in range(12)] for _ in range(2 if quick else 20)]
    states += [[rng.word() for _ in range(12)] for _ in range(3 if quick else 30)]
    for i, st in enumerate(states):
        cases.append(['iter', '2' if i % 5 == 3 else '1', '21' if i % 2 else '20', str(i % 2)] + [hx(x) for x in st])
    for i in range(3 if quick else 16):
        cases.append(['h4', str(i % 2)] + [hx(rng.word()) for _ in range(12)])
    lens = list(range(0, 21)) + [23, 24, 25, 32, 33, 40, 64, 65] if quick else list(range(0, 140)) + [255, 256, 257, 511, 512]
    for i, n in enumerate(lens):
        cases.append(['lh', str(n), hx(rng.next() & 0xFFFFFFFF), '0', '1' if i % 4 == 1 else '0', str([1, 2, 4, 64][i % 4]), str(1 + i % 3)])
    for pat in (1, 2, 3, 7, 8):
        for n in ((5, 8, 9, 17) if quick else (3, 4, 5, 8, 9, 16, 17, 24, 33)):
            cases.append(['lh', str(n), hx(rng.next() & 0xFFFFFFFF), str(pat), '0', '2', '2'])
    for i, (n, ch) in enumerate([(8, 8), (9, 8), (16, 8), (20, 8), (24, 16), (41, 16), (5, 8), (64, 32), (33, 24)] if quick else
                                [(n, ch) for ch in (8, 16, 24, 64) for n in (5, 8, 9, 15, 16, 17, 31, 32, 33, 63, 64, 65, 100)]):
        cases.append(['lhp', str(n), hx(rng.next() & 0xFFFFFFFF), str(ch), '1' if i % 4 == 0 else '0', str([2, 1, 64][i % 3]), str(1 + i % 2), str(1 + i % 3)])
    for rows, bd in ((2, 64), (4, 2), (5, 2), (8, 3)) if quick else ((2, 64), (3, 1), (4, 2), (5, 2), (8, 3), (16, 4), (33, 8), (64, 64)):
        cases.append(['mk', str(rows), hx(rng.next() & 0xFFFFFFFF), str(bd)])
    return cases


def write_cases(path, cases):
    open(path, 'w').write('\n'.join(' '.join(c) for c in cases) + '\n')


# ------------------------------------------------------------------------------------------------ routing / keys
def predicted_known(j):
    """routing only (never a verdict): records the known-findings model expects the specification to reject."""
    if j.get('e') == 'gx' and j.get('dim') == 3:
        return j['fn'] in BLOCK_FAM or (j['fn'] in THREAD_FAM and j['tid'] >= 1)
    if j.get('e') == 'c3' and j.get('op') == 'mul_eu':
        return vlib.unw64(j['b'][0]) >= 1 << 32
    return False


def key_of(arch, j, explained):
    e = j.get('e')
    if e == 'gx':
        rt = ROUTINE.get((j['fn'], j['op']), 'gl64_t::copy_gpu(stride)' if j['fn'] == 'copy1s' else j['fn'])
        if explained:
            how = 'shift-precedence' if j['fn'] in THREAD_FAM else 'blockdim-index'
            return 'gx routine=%s blockDim.x=%d threadIdx.x=%d explained=%s' % (rt, j['bd'], j['tid'], how)
        return 'arch=%d gx routine=%s blockDim.x=%d threadIdx.x=%d alias=%d unexplained' % (arch, rt, j['bd'], j['tid'], j['alias'])
    if e == 'c3':
        if explained:
            return 'c3 routine=Goldilocks3GPU::mul(Element&,Element&,uint64_t) factor>=2^32 explained=uint32-truncation'
        return 'arch=%d c3 op=%s alias=%s' % (arch, j['op'], j['alias'])
    if e == 'lh':
        return 'arch=%d sponge kernel=%s len=%d pat=%d' % (arch, 'linear_hash_gpu' if j['variant'] == 'gpu' else 'linear_partial_*_gpu', j['len'], j['pat'])
    if e == 'iter':
        return 'arch=%d device hash_full_result_seq %s k=%d' % (arch, 'in place' if j['variant'] == 21 else 'out of place', j['k'])
    if e == 'h4':
        return 'arch=%d %s' % (arch, j['via'])
    if e == 'f1':
        return 'arch=%d gl64_t routine %s' % (arch, j['op'])
    if e == 'pp':
        return 'arch=%d device %s' % (arch, j['fn'])
    if e == 'crash':
        return 'arch=%d case "%s" ends with %s %s' % (arch, j['case'].strip()[:80], j['kind'], j['code'])
    return 'arch=%d %s' % (arch, e)


def describe(j, explained):
    e = j.get('e')
    c = vlib.compact(j)
    if e == 'gx':
        bd, tid = j['bd'], j['tid']
        wrote = [i for i in range(j['n']) if j['c1'][i] != j['c0'][i]]
        spec = [tid, bd + tid, 2 * bd + tid] if j['dim'] == 3 else [tid]
        return ('thread %d of a block of %d: layout cells of c are %s, the routine wrote cells %s%s' %
                (tid, bd, spec, wrote, '; this is exactly the index arithmetic of the source read literally' if explained else ''))
    if e == 'c3':
        return 'op=%s alias=%s a=%s b=%s returns %s' % (j['op'], j['alias'], c['a'], c['b'], c['r'])
    return json.dumps({k: v for k, v in c.items() if k not in ('perms', 'input', 'c')})[:380]


# ------------------------------------------------------------------------------------------------ run
def run_arch(ck, wd, arch, exe, cases, pc, tag, results):
    """driver run + validation of one arch variant; appends (arch, rec, explained) for confirmed rejections to results."""
    cpath = os.path.join(wd, 'cases_%s_%d.txt' % (tag, arch)); tpath = os.path.join(wd, 'trace_%s_%d.ndjson' % (tag, arch))
    write_cases(cpath, cases)
    t0 = time.time(); tm = ck.cov.setdefault('phase_seconds', {}).setdefault(str(arch), {})
    r = sh([exe, cpath, tpath], timeout=900)
    tm['driver'] = round(time.time() - t0, 1); t0 = time.time()
    if r.returncode != 0:
        if 'self-test' in r.stderr:
            raise Infra('tools/ptx_prims.hpp contradicts its __int128 definitions: ' + r.stderr[-400:])
        raise Infra('driver (arch %d) ended with rc=%d: %s' % (arch, r.returncode, r.stderr[-300:]))
    m = re.search(r'self-test passed \((\d+) comparisons\)', r.stderr)
    if m:
        ck.cov['prims_selftest_comparisons'] = int(m.group(1))
    recs = [json.loads(ln) for ln in open(tpath) if ln.strip()]
    for j in recs:
        if j.get('e') == 'crash' and j.get('kind') == 'exit' and j.get('code') == 97:
            raise Infra('device code (case "%s") reached a gl64_t member outside the translated PTX subset' % j['case'].strip())
    env = {'PCONST': pc}
    part = dict(known=[], heavy=[], light=[], info=[])
    raw_ci = {i + 1 for i, c in enumerate(cases) if c[-1] == 'raw'}
    for j in recs:
        if j.get('ci') in raw_ci:
            part['info'].append(j)
        elif predicted_known(j):
            part['known'].append(j)
        elif j.get('e') in HEAVY or (j.get('e') == 'lh' and j.get('check_perm', 0) > 0):
            part['heavy'].append(j)
        else:
            part['light'].append(j)
    counts = {}
    for j in recs:
        counts[j.get('e')] = counts.get(j.get('e'), 0) + 1
    ck.cov.setdefault('events', {})[str(arch)] = counts

    def dump(name, js):
        p = os.path.join(wd, 'tr_%s_%d_%s.ndjson' % (tag, arch, name))
        open(p, 'w').write('\n'.join(json.dumps(j, separators=(',', ':')) for j in js) + '\n')
        return p
    explained = []          # records the classifier accepts: rejected by the specification AND literal reading of the text
    to_spec = {'heavy': part['heavy'], 'light': part['light']}
    if part['known']:
        # one classifier run per routine: a routine whose records are ALL explained (rejected by the specification and exactly
        # the literal reading of the text) is a known-finding candidate; any other routine goes to the specification as a whole
        groups = {}
        for j in part['known']:
            groups.setdefault((j['e'], j.get('fn', j.get('op')), j.get('op') if j['e'] == 'gx' else 0), []).append(j)

        def classify(kv):
            (e, fn, op), js = kv
            return js, validate_trace(wd, MOD, CFG_LIT, dump('known_%s_%s' % (fn, op), js), env=env, nsplit=1, max_rejects=1)
        n_acc = 0
        with ThreadPoolExecutor(max_workers=8) as ex:
            for js, vk in ex.map(classify, list(groups.items())):
                for msg in vk['infra']:
                    if 'left unexamined' not in msg:        # one unexplained record sends the whole routine to the specification
                        ck.note('infrastructure: ' + msg)
                ck.states += vk['states']; ck.transitions += vk['transitions']
                if vk['accepted'] == vk['total'] == len(js) and not vk['rejected']:
                    explained += js; n_acc += len(js)
                else:
                    to_spec['light'] += js          # not the known picture: the specification decides
        ck.cov.setdefault('known_classifier', {})[str(arch)] = dict(routed=len(part['known']), routines=len(groups),
                                                                    explained_and_rejected_by_spec=n_acc)
    tm['classifier_pass'] = round(time.time() - t0, 1); t0 = time.time()
    rejected = []
    with ThreadPoolExecutor(max_workers=3) as ex:
        futs = []
        finfo = ex.submit(validate_trace, wd, MOD, CFG, dump('info', part['info']), env=env, nsplit=4, max_rejects=3) if part['info'] else None
        for name, mc in (('heavy', 2), ('light', 40)):
            if to_spec[name]:
                futs.append((name, ex.submit(validate_trace, wd, MOD, CFG, dump(name, to_spec[name]), env=env, min_chunk=mc, max_rejects=3)))
        for name, f in futs:
            v = f.result()
            ck.add_validation(v, 'device code on the host, __CUDA_ARCH__ %s 700, %s records (%s)' % ('>=' if arch >= 700 else '<', name, tag))
            for msg in v['infra']:
                ck.note('infrastructure: ' + msg)
            rejected += [rec for _, rec in v['rejected']]
            ck.sample_trace(os.path.join(wd, 'tr_%s_%d_%s.ndjson' % (tag, arch, name)), n=2)
    if finfo:
        vi = finfo.result()
        ops = sorted({'%s' % rec.get('op') for _, rec in vi['rejected']})
        ck.cov.setdefault('outside_the_invariant(information)', {})[str(arch)] = dict(records=vi['total'], rejected_at_least=len(vi['rejected']), ops_seen=ops)
        if vi['rejected'] and arch == ARCHS[0]:
            _, rec = vi['rejected'][0]
            ck.note('information (outside the stated operand domain, not a verdict): with raw coefficient words in [p, 2^64) - legal '
                    'for the CPU library, outside gl64_t\'s fully-reduced invariant - Goldilocks3GPU records differ from the field '
                    'result (at least %d of %d looked at; operations seen: %s), e.g. %s' % (len(vi['rejected']), vi['total'], ', '.join(ops), describe(rec, False)))
    tm['specification_pass'] = round(time.time() - t0, 1); t0 = time.time()
    # ---- confirmation: exactly the case of a rejected record, alone in a fresh process (one witness per class of record)
    seen = {}
    for rec in rejected:
        cls = (rec.get('e'), rec.get('op'), rec.get('fn'), rec.get('variant'), rec.get('via'))
        if cls not in seen and len(seen) < 6:
            seen[cls] = rec

    def confirm(irec):
        i, rec = irec
        how = vlib.confirm_case(wd, MOD, CFG, lambda cp, tp: [exe, cp, tp], write_cases, cases, rec['ci'], env=env,
                                tag='confirm_%d_r%d' % (arch, i))
        expl = False
        if how and rec.get('e') in ('gx', 'c3'):
            v2 = validate_trace(wd, MOD, CFG_LIT, dump('cls_%d' % i, [rec]), env=env, nsplit=1)
            expl = v2['accepted'] == 1
        return rec, how, expl
    with ThreadPoolExecutor(max_workers=6) as ex:
        for rec, how, expl in ex.map(confirm, list(enumerate(seen.values()))):
            if not how:
                ck.note('rejection not reproduced on re-run (arch %d): %s' % (arch, key_of(arch, rec, False)))
                continue
            results.append((arch, rec, expl, cases[:rec['ci']] if how == 'history' else [cases[rec['ci'] - 1]]))
    if len(rejected) > len(seen):
        ck.note('arch %d: %d further rejected records not individually confirmed' % (arch, len(rejected) - len(seen)))
    # one witness per routine of what the classifier explained, confirmed like any other rejection: its case alone in a
    # fresh process must be rejected by the specification again
    wit = {}
    for j in explained:
        wit.setdefault((j.get('e'), j.get('fn'), j.get('op')), j)
    if arch == ARCHS[0] or tag == 'replay':
        def conf(kj):
            k, j = kj
            return j, vlib.confirm_case(wd, MOD, CFG, lambda cp, tp: [exe, cp, tp], write_cases, cases, j['ci'], env=env,
                                        tag='confirm_%d_w%d' % (arch, j['ci']))
        with ThreadPoolExecutor(max_workers=8) as ex:
            for j, how in ex.map(conf, list(wit.items())):
                if how:
                    results.append((arch, j, True, [cases[j['ci'] - 1]]))
                else:
                    ck.note('known-finding witness not reproduced on re-run (arch %d): %s' % (arch, key_of(arch, j, True)))
    tm['confirmations'] = round(time.time() - t0, 1)
    return explained


def run(tier, seed, replay=None):
    import gpuhost
    ck = Check('G01', tier, seed)
    wd = workdir('G01')
    ck.assumptions += [
        'no GPU execution: the PTX subset semantics of spec/Ptx.tla / tools/ptx_prims.hpp (C20, unit-tested there) is the trusted base; '
        'every asm operand is its own register, the carry flag does not survive between asm statements',
        'the C++ between the PTX leaves is compiled by the host g++ from the source text (fully reduced configuration: '
        'GL64_PARTIALLY_REDUCED and GL64_NO_REDUCTION_KLUDGE undefined); overload resolution is g++\'s',
        'threadIdx / blockIdx / blockDim / gridDim are host variables; a launch is the loop over blocks and threads, thread 0 of '
        'a block first; __shared__ = static, __syncthreads() = no-op, cudaMemcpyToSymbol = bounds-checked memcpy: data races, '
        'memory spaces and scheduling are not modelled',
        'operands of the cubic-extension and gl64_t arithmetic are fully reduced words (the type\'s invariant; values enter '
        'through the constructor); the Poseidon kernels receive raw 64-bit words in any representation, as merkletree_cuda passes them',
        'expression helpers: blocks of 1..4 threads (index expressions evaluated in 32-bit unsigned arithmetic without shift overflow)',
        'the sponge events carry the absorb pairs of the definition computed with the CPU scalar permutation (the device code '
        'has no tracer hook); one pair per marked event and every "iter"/"h4" reference is re-derived from Poseidon.Perm by TLC']
    try:
        gendir, info = gpuhost.write(vlib.REPO, wd)
    except gpuhost.ParseError as e:
        ck.note('host execution not derived from current source (gpuhost: %s); device code not explored' % e)
        ck.cov['model_derived'] = False
        return ck.finish()
    ck.cov['model_derived'] = True
    ck.cov['device_functions_extracted'] = info['cu_kept']
    ck.cov['host_functions_left_out'] = info['cu_dropped']
    ck.cov['gl64_leaf_ssa_instructions'] = {a: info['arch'][a]['insns'] for a in info['arch']}
    ck.cov['gl64_members_stubbed'] = info['arch'][str(ARCHS[0])]['stubbed']
    if not info['f3_constants_defined']:
        ck.note('Goldilocks3GPU::ZERO / ONE / NEGONE are declared in goldilocks_cubic_extension.cuh and defined nowhere in it; the '
                'driver supplies definitions so that neg() / zero() / one() link (build-level observation, not a verdict)')
    with ThreadPoolExecutor(max_workers=2) as ex:
        exes = dict(zip(ARCHS, ex.map(lambda a: build_driver('drv_gpudev', 'avx2', extra=['-I%s/a%d' % (gendir, a), '-I' + gendir]), ARCHS)))
    # constant tables of the CPU library of this tree (PCONST of Poseidon.tla)
    c0 = os.path.join(wd, 'consts_case.txt'); t0 = os.path.join(wd, 'consts.ndjson')
    open(c0, 'w').write('consts\n')
    sh([exes[ARCHS[0]], c0, t0], timeout=120, check=True)
    j = json.loads(open(t0).read().strip().split('\n')[0])
    pc = os.path.join(wd, 'poseidon_consts.json')
    json.dump({k: j[k] for k in ('C', 'M', 'P', 'S', 'M_', 'P_')}, open(pc, 'w'))
    results = []
    if replay:
        rj = json.load(open(replay))['case']
        archs = [rj['arch']] if rj.get('arch') in ARCHS else list(ARCHS)
        cases = [list(map(str, c)) for c in rj['cases']]
        for a in archs:
            run_arch(ck, wd, a, exes[a], cases, pc, 'replay', results)
    else:
        cases = gen_cases(seed, tier)
        ck.cov['cases'] = len(cases)
        with ThreadPoolExecutor(max_workers=2) as ex:
            expl = list(ex.map(lambda a: run_arch(ck, wd, a, exes[a], cases, pc, 'main', results), ARCHS))
        grid = {}
        for j in expl[0]:
            if j['e'] == 'gx':
                grid.setdefault(ROUTINE[(j['fn'], j['op'])], []).append('%d/%d' % (j['tid'], j['bd']))
        ck.cov['helpers_explained_by_literal_indices(threadIdx/blockDim)'] = {k: sorted(set(v)) for k, v in grid.items()}
    reported = set()
    for arch, rec, explained, rcases in sorted(results, key=lambda r: (r[0] != ARCHS[0], not r[2])):
        key = key_of(arch, rec, explained)
        if key in reported or len(ck.violations) >= 8:
            continue
        reported.add(key)
        ck.violation(key, describe(rec, explained), dict(arch=arch, cases=rcases, event=vlib.compact({k: v for k, v in rec.items() if k not in ('a', 'b', 'd', 'c0', 'c1', 'perms')})))
    ck.cov['exhaustive'] = False
    return ck.finish()
