"""C02 — AVX2 lane kernels equal the scalar field op in every lane, for every input.
Model: LaneKernels.tla, generated at check time from the intrinsic code of the current tree (tools/avx2tla.py): one lane of every AVX2 kernel (shifted representation,
signed 64-bit compares, the 32-bit high-half compare shortcut, movehdup/moveldup/blend recombination, the 33/31-bit
shifts of the squaring).  TLC: every lane operand pair at W in {2,3,4} under each kernel's documented assumption:
output represents the scalar result (the 128-bit products exactly).  Apalache W=32: the same text for all lane contents,
partial 32x32 products free (over-approximation), 12 obligations.  Conformance: operand pairs from a corner family
(halves at 0, 2^31 and 2^32 boundaries, +-p, ties of the 32-bit compare), model counterexamples and seeded words in all
representations, restricted by each kernel's assumption, in every lane position with different neighbours, through the
library's load/set -> kernel -> store; Trace_Lane validates every lane over the limb field."""
import json
import vlib, lanelib
from vlib import Check, workdir
APA = ['InvToCanon', 'InvAdd', 'InvAddASc', 'InvAddSBSmall', 'InvAddBSmall', 'InvSub', 'InvSubSBSmall', 'InvMult128P', 'InvMult72P', 'InvSquare128P', 'InvReduce128', 'InvReduce96', 'InvMult8_3', 'InvMult8_255']


def run(tier, seed, replay=None):
    ck = Check('C02', tier, seed)
    wd = workdir('C02')
    ck.assumptions += ['the lane model is GENERATED from the intrinsic code of the current tree (tools/avx2tla.py; trusted: its intrinsic semantics table); model counterexamples are replayed on the compiled kernels',
                       'mul_epu32 (32x32->64) is the trusted primitive; at W=32 its results are universally quantified within range']
    if replay:
        cases = [lanelib.case_from_json(c) for c in json.load(open(replay))['case']['cases']]
    else:
        leads = lanelib.model_lane(ck, wd, tier, APA + (['InvMult_3'] if tier == 'thorough' else []))
        cases = lanelib.lead_cases(lanelib.LANE2, leads) + lanelib.lane_cases(lanelib.LANE2, seed, tier)
    lanelib.replay(ck, wd, 'avx2', cases, 'AVX2 lane kernels (%d register groups, 17 kernels)' % len(cases),
                   lambda c, r: 'kernel %s lanes a=%s b=%s' % (c[1], ' '.join('%x' % p[0] for p in c[2]), ' '.join('%x' % p[1] for p in c[2])))
    ck.cov['register_groups'] = len(cases)
    return ck.finish()
