"""C09 — cubic extension arithmetic is exact in F_p[x]/(x^3 - x - 1).
Model: Cubic.tla over the width-parametric field: TLC checks, for every pair of elements over F_13 (quick: second
operand from a generating subset), that the code's Karatsuba-style product equals the definition, ring laws, that the
closed-form inverse multiplies to one for all 2,196 non-zero elements, batch inversion = element-wise inversion, and the
is-one predicate.  Conformance: every scalar overload of the compiled library (ext/ext, ext/base, base/ext, ext/integer,
division by a base element, decimal-string scalar, square, neg, inv, batchInverse lengths 1..2050 (quick) / ..5000 (thorough),
is-one, conversions) with whole-object aliasing patterns on corner and seeded coefficient triples in all representations;
Trace_Cubic recomputes by schoolbook over the limb field and checks inverse certificates."""
import os, json
import vlib
from vlib import Check, tlc, workdir, build_driver, validate_trace, sh
P = vlib.P
M = 2**64
OPS2 = ['add', 'sub', 'mul']
OPS1 = ['add_eb', 'add_be', 'add_eu', 'sub_eb', 'sub_be', 'sub_eu', 'mul_eb', 'mul_be', 'mul_eu', 'div_eb']
OPS0 = ['neg', 'square', 'inv']


def gen_cases(seed, tier):
    rng = vlib.Rng(seed ^ 0xC09)
    corner = [0, 1, 2, P - 1, P, P + 1, M - 1, 2**32, 2**32 - 1, 2**63, (P - 1) // 2]
    triples = [(1, 0, 0), (0, 1, 0), (0, 0, 1), (0, 0, 0), (P, P, P), (P + 1, P, P), (1, 5, 7), (1, P, 0), (1, 0, P), (P + 1, 0, 0),
               (1, 1, 0), (1, 0, 1), (2, 0, 0), (M - 1, M - 1, M - 1), (P - 1, P - 1, P - 1), (0, P + 1, 0), (0, 0, P + 1), (0, 0, M - 1)]
    for i in range(40 if tier == 'quick' else 600):
        triples.append((rng.word(), rng.word(), rng.word()))
    for i in range(20):
        triples.append(tuple(corner[rng.below(len(corner))] for _ in range(3)))
    cs = []
    n = len(triples)
    for i, a in enumerate(triples):
        for k in (1, 7):
            b = triples[(i * 5 + k) % n]
            for op in OPS2:
                cs.append((op,) + a + b)
        bs = corner[i % len(corner)] if i % 2 else rng.word()
        for op in OPS1:
            if op == 'div_eb' and bs % P == 0:
                continue
            cs.append((op,) + a + (bs, 0, 0))
        for op in OPS0:
            if op == 'inv' and all(x % P == 0 for x in a):
                continue
            cs.append((op,) + a + (0, 0, 0))
        cs.append(('isone',) + a + (0, 0, 0))
        cs.append(('conv',) + a + (rng.below(2**32), [0x80000000, 0x7FFFFFFF, 0xFFFFFFFF][i % 3], rng.below(2**32)))
        if i % 3 == 0:
            sc = [0, 1, P - 1, P, P + 7, 2**64 + 5, -1, -P - 5, 12345678901234567890123][(i // 3) % 9]
            cs.append(('mulscalar',) + a + (0, 0, 0, str(sc)))
    # is-one: every single-coefficient perturbation of (1,0,0)
    for v in corner + [5, 7]:
        cs.append(('isone', 1, v, 0, 0, 0, 0)); cs.append(('isone', 1, 0, v, 0, 0, 0)); cs.append(('isone', v, 0, 0, 0, 0, 0))
        cs.append(('isone', 1, v, v, 0, 0, 0))
    # an operation iterated on its own (aliased) result: inv(x,x); inv(x,x) must give x back, etc.
    for i in range(12 if tier == 'quick' else 200):
        a = triples[(i * 7 + 3) % n]; b = triples[(i * 11 + 5) % n]
        if all(x % P == 0 for x in a):
            a = (1, 2, 3)
        f = ['inv', 'inv', 'neg', 'square', 'mul', 'rmul', 'add', 'sub', 'rsub'][i % 9]
        cs.append(('chain', f, str(4 if f != 'inv' else 3)) + a + b)
    lens = [1, 2, 3, 4, 5, 8, 16, 33, 64, 1025, 2050] if tier == 'quick' else [1, 2, 3, 4, 5, 8, 16, 33, 64, 127, 500, 1024, 1025, 2049, 4097, 5000]
    for ln in lens:
        cs.append(('batchinv', ln, rng.next(), '0'))
    # the same in other OpenMP delivery environments (call from inside a parallel region, foreign thread-count setting)
    for ln, env in ([(7, 1), (300, 2), (4099, 1)] if tier == 'quick' else [(7, 1), (300, 2), (1025, 3), (4096, 1), (4099, 1), (8200, 1), (8200, 3), (16390, 1)]):
        cs.append(('batchinv', ln, rng.next(), str(env)))
    return cs


def write_cases(path, cases):
    with open(path, 'w') as f:
        for c in cases:
            f.write(' '.join(x if isinstance(x, str) else ('0x%x' % x) for x in c) + '\n')


def run(tier, seed, replay=None):
    ck = Check('C09', tier, seed)
    wd = workdir('C09')
    ck.assumptions += ['Cubic.tla transcribes the scalar formulas by hand; the compiled code is bound by replay',
                       'aliasing of a base-field reference operand with one coefficient of the output is out of scope (not an operand-level alias)']
    if replay:
        cases = [tuple(c) for c in json.load(open(replay))['case']['cases']]
    else:
        cfg = 'MC_Cubic_run.cfg'
        open(os.path.join(wd, cfg), 'w').write(open(os.path.join(wd, 'MC_Cubic.cfg')).read().replace('BSub = TRUE', 'BSub = %s' % ('TRUE' if tier == 'quick' else 'FALSE')))
        r = tlc(wd, 'MC_Cubic', cfg, timeout=1500)
        ck.add_tlc(r, 'MC_Cubic over F_13^3: Karatsuba=definition, ring laws, inverses, batch inversion, is-one (%s second operands)' % ('subset of' if tier == 'quick' else 'all'))
        if not r.ok:
            ck.note('model-level: MC_Cubic: %s' % (r.violated or r.error))
        cases = gen_cases(seed, tier)
    exe = build_driver('drv_cubic')
    cpath = os.path.join(wd, 'cases.txt'); tpath = os.path.join(wd, 'trace.ndjson')
    write_cases(cpath, cases)
    r = sh([exe, cpath, tpath], timeout=900)
    if r.returncode != 0:
        ck.violation('driver-ended rc=%d' % r.returncode, 'cubic driver ended abnormally: %s' % r.stderr[-300:], dict(cases=[list(c) for c in cases]))
        return ck.finish()
    v = validate_trace(wd, 'Trace_Cubic', 'Trace_Cubic.cfg', tpath, min_chunk=60)
    ck.add_validation(v, 'cubic-extension calls (%d cases)' % len(cases))
    ck.sample_trace(tpath)
    for msg in v['infra']:
        ck.note('infrastructure: ' + msg)
    seen = set()
    for idx, rec in v['rejected']:
        case = cases[rec.get('ci', 1) - 1]
        cls = rec.get('op') or rec['e']
        if cls in seen or len(ck.violations) >= 8:
            continue
        seen.add(cls)
        ci = rec.get('ci', 1)
        how = vlib.confirm_case(wd, 'Trace_Cubic', 'Trace_Cubic.cfg', lambda cp, tp: [exe, cp, tp], write_cases, cases, ci)
        if how:
            ck.violation('%s alias=%s case=%s%s' % (cls, rec.get('alias'), ' '.join(x if isinstance(x, str) else hex(x) for x in case), vlib.HIST if how == 'history' else ''),
                         'recorded result is not the exact result in F_p[x]/(x^3-x-1): %s' % json.dumps(vlib.compact(rec))[:300],
                         dict(cases=[list(x) for x in (cases[:ci] if how == 'history' else [case])], event=rec))
        else:
            ck.note('rejection of %s not reproduced on re-run (neither alone nor after its process history)' % cls)
    if not replay and not ck.violations:
        vlib.concurrent_pass(ck, wd, 'Trace_Cubic', 'Trace_Cubic.cfg', lambda cp, tp: [exe, cp, tp], write_cases, [c for c in cases if c[0] != 'batchinv' or c[1] <= 64], 'cubic-extension operations', max_cases=1500, min_chunk=60)
    ck.cov['cases'] = len(cases); ck.cov['rejected_records'] = len(v['rejected'])
    return ck.finish()
