"""C19 — transform objects are reusable: results depend only on the call's arguments.
Model: NTTObject.tla — the per-object mutable state (the lazily built extension table r/r_ with the N it was built for,
and the heap blocks the object owns) under every history of NTT / INTT / extendPol calls of length <= 3 (thorough 4):
the scaling table an extendPol uses is the one a fresh object would build, every table read is in bounds, the destructor
frees everything with the matching deallocator; LegacyRCache / LegacyDelete reproduce the pinned-tree defects.
Conformance: TLC enumerates every history of length <= 3 over a 12-call alphabet (MC_NTTHist, the set replayed is the set
enumerated) plus seeded long histories; the driver runs each on ONE shared object and each call again on a fresh object;
Trace_NTT requires the k-th result to equal the fresh-object result and the definition (DFT / inverse / LDE tables)."""
import os, json
import vlib, nttlib
from vlib import Check, tlc, workdir, validate_trace, sh

ALPHA_S = 4


def desc(c):
    return '%s:%d:%d:%d:%d:%d:%s:%s' % (c['call'], c['d'], c['e'], c['ncols'], c['nphase'], c['nblock'], c['dst'], c['buf'])


def run(tier, seed, replay=None):
    ck = Check('C19', tier, seed)
    wd = workdir('C19')
    ck.assumptions += ['object state modelled: r/r_ cache and owned heap blocks; roots/powTwoInv are immutable after construction',
                       'global OpenMP ICVs set by a call (omp_set_num_threads) are not part of the compared result']
    maxlen = 3 if tier == 'quick' else 4
    lines = []
    if replay:
        lines = json.load(open(replay))['case']['cases']
    else:
        base = open(os.path.join(wd, 'MC_NTTObject.cfg')).read()
        for tag, rc, dl in (('repaired', 'FALSE', 'FALSE'), ('LegacyRCache', 'TRUE', 'FALSE'), ('LegacyDelete', 'FALSE', 'TRUE')):
            cfg = base.replace('MaxLen = 3', 'MaxLen = %d' % maxlen).replace('LegacyRCache = FALSE', 'LegacyRCache = ' + rc).replace('LegacyDelete = FALSE', 'LegacyDelete = ' + dl)
            open(os.path.join(wd, 'MC_NTTObject_%s.cfg' % tag), 'w').write(cfg)
            r = tlc(wd, 'MC_NTTObject', 'MC_NTTObject_%s.cfg' % tag, timeout=900, workers=8, tag=tag)
            if tag == 'repaired':
                ck.add_tlc(r, 'MC_NTTObject: all histories of length <= %d over {ntt,intt,ext} x sizes <= 2^3' % maxlen)
                if not r.ok:
                    ck.note('model-level: MC_NTTObject: %s' % (r.violated or r.error))
            else:
                ck.cov.setdefault('legacy_switch_counterexamples', {})[tag] = r.violated
        hout = os.path.join(wd, 'hist.ndjson')
        open(os.path.join(wd, 'MC_NTTHist_run.cfg'), 'w').write(open(os.path.join(wd, 'MC_NTTHist.cfg')).read().replace('MaxLen = 3', 'MaxLen = %d' % (3 if tier == 'quick' else 3)))
        r = tlc(wd, 'MC_NTTHist', 'MC_NTTHist_run.cfg', timeout=600, workers=1, env={'HISTOUT': hout}, tag='hist')
        ck.add_tlc(r, 'MC_NTTHist: history enumeration (behaviour generator)')
        hid = 0
        for ln in open(hout):
            ln = ln.strip()
            if not ln:
                continue
            h = json.loads(ln)
            hid += 1
            lines.append('H %d %d %d %d %s' % (hid, ALPHA_S, [1, 2, 3][hid % 3], len(h), ' '.join(desc(c) for c in h)))
        ck.cov['tlc_generated_histories'] = hid
        # seeded long histories over a wider alphabet (same S)
        rng = vlib.Rng(seed ^ 0xC19)
        for i in range(40 if tier == 'quick' else 400):
            k = 20
            hs = []
            for _ in range(k):
                call = ['ntt', 'intt', 'ext', 'ext'][rng.below(4)]
                d = rng.below(ALPHA_S + 1)
                e = rng.below(ALPHA_S - d + 1) if call == 'ext' else 0
                dst = ['same', 'other', 'null'][rng.below(3)]
                if call == 'ext' and dst == 'null':
                    dst = 'other'
                hs.append('%s:%d:%d:%d:%d:%d:%s:%s:%d:%d' % (call, d, e, 1 + rng.below(6), [0, 1, 2, 3, 4, 1000000][rng.below(6)], [0, 1, 2, 3][rng.below(4)], dst, ['null', 'caller'][rng.below(2)],
                                                      rng.below(nttlib.NVEC), [0, 0, 0, 0, 1, 2, 3][rng.below(7)]))
            hid += 1
            lines.append('H %d %d %d %d %s' % (hid, ALPHA_S, 1 + rng.below(3), k, ' '.join(hs)))
    v, exe, tpath = nttlib.replay(ck, wd, lines, seed, ALPHA_S, 'call histories on a shared object vs fresh objects (%d histories)' % len(lines), hist=True)
    nttlib.judge_histories(ck, wd, v, exe, lines)
    ck.cov['histories'] = len(lines); ck.cov['rejected_records'] = len(v['rejected'])
    return ck.finish()
