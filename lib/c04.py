"""C04 — INTT is the exact inverse transform in every configuration.
Same state machine as C03 entered through INTT (NULL destination = in place, fused scaling in the last pass with the
index reflection k -> n-k); TLC checks result = n^-1 * sum_j x_j w^(-jk) for every configuration and basis input.
Conformance: every configuration on the compiled library against the inverse-DFT definition evaluated by TLC; because
forward and inverse are each compared with their definitions for *every* (nphase, nblock), any pairing of different
settings on the two legs of a round trip is covered; Trace_NTT also asserts IDFT(DFT(x)) = x on its own tables."""
import nttlib


def run(tier, seed, replay=None):
    return nttlib.run_property('C04', ['intt'], tier, seed, replay)
