"""Shared machinery of C03 / C04 / C05 / C19: the NTT state-machine model runs and the configuration replay."""
import os, json, re, itertools
import vlib
from vlib import Check, tlc, workdir, build_driver, validate_trace, sh

P = vlib.P
HUGE = 1000000


def parse_roots():
    """the library's root table W[33], read from the current tree"""
    src = open(os.path.join(vlib.REPO, 'src', 'goldilocks_base_field.cpp')).read()
    m = re.search(r'Goldilocks::W\[33\]\s*=\s*\{(.*?)\};', src, re.S)
    vals = re.findall(r'fromU64\(\s*(0x[0-9a-fA-F]+|\d+)(?:ULL|LL|UL)?\s*\)', m.group(1))
    return [int(v, 0) for v in vals]


NVEC = 6


def base_vectors(rng, d):
    """v0: seeded words in mixed representations; v1..: structured vectors that drive the butterfly data path through
    its boundary values (a delta of 2^64-1 keeps every intermediate word at 2^64-1; p-1 / 2^32-1 pairs sum to 2^64-1; ...)"""
    n = 1 << d
    M = 2**64
    vs = [[rng.word() for _ in range(n)]]
    vs.append([M - 1] + [0] * (n - 1))
    vs.append([P - 1] * n)
    vs.append([(P - 1) if j % 2 == 0 else (2**32 - 1) for j in range(n)])
    v4 = [0] * n; v4[n // 2] = P; v4[0] = P - 1 if n > 1 else P
    vs.append(v4)
    vs.append([M - 1] * n)
    return vs[:NVEC]


def make_inputs(wd, seed, maxd, maxcols=200):
    rng = vlib.Rng(seed ^ 0x177)
    X = []
    for d in range(maxd + 1):
        X.append(base_vectors(rng, d))
    M = [1, 3, P - 2, 0x123456789ABCDEF, 7, 2**32, P - 1, 0xFFFFFFFF]
    mr = vlib.Rng(seed ^ 0x3C01)
    while len(M) < maxcols:
        M.append(1 + mr.next() % (P - 1))      # column multipliers of wide matrices (non-zero)
    M = M[:maxcols]
    W = parse_roots()
    with open(os.path.join(wd, 'ntt_inputs.txt'), 'w') as f:
        for d, vs in enumerate(X):
            for v, xs in enumerate(vs):
                f.write('X %d %d %s\n' % (d, v, ' '.join('0x%x' % x for x in xs)))
        f.write('M %d %s\n' % (len(M), ' '.join('0x%x' % m for m in M)))
    json.dump(dict(maxd=maxd, nv=NVEC, W=[vlib.w64(w) for w in W], X=[[[vlib.w64(x) for x in xs] for xs in vs] for vs in X], M=[vlib.w64(m) for m in M]),
              open(os.path.join(wd, 'ntt_inputs.json'), 'w'))
    return X, M, W


def enum_cases(calls, smax, tier, seed, sub=1):
    """every configuration of the bounded space (the same space the TLC model explores, larger sizes)"""
    cases = []
    cid = 0
    ncols_set = [1, 2, 3]
    nblocks = [0, 1, 2, 3, HUGE]
    k = 0
    for call in calls:
        for S in range(smax + 1):
            for d in range(S + 1):
                es = range(0, smax - d + 1) if call == 'ext' else [0]
                for e in es:
                    nphases = sorted(set([0, 1, 2, 3, 4, d, d + 1, HUGE]))
                    for nc, nph, nb, dst, buf in itertools.product(ncols_set, nphases, nblocks, ['same', 'other', 'null'], ['null', 'caller']):
                        if call == 'ext' and dst == 'null':
                            continue
                        k += 1
                        if sub > 1 and S == smax and (k % sub):
                            continue
                        cid += 1
                        nth = [1, 2, 3, 8][(k // 3) % 4]
                        cases.append((cid, call, S, d, e, nc, nph, nb, dst, buf, nth, k % NVEC, 0))
                        if k % 4 == 0 and nth > 1:      # the same configuration in another delivery environment of the OpenMP runtime
                            cid += 1
                            cases.append((cid, call, S, d, e, nc, nph, nb, dst, buf, nth, (k // 4) % NVEC, 1 + (k // 4) % 3))
                    # wider matrices with uneven column blocks (ncols % nblock != 0, 2*ceil(ncols/nblock) <= ncols, ...)
                    if S <= 3:
                        for nc, nb in [(5, 2), (5, 3), (5, 4), (8, 3), (8, 5), (7, 2), (4, 3), (4, 2), (6, 4)]:
                            for nph in sorted(set([1, 2, 3, d + 1])):
                                for dst, buf in itertools.product(['same', 'other', 'null'], ['null', 'caller']):
                                    if call == 'ext' and dst == 'null':
                                        continue
                                    k += 1
                                    cid += 1
                                    cases.append((cid, call, S, d, e, nc, nph, nb, dst, buf, [1, 2, 3, 8][k % 4], k % NVEC, [0, 0, 1, 0, 2, 3][k % 6]))
                    # zero columns: a no-op for every mode
                    for dst in ['same', 'other']:
                        cid += 1
                        cases.append((cid, call, S, d, e, 0, 3, 1, dst, 'null', 2, 0, 0))
        # wide matrices: column counts around and at multiples of the vector widths / of 64 (chunked row operations)
        for d in (2, 3):
            for e in ((0, 1) if call == 'ext' else (0,)):
                for nc in (16, 33, 64, 65, 128, 192):
                    for nph, nb, dst, buf in [(2, 1, 'same', 'null'), (3, 1, 'other', 'caller'), (2, 1, 'null', 'null'), (1, 3, 'same', 'caller'), (4, 2, 'other', 'null'), (2, 5, 'same', 'null')]:
                        if call == 'ext' and dst == 'null':
                            dst = 'same'
                        k += 1
                        if tier == 'quick' and (k % 2) and nc not in (64, 128):
                            continue
                        cid += 1
                        cases.append((cid, call, d, d, e, nc, nph, nb, dst, buf, [1, 2, 3, 8][k % 4], k % NVEC, 0))
    return cases


def write_cases(path, cases):
    with open(path, 'w') as f:
        for c in cases:
            f.write(' '.join(str(x) for x in c) + '\n')


def case_key(rec_or_case):
    if isinstance(rec_or_case, dict):
        r = rec_or_case
        return 'call=%s S=%s d=%s x=%s ncols=%s nphase=%s nblock=%s dst=%s buf=%s' % (r['call'], r['S'], r['d'], r['x'], r['ncols'], r['nphase'], r['nblock'], r['dst'], r['buf']) + (' env=%s' % r['env'] if r.get('env') else '')
    c = rec_or_case
    return 'call=%s S=%s d=%s x=%s ncols=%s nphase=%s nblock=%s dst=%s buf=%s' % tuple(c[1:10]) + (' env=%s' % c[12] if len(c) > 12 and c[12] else '')


def run_model(ck, wd, calls, maxs, tier, legacy_check=True):
    base = open(os.path.join(wd, 'MC_NTT.cfg')).read()
    callset = '{' + ', '.join('"%s"' % c for c in calls) + '}'
    cfg = re.sub(r'MaxS = \d+', 'MaxS = %d' % maxs, base)
    cfg = re.sub(r'Calls = \{[^}]*\}', 'Calls = ' + callset, cfg)
    open(os.path.join(wd, 'MC_NTT_run.cfg'), 'w').write(cfg)
    r = tlc(wd, 'MC_NTT', 'MC_NTT_run.cfg', timeout=3000, xmx='24g', tag='ntt' + ''.join(calls))
    ck.add_tlc(r, 'MC_NTT %s MaxS=%d: all configurations (size<=domain, nphase/nblock incl. out of range, dst x buffer modes), all basis inputs over F_97' % (callset, maxs))
    if not r.ok:
        ck.note('model-level: MC_NTT %s MaxS=%d: %s (lead only; the replay decides)' % (callset, maxs, r.violated or r.error or 'rc=%s' % r.rc))
    if legacy_check:
        hits = {}
        for L in ['LegacySched', 'LegacyNull', 'LegacyInplace']:
            c2 = re.sub(r'MaxS = \d+', 'MaxS = 3', base).replace('%s = FALSE' % L, '%s = TRUE' % L)
            open(os.path.join(wd, 'MC_NTT_%s.cfg' % L), 'w').write(c2)
            rl = tlc(wd, 'MC_NTT', 'MC_NTT_%s.cfg' % L, timeout=900, tag=L)
            hits[L] = rl.violated
        ck.cov['legacy_switch_counterexamples'] = hits
        if not all(hits.values()):
            ck.note('non-vacuity: a Legacy* switch did not produce a counterexample: %r' % hits)
    return r


def replay(ck, wd, cases, seed, maxd, label, hist=False):
    make_inputs(wd, seed, maxd)
    exe = build_driver('drv_ntt')
    cpath = os.path.join(wd, 'cases.txt'); tpath = os.path.join(wd, 'trace.ndjson')
    if not hist:
        write_cases(cpath, cases)
    else:
        open(cpath, 'w').write('\n'.join(cases) + '\n')
    if os.path.exists(tpath):
        os.remove(tpath)
    r = sh([exe, os.path.join(wd, 'ntt_inputs.txt'), cpath, tpath], timeout=3000)
    if r.returncode != 0:
        ck.note('infrastructure: NTT driver rc=%s %s' % (r.returncode, r.stderr[-200:]))
    v = validate_trace(wd, 'Trace_NTT', 'Trace_NTT.cfg', tpath, env={'NTTIN': os.path.join(wd, 'ntt_inputs.json')}, min_chunk=300, max_rejects=16)
    ck.add_validation(v, label)
    ck.sample_trace(tpath, n=4)
    for msg in v['infra']:
        ck.note('infrastructure: ' + msg)
    return v, exe, tpath


def run_property(pid, calls, tier, seed, replay_path, doc_assumptions=()):
    ck = Check(pid, tier, seed)
    wd = workdir(pid)
    ck.assumptions += ['model data field is F_97 (linearity argument: equality with the DFT/LDE matrix rows on every basis vector)',
                       'replay sizes are bounded (quick: domain <= 16, thorough: <= 32); larger transforms are covered by the size-uniform index arithmetic only',
                       'the driver copies the logged input matrix into exact-extent buffers (memcpy/memcmp trusted)'] + list(doc_assumptions)
    smax = 4 if tier == 'quick' else 5
    if replay_path:
        j = json.load(open(replay_path))
        cases = [tuple(c) for c in j['case']['cases']] if not j['case'].get('hist') else []
    else:
        run_model(ck, wd, calls, 3 if tier == 'quick' else (4 if 'ext' in calls else 5), tier)
        cases = enum_cases(calls, smax, tier, seed, sub=(3 if tier == 'quick' else 1))
    v, exe, tpath = replay(ck, wd, cases, seed, smax, '%s configurations x seeded matrix (%d cases, domain <= %d)' % ('/'.join(calls), len(cases), 1 << smax))
    if not replay_path:
        big_rej, bexe, binp, bcases = big_replay(ck, wd, calls, seed, tier)
        for key, case in big_rej[:4]:
            ck.violation(key, 'large-size replay rejected (the record is judged in the context of the other configurations of its class; replay re-runs the whole large-size family)', dict(cases=[], big=True))
        ck.cov['large_size_cases'] = len(bcases)
    byid = {c[0]: c for c in cases}
    classes = {}
    for idx, rec in v['rejected']:
        if rec.get('e') == 'crash':
            t = rec['case'].split()
            case = byid.get(int(t[0]))
            what = 'crash %s %s' % (rec['kind'], rec['code'])
        elif rec.get('e') == 'tr':
            case = byid.get(rec['ci'])
            what = 'wrong-result' if (rec.get('src_same') and rec.get('slack_ok')) else ('src-modified' if not rec.get('src_same') else 'slack-touched')
        else:
            case = None; what = 'input-event-rejected'
        if case is None:
            ck.note('rejected record without a case: %s' % str(rec)[:200]); continue
        key = '%s -> %s' % (case_key(case), what)
        cls = (case[1], what, case[8], 'blocks' if case[7] not in (0, 1) else 'single', 'sub' if case[3] < case[2] else 'full', 'ext' if case[4] > 0 else '', 'env%s' % case[12] if len(case) > 12 and case[12] else '')
        classes.setdefault(cls, []).append((key, case, rec))
    ck.cov['rejected_records'] = len(v['rejected'])
    ck.cov['rejection_classes'] = len(classes)
    for cls, items in sorted(classes.items(), key=lambda kv: str(kv[0])):
        key, case, rec = items[0]
        # confirm on a re-run of exactly this case
        c2 = os.path.join(wd, 'confirm.txt'); t2 = os.path.join(wd, 'confirm.ndjson')
        write_cases(c2, [case])
        if os.path.exists(t2):
            os.remove(t2)
        sh([exe, os.path.join(wd, 'ntt_inputs.txt'), c2, t2], timeout=120)
        v2 = validate_trace(wd, 'Trace_NTT', 'Trace_NTT.cfg', t2, env={'NTTIN': os.path.join(wd, 'ntt_inputs.json')}, nsplit=1)
        if v2['rejected']:
            ck.violation(key, '%d configurations of this class rejected; e.g. %s' % (len(items), '; '.join(k for k, _, _ in items[:4])),
                         dict(cases=[list(c) for _, c, _ in items[:20]]))
        else:
            # not reproducible in isolation: re-run the whole process history up to and including the case
            pos = [i for i, c in enumerate(cases) if c[0] == case[0]][0]
            write_cases(c2, cases[:pos + 1])
            if os.path.exists(t2):
                os.remove(t2)
            sh([exe, os.path.join(wd, 'ntt_inputs.txt'), c2, t2], timeout=3000)
            last = [ln for ln in open(t2).read().split('\n') if ln.strip()][-1:]
            t3 = os.path.join(wd, 'confirm_last.ndjson')
            open(t3, 'w').write('\n'.join(last) + '\n')
            v3 = validate_trace(wd, 'Trace_NTT', 'Trace_NTT.cfg', t3, env={'NTTIN': os.path.join(wd, 'ntt_inputs.json')}, nsplit=1)
            if v3['rejected']:
                ck.violation(key + ' (history-dependent: only after the preceding calls in the same process)',
                             '%d configurations of this class rejected; the case is correct in a fresh process but wrong after the recorded prefix of %d calls' % (len(items), pos),
                             dict(cases=[list(c) for c in cases[:pos + 1]]))
            else:
                ck.note('rejection not reproduced on re-run (neither alone nor after its process history): ' + key)
    if not replay_path or j['case'].get('hist'):
        # the same transforms as calls number 2, 3, ... on one object (what an earlier call leaves behind must not matter)
        hl = reuse_histories(calls, seed, 40 if tier == 'quick' else 400, S=smax) if not replay_path else j['case']['cases']
        hv, hexe, _ = replay(ck, wd, hl, seed, smax, 'short call histories on one object vs fresh objects (%d histories)' % len(hl), hist=True)
        judge_histories(ck, wd, hv, hexe, hl)
        ck.cov['reuse_histories'] = len(hl)
    ck.cov['cases'] = len(cases)
    ck.cov['exhaustive'] = True
    ck.cov['exhaustive_scope'] = 'every (S,d[,x],ncols in 1..3,nphase,nblock,dst,buf) tuple with domain <= %d%s' % (1 << smax, ' (largest domain subsampled 1/3 in the quick tier)' if tier == 'quick' else '')
    return ck.finish()



# ---------------------------------------------------------------- object histories (shared object vs fresh objects)
def reuse_histories(calls, seed, n, S=4):
    """short histories of the given call kinds on ONE object: same size with a different total column count but the same
    block width, same shape with another destination / scratch mode, sizes going down and up, delivery environments"""
    rng = vlib.Rng(seed ^ 0x4157)
    lines = []
    for i in range(n):
        k = 2 + rng.below(3)
        d0 = 1 + rng.below(S)
        hs = []
        for j in range(k):
            # the last call is of the kind under test; what precedes it on the object may be any transform
            call = calls[rng.below(len(calls))] if (j == k - 1 or rng.below(3) == 0) else ['ntt', 'intt', 'ext', 'ext'][rng.below(4)]
            mode = (i + j) % 4
            d = d0 if mode != 3 else rng.below(S + 1)
            e = rng.below(S - d + 1) if call == 'ext' else 0
            if mode == 1:      # same block width, different total width: (w, 1 block) then (2w, 2 blocks), (3w, 3 blocks)
                w = 1 + (i % 3); nb = 1 + j % 3; nb = nb if w * nb <= 8 else 2; nc = w * nb      # at most 8 columns (8 column multipliers)
            else:
                nc = 1 + rng.below(6); nb = [0, 1, 2, 3][rng.below(4)]
            dst = ['same', 'other', 'null'][rng.below(3)]
            if call == 'ext' and dst == 'null':
                dst = 'other'
            hs.append('%s:%d:%d:%d:%d:%d:%s:%s:%d:%d' % (call, d, e, nc, [0, 1, 2, 3, 4, 1000000][rng.below(6)], nb, dst, ['null', 'caller'][rng.below(2)],
                                                   rng.below(NVEC), [0, 0, 0, 1, 2, 3][rng.below(6)]))
        lines.append('H %d %d %d %d %s' % (i + 1, S, 1 + rng.below(3), k, ' '.join(hs)))
    return lines


def judge_histories(ck, wd, v, exe, lines):
    byid = {int(l.split()[1]): l for l in lines}
    seen = set()
    for idx, rec in v['rejected']:
        if rec.get('e') == 'crash':
            hid = int(rec['case'].split()[1]); what = 'crash %s %s' % (rec['kind'], rec['code']); step = '?'
            calls = byid[hid].split()[5:]
        else:
            hid = rec.get('ci'); step = rec.get('step')
            calls = byid[hid].split()[5:5 + step]
            same_as_fresh = rec.get('out') == rec.get('fresh')
            what = 'differs-from-fresh-object' if not same_as_fresh else 'wrong-result'
        kinds = '>'.join('%s(N=2^%s%s)' % (c.split(':')[0], c.split(':')[1], ',x=' + c.split(':')[2] if c.startswith('ext') else '') for c in calls[-3:])
        key = 'history %s -> %s at step %s' % (kinds, what, step)
        cls = (what, tuple(c.split(':')[0] for c in calls[-2:]))
        if cls in seen or len(ck.violations) >= 8:
            continue
        seen.add(cls)
        cp = os.path.join(wd, 'confirm_cases.txt'); tp = os.path.join(wd, 'confirm.ndjson')
        open(cp, 'w').write(byid[hid] + '\n')
        if os.path.exists(tp):
            os.remove(tp)
        sh([exe, os.path.join(wd, 'ntt_inputs.txt'), cp, tp], timeout=300)
        v2 = validate_trace(wd, 'Trace_NTT', 'Trace_NTT.cfg', tp, env={'NTTIN': os.path.join(wd, 'ntt_inputs.json')}, nsplit=1)
        if v2['rejected']:
            ck.violation(key, 'history %s' % byid[hid][:300], dict(cases=[byid[hid]], hist=True))
        else:
            ck.note('rejection not reproduced: ' + key)

# ---------------------------------------------------------------- large sizes: sampled rows + digest agreement
def big_replay(ck, wd, calls, seed, tier):
    rng = vlib.Rng(seed ^ 0xB16)
    bigd = [8, 10] if tier == 'quick' else [7, 8, 9, 10, 11]
    extpairs = [(6, 1)] if tier == 'quick' else [(7, 1), (7, 2), (8, 1)]
    if 'ext' not in calls:
        extpairs = []
    if calls == ['ext']:
        bigd = []
    maxd = max(bigd + [d + x for d, x in extpairs] + [0])
    X = [[] for _ in range(maxd + 1)]
    K = [[] for _ in range(maxd + 1)]
    need_x = set(bigd) | set(d for d, _ in extpairs)
    need_k = set(bigd) | set(d + x for d, x in extpairs)
    for d in sorted(need_x):
        X[d] = [rng.word() for _ in range(1 << d)]
    for d in sorted(need_k):
        n = 1 << d
        K[d] = sorted(set([0, 1, n // 2, n - 1] + [rng.below(n) for _ in range(2 if tier == 'quick' else 6)]))
    M = [1, 3, P - 2, 0x123456789ABCDEF]
    W = parse_roots()
    inp = os.path.join(wd, 'nttbig_inputs.txt')
    with open(inp, 'w') as f:
        for d in sorted(need_x):
            f.write('X %d 0 %s\n' % (d, ' '.join('0x%x' % x for x in X[d])))
        f.write('M %d %s\n' % (len(M), ' '.join('0x%x' % m for m in M)))
        for d in sorted(need_k):
            f.write('K %d %s\n' % (d, ' '.join(str(k) for k in K[d])))
    json.dump(dict(maxd=maxd, bigd=bigd, extpairs=[list(p) for p in extpairs], W=[vlib.w64(w) for w in W],
                   X=[[vlib.w64(x) for x in xs] for xs in X], M=[vlib.w64(m) for m in M], K=K),
              open(os.path.join(wd, 'nttbig_inputs.json'), 'w'))
    cases = []
    cid = 0
    for call in calls:
        shapes = [(d, 0) for d in bigd] if call != 'ext' else extpairs
        for d, x in shapes:
            for nph in ([2, 3, 4] if tier == 'quick' else [1, 2, 3, 4, 5, d, HUGE]):
                for nb, nc in ([(1, 1), (2, 3)] if tier == 'quick' else [(1, 1), (2, 3), (3, 4), (1, 2)]):
                    for dst, buf in [('same', 'null'), ('other', 'caller'), ('null', 'null'), ('other', 'null')]:
                        if call == 'ext' and dst == 'null':
                            continue
                        cid += 1
                        S = d if cid % 3 else min(d + 1, 11)
                        cases.append('S %d %s %d %d %d %d %d %d %s %s %d' % (cid, call, S, d, x, nc, nph, nb, dst, buf, [2, 3, 8, 16][cid % 4]))
    exe = build_driver('drv_ntt')
    cpath = os.path.join(wd, 'bigcases.txt'); tpath = os.path.join(wd, 'bigtrace.ndjson')
    open(cpath, 'w').write('\n'.join(cases) + '\n')
    if os.path.exists(tpath):
        os.remove(tpath)
    sh([exe, inp, cpath, tpath], timeout=3000)
    # keep only the input events of sizes that are used as transform inputs, then the sampled events sorted so that one
    # stateful validation run sees all configurations of a class together
    v = validate_trace(wd, 'Trace_NTTBig', 'Trace_NTTBig.cfg', tpath, env={'NTTIN': os.path.join(wd, 'nttbig_inputs.json'), 'NEED_DFT': '1' if 'ntt' in calls else '0', 'NEED_IDFT': '1' if 'intt' in calls else '0', 'NEED_LDE': '1' if 'ext' in calls else '0'}, nsplit=1, xmx='6g', max_rejects=20)
    ck.add_validation(v, 'large transforms %s (up to 2^%d rows): sampled rows vs definition + digest agreement across %d configurations' % ('/'.join(calls), maxd, len(cases)))
    for msg in v['infra']:
        ck.note('infrastructure: ' + msg)
    out = []
    for idx, rec in v['rejected']:
        if rec.get('e') == 'crash':
            t = rec['case'].split()
            out.append(('%s -> crash %s %s' % (' '.join(t[2:12]), rec['kind'], rec['code']), rec['case'].strip()))
        elif rec.get('e') == 'trs':
            out.append(('%s (large size) -> sampled rows / digest differ from the definition' % case_key(rec), [c for c in cases if c.split()[1] == str(rec['ci'])][0]))
        else:
            out.append(('large-size input event rejected', ''))
    return out, exe, inp, cases
