"""C15 — conversions are total, canonical and round-trip; predicates ignore representation.
Model: Conv.tla (width-parametric transcription of goldilocks_base_field_tools.hpp, GMP's truncating remainder and
get_ui named as TruncRem / GetUi).  (a) TLC: every 2W-bit pattern unsigned/signed, every W-bit signed value, every
integer in windows around 0, +-p..+-3p, +-2^(2W), at W in {3,4}; the Legacy configuration must reproduce the two
pinned-tree defects (non-vacuity).  (b) Apalache W=32: all uint64/int64/int32 for the machine conversions and
round trips.  (c) replay of boundary and seeded values, digit strings in radix {2,7,10,16,36} and mpz of both signs
up to 2^200 through the compiled library; Trace_Conv re-derives every result over limbs."""
import os, json
from concurrent.futures import ThreadPoolExecutor
import vlib
from vlib import Check, tlc, apalache, workdir, build_driver, validate_trace, sh

P = vlib.P
DIG = '0123456789abcdefghijklmnopqrstuvwxyz'


def tostr(n, radix, upper=False):
    neg = n < 0; n = abs(n)
    s = ''
    if n == 0:
        s = '0'
    while n:
        s = DIG[n % radix] + s; n //= radix
    if upper:
        s = s.upper()
    return ('-' if neg else '') + s


def gen_cases(seed, tier):
    rng = vlib.Rng(seed ^ 0xC15)
    cs = []
    M = 2**64
    bw = set()
    for base in (0, P, M, 2**63, 2**32, 2**31, P - 2**31, (P - 1) // 2, M - (P - 1) // 2, P + 2**31, 2**62):
        for d in range(-4, 5):
            bw.add((base + d) % M)
    n = 300 if tier == 'quick' else 5000
    for i in range(n):
        bw.add(rng.word())
    bw = sorted(bw)
    for x in bw:
        cs += [('in_u64', x), ('in_s64', x), ('out', x), ('rt_u64', x), ('rt_s64', x)]
        cs.append(('pred', x, (x + P) % M)); cs.append(('pred', x, (x - P) % M)); cs.append(('pred', x, x))
    for i in range(0, len(bw) - 1, 3):
        cs.append(('pred', bw[i], bw[i + 1]))
    s32 = set([0, 1, 2, 0x7FFFFFFF, 0x7FFFFFFE, 0x80000000, 0x80000001, 0xFFFFFFFF, 0xFFFFFFFE, 0x40000000, 0xC0000000])
    for i in range(200 if tier == 'quick' else 3000):
        s32.add(rng.below(2**32))
    for x in sorted(s32):
        cs += [('in_s32', x), ('rt_s32', x)]
    mags = [0, 1, 2, 35, 36, P - 1, P, P + 1, P + 5, 2 * P - 1, 2 * P, 2 * P + 1, 3 * P + 7, 2**63, M - 1, M, M + 1, 2**65 + 3,
            2**64 * 3 + 5, P * P, P * P - 1, 2**128 - 1, 2**200 + 12345, 7 * P - 3]
    for i in range(30 if tier == 'quick' else 400):
        bits = [40, 63, 64, 65, 70, 96, 128, 200][i % 8]
        mags.append(rng.next() * rng.next() * rng.next() * rng.next() % (1 << bits))
        mags.append((rng.below(9) * P + rng.below(7)) )
    k = 0
    for m in mags:
        for sign in (1, -1):
            if m == 0 and sign < 0:
                continue
            for radix in (10, 16, 2, 36, 7):
                k += 1
                if tier == 'quick' and radix in (2, 7) and k % 3:
                    continue
                cs.append(('str', radix, tostr(sign * m, radix, upper=(k % 2 == 0))))
    # the same literal text read in different radixes back to back (and twice in the same radix): the result must depend
    # on (text, radix) only, never on what was converted just before
    for text in ('10', '11', '101', '100', '110011', '1000000000000000000000000000000001', '-101', '-10000000000000000000000000000000000000000000000000000000000000001', '0', '-1'):
        for radix in (10, 16, 2, 36, 7, 10, 10, 2):
            cs.append(('str', radix, text))
    return cs


def write_cases(path, cases):
    with open(path, 'w') as f:
        for c in cases:
            if c[0] == 'str':
                f.write('str %d %s\n' % (c[1], c[2]))
            else:
                f.write(' '.join([c[0]] + ['0x%x' % v for v in c[1:]]) + '\n')


def run(tier, seed, replay=None):
    ck = Check('C15', tier, seed)
    wd = workdir('C15')
    ck.assumptions += ['GMP big-integer arithmetic and string parsing are trusted as primitives; their composition in the library is what is checked',
                       'the driver maps characters to digit values (0-9,a-z,A-Z) to log digit lists']
    if replay:
        cases = [tuple(c) for c in json.load(open(replay))['case']['cases']]
    else:
        for W in ([3, 4] if tier == 'quick' else [2, 3, 4, 5]):
            for legacy in (False, True):
                cfg = 'MC_Conv_%d_%s.cfg' % (W, legacy)
                open(os.path.join(wd, cfg), 'w').write(open(os.path.join(wd, 'MC_Conv.cfg')).read().replace('Phi = 16', 'Phi = %d' % (1 << W)).replace('Legacy = FALSE', 'Legacy = %s' % ('TRUE' if legacy else 'FALSE')))
                r = tlc(wd, 'MC_Conv', cfg, timeout=900, workers=8, tag='W%d%s' % (W, legacy))
                if not legacy:
                    ck.add_tlc(r, 'MC_Conv W=%d repaired behaviour: all words, all signed values, integer windows' % W)
                    if not r.ok:
                        ck.note('model-level: MC_Conv W=%d did not pass (%s) — transcription drift or model defect; replay decides' % (W, r.violated or r.error))
                else:
                    ck.cov.setdefault('legacy_counterexamples', []).append(dict(W=W, violated=r.violated))
                    if not r.violated:
                        ck.note('non-vacuity: legacy configuration W=%d did NOT violate an invariant' % W)
        invs = ['InvFromS', 'InvFromSW', 'InvToU', 'InvToS', 'InvToSW', 'InvRtS', 'InvRtSW']
        with ThreadPoolExecutor(max_workers=8) as ex:
            for inv, res in ex.map(lambda i: (i, apalache(wd, 'Apa_Conv', i, timeout=300)), invs):
                ck.add_symbolic('W=32 %s (all machine integers)' % inv, res)
        cases = gen_cases(seed, tier)
    exe = build_driver('drv_conv')
    cpath = os.path.join(wd, 'cases.txt'); tpath = os.path.join(wd, 'trace.ndjson')
    write_cases(cpath, cases)
    r = sh([exe, cpath, tpath], timeout=600)
    if r.returncode != 0:
        ck.violation('driver-crash rc=%d' % r.returncode, 'conversion driver ended abnormally: %s' % r.stderr[-300:], dict(cases=[list(c) for c in cases[:50]]))
        return ck.finish()
    v = validate_trace(wd, 'Trace_Conv', 'Trace_Conv.cfg', tpath)
    ck.add_validation(v, 'conversion calls (%d cases)' % len(cases))
    ck.sample_trace(tpath)
    for msg in v['infra']:
        ck.note('infrastructure: ' + msg)
    seen = set()
    for idx, rec in v['rejected']:
        case = cases[rec.get('ci', 1) - 1]
        kind = rec.get('kind') or rec.get('fn') or ''
        cls = '%s/%s' % (rec['e'], kind)
        if rec['e'] == 'str':
            cls += '/neg' if rec['neg'] else '/pos'
        key = '%s case=%s' % (cls, ' '.join(str(x) if isinstance(x, str) else hex(x) if isinstance(x, int) and x > 9 else str(x) for x in case))
        if (cls, case) in seen:
            continue
        seen.add((cls, case))
        if len(ck.violations) >= 8:
            continue
        c2 = os.path.join(wd, 'confirm.txt'); t2 = os.path.join(wd, 'confirm.ndjson')
        write_cases(c2, [case]); sh([exe, c2, t2], timeout=60)
        v2 = validate_trace(wd, 'Trace_Conv', 'Trace_Conv.cfg', t2, nsplit=1)
        if v2['rejected']:
            ck.violation(key, 'recorded conversion result contradicts the definition: %s' % json.dumps(vlib.compact(rec))[:300], dict(cases=[list(case)], event=rec))
        else:
            # not reproducible in isolation: replay the process history up to and including the case and judge its events
            ci = rec.get('ci', 1)
            write_cases(c2, cases[:ci]); sh([exe, c2, t2], timeout=300)
            keep = [ln for ln in open(t2).read().split('\n') if ln.strip() and json.loads(ln).get('ci') == ci]
            t3 = os.path.join(wd, 'confirm_last.ndjson')
            open(t3, 'w').write('\n'.join(keep) + '\n')
            v3 = validate_trace(wd, 'Trace_Conv', 'Trace_Conv.cfg', t3, nsplit=1)
            if v3['rejected']:
                ck.violation(key + ' (history-dependent: wrong only after the preceding conversions in the same process)',
                             'correct in a fresh process, wrong after the recorded prefix of %d calls: %s' % (ci - 1, json.dumps(vlib.compact(rec))[:300]),
                             dict(cases=[list(c) for c in cases[:ci]], event=rec))
            else:
                ck.note('rejection at event %d not reproduced on re-run (neither alone nor after its history); ignored' % idx)
    if not replay and not ck.violations:
        vlib.concurrent_pass(ck, wd, 'Trace_Conv', 'Trace_Conv.cfg', lambda cp, tp: [exe, cp, tp], write_cases, cases, 'conversions', max_cases=2500)
    ck.cov['cases'] = len(cases)
    ck.cov['rejected_records'] = len(v['rejected'])
    return ck.finish()
