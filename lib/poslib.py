"""shared by C06/C07/C08: build the Poseidon driver(s), dump the constant tables of the current tree"""
import os, json
import vlib
from vlib import build_driver, sh


def drivers():
    ds = [('avx2', build_driver('drv_poseidon', 'avx2'))]
    if vlib.have_avx512():
        ds.append(('avx512', build_driver('drv_poseidon', 'avx512')))
    return ds


def dump_consts(wd, exe):
    c = os.path.join(wd, 'consts_case.txt'); t = os.path.join(wd, 'consts.ndjson')
    open(c, 'w').write('consts\n')
    sh([exe, c, t], timeout=120, check=True)
    j = json.loads(open(t).read().strip().split('\n')[0])
    out = os.path.join(wd, 'poseidon_consts.json')
    json.dump({k: j[k] for k in ('C', 'M', 'P', 'S', 'M_', 'P_')}, open(out, 'w'))
    return out
