"""C03 — NTT computes the DFT for every size and configuration.
Model: NTT.tla, the scheduler of ntt_goldilocks.cpp as a state machine (entry/clamps/allocation, bit reversal in its
three variants, every batch pass with the ping-pong swap, fallback copy/assert, block scatter, frees) over F_97 with
basis-vector inputs: TLC explores every configuration (size below the domain, nphase/nblock in and out of range, zero
columns, dst same/other/null x scratch null/caller) and checks result = DFT matrix row, source preserved, no abort / null
dereference / out-of-extent / uninitialised read, no leak; the three Legacy switches must reproduce the pinned tree's
aborts (non-vacuity).  Conformance: the same configuration space at larger sizes is run on the compiled library with
exact-extent guard-paged buffers; Trace_NTT compares every output cell with the DFT definition evaluated by TLC (Horner
over the limb field, roots taken from the tree and sanity-checked)."""
import nttlib


def run(tier, seed, replay=None):
    return nttlib.run_property('C03', ['ntt'], tier, seed, replay)
