"""C18 — no out-of-bounds, uninitialised, mismatched-free or undefined behaviour.
Model: Mem.tla — the heap as a state machine (fresh identities, a block is freed only while live and only through the
deallocator matching its allocator, nothing live at scenario end, accesses inside extents), explored by TLC on its own
(MC_Mem) and as the memory invariants of the component models: NTT.tla (every buffer access inside its extent, no read of
uninitialised cells, every internal allocation freed, for all configurations), NTTObject.tla (table reads in bounds,
matching deallocator, everything freed, all histories), Merkle.tla (slot/row accesses in bounds incl. one row, no read
before write), Sponge.tla (reads exactly the declared input).
Conformance: scenarios (object construction - call history - destruction; Merkle builds; sponge; batch inversion;
parcpy/parSetZero) run under a recording allocator: library malloc/free (link-time wrap) and operator new/new[]/delete/
delete[] are logged with their kind, blocks are end-aligned against PROT_NONE pages and freed blocks become inaccessible,
caller buffers have exactly the documented extent; each scenario runs with two heap fill patterns and in builds with
-ftrivial-auto-var-init=zero / =pattern.  Trace_Mem replays the log as a behaviour of Mem: every step must be enabled,
the heap empty at the end, outputs independent of fill pattern and stack initialisation, no crash.
Auxiliary recorder (thorough tier, labelled): the same scenarios in an ASan+UBSan build; each sanitizer report becomes a
fault event of the same trace specification - the only observer of stack-VLA overruns and language-level UB."""
import os, json, glob, re
import vlib, nttlib
from vlib import Check, tlc, workdir, build_driver, validate_trace, sh

WRAP = ['-Wl,--wrap=malloc', '-Wl,--wrap=free']


def scenarios(seed, tier, avx512):
    rng = vlib.Rng(seed ^ 0xC18)
    sc = []
    calls = []
    for call in ('ntt', 'intt', 'ext'):
        for d in (0, 1, 2, 3, 4):
            for e in ((0, 1, 2) if call == 'ext' else (0,)):
                if d + e > 5:
                    continue
                for nc, nph, nb, dst, buf in [(1, 3, 1, 'same', 'null'), (3, 2, 2, 'other', 'null'), (2, 4, 1, 'null', 'caller'), (5, 1, 3, 'other', 'caller'), (1, 2, 1, 'same', 'null')]:
                    if call == 'ext' and dst == 'null':
                        dst = 'same'
                    calls.append('%s:%d:%d:%d:%d:%d:%s:%s' % (call, d, e, nc, nph, nb, dst, buf))
    # single calls on objects of equal and larger domain, then destruction
    for i, c in enumerate(calls):
        d = int(c.split(':')[1])
        for S in sorted(set([d, min(5, d + 1)])):
            if tier == 'quick' and (i + S) % 2:
                continue
            sc.append('ntt %d %d 1 %s' % (S, [1, 2, 3][i % 3], c))
    # histories: construction - several calls (sizes below the domain, extendPol with changing N) - destruction
    exts = [c for c in calls if c.startswith('ext')]
    for i in range(30 if tier == 'quick' else 300):
        k = 2 + rng.below(3)
        hs = []
        for j in range(k):
            pool = exts if (j + i) % 2 == 0 else calls
            c = pool[rng.below(len(pool))]
            hs.append(c)
        S = max(int(c.split(':')[1]) for c in hs)
        sc.append('ntt %d %d %d %s' % (S, 1 + rng.below(3), k, ' '.join(hs)))
    sc.append('ntt 3 2 0')          # construct and destroy without use
    sc.append('ntt 0 1 0')
    builders = [0, 1, 2, 3] + ([4, 5] if avx512 else [])
    for b in builders:
        for rows in (1, 2, 4):
            for cols in (0, 1, 5):
                for dim in (1, 3):
                    for batch in (1, 2, cols + 7):
                        if b in (0, 1, 4) and batch != 1:
                            continue
                        sc.append('mt %d %d %d %d %d %d %d' % (b, rows, cols, dim, batch, [0, 1, 3][(rows + cols) % 3], rng.next() & 0xFFFF))
    for variant in ((0, 1, 2) if avx512 else (0, 1)):
        for ln in (0, 1, 3, 4, 5, 8, 9, 16, 17, 31):
            sc.append('lh %d %d %d' % (variant, ln, rng.next() & 0xFFFF))
    for n in (1, 2, 7, 64, 1025):
        sc.append('binv %d %d' % (n, rng.next() & 0xFFFF))
    for op in ('parcpy', 'parsetzero'):
        for size in (0, 1, 3, 8, 33):
            for targ in (-5, 0, 1, 3, 64):
                sc.append('cpy %s %d %d' % (op, size, targ))
    return sc


FOOT = ('guard-page', 'the call ended with', 'cells changed', 'stray read', 'different garbage', 'was modified', 'before the start', 'in front of an array',
        'outside the write footprint')


def delegated_extents(ck, wd):
    """The extents clause over the overload families of C16 / C17: their layout checks (exact-extent arenas against guard pages,
    write footprints, stray-read re-runs, judged by Trace_Layout16 / Trace_Layout17) run as sub-steps in their own work
    directories; only their findings about accesses are taken over (a wrong value is C16's / C17's business)."""
    from concurrent.futures import ThreadPoolExecutor

    def one(sub):
        sev = os.path.join(wd, 'sub_' + sub)
        os.makedirs(sev, exist_ok=True)
        env = dict(VERIF_RUNTAG=vlib.RUNTAG + '_in_C18', VERIF_EVID=sev, VERIF_NOMODEL='1')
        r = sh([os.path.join(vlib.VERIF, 'check'), sub, '--tier', 'quick'], env=env, timeout=2400)
        return sub, sev, r
    with ThreadPoolExecutor(max_workers=2) as ex:
        res = list(ex.map(one, ('C16', 'C17')))
    for sub, sev, r in res:
        evf = os.path.join(sev, sub + '.json')
        if r.returncode not in (0, 1) or not os.path.exists(evf):
            ck.note('infrastructure: sub-step %s ended rc=%s (%s); its extents are not covered in this run' % (sub, r.returncode, (r.stderr or '')[-200:]))
            continue
        ev = json.load(open(evf))
        cov = ev.get('coverage', {})
        ck.cov.setdefault('delegated_extents', {})[sub] = dict(calls=cov.get('calls') or cov.get('cases'), traces=cov.get('traces_validated_against_impl'), violations=ev.get('violations'))
        ck.traces += cov.get('traces_validated_against_impl', 0) or 0
        ck.states += cov.get('states', 0) or 0
        for f in sorted(glob.glob(os.path.join(sev, 'replay', sub + '_*.json'))):
            j = json.load(open(f))
            if any(k in j.get('desc', '') for k in FOOT):
                ck.violation('extents of the %s overload families: %s' % (sub, j.get('key', '')[:200]), j.get('desc', '')[:600], dict(delegate=sub, sub_replay=j, cases=[]))


def boundary(ln):
    return ('"e":"end"' in ln and '"fill":1' in ln) or '"e":"crash"' in ln or '"e":"fault"' in ln or '"e":"xbuild"' in ln


def run(tier, seed, replay=None):
    ck = Check('C18', tier, seed)
    wd = workdir('C18')
    avx512 = vlib.have_avx512()
    ck.assumptions += ['extents are observed with page-granular guards: end-aligned blocks fault on any access past the requested size (rounded up to 8 bytes); accesses before a block start land in pattern-filled slack',
                       'uninitialised reads are observed through their effect on outputs (two heap fill patterns; zero vs pattern stack initialisation)',
                       'stack VLAs and language-level UB (shifts, alignment, VLA bounds) are observed only by the auxiliary ASan+UBSan recorder of the thorough tier']
    variant = 'avx512' if avx512 else 'avx2'
    if replay and json.load(open(replay))['case'].get('delegate'):
        # a finding taken over from the layout checks is replayed by that check
        j = json.load(open(replay))['case']
        sub = j['delegate']
        rp = os.path.join(wd, 'sub_replay.json')
        json.dump(j['sub_replay'], open(rp, 'w'))
        r = sh([os.path.join(vlib.VERIF, 'check'), sub, '--tier', 'quick', '--replay', rp], env=dict(VERIF_RUNTAG=vlib.RUNTAG + '_in_C18', VERIF_EVID=os.path.join(wd, 'sub_' + sub)), timeout=2400)
        if r.returncode == 1:
            ck.violation('extents of the %s overload families: %s' % (sub, j['sub_replay'].get('key', '')[:200]), j['sub_replay'].get('desc', '')[:600], j)
        return ck.finish()
    if replay:
        sc = json.load(open(replay))['case']['cases']
    else:
        for mod, cfg, label, patch in [
                ('MC_Mem', 'MC_Mem.cfg', 'MC_Mem: abstract heap, 4 blocks, all alloc/free orders', None),
                ('MC_NTT', 'MC_NTT.cfg', 'MC_NTT MaxS=2: NoError (extent, uninitialised read, abort), NoLeak for all configurations', lambda s: s.replace('MaxS = 3', 'MaxS = 2')),
                ('MC_NTTObject', 'MC_NTTObject.cfg', 'MC_NTTObject: InBounds, MatchingFree, AllFreed for all histories <= 3', None),
                ('MC_Merkle', 'MC_Merkle.cfg', 'MC_Merkle: InBounds, NoGarbage (one row included)', None),
                ('MC_Sponge', 'MC_Sponge.cfg', 'MC_Sponge: ReadsExact / ReadsInside for lengths 0..48', None)]:
            c = open(os.path.join(wd, cfg)).read()
            if patch:
                c = patch(c)
            open(os.path.join(wd, 'C18_' + cfg), 'w').write(c)
            r = tlc(wd, mod, 'C18_' + cfg, timeout=1200, workers=12, tag='c18' + mod)
            ck.add_tlc(r, label)
            if not r.ok:
                ck.note('model-level: %s: %s' % (mod, r.violated or r.error))
        lg = {}
        for L in ('LegacyRCache', 'LegacyDelete'):
            c = open(os.path.join(wd, 'MC_NTTObject.cfg')).read().replace('%s = FALSE' % L, '%s = TRUE' % L)
            open(os.path.join(wd, 'C18_obj_%s.cfg' % L), 'w').write(c)
            lg[L] = tlc(wd, 'MC_NTTObject', 'C18_obj_%s.cfg' % L, timeout=300, workers=4, tag=L).violated
        c = open(os.path.join(wd, 'MC_Merkle.cfg')).read().replace('LegacyPair = FALSE', 'LegacyPair = TRUE')
        open(os.path.join(wd, 'C18_mk_L.cfg'), 'w').write(c)
        lg['LegacyPair'] = tlc(wd, 'MC_Merkle', 'C18_mk_L.cfg', timeout=300, workers=4, tag='mkL').violated
        ck.cov['legacy_switch_counterexamples'] = lg
        sc = scenarios(seed, tier, avx512)
    nttlib.make_inputs(wd, seed, 5)
    inp = os.path.join(wd, 'ntt_inputs.txt')
    cpath = os.path.join(wd, 'scenarios.txt')
    open(cpath, 'w').write('\n'.join(sc) + '\n')
    builds = [('default', []), ('zero', ['-ftrivial-auto-var-init=zero']), ('pattern', ['-ftrivial-auto-var-init=pattern'])]
    digests = {}
    main_trace = None
    for name, extra in builds:
        exe = build_driver('drv_mem', variant, extra=WRAP + extra)
        tpath = os.path.join(wd, 'trace_%s.ndjson' % name)
        sh([exe, inp, cpath, tpath], timeout=2400)
        for ln in open(tpath):
            if '"e":"end"' in ln:
                j = json.loads(ln)
                digests.setdefault(j['ci'], {})[(name, j['fill'])] = j['digest']
        if name == 'default':
            main_trace = tpath
    # one synthetic record per scenario: output digests across the three stack-initialisation builds
    with open(main_trace, 'a') as f:
        for ci in sorted(digests):
            ds = [digests[ci].get((n, 0)) for n, _ in builds]
            if all(d is not None for d in ds):
                f.write(json.dumps(dict(e='xbuild', ci=ci, digests=ds)) + '\n')
    aux_faults = 0
    if tier == 'thorough':
        try:
            exe = build_driver('drv_mem', variant, extra=WRAP + ['-fsanitize=address,undefined', '-fno-omit-frame-pointer', '-DVERIF_SANITIZER_BUILD', '-g1'],
                               libs=('-lgmp', '-lgmpxx'))
            tp = os.path.join(wd, 'trace_san.ndjson')
            sh([exe, inp, cpath, tp], timeout=3000, env={'ASAN_OPTIONS': 'detect_leaks=0:alloc_dealloc_mismatch=1', 'UBSAN_OPTIONS': 'print_stacktrace=0'})
            with open(main_trace, 'a') as f:
                for i in range(1, len(sc) + 1):
                    rp = '%s.san.%d' % (tp, i)
                    if not os.path.exists(rp):
                        continue
                    txt = open(rp, errors='replace').read()
                    seen = set()
                    for m in re.finditer(r'([\w./-]+\.(?:cpp|hpp)):(\d+):\d+: runtime error: ([^\n]*)', txt):
                        k = ('ubsan', os.path.basename(m.group(1)), m.group(3)[:60])
                        if k not in seen:
                            seen.add(k)
                            f.write(json.dumps(dict(e='fault', ci=i, tool='ubsan', site=os.path.basename(m.group(1)) + ':' + m.group(2), what=m.group(3)[:120])) + '\n'); aux_faults += 1
                    m = re.search(r'ERROR: AddressSanitizer: ([^\n]*)', txt)
                    if m:
                        fr = re.search(r'#\d+ 0x[0-9a-f]+ in [^\n]*?([\w_]+\.(?:cpp|hpp)):(\d+)', txt)
                        f.write(json.dumps(dict(e='fault', ci=i, tool='asan', site=(fr.group(1) + ':' + fr.group(2)) if fr else '?', what=m.group(1)[:120])) + '\n'); aux_faults += 1
            ck.cov['auxiliary_sanitizer_recorder'] = dict(scenarios=len(sc), fault_events=aux_faults)
        except vlib.BuildError as e:
            ck.note('auxiliary sanitizer recorder not built: %s' % str(e)[-200:])
    spec_xb = True
    v = validate_trace(wd, 'Trace_Mem', 'Trace_Mem.cfg', main_trace, min_chunk=400, boundary=boundary)
    ck.add_validation(v, 'recording-allocator scenarios (%d scenarios x 2 fills, %s build)' % (len(sc), variant))
    ck.sample_trace(main_trace, n=5)
    for msg in v['infra']:
        ck.note('infrastructure: ' + msg)
    seen = set()
    for idx, rec in v['rejected']:
        ci = rec.get('ci') or (rec.get('sc', 0) // 2)
        case = sc[ci - 1] if ci and ci <= len(sc) else '?'
        ev = rec.get('e')
        if ev == 'crash':
            what = 'crash %s %s (guard-page fault / abort)' % (rec['kind'], rec['code'])
        elif ev == 'free':
            what = 'deallocator %s applied to a block from %s (or block not live)' % (rec.get('kind'), rec.get('akind'))
        elif ev == 'badfree':
            what = '%s of something that is not the start of a live block (%s; block %s)' % (rec.get('kind'), rec.get('why'), rec.get('id'))
        elif ev == 'end':
            what = 'at scenario end: live=%s flag_ok=%s or output differs between heap fill patterns' % (rec.get('live'), rec.get('flag_ok'))
        elif ev == 'xbuild':
            what = 'output depends on stack initialisation (zero vs pattern auto-var-init)'
        elif ev == 'fault':
            what = 'sanitizer %s at %s: %s' % (rec.get('tool'), rec.get('site'), rec.get('what'))
        else:
            what = 'event %s not an enabled heap step' % ev
        kind = case.split()[0] if case != '?' else '?'
        cls = (ev, kind, what if ev in ('free', 'fault') else rec.get('why', ''))
        if cls in seen or len(ck.violations) >= 10:
            continue
        seen.add(cls)
        ck.violation('scenario "%s" -> %s' % (case[:160], what), json.dumps(rec)[:300], dict(cases=[case]))
    if not replay:
        delegated_extents(ck, wd)
    ck.cov['scenarios'] = len(sc); ck.cov['rejected_records'] = len(v['rejected'])
    return ck.finish()
