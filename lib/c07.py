"""C07 — linear_hash is the rate-8 capacity-4 sponge for every input length.
Model: Sponge.tla — the loop of linear_hash (single stream: scalar and AVX2; pair: the two-at-a-time AVX512 variant) over
symbolic input cells with an injective term constructor for the permutation and a garbage-initialised state array; TLC
checks for every length 0..48 that the digest is the sponge definition (zero capacity first, blocks of eight, zero
padding, first-four feedback, first four of the last permutation; <= 4 elements pass through zero padded), that exactly
the declared input cells are read, and that no stale state reaches the digest.
Conformance: lengths on both sides of the pass-through threshold and in every residue class mod 8 (0..40 quick, 0..300
plus large multiples of eight +-{0,1,4,7} thorough), inputs in exact-extent guard-paged buffers (an over-read faults), the
permutation tracer hook records every permutation's input and output; Trace_Sponge requires that sequence to be exactly the
absorb sequence of the definition built from the logged input, the digest to be the first four of the last output, and
re-derives one permutation per call from Poseidon.Perm for a sample."""
import os, json
import vlib, poslib
from vlib import Check, tlc, workdir, validate_trace, sh


def gen_cases(seed, tier):
    rng = vlib.Rng(seed ^ 0xC07)
    lens = list(range(0, 41)) if tier == 'quick' else list(range(0, 301))
    if tier != 'quick':
        for b in (512, 1024, 4096):
            lens += [b - 7, b - 4, b - 1, b, b + 1, b + 4, b + 7]
    else:
        lens += [63, 64, 65, 127, 128, 129, 511, 512, 513, 520, 777, 1029]      # beyond any plausible chunk size of the absorb loop
    cases = [('lh', n, rng.next() & 0xFFFFFFFF, 0, 0) for n in lens]
    # the order of calls in one process: short after long, descending, repeated lengths (nothing may survive a call)
    short = [5, 6, 7, 4, 9, 12, 3, 8, 13, 1, 0, 15, 16, 17]
    for i, n in enumerate(short):
        cases.append(('lh', [40, 16, 24, 33][i % 4], rng.next() & 0xFFFFFFFF, 0, 0))
        cases.append(('lh', n, rng.next() & 0xFFFFFFFF, 0, 0))
    for n in range(20, -1, -1):
        cases.append(('lh', n, rng.next() & 0xFFFFFFFF, 0, 0))
    for i in range(30 if tier == 'quick' else 600):
        cases.append(('lh', rng.below(42), rng.next() & 0xFFFFFFFF, 0, 0))
    # structured contents (equal blocks, periodic data, all zero, all 2^64-1) and digests delivered into the input array
    for pat in range(1, 8):
        for n in ([5, 8, 9, 16, 17, 24, 32, 33, 40] if tier == 'quick' else list(range(0, 50)) + [64, 65, 96]):
            cases.append(('lh', n, rng.next() & 0xFFFFFFFF, pat, 0))
    for alias in (1, 2, 3):
        for n in ([4, 5, 8, 9, 12, 13, 16, 17, 23, 24, 25, 40] if tier == 'quick' else list(range(0, 50))):
            cases.append(('lh', n, rng.next() & 0xFFFFFFFF, (n + alias) % 4 if n % 3 == 0 else 0, alias))
    return cases


def run(tier, seed, replay=None):
    ck = Check('C07', tier, seed)
    wd = workdir('C07')
    ck.assumptions += ['the permutation itself is C06; here its observed input/output pairs are taken from the tracer hook inside hash_full_result*',
                       'over-reads are observed by guard pages directly after the declared input extent']
    if replay:
        cases = [tuple(c) for c in json.load(open(replay))['case']['cases']]
    else:
        r = tlc(wd, 'MC_Sponge', 'MC_Sponge.cfg', timeout=600, workers=8)
        ck.add_tlc(r, 'MC_Sponge: lengths 0..48 x {single, pair}; DigestOk, ReadsExact, ReadsInside')
        if not r.ok:
            ck.note('model-level: MC_Sponge: %s' % (r.violated or r.error))
        cases = gen_cases(seed, tier)
    nrej = 0
    for variant, exe in poslib.drivers():
        pc = poslib.dump_consts(wd, exe)
        cpath = os.path.join(wd, 'cases_%s.txt' % variant); tpath = os.path.join(wd, 'trace_%s.ndjson' % variant)
        open(cpath, 'w').write('\n'.join(' '.join(str(x) for x in c) for c in cases) + '\n')
        sh([exe, cpath, tpath], timeout=1800)
        # mark a sample of events for full permutation re-evaluation
        lines = [ln for ln in open(tpath).read().split('\n') if ln.strip()]
        outl = []
        for i, ln in enumerate(lines):
            j = json.loads(ln)
            if j.get('e') == 'lh':
                j['check_perm'] = (1 + (i % max(1, len(j['perms'])))) if (i % (7 if tier == 'quick' else 3) == 0 and j['perms']) else 0
            outl.append(json.dumps(j))
        open(tpath, 'w').write('\n'.join(outl) + '\n')
        v = validate_trace(wd, 'Trace_Sponge', 'Trace_Sponge.cfg', tpath, env={'PCONST': pc}, min_chunk=6)
        ck.add_validation(v, 'linear_hash variants, %s build (%d lengths)' % (variant, len(cases)))
        ck.sample_trace(tpath, n=2)
        for msg in v['infra']:
            ck.note('infrastructure: ' + msg)
        nrej += len(v['rejected'])
        seen = set()
        for idx, rec in v['rejected']:
            if rec.get('e') == 'crash':
                t = rec['case'].split()
                key = '%s build: linear_hash len=%s -> crash %s %s (fault on the guard page = read/write outside the declared extent)' % (variant, t[1], rec['kind'], rec['code'])
                case = cases[rec['ci'] - 1]
            else:
                key = '%s build: linear_hash variant=%s len=%d%s%s' % (variant, rec['variant'], rec['len'], ' contents-pattern=%d' % rec['pat'] if rec.get('pat') else '', ' digest-inside-input(mode %d)' % rec['alias'] if rec.get('alias') else '')
                case = cases[rec['ci'] - 1]
            cls = (rec.get('variant', 'crash'), case[1] % 8, case[1] <= 4, rec.get('pat', 0) > 0, rec.get('alias', 0))
            if cls in seen or len(ck.violations) >= 8:
                continue
            seen.add(cls)
            def wc(path, cs):
                open(path, 'w').write('\n'.join(' '.join(str(y) for y in x) for x in cs) + '\n')

            def post(tp):
                l2 = []
                for ln in open(tp).read().split('\n'):
                    if ln.strip():
                        j = json.loads(ln); j['check_perm'] = 0; l2.append(json.dumps(j))
                open(tp, 'w').write('\n'.join(l2) + '\n')
            how = vlib.confirm_case(wd, 'Trace_Sponge', 'Trace_Sponge.cfg', lambda cp, tp: [exe, cp, tp], wc, cases, rec['ci'], env={'PCONST': pc}, post=post)
            if how:
                ck.violation(key + (vlib.HIST if how == 'history' else ''), 'the observed absorb sequence / digest / read extent is not the sponge definition',
                             dict(cases=[list(x) for x in (cases[:rec['ci']] if how == 'history' else [case])]))
            else:
                ck.note('rejection not reproduced on re-run (neither alone nor after its process history): ' + key)
    ck.cov['lengths'] = len(cases); ck.cov['rejected_records'] = nrej
    return ck.finish()
