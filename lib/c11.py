"""C11 — AVX512 lane kernels equal the scalar field op in every lane, for every input.
Same generated model module as C02 (LaneKernels.tla, from the current tree): the AVX512 kernels use unsigned mask compares; add_avx512_b_c / sub_avx512_b_c
are exact exactly for a canonical second operand (TLC also exhibits a failure outside that assumption: non-vacuity), the
general-purpose kernels for all 2^64 lane values.  TLC W in {2,3,4}; Apalache W=32 (7 obligations + the shared product
lemmas).  Conformance: the -mavx512f -D__AVX512__ build (which the shipped test build never selects) executed on this
CPU: 8-lane groups in every lane position; Trace_Lane validates every lane."""
import json
import vlib, lanelib
from vlib import Check, workdir
APA = ['InvToCanon512', 'InvAdd512', 'InvAddBC512', 'InvSub512', 'InvSubBC512', 'InvReduce128_512', 'InvReduce96_512', 'InvMult128P_512', 'InvMult72P_512', 'InvSquare128P_512', 'InvMult8_512_3']


def run(tier, seed, replay=None):
    ck = Check('C11', tier, seed)
    wd = workdir('C11')
    ck.assumptions += ['the lane model is GENERATED from the intrinsic code of the current tree (tools/avx2tla.py; trusted: its intrinsic semantics table); model counterexamples are replayed on the compiled kernels',
                       'requires an AVX512F CPU for the replay; without one only the model-level results are reported']
    if replay:
        cases = [lanelib.case_from_json(c) for c in json.load(open(replay))['case']['cases']]
    else:
        leads = lanelib.model_lane(ck, wd, tier, APA + (['InvMult8_512_255', 'InvMult512_3'] if tier == 'thorough' else []))
        cases = lanelib.lead_cases(lanelib.LANE512, leads) + lanelib.lane_cases(lanelib.LANE512, seed, tier)
    if vlib.have_avx512():
        lanelib.replay(ck, wd, 'avx512', cases, 'AVX512 lane kernels (%d register groups, 13 kernels)' % len(cases),
                       lambda c, r: 'kernel %s lanes a=%s b=%s' % (c[1], ' '.join('%x' % p[0] for p in c[2]), ' '.join('%x' % p[1] for p in c[2])))
    else:
        ck.note('no AVX512F on this host: replay skipped')
    ck.cov['register_groups'] = len(cases)
    return ck.finish()
