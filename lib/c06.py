"""C06 — Poseidon permutation: scalar, AVX2 and (per interleaved state) AVX512 agree with the specification.
Specification: Poseidon.tla — the permutation (4 full rounds, the 4th through the pre-matrix P; 22 partial rounds with the
sparse S rows; 4 full rounds; x^7) written over the limb field W64 with the constant tables the library was compiled
with; TLC also checks the table facts the vector code depends on (M_/P_ are the flattenings that make the vector product
equal mvp_, all M_ entries < 2^8 for the 8-bit kernels, all round constants canonical for the `_small` adders) and defines
the two-state interleaved layout of the AVX512 variant.  The for-all-states claim is compositional: this data flow times
the exactness of every kernel for all inputs (C01, C02, C11, C13, C14).
Conformance: known-answer style states (zero, Fibonacci), boundary values in every position, seeded states in all
representations are run through hash_full_result_seq / hash_full_result / in-place forms / hash_seq / hash and, in the
-mavx512f build, hash_full_result_avx512 / hash_avx512 on interleaved pairs; Trace_Poseidon requires all entry points to
agree modulo p on every event (including directed states that place near-wrap column sums and non-canonical lane
products at the input of each of the first four matrix products, by pulling them back through x -> (x-C)^(1/7) and the
inverse matrix) and, for a sample (quick 24, thorough 400 states), re-derives the result by evaluating
Perm in TLC."""
import os, json
import vlib, poslib
from vlib import Check, workdir, validate_trace, sh
P = vlib.P
M = 2**64


def gen_cases(seed, tier):
    rng = vlib.Rng(seed ^ 0xC06)
    states = []
    states.append([0] * 12)
    fib = [0, 1]
    while len(fib) < 12:
        fib.append(fib[-1] + fib[-2])
    states.append(fib)
    for v in (P - 1, P, M - 1, 1, 2**32, 2**32 - 1, 2**63):
        states.append([v] * 12)
    for pos in range(12):
        for v in (P - 1, M - 1, P, 1):
            s = [0] * 12; s[pos] = v; states.append(s)
    nrand = 300 if tier == 'quick' else 6000
    for i in range(nrand):
        states.append([rng.word() for _ in range(12)])
    nfull = 24 if tier == 'quick' else 400
    cases = []
    # chains: the permutation iterated on its own in-place result (calls whose input is the previous call's output)
    for i in range(4 if tier == 'quick' else 40):
        cases.append(('permchain', [rng.word() for _ in range(12)], [5]))
    # one entry point iterated alone on its own result (4 variants x reference before/after)
    for i in range(8 if tier == 'quick' else 64):
        cases.append(('permiter', [rng.word() for _ in range(12)], [3 + i % 3, i % 4, (i // 4) % 2]))
    # concurrent callers that are not members of one OpenMP team (plain threads): 8 threads x reps permutations each
    for i in range(3 if tier == 'quick' else 12):
        cases.append(('permconc', [8, 1500 if tier == 'quick' else 6000, i % 3, rng.next() & 0xFFFFFFFF], []))
    stride = max(1, len(states) // nfull)
    for i, s in enumerate(states):
        full = (i % stride == 0) or i < 4
        b = [rng.word() for _ in range(12)] if i % 2 else list(reversed(s))
        cases.append(('permfull' if full else 'perm', s, b))
    return cases


def directed_states(consts, seed, n):
    """States chosen so that a prescribed vector v enters the r-th matrix product (r = 0..3; 3 = the pre-matrix P):
    pull v back through the rounds (x -> (x - C)^(1/7), multiplication by the inverse matrix).  The vectors are those a
    lazily reduced / vectorised product is sensitive to: integer column sums within a few units of a multiple of 2^64,
    and lane products in the non-canonical band [p, 2^64)."""
    rng = vlib.Rng(seed ^ 0xD1EC)
    C = consts['C']; Mm = [[consts['M'][12 * j + i] for i in range(12)] for j in range(12)]   # M[j][i]
    Pm = [[consts['P'][12 * j + i] for i in range(12)] for j in range(12)]
    inv7 = pow(7, -1, P - 1)

    def matinv(A):
        n_ = 12
        a = [[A[r][c] % P for c in range(n_)] + [1 if r == c else 0 for c in range(n_)] for r in range(n_)]
        for col in range(n_):
            piv = next(r for r in range(col, n_) if a[r][col] % P)
            a[col], a[piv] = a[piv], a[col]
            iv = pow(a[col][col], -1, P)
            a[col] = [x * iv % P for x in a[col]]
            for r in range(n_):
                if r != col and a[r][col]:
                    f = a[r][col]
                    a[r] = [(x - f * y) % P for x, y in zip(a[r], a[col])]
        return [row[n_:] for row in a]
    # out[i] = sum_j mat[j][i] * st[j]  ->  as matrix T[i][j] = mat[j][i]
    TM = [[Mm[j][i] for j in range(12)] for i in range(12)]
    TMi = matinv(TM)

    def unmat(v):      # input of the M product given its output
        return [sum(TMi[i][j] * v[j] for j in range(12)) % P for i in range(12)]

    def pull(v, r):
        """v = input vector of matrix product number r  ->  permutation input state"""
        cur = [x % P for x in v]
        for k in range(r, -1, -1):
            # cur = pow7(prev) + C[(k+1)*12 ..]   (k = 3 uses offset 48, same formula)
            prev = [pow((cur[i] - C[(k + 1) * 12 + i]) % P, inv7, P) for i in range(12)]
            if k == 0:
                return [(prev[i] - C[i]) % P for i in range(12)]
            cur = unmat(prev)    # prev = M-product output of round k-1
    out = []
    for t in range(n):
        r = t % 4
        mat = Pm if r == 3 else Mm
        col = rng.below(12)
        kind = t % 3
        v = [rng.next() % P for _ in range(12)]
        if kind == 0:
            # integer sum of column `col` just below a multiple of 2^64
            j0 = rng.below(12)
            while mat[j0][col] % P == 0:
                j0 = (j0 + 1) % 12
            m = mat[j0][col]
            if m < 2**16:
                rest = sum(mat[j][col] * v[j] for j in range(12) if j != j0)
                k = rest // M + 1 + rng.below(max(1, m // 2))
                v[j0] = min(P - 1, (k * M - 1 - rng.below(3) - rest) // m)
        elif kind == 1:
            # single large entry whose product with a small coefficient is 2^64+-small
            v = [0] * 12
            j0 = rng.below(12); m = mat[j0][col] or 1
            if m < 2**16:
                v[j0] = min(P - 1, ((1 + rng.below(m)) * M - 1 - rng.below(8)) // m)
        else:
            # every lane product in [p, 2^64)
            for j in range(12):
                m = mat[j][col]
                if 0 < m < 2**16:
                    v[j] = min(P - 1, (M - 1 - rng.below(1 << 16)) // m)
        try:
            out.append(pull(v, r))
        except Exception:
            pass
    # sparse S-box inputs: the twelve words entering the 7th power of round r (r = 0..3) are powers of two, sums of two
    # powers of two, words with one zero half, 2^k - 1 (the products inside x^7 then have whole zero 32-bit columns)
    def sparse():
        k = rng.below(7)
        a, b = rng.below(64), rng.below(64)
        w = [1 << a, (1 << a) + (1 << b), (1 << a) - 1, (rng.below(1 << 32)) << 32, rng.below(1 << 32), (1 << a) | 1, M - (1 << a)][k]
        return w % P
    for t in range(n):
        r = t % 4
        sv = [sparse() for _ in range(12)]
        if t % 3 == 1:
            sv = [sv[0]] * 12
        elif t % 3 == 2:
            keep = rng.below(12); sv = [sv[i] if i == keep else rng.next() % P for i in range(12)]
        v = [(pow(sv[i], 7, P) + C[(r + 1) * 12 + i]) % P for i in range(12)]
        try:
            out.append(pull(v, r))
        except Exception:
            pass
    return out


def perm_forward(consts, st):
    """the specified permutation in plain integer arithmetic (used to check the inversion below, never as a judge)"""
    C = consts['C']; S = consts['S']
    Mm = [[consts['M'][12 * j + i] for i in range(12)] for j in range(12)]
    Pm = [[consts['P'][12 * j + i] for i in range(12)] for j in range(12)]
    mvp = lambda mat, v: [sum(mat[j][i] * v[j] for j in range(12)) % P for i in range(12)]
    s = [(st[i] + C[i]) % P for i in range(12)]
    for r in range(3):
        s = [(pow(s[i], 7, P) + C[(r + 1) * 12 + i]) % P for i in range(12)]; s = mvp(Mm, s)
    s = [(pow(s[i], 7, P) + C[48 + i]) % P for i in range(12)]; s = mvp(Pm, s)
    for r in range(22):
        x0 = (pow(s[0], 7, P) + C[60 + r]) % P
        t = [x0] + s[1:]
        s0 = sum(t[i] * S[23 * r + i] for i in range(12)) % P
        s = [(t[i] + x0 * S[23 * r + 11 + i]) % P for i in range(12)]
        s[0] = s0
    for r in range(3):
        s = [(pow(s[i], 7, P) + C[82 + r * 12 + i]) % P for i in range(12)]; s = mvp(Mm, s)
    s = [pow(x, 7, P) for x in s]
    return mvp(Mm, s)


def perm_inverse(consts, out):
    """the state the specified permutation maps to `out` (inverse matrices, 7th roots, one linear equation per partial round)"""
    C = consts['C']; S = consts['S']
    inv7 = pow(7, -1, P - 1)
    def matinv(A):
        a = [[A[r][c] % P for c in range(12)] + [1 if r == c else 0 for c in range(12)] for r in range(12)]
        for col in range(12):
            piv = next(r for r in range(col, 12) if a[r][col] % P)
            a[col], a[piv] = a[piv], a[col]
            iv = pow(a[col][col], -1, P)
            a[col] = [x * iv % P for x in a[col]]
            for r in range(12):
                if r != col and a[r][col]:
                    f = a[r][col]
                    a[r] = [(x - f * y) % P for x, y in zip(a[r], a[col])]
        return [row[12:] for row in a]
    TM = [[consts['M'][12 * j + i] for j in range(12)] for i in range(12)]; TMi = matinv(TM)
    TP = [[consts['P'][12 * j + i] for j in range(12)] for i in range(12)]; TPi = matinv(TP)
    ap = lambda T, v: [sum(T[i][j] * v[j] for j in range(12)) % P for i in range(12)]
    root = lambda v: [pow(x, inv7, P) for x in v]
    s = root(ap(TMi, [x % P for x in out]))
    for r in range(2, -1, -1):
        s = ap(TMi, s); s = root([(s[i] - C[82 + r * 12 + i]) % P for i in range(12)])
    for r in range(21, -1, -1):
        Sr = S[23 * r:23 * r + 23]
        w = [Sr[11 + i] for i in range(12)]
        den = (Sr[0] - sum(w[i] * Sr[i] for i in range(1, 12))) % P
        x0 = (s[0] - sum(s[i] * Sr[i] for i in range(1, 12))) * pow(den, -1, P) % P
        s = [pow((x0 - C[60 + r]) % P, inv7, P)] + [(s[i] - x0 * w[i]) % P for i in range(1, 12)]
    s = ap(TPi, s); s = root([(s[i] - C[48 + i]) % P for i in range(12)])
    for r in range(2, -1, -1):
        s = ap(TMi, s); s = root([(s[i] - C[(r + 1) * 12 + i]) % P for i in range(12)])
    return [(s[i] - C[i]) % P for i in range(12)]


def output_directed_states(consts, seed, n):
    """states whose permutation OUTPUT is prescribed: words at the signed/unsigned boundary 2^63, at p, at 2^32 boundaries,
    so that whatever an entry point does to its result on the way out (canonicalisation, store, lane extraction) meets them"""
    rng = vlib.Rng(seed ^ 0x0D17)
    W = [2**63 - 1, 2**63, 2**63 + 1, 0x7FFFFFFF00000000, 0x7FFFFFFF00000001, 0x7FFFFFFF80000000, 0x7FFFFFFFFFFFFFFE, 0x8000000000000001,
         P - 1, P - 2, 0, 1, 2**32 - 1, 2**32, 2**32 + 1, 0xFFFFFFFE00000000, 0xFFFFFFFEFFFFFFFF, 0xFFFFFFFF00000000 - 2**32 + 1, 2**62, 3 * 2**62]
    out = []
    for t in range(n):
        o = [W[rng.below(len(W))] % P for _ in range(12)]
        if t % 3 == 1:
            o = [(0x7FFFFFFF00000001 + rng.below(2**32 - 1)) for _ in range(12)]
        elif t % 3 == 2:
            k = rng.below(12); o = [rng.next() % P if i != k else W[t % len(W)] % P for i in range(12)]
        st = perm_inverse(consts, o)
        if t == 0 and perm_forward(consts, st) != [x % P for x in o]:
            return []          # tables of another shape: the family is skipped rather than guessed
        out.append(st)
    return out

def write_cases(path, cases):
    with open(path, 'w') as f:
        for op, s, b in cases:
            if op == 'permchain':
                f.write('permchain %d ' % b[0] + ' '.join('0x%x' % x for x in s) + '\n')
            elif op == 'permconc':
                f.write('permconc %d %d %d %d\n' % tuple(s))
            elif op == 'permiter':
                f.write('permiter %d %d %d ' % tuple(b) + ' '.join('0x%x' % x for x in s) + '\n')
            else:
                f.write(op + ' ' + ' '.join('0x%x' % x for x in s) + ' ' + ' '.join('0x%x' % x for x in b) + '\n')


def run(tier, seed, replay=None):
    ck = Check('C06', tier, seed)
    wd = workdir('C06')
    ck.assumptions += ['for-all-states is compositional: data-flow agreement here x kernel exactness for all inputs (C01, C02, C11, C13, C14)',
                       'constants are read from the compiled library (consts event), i.e. the tables of the current tree']
    if replay:
        cases = [tuple(c) for c in json.load(open(replay))['case']['cases']]
    else:
        cases = gen_cases(seed, tier)
    total_rej = 0
    directed_done = False
    for variant, exe in poslib.drivers():
        pc = poslib.dump_consts(wd, exe)
        if not replay and not directed_done:
            cj = json.load(open(pc))
            consts = {k: [vlib.unw64(x) for x in v] for k, v in cj.items()}
            ds = directed_states(consts, seed, 120 if tier == 'quick' else 2400)
            od = output_directed_states(consts, seed, 60 if tier == 'quick' else 1200)
            ck.cov['output_directed_states'] = len(od)
            ds = ds + od
            rng2 = vlib.Rng(seed ^ 0x77)
            for i, st in enumerate(ds):
                cases.append(('permfull' if i % (10 if tier == 'quick' else 40) == 0 else 'perm', st, ds[(i * 7 + 3) % len(ds)]))
            ck.cov['directed_states'] = len(ds)
            directed_done = True
        cpath = os.path.join(wd, 'cases_%s.txt' % variant); tpath = os.path.join(wd, 'trace_%s.ndjson' % variant)
        write_cases(cpath, cases)
        r = sh([exe, cpath, tpath], timeout=900)
        body = open(tpath).read()
        open(tpath, 'w').write('{"e":"tables","ci":0}\n' + body)
        v = validate_trace(wd, 'Trace_Poseidon', 'Trace_Poseidon.cfg', tpath, env={'PCONST': pc}, min_chunk=8)
        ck.add_validation(v, 'permutation entry points, %s build (%d states)' % (variant, len(cases)))
        ck.sample_trace(tpath, n=2)
        for msg in v['infra']:
            ck.note('infrastructure: ' + msg)
        total_rej += len(v['rejected'])
        for idx, rec in v['rejected'][:4]:
            if rec.get('e') == 'tables':
                ck.violation('%s build: constant tables' % variant, 'M_/P_ are not the flattenings of M/P, or an M_ entry >= 2^8, or a round constant is not canonical (preconditions of the vector kernels)', dict(cases=[]))
                continue
            if rec.get('e') == 'crash':
                ck.violation('%s build: crash %s %s' % (variant, rec['kind'], rec['code']), rec['case'][:200], dict(cases=[list(cases[rec['ci'] - 1])]))
                continue
            ci = rec['ci']
            case = cases[ci - 1]
            how = vlib.confirm_case(wd, 'Trace_Poseidon', 'Trace_Poseidon.cfg', lambda cp, tp: [exe, cp, tp], write_cases,
                                    [('permfull', x[1], x[2]) if (i == ci - 1 and x[0] == 'perm') else x for i, x in enumerate(cases)], ci, env={'PCONST': pc})
            if how and rec.get('e') == 'iter':
                names = ['scalar in place', 'AVX2 in place', 'AVX2 out of place (ping-pong)', 'AVX512 in place']
                if rec.get('concurrent'):
                    ck.violation('%s build: %s called by %d concurrent plain threads returns another result than the single-threaded scalar call' % (variant, ['scalar', 'AVX2 out of place', 'AVX2 in place'][rec['variant'] % 10 % 3], rec['concurrent']),
                                 'state %s' % ' '.join('%x' % vlib.unw64(x) for x in rec['in']), dict(cases=[[case[0], list(case[1]), list(case[2])]]))
                    continue
                bad = [i for i in range(rec['k']) if rec['outs'][12 * i:12 * i + 12] != rec['ref'][12 * i:12 * i + 12]]
                ck.violation('%s build: %s iterated on its own result departs from the permutation at step %s%s' % (variant, names[rec['variant'] % 4], (bad[0] + 1) if bad else '?', vlib.HIST if how == 'history' else ''),
                             'k=%d start state %s' % (rec['k'], ' '.join('%x' % x for x in case[1])), dict(cases=[[x[0], list(x[1]), list(x[2])] for x in (cases[:ci] if how == 'history' else [case])]))
            elif how:
                agree = all(rec.get(k) == rec.get('seq') for k in ('avx', 'seq_ip', 'avx_ip'))
                ck.violation('%s build: permutation %s on state %s%s' % (variant, 'variants disagree' if not agree else 'differs from the specified permutation (or AVX512 slot mismatch)', ' '.join('%x' % x for x in case[1]), vlib.HIST if how == 'history' else ''),
                             json.dumps(vlib.compact(rec))[:400], dict(cases=[[x[0], list(x[1]), list(x[2])] for x in (cases[:ci] if how == 'history' else [('permfull' if case[0] == 'perm' else case[0], case[1], case[2])])]))
            else:
                ck.note('rejection not reproduced on re-run (neither alone nor after its process history): state %s' % ' '.join('%x' % x for x in case[1]))
    ck.cov['states_per_build'] = len(cases)
    ck.cov['fully_re_evaluated_by_TLC'] = sum(1 for c in cases if c[0] == 'permfull')
    ck.cov['rejected_records'] = total_rej
    # the model side: count the TLC evaluations as states of the trace specification (already added by add_validation)
    return ck.finish()
