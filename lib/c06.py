"""C06 — Poseidon permutation: scalar, AVX2 and (per interleaved state) AVX512 agree with the specification.
Specification: Poseidon.tla — the permutation (4 full rounds, the 4th through the pre-matrix P; 22 partial rounds with the
sparse S rows; 4 full rounds; x^7) written over the limb field W64 with the constant tables the library was compiled
with; TLC also checks the table facts the vector code depends on (M_/P_ are the flattenings that make the vector product
equal mvp_, all M_ entries < 2^8 for the 8-bit kernels, all round constants canonical for the `_small` adders) and defines
the two-state interleaved layout of the AVX512 variant.  The for-all-states claim is compositional: this data flow times
the exactness of every kernel for all inputs (C01, C02, C11, C13, C14).
Conformance: known-answer style states (zero, Fibonacci), boundary values in every position, seeded states in all
representations are run through hash_full_result_seq / hash_full_result / in-place forms / hash_seq / hash and, in the
-mavx512f build, hash_full_result_avx512 / hash_avx512 on interleaved pairs; Trace_Poseidon requires all entry points to
agree modulo p on every event and, for a sample (quick 24, thorough 400 states), re-derives the result by evaluating
Perm in TLC."""
import os, json
import vlib, poslib
from vlib import Check, workdir, validate_trace, sh
P = vlib.P
M = 2**64


def gen_cases(seed, tier):
    rng = vlib.Rng(seed ^ 0xC06)
    states = []
    states.append([0] * 12)
    fib = [0, 1]
    while len(fib) < 12:
        fib.append(fib[-1] + fib[-2])
    states.append(fib)
    for v in (P - 1, P, M - 1, 1, 2**32, 2**32 - 1, 2**63):
        states.append([v] * 12)
    for pos in range(12):
        for v in (P - 1, M - 1, P, 1):
            s = [0] * 12; s[pos] = v; states.append(s)
    nrand = 300 if tier == 'quick' else 6000
    for i in range(nrand):
        states.append([rng.word() for _ in range(12)])
    nfull = 24 if tier == 'quick' else 400
    cases = []
    stride = max(1, len(states) // nfull)
    for i, s in enumerate(states):
        full = (i % stride == 0) or i < 4
        b = [rng.word() for _ in range(12)] if i % 2 else list(reversed(s))
        cases.append(('permfull' if full else 'perm', s, b))
    return cases


def write_cases(path, cases):
    with open(path, 'w') as f:
        for op, s, b in cases:
            f.write(op + ' ' + ' '.join('0x%x' % x for x in s) + ' ' + ' '.join('0x%x' % x for x in b) + '\n')


def run(tier, seed, replay=None):
    ck = Check('C06', tier, seed)
    wd = workdir('C06')
    ck.assumptions += ['for-all-states is compositional: data-flow agreement here x kernel exactness for all inputs (C01, C02, C11, C13, C14)',
                       'constants are read from the compiled library (consts event), i.e. the tables of the current tree']
    if replay:
        cases = [tuple(c) for c in json.load(open(replay))['case']['cases']]
    else:
        cases = gen_cases(seed, tier)
    total_rej = 0
    for variant, exe in poslib.drivers():
        pc = poslib.dump_consts(wd, exe)
        cpath = os.path.join(wd, 'cases_%s.txt' % variant); tpath = os.path.join(wd, 'trace_%s.ndjson' % variant)
        write_cases(cpath, cases)
        r = sh([exe, cpath, tpath], timeout=900)
        body = open(tpath).read()
        open(tpath, 'w').write('{"e":"tables","ci":0}\n' + body)
        v = validate_trace(wd, 'Trace_Poseidon', 'Trace_Poseidon.cfg', tpath, env={'PCONST': pc}, min_chunk=8)
        ck.add_validation(v, 'permutation entry points, %s build (%d states)' % (variant, len(cases)))
        ck.sample_trace(tpath, n=2)
        for msg in v['infra']:
            ck.note('infrastructure: ' + msg)
        total_rej += len(v['rejected'])
        for idx, rec in v['rejected'][:4]:
            if rec.get('e') == 'tables':
                ck.violation('%s build: constant tables' % variant, 'M_/P_ are not the flattenings of M/P, or an M_ entry >= 2^8, or a round constant is not canonical (preconditions of the vector kernels)', dict(cases=[]))
                continue
            if rec.get('e') == 'crash':
                ck.violation('%s build: crash %s %s' % (variant, rec['kind'], rec['code']), rec['case'][:200], dict(cases=[list(cases[rec['ci'] - 1])]))
                continue
            case = cases[rec['ci'] - 1]
            c2 = os.path.join(wd, 'confirm.txt'); t2 = os.path.join(wd, 'confirm.ndjson')
            write_cases(c2, [('permfull', case[1], case[2])]); sh([exe, c2, t2], timeout=60)
            v2 = validate_trace(wd, 'Trace_Poseidon', 'Trace_Poseidon.cfg', t2, env={'PCONST': pc}, nsplit=1)
            if v2['rejected']:
                r2 = v2['rejected'][0][1]
                agree = all(r2.get(k) == r2.get('seq') for k in ('avx', 'seq_ip', 'avx_ip'))
                ck.violation('%s build: permutation %s on state %s' % (variant, 'variants disagree' if not agree else 'differs from the specified permutation (or AVX512 slot mismatch)', ' '.join('%x' % x for x in case[1])),
                             json.dumps(vlib.compact(r2))[:400], dict(cases=[['permfull', list(case[1]), list(case[2])]]))
    ck.cov['states_per_build'] = len(cases)
    ck.cov['fully_re_evaluated_by_TLC'] = sum(1 for c in cases if c[0] == 'permfull')
    ck.cov['rejected_records'] = total_rej
    # the model side: count the TLC evaluations as states of the trace specification (already added by add_validation)
    return ck.finish()
