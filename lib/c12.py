"""C12 — parallel regions are race-free; results independent of threads and schedule.
Model: Par.tla — a `parallel for` region as iterations assigned arbitrarily to team members that interleave at
read-step / write-step granularity over symbolic memory, instantiated with the footprints of every region kind in the
library (NTT batch pass, the three bit reversals, block scatter, Merkle level, parcpy/parSetZero chunks): TLC checks
NoRace, Deterministic (memory at the barrier = sequential execution) and exact chunk tiling for all shapes up to 8 rows
and all thread-count arguments; SharedTmp = TRUE (a scratch row hoisted out of the in-place reversal) must produce a
counterexample.  Merkle.tla (C08) checks the same for the tree loops in every iteration order.
Conformance: the compiled library is linked against a sequentialising OpenMP stand-in instead of libgomp; TLC enumerates
the member orders (all permutations of teams of 2..4, prototypes for larger teams) and team-size caps (the runtime may
deliver fewer threads than requested); the transforms, Merkle builders and parcpy/parSetZero run under each; Trace_Par
accepts an execution iff in every region the members' measured write sets (buffers, library mallocs, callers' stack,
static data) are pairwise disjoint and the output is bit-identical to the one-member run.  The C03-C08 drivers in
addition run under the real libgomp with 1,2,3,7,8,16 threads against the definitions."""
import os, json, itertools
import vlib, nttlib
from vlib import Check, tlc, workdir, build_driver, validate_trace, sh


def gen_routines(seed, tier):
    rng = vlib.Rng(seed ^ 0xC12)
    rs = []
    # transforms: shapes that exercise every region kind (in-place reversal = even phases in place; blocks; extension)
    for call, S, d, e, nc, nph, nb, dst, buf in [
            ('ntt', 4, 4, 0, 2, 2, 1, 'same', 'null'), ('ntt', 4, 4, 0, 3, 3, 1, 'other', 'caller'), ('ntt', 4, 3, 0, 5, 2, 3, 'null', 'null'),
            ('ntt', 3, 3, 0, 1, 4, 1, 'same', 'caller'), ('intt', 4, 4, 0, 2, 4, 1, 'same', 'null'), ('intt', 4, 4, 0, 3, 3, 2, 'other', 'null'),
            ('intt', 5, 5, 0, 1, 2, 1, 'null', 'null'), ('ext', 3, 3, 1, 2, 2, 1, 'same', 'null'), ('ext', 3, 2, 2, 3, 3, 1, 'other', 'caller'),
            ('ext', 4, 3, 1, 4, 4, 2, 'same', 'null'), ('ntt', 2, 0, 0, 7, 3, 1, 'other', 'null'), ('ntt', 5, 5, 0, 2, 2, 1, 'same', 'null'),
            # sizes beyond any plausible serial cut-off of the parallel loops
            ('ntt', 8, 8, 0, 2, 2, 1, 'same', 'null'), ('intt', 9, 9, 0, 1, 4, 1, 'same', 'null'), ('ext', 8, 8, 1, 1, 2, 1, 'same', 'null'), ('ntt', 9, 8, 0, 3, 3, 2, 'other', 'caller')]:
        for i, nth in enumerate((3, 4, 8, 16) if S <= 5 else (3, 4)):
            # base vectors: seeded representation mix, and the structured ones (non-canonical words, boundary values)
            rs.append('ntt %s %d %d %d %d %d %d %s %s %d %d' % (call, S, d, e, nc, nph, nb, dst, buf, nth, [0, 5, 3, 1][i] if S <= 5 else 0))
    builders = [0, 1, 2, 3] + ([4, 5] if vlib.have_avx512() else [])
    for b in builders:
        for rows, cols, dim, batch in [(8, 5, 1, 2), (4, 9, 3, 4), (16, 3, 1, 1), (2, 17, 1, 5), (1, 4, 1, 3)]:
            rs.append('mt %d %d %d %d %d %d %d' % (b, rows, cols, dim, batch, [3, 4, 0][rows % 3], rng.next() & 0xFFFF))
    sizes = [0, 1, 2, 3, 5, 8, 13, 16, 17, 33, 64] if tier == 'quick' else list(range(0, 70))
    for op in ('parcpy', 'parsetzero'):
        for size in sizes:
            for targ in (-5, 0, 1, 2, 3, 7, 64, 1000):
                rs.append('cpy %s %d %d' % (op, size, targ))
    return rs


def run(tier, seed, replay=None):
    ck = Check('C12', tier, seed)
    wd = workdir('C12')
    ck.assumptions += ['conflicts are observed at team-member granularity from sequentialised executions: a cell written by two members of a region, or an output that depends on member order / team size; a read whose value never influences an output is invisible',
                       'no instruction-level happens-before detector is used; instruction-level interleavings are covered by the model only',
                       'schedule(static[,chunk]) iteration-to-member maps are computed by the compiled code itself from the stand-in\'s omp_get_thread_num/num_threads']
    if replay:
        cases = json.load(open(replay))['case']['cases']
    else:
        base = open(os.path.join(wd, 'MC_Par.cfg')).read()
        open(os.path.join(wd, 'MC_Par3.cfg'), 'w').write(base.replace('MaxPow = 2', 'MaxPow = 3'))
        r = tlc(wd, 'MC_Par', 'MC_Par3.cfg', timeout=900, workers=12)
        ck.add_tlc(r, 'MC_Par: every region kind, <= 8 rows, all interleavings of read/write steps; NoRace, Deterministic, ChunksTile')
        if not r.ok:
            ck.note('model-level: MC_Par: %s' % (r.violated or r.error))
        open(os.path.join(wd, 'MC_ParS.cfg'), 'w').write(base.replace('MaxPow = 2', 'MaxPow = 3').replace('SharedTmp = FALSE', 'SharedTmp = TRUE'))
        rs = tlc(wd, 'MC_Par', 'MC_ParS.cfg', timeout=600, workers=12, tag='shared')
        ck.cov['legacy_switch_counterexamples'] = {'SharedTmp': rs.violated}
        oout = os.path.join(wd, 'orders.ndjson')
        ro = tlc(wd, 'MC_ParOrders', 'MC_ParOrders.cfg', timeout=300, workers=1, env={'ORDOUT': oout}, tag='orders')
        ck.add_tlc(ro, 'MC_ParOrders: member orders x team caps (behaviour generator)')
        orders = [json.loads(l) for l in open(oout) if l.strip()]
        ck.cov['tlc_generated_orders'] = len(orders)
        routines = gen_routines(seed, tier)
        cases = []
        k = 0
        for i, rt in enumerate(routines):
            heavy = rt.startswith('ntt') or rt.startswith('mt')
            n = (10 if tier == 'quick' else 40) if heavy else (3 if tier == 'quick' else 12)
            for j in range(n):
                o = orders[(i * 7 + j * 13 + k) % len(orders)]
                k += 1
                cases.append('%s | %d %s' % (rt, o['cap'], ' '.join(str(x) for x in o['order'])))
    nttlib.make_inputs(wd, seed, 9)
    nrej = 0
    variants = ['avx2'] + (['avx512'] if vlib.have_avx512() else [])
    for variant in variants:
        exe = build_driver('drv_par', variant, extra=['-Wl,--wrap=malloc', '-Wl,--wrap=free', '-Wl,--wrap=calloc', '-Wl,--wrap=realloc', '-Wl,--wrap=aligned_alloc', '-Wl,--wrap=posix_memalign', '-Wl,--wrap=memalign'], omp=False, extra_srcs=['ompshim.cpp'])
        use = [c for c in cases if variant == 'avx512' or not (c.startswith('mt 4') or c.startswith('mt 5'))]
        if variant == 'avx512':
            use = [c for c in use if c.startswith('mt')]      # the AVX512 builders; everything else is identical code
        cpath = os.path.join(wd, 'cases_%s.txt' % variant); tpath = os.path.join(wd, 'trace_%s.ndjson' % variant)
        open(cpath, 'w').write('\n'.join(use) + '\n')
        sh([exe, os.path.join(wd, 'ntt_inputs.txt'), cpath, tpath], timeout=2400)
        v = validate_trace(wd, 'Trace_Par', 'Trace_Par.cfg', tpath, min_chunk=40)
        ck.add_validation(v, 'routines under the OpenMP stand-in, %s build (%d executions)' % (variant, len(use)))
        ck.sample_trace(tpath, n=2)
        for msg in v['infra']:
            ck.note('infrastructure: ' + msg)
        nrej += len(v['rejected'])
        seen = set()
        for idx, rec in v['rejected']:
            case = use[rec['ci'] - 1]
            if rec.get('e') == 'crash':
                what = 'crash %s %s' % (rec['kind'], rec['code'])
            elif not rec.get('same'):
                what = 'output depends on team size / member order'
            elif not rec.get('flags_ok'):
                what = 'routine result wrong (exactness flag)'
            else:
                what = 'two members of one region wrote the same cell'
            cls = (case.split()[0], case.split()[1], what)
            if cls in seen or len(ck.violations) >= 8:
                continue
            seen.add(cls)
            c2 = os.path.join(wd, 'confirm.txt'); t2 = os.path.join(wd, 'confirm.ndjson')
            open(c2, 'w').write(case + '\n'); sh([exe, os.path.join(wd, 'ntt_inputs.txt'), c2, t2], timeout=300)
            v2 = validate_trace(wd, 'Trace_Par', 'Trace_Par.cfg', t2, nsplit=1)
            if v2['rejected']:
                ck.violation('%s build: %s -> %s' % (variant, case, what), 'execution under team cap/order rejected by Trace_Par', dict(cases=[case]))
            else:
                ck.note('rejection not reproduced: %s' % case)
    ck.cov['executions'] = len(cases); ck.cov['rejected_records'] = nrej
    return ck.finish()
