"""C08 — the Merkle tree buffer and root are the binary Poseidon tree over row digests.
Model: Merkle.tla — leaf loop and level loops over symbolic digests, every iteration one action, iterations of one loop
in any order (all team schedules), single-row and two-rows-per-iteration (AVX512) variants, batched leaves: TLC checks
for rows in {1,2,4,8}, cols 0..5, dim {1,3}, batch 0..7 that the buffer equals the tree definition, all slot/row accesses
are inside their extents, no slot is read before it is written, iterations of one loop never conflict, the column batches
tile each row exactly; LegacyPair reproduces the one-row overrun of the pinned AVX512 builders.
Conformance: shapes rows 1..32 x cols {0,1,3,4,5,8,9,16,17} x dim {1,3} x batch sizes x thread counts through all
builders (seq, avx, default wrapper, batched forms; AVX512 forms in the -mavx512f build) with exact-extent guard-paged
input and tree buffers; the tracer hook records every permutation; Trace_Merkle rebuilds every leaf (sponge of the row /
of the concatenated batch digests) and every inner node from the observed permutation map and compares the whole buffer
and the root; one observed permutation per event is re-derived from Poseidon.Perm for a sample."""
import os, json
import vlib, poslib
from vlib import Check, tlc, workdir, validate_trace, sh


def gen_cases(seed, tier):
    rng = vlib.Rng(seed ^ 0xC08)
    cs = []
    rows_l = [1, 2, 4, 8, 16] if tier == 'quick' else [1, 2, 4, 8, 16, 32]
    cols_l = [0, 1, 3, 4, 5, 8, 9, 17] if tier == 'quick' else [0, 1, 3, 4, 5, 8, 9, 16, 17, 33]
    k = 0
    for rows in rows_l:
        for cols in cols_l:
            for dim in (1, 3):
                batches = sorted(set([1, 2, 3, 4, 5, 8, max(cols, 1), cols + 7]))
                if tier == 'quick':
                    batches = [batches[(k + i) % len(batches)] for i in range(3)]
                for b in [0] + batches:
                    k += 1
                    if rows * max(cols, 1) * dim > 1600:      # keeps one event's permutation map small enough to validate in seconds
                        continue
                    if tier == 'quick' and rows >= 16 and (k % 3):
                        continue
                    nth = [0, 1, 2, 3, 7, 16][k % 6]
                    cs.append(('mt', rows, cols, dim, b, nth, rng.next() & 0xFFFFFFFF, 0, 0))
    # structured matrices (equal rows, rows A,B,A,A, two-valued, zero) and OpenMP delivery environments
    for rows in ([4, 8, 16] if tier == 'quick' else [2, 4, 8, 16, 32]):
        for cols, dim in ((1, 1), (3, 1), (9, 1), (2, 3)):
            for pat in (1, 2, 3, 4, 5):
                k += 1
                cs.append(('mt', rows, cols, dim, [0, 2, 1, cols + 1][k % 4], [1, 2, 3, 0][k % 4], rng.next() & 0xFFFFFFFF, pat, 0))
    for rows in (2, 8, 16):
        for cols in (0, 3, 9):
            for env in (1, 2, 3):
                k += 1
                cs.append(('mt', rows, cols, [1, 3][k % 2], [0, 2, 4][k % 3], [2, 3, 7, 16][k % 4], rng.next() & 0xFFFFFFFF, 0, env))
    return cs


def run(tier, seed, replay=None):
    ck = Check('C08', tier, seed)
    wd = workdir('C08')
    ck.assumptions += ['permutation values come from the tracer hook inside hash_full_result* (the function itself is C06; a sample is re-derived here)',
                       'row counts are powers of two (the property\'s domain)']
    if replay:
        cases = [tuple(c) for c in json.load(open(replay))['case']['cases']]
    else:
        base = open(os.path.join(wd, 'MC_Merkle.cfg')).read()
        r = tlc(wd, 'MC_Merkle', 'MC_Merkle.cfg', timeout=900, workers=12)
        ck.add_tlc(r, 'MC_Merkle: rows<=8, cols<=5, dim{1,3}, batch<=7, single/pair, every iteration order')
        if not r.ok:
            ck.note('model-level: MC_Merkle: %s' % (r.violated or r.error))
        open(os.path.join(wd, 'MC_Merkle_L.cfg'), 'w').write(base.replace('LegacyPair = FALSE', 'LegacyPair = TRUE'))
        rl = tlc(wd, 'MC_Merkle', 'MC_Merkle_L.cfg', timeout=300, workers=8, tag='legacy')
        ck.cov['legacy_switch_counterexamples'] = {'LegacyPair': rl.violated}
        cases = gen_cases(seed, tier)
    nrej = 0
    for variant, exe in poslib.drivers():
        pc = poslib.dump_consts(wd, exe)
        cpath = os.path.join(wd, 'cases_%s.txt' % variant); tpath = os.path.join(wd, 'trace_%s.ndjson' % variant)
        open(cpath, 'w').write('\n'.join(' '.join(str(x) for x in c) for c in cases) + '\n')
        sh([exe, cpath, tpath], timeout=2400)
        lines = [ln for ln in open(tpath).read().split('\n') if ln.strip()]
        outl = []
        for i, ln in enumerate(lines):
            j = json.loads(ln)
            if j.get('e') == 'mt':
                j['check_perm'] = 1 + (i % 5) if (i % (11 if tier == 'quick' else 4) == 0 and j['perms']) else 0
            outl.append(json.dumps(j))
        open(tpath, 'w').write('\n'.join(outl) + '\n')
        v = validate_trace(wd, 'Trace_Merkle', 'Trace_Merkle.cfg', tpath, env={'PCONST': pc}, min_chunk=12, xmx='4g')
        ck.add_validation(v, 'Merkle builders, %s build (%d shapes)' % (variant, len(cases)))
        ck.sample_trace(tpath, n=1)
        for msg in v['infra']:
            ck.note('infrastructure: ' + msg)
        nrej += len(v['rejected'])
        seen = set()
        for idx, rec in v['rejected']:
            case = cases[rec['ci'] - 1]
            if rec.get('e') == 'crash':
                builder = 'crash'
                key = '%s build: merkle rows=%d cols=%d dim=%d batch=%d nth=%d -> crash %s %s' % ((variant,) + tuple(case[1:6]) + (rec['kind'], rec['code']))
            else:
                builder = rec['builder']
                key = '%s build: %s rows=%d cols=%d dim=%d batch=%d nth=%d -> tree differs from the definition' % ((variant, builder) + tuple(case[1:6]))
            cls = (builder, case[1] == 1, case[2] == 0, case[3])
            if cls in seen or len(ck.violations) >= 8:
                continue
            seen.add(cls)
            def wc(path, cs):
                open(path, 'w').write('\n'.join(' '.join(str(x) for x in cc) for cc in cs) + '\n')

            def post(tp):
                l2 = []
                for ln in open(tp).read().split('\n'):
                    if ln.strip():
                        j = json.loads(ln); j['check_perm'] = 0; l2.append(json.dumps(j))
                open(tp, 'w').write('\n'.join(l2) + '\n')
            how = vlib.confirm_case(wd, 'Trace_Merkle', 'Trace_Merkle.cfg', lambda cp, tp: [exe, cp, tp], wc, cases, rec['ci'], env={'PCONST': pc}, post=post)
            if how:
                ck.violation(key + (vlib.HIST if how == 'history' else ''), 'recorded tree / root / extents contradict the tree definition',
                             dict(cases=[list(x) for x in (cases[:rec['ci']] if how == 'history' else [case])]))
            else:
                ck.note('rejection not reproduced on re-run (neither alone nor after its process history): ' + key)
    ck.cov['shapes'] = len(cases); ck.cov['rejected_records'] = nrej
    return ck.finish()
