"""C13 — AVX2 dot/sparse/dense 12-wide matrix kernels equal the product mod p.
Model: MatKernels.tla over MatChains.tla and LaneKernels.tla, both GENERATED from the kernels of the current tree (tools/avx2tla.py): (a) the arithmetic chain per lane (three lane products through two adders; the
8-bit variants add the low halves of the 72-bit products with the modular adder, the high parts as integers and reduce
once; four transposed columns through two adder levels) checked by TLC at W=2 for all state lanes and boundary
coefficients (thorough: all), (b) the register layout: permute2f128/unpack (AVX2) and permutex2var/unpack (AVX512)
transposes as permutations of symbolic tags.  LegacyBC (the pinned AVX512 chain through add_avx512_b_c) must produce a
counterexample.  The lane kernels themselves are C02 / C11.
Conformance: real kernels (aligned variants with 32-byte aligned arrays, the others deliberately misaligned) on random,
boundary, non-canonical operands, products landing in [p, 2^64) in several addends of one lane, and the library's own
M_, P_, S tables; Trace_Lane recomputes every output as the mathematical sum over the limb field."""
import os, json
import vlib, lanelib, poslib
from vlib import Check, tlc, workdir


def run(tier, seed, replay=None):
    ck = Check('C13', tier, seed)
    wd = workdir('C13')
    ck.assumptions += ['lane kernels exact for all inputs is C02/C11; here their composition and layout',
                       '8-bit variants: all coefficients below 2^8 (documented assumption)']
    variant = 'avx2'
    if variant == 'avx512' and not vlib.have_avx512():
        ck.note('no AVX512F on this host: replay skipped')
    if replay:
        cases = [lanelib.case_from_json(c) for c in json.load(open(replay))['case']['cases']]
    else:
        lanelib.gen_lane_model(ck, wd)
        base = open(os.path.join(wd, 'MC_MatChain.cfg')).read()
        cfg = base.replace('AllB = FALSE', 'AllB = %s' % ('FALSE' if tier == 'quick' else 'TRUE'))
        open(os.path.join(wd, 'MC_MatChain_run.cfg'), 'w').write(cfg)
        r = tlc(wd, 'MC_MatChain', 'MC_MatChain_run.cfg', timeout=2400)
        ck.add_tlc(r, 'MC_MatChain W=2: spmv / spmv_8 / column-sum chains (AVX2 and AVX512), transposes as tag permutations')
        lead = None
        if not r.ok:
            ck.note('model-level lead: MC_MatChain: %s (counterexample lifted to 64 bit and replayed)' % (r.violated or r.error))
            lead = lanelib.chain_leads(r.out)
        open(os.path.join(wd, 'MC_MatChain_L.cfg'), 'w').write(base.replace('LegacyBC = FALSE', 'LegacyBC = TRUE'))
        rl = tlc(wd, 'MC_MatChain', 'MC_MatChain_L.cfg', timeout=600, tag='legacy')
        ck.cov['legacy_switch_counterexamples'] = {'LegacyBC': rl.violated}
        consts = None
        try:
            exe = poslib.drivers()[0][1]
            cj = json.load(open(poslib.dump_consts(wd, exe)))
            consts = {k: [vlib.unw64(x) for x in v] for k, v in cj.items()}
        except Exception as e:
            ck.note('library tables not available for coefficient cases: %s' % e)
        cases = lanelib.chain_lead_cases(lanelib.MAT2, lead) + lanelib.mat_cases(lanelib.MAT2, seed, tier, consts)
    if variant == 'avx2' or vlib.have_avx512():
        lanelib.replay(ck, wd, variant, cases, 'AVX2 12-wide kernels (%d calls)' % len(cases),
                       lambda c, r: 'kernel %s state=%s coef[0..3]=%s' % (c[1], ' '.join('%x' % x for x in c[2]), ' '.join('%x' % x for x in c[3][:4])))
    ck.cov['calls'] = len(cases)
    return ck.finish()
