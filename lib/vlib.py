"""Common machinery for the goldilocks TLA+ verification checks.

- builds the library + drivers from /repo's current working tree (content-hashed cache under /verif/.cache)
- runs TLC / Apalache under timeouts and parses their reports
- validates recorded implementation traces (ndjson) against TLA+ trace specifications
- writes evidence files and handles known findings / VIOLATION lines
"""
import hashlib, json, os, re, shutil, subprocess, sys, time, glob, random
from concurrent.futures import ThreadPoolExecutor

VERIF = os.path.dirname(os.path.dirname(os.path.abspath(__file__)))
REPO = os.environ.get('VERIF_REPO', '/repo')
CACHE = os.path.join(VERIF, '.cache')
SPEC = os.path.join(VERIF, 'spec')
HARNESS = os.path.join(VERIF, 'harness')
TLAJAR = '/opt/veriftools/tla/tla2tools.jar:/opt/veriftools/tla/CommunityModules-deps.jar'
GUARD = 'GOLDILOCKS_VERIF'
# evidence of runs against a scratch copy (mutation self-tests) must never overwrite the real evidence
EVID = os.environ.get('VERIF_EVID') or (os.path.join(VERIF, 'evidence') if os.path.realpath(REPO) == '/repo' else os.path.join(CACHE, 'evidence_alt'))
# a check run as a sub-step of another check works in its own directory (VERIF_RUNTAG) and writes its evidence elsewhere (VERIF_EVID)
RUNTAG = os.environ.get('VERIF_RUNTAG', '')
NCPU = os.cpu_count() or 4
P = 2**64 - 2**32 + 1


def log(*a):
    print('[verif]', *a, flush=True)


def sh(cmd, timeout=None, env=None, cwd=None, check=False):
    e = dict(os.environ)
    if env:
        e.update(env)
    try:
        r = subprocess.run(cmd, capture_output=True, text=True, timeout=timeout, env=e, cwd=cwd, errors='replace')
    except subprocess.TimeoutExpired as ex:
        class R: pass
        r = R(); r.returncode = 124
        r.stdout = (ex.stdout.decode(errors='replace') if isinstance(ex.stdout, bytes) else (ex.stdout or ''))
        r.stderr = 'TIMEOUT'
    if check and r.returncode != 0:
        raise RuntimeError('command failed: %s\n%s\n%s' % (' '.join(map(str, cmd)), r.stdout[-4000:], r.stderr[-4000:]))
    return r


# ----------------------------------------------------------------------------------------------- build
def _hash_files(paths, extra=''):
    h = hashlib.sha256(extra.encode())
    for p in sorted(paths):
        h.update(p.encode())
        with open(p, 'rb') as f:
            h.update(f.read())
    return h.hexdigest()[:20]


def repo_sources():
    return sorted(glob.glob(os.path.join(REPO, 'src', '*.cpp')) + glob.glob(os.path.join(REPO, 'src', '*.hpp')) +
                  glob.glob(os.path.join(REPO, 'src', '*.cuh')))


def repo_hash():
    return _hash_files(repo_sources())


VARIANTS = {
    'avx2': ['-mavx2'],
    'avx512': ['-mavx2', '-mavx512f', '-D__AVX512__'],
}
BASEFLAGS = ['-std=c++17', '-O2', '-pthread', '-fopenmp', '-D' + GUARD, '-w']


def have_avx512():
    try:
        return 'avx512f' in open('/proc/cpuinfo').read()
    except Exception:
        return False


def build_lib(variant='avx2', extra=()):
    """Compile /repo/src/*.cpp (current working tree) into objects; returns list of object paths."""
    flags = BASEFLAGS + VARIANTS[variant] + list(extra)
    key = _hash_files(repo_sources(), ' '.join(flags))
    d = os.path.join(CACHE, 'build', 'lib_%s_%s' % (variant, key))
    objs = []
    srcs = sorted(glob.glob(os.path.join(REPO, 'src', '*.cpp')))
    if os.path.exists(os.path.join(d, '.done')):
        return [os.path.join(d, os.path.basename(s) + '.o') for s in srcs]
    os.makedirs(d, exist_ok=True)
    t0 = time.time()

    def comp(s):
        o = os.path.join(d, os.path.basename(s) + '.o')
        r = sh(['g++'] + flags + ['-I' + os.path.join(REPO, 'src'), '-I' + HARNESS, '-c', s, '-o', o], timeout=900)
        if r.returncode != 0:
            raise BuildError('compile failed for %s:\n%s' % (s, r.stderr[-3000:]))
        return o
    with ThreadPoolExecutor(max_workers=8) as ex:
        objs = list(ex.map(comp, srcs))
    open(os.path.join(d, '.done'), 'w').write('ok')
    log('built library (%s) in %.1fs' % (variant, time.time() - t0))
    return objs


class BuildError(Exception):
    pass


def build_driver(name, variant='avx2', extra=(), libs=('-lgmp', '-lgmpxx'), with_lib=True, omp=True, extra_srcs=()):
    """Compile harness/<name>.cpp against /repo/src headers and link with the library objects."""
    flags = BASEFLAGS + VARIANTS[variant] + list(extra)
    if not omp:
        flags = [f for f in flags if f != '-fopenmp']
    src = os.path.join(HARNESS, name + '.cpp')
    hs = glob.glob(os.path.join(HARNESS, '*.hpp')) + [src] + [os.path.join(HARNESS, s) for s in extra_srcs]
    key = _hash_files(repo_sources() + hs, ' '.join(flags) + str(with_lib) + str(omp))
    d = os.path.join(CACHE, 'build', 'drv_%s_%s_%s' % (name, variant, key))
    exe = os.path.join(d, name)
    if os.path.exists(exe):
        return exe
    os.makedirs(d, exist_ok=True)
    objs = build_lib(variant, extra=[f for f in extra if f.startswith('-f') or f.startswith('-D')]) if with_lib else []
    t0 = time.time()
    cmd = ['g++'] + flags + ['-I' + os.path.join(REPO, 'src'), '-I' + HARNESS, src] + \
          [os.path.join(HARNESS, s) for s in extra_srcs] + objs + ['-o', exe + '.tmp'] + list(libs)
    if omp is False:
        cmd = [c for c in cmd if c != '-fopenmp']
    r = sh(cmd, timeout=1200)
    if r.returncode != 0:
        raise BuildError('driver build failed (%s/%s):\n%s' % (name, variant, r.stderr[-4000:]))
    os.rename(exe + '.tmp', exe)
    log('built driver %s (%s) in %.1fs' % (name, variant, time.time() - t0))
    return exe


# ----------------------------------------------------------------------------------------------- TLC
class TlcResult:
    def __init__(self):
        self.rc = None; self.out = ''; self.generated = 0; self.distinct = 0; self.diameter = 0
        self.violated = None; self.error = None; self.ok = False; self.wall = 0.0; self.coverage = {}
        self.postcondition_failed = False


def workdir(tag):
    d = os.path.join(CACHE, 'run', tag + RUNTAG)
    if os.path.exists(d):
        shutil.rmtree(d, ignore_errors=True)
    os.makedirs(d)
    for f in glob.glob(os.path.join(SPEC, '*.tla')) + glob.glob(os.path.join(SPEC, '*.cfg')):
        shutil.copy(f, d)
    return d


def tlc(wd, module, cfg=None, workers=None, env=None, timeout=1200, extra=(), xmx='4g', simulate=None, depth=None,
        coverage=False, tag=None):
    """Run TLC on wd/module.tla. Returns TlcResult. Never raises on model failure."""
    res = TlcResult()
    md = os.path.join(wd, 'md_%s_%d_%d' % (tag or module, os.getpid(), random.randrange(1 << 30)))
    jt = os.path.join(wd, 'jtmp'); os.makedirs(jt, exist_ok=True)
    cmd = ['java', '-XX:+UseParallelGC', '-Xss512m', '-Djava.io.tmpdir=' + jt, '-Xmx' + xmx, '-cp', TLAJAR, 'tlc2.TLC', '-metadir', md, '-nowarning',
           '-workers', str(workers or NCPU)]
    if cfg:
        cmd += ['-config', cfg]
    if simulate:
        cmd += ['-simulate', 'num=%d' % simulate]
        if depth:
            cmd += ['-depth', str(depth)]
    if coverage:
        cmd += ['-coverage', '1']
    cmd += list(extra) + [module + '.tla']
    t0 = time.time()
    r = sh(cmd, timeout=timeout, env=env, cwd=wd)
    res.wall = time.time() - t0
    res.rc = r.returncode
    res.out = r.stdout + ('\n' + r.stderr if r.stderr else '')
    shutil.rmtree(md, ignore_errors=True)
    m = None
    for m in re.finditer(r'(\d+) states generated, (\d+) distinct states found', res.out):
        pass
    if m:
        res.generated = int(m.group(1)); res.distinct = int(m.group(2))
    m = re.search(r'depth of the complete state graph search is (\d+)', res.out)
    if m:
        res.diameter = int(m.group(1))
    m = re.search(r'Invariant (\S+) is violated', res.out)
    if m:
        res.violated = m.group(1)
    m = re.search(r'Error: (.*)', res.out)
    if m and not res.violated:
        res.error = m.group(1)
    if 'ostcondition' in res.out and ('violated' in res.out or 'false' in res.out.lower()):
        if re.search(r'[Pp]ost.?condition.*(violated|false)', res.out):
            res.postcondition_failed = True
    if 'Temporal properties were violated' in res.out or 'is violated' in res.out:
        if not res.violated:
            mm = re.search(r'(?:Action property|property) (\S+) (?:is|was) violated', res.out)
            res.violated = mm.group(1) if mm else (res.violated or 'property')
    res.ok = (res.rc == 0 and 'Model checking completed. No error has been found' in res.out) or \
             (simulate is not None and res.rc in (0,) and not res.violated and not res.error)
    return res


def tlc_states(res):
    return res.distinct, res.generated


def parse_coverage(out):
    """per-action 'taken:generated' counts from -coverage output: <Name line ...>: d:g"""
    cov = {}
    for m in re.finditer(r'<(\w+) line \d+, col \d+ to line \d+, col \d+ of module (\w+)>: (\d+):(\d+)', out):
        cov[m.group(1)] = (int(m.group(3)), int(m.group(4)))
    return cov


# ----------------------------------------------------------------------------------------------- Apalache
class ApaResult:
    def __init__(self):
        self.status = 'inconclusive'; self.out = ''; self.cex = None; self.wall = 0.0


def apalache(wd, module, inv, cinit='ConstInit', length=0, timeout=300, init=None, next_=None, tag=None):
    """apalache-mc check; status in {'holds','violated','inconclusive'}; cex = parsed ITF state dict."""
    res = ApaResult()
    od = os.path.join(wd, 'apa_%s_%s' % (tag or module, inv))
    shutil.rmtree(od, ignore_errors=True)
    cmd = ['apalache-mc', 'check', '--length=%d' % length, '--inv=' + inv, '--out-dir=' + od]
    if cinit:
        cmd.append('--cinit=' + cinit)
    if init:
        cmd.append('--init=' + init)
    if next_:
        cmd.append('--next=' + next_)
    cmd.append(module + '.tla')
    t0 = time.time()
    jt = os.path.join(wd, 'jtmp'); os.makedirs(jt, exist_ok=True)
    r = sh(cmd, timeout=timeout, cwd=wd, env={'JVM_ARGS': '-Xmx6g -Djava.io.tmpdir=' + jt})
    res.wall = time.time() - t0
    res.out = r.stdout + r.stderr
    if r.returncode == 0 and 'The outcome is: NoError' in res.out:
        res.status = 'holds'
    elif r.returncode == 12 or 'The outcome is: Error' in res.out:
        itfs = glob.glob(os.path.join(od, '**', 'violation1.itf.json'), recursive=True) or \
               glob.glob(os.path.join(od, '**', 'violation.itf.json'), recursive=True)
        if itfs:
            res.status = 'violated'
            j = json.load(open(itfs[0]))
            st = j['states'][-1]
            res.cex = {k: itf_val(v) for k, v in st.items() if not k.startswith('#')}
        else:
            res.status = 'inconclusive'
    shutil.rmtree(od, ignore_errors=True)
    return res


def itf_val(v):
    if isinstance(v, dict):
        if '#bigint' in v:
            return int(v['#bigint'])
        if '#tup' in v:
            return [itf_val(x) for x in v['#tup']]
        if '#set' in v:
            return [itf_val(x) for x in v['#set']]
        if '#map' in v:
            return [[itf_val(a), itf_val(b)] for a, b in v['#map']]
        return {k: itf_val(x) for k, x in v.items()}
    if isinstance(v, list):
        return [itf_val(x) for x in v]
    return v


# ----------------------------------------------------------------------------------------------- traces
def w64(x):
    """64-bit value -> 8 little-endian byte limbs (TLC ints are 32 bit)."""
    x &= (1 << 64) - 1
    return [(x >> (8 * i)) & 255 for i in range(8)]


def unw64(l):
    return sum(b << (8 * i) for i, b in enumerate(l))


def validate_trace(wd, module, cfg, trace_path, nsplit=None, timeout=1800, env=None, xmx='3g', min_chunk=200,
                   max_rejects=40, boundary=None):
    """Validate an ndjson trace with TLC trace spec `module` (variable l, POSTCONDITION on diameter).
    The trace is split into chunks validated by parallel single-worker TLC runs.  After a rejected record the
    remainder of the chunk is validated too (so one rejection never leaves later records unexamined).
    Returns dict(accepted=n, total=n, rejected=[(global_index, record)], infra=[msgs], states, transitions)."""
    raw = [ln for ln in open(trace_path, errors='replace').read().split('\n') if ln.strip()]
    lines = []; torn = 0
    for ln in raw:
        # a record torn by the death of the process that was writing it (followed on the same line by the parent's crash
        # record): keep the crash record, drop the fragment
        try:
            json.loads(ln)
            lines.append(ln)
        except ValueError:
            torn += 1
            k = ln.rfind('{"e":"crash"')
            if k >= 0:
                try:
                    json.loads(ln[k:]); lines.append(ln[k:])
                except ValueError:
                    pass
    total = len(lines)
    if total == 0:
        return dict(accepted=0, total=0, rejected=[], infra=['empty trace'], states=0, transitions=0)
    if nsplit is None:
        nsplit = max(1, min(NCPU, total // min_chunk))
    per = (total + nsplit - 1) // nsplit
    if boundary is None:
        chunks = [(i * per, min(total, (i + 1) * per)) for i in range(nsplit) if i * per < total]
    else:
        # stateful trace specifications: chunks (and resumption after a rejection) only at record boundaries where
        # the specification's state is back to its initial value (e.g. the end of a scenario)
        ends = [i + 1 for i, ln in enumerate(lines) if boundary(ln)]
        if not ends or ends[-1] != total:
            ends.append(total)
        chunks = []; lo = 0
        for e in ends:
            if e - lo >= per or e == total:
                if e > lo:
                    chunks.append((lo, e))
                lo = e
    out = dict(accepted=0, total=total, rejected=[], infra=(['%d torn record fragment(s) dropped (writer died mid-record)' % torn] if torn else []), states=0, transitions=0)

    def one(ch):
        lo, hi = ch
        acc = 0; rej = []; infra = []; st = 0; tr = 0; last = ''
        cur = lo; rounds = 0
        while cur < hi and rounds <= max_rejects:
            rounds += 1
            p = '%s.part%d_%d' % (trace_path, lo, rounds)
            open(p, 'w').write('\n'.join(lines[cur:hi]) + '\n')
            e = dict(env or {}); e['TRACE'] = p
            r = tlc(wd, module, cfg, workers=1, env=e, timeout=timeout, xmx=xmx, tag='tv%d_%d' % (lo, rounds))
            for again in range(3):      # a JVM stack / heap failure is not a property of the trace: run the same part again
                if not any(k in r.out for k in ('StackOverflowError', 'OutOfMemoryError', 'Java heap space')):
                    break
                r = tlc(wd, module, cfg, workers=1, env=e, timeout=timeout, xmx=xmx, tag='tv%d_%d_%d' % (lo, rounds, again))
            try:
                os.remove(p)
            except OSError:
                pass
            st += r.distinct; tr += r.generated
            n = hi - cur
            if r.rc == 124:
                infra.append('timeout validating records %d..%d' % (cur, hi)); break
            consumed = max(0, r.diameter - 1)
            if consumed >= n and r.rc == 0:
                acc += n; cur = hi; break
            post_false = bool(re.search(r'Postcondition \S+ .* is false', r.out))
            if 'Parsing or semantic analysis failed' in r.out or 'java.lang.NoClassDefFoundError' in r.out:
                infra.append('trace specification does not parse: ' + r.out[-600:]); break
            if not post_false:
                # TLC stopped for a reason other than an unexplained record (evaluation error, stack overflow, bad
                # JSON ...): an infrastructure problem of the validator, never a verdict about the implementation.
                infra.append('TLC error validating records %d..%d (record %d not judged): %s' %
                             (cur, hi, cur + min(consumed, n - 1), (r.error or 'rc=%s' % r.rc)))
                last = r.out[-3000:]
                acc += min(consumed, n - 1)
                bad = cur + min(consumed, n - 1)
                cur = bad + 1
                if boundary is None:
                    # stateless trace specification: judge the record on its own.  If TLC again cannot evaluate the
                    # specification on this single record (no timeout), the record carries a value outside the domain
                    # the specification is defined on - it is not a behaviour the specification allows.  (The caller
                    # still re-runs the case before anything is reported.)
                    p1 = '%s.single%d' % (trace_path, bad)
                    open(p1, 'w').write(lines[bad] + '\n')
                    e1 = dict(env or {}); e1['TRACE'] = p1
                    r1 = tlc(wd, module, cfg, workers=1, env=e1, timeout=timeout, xmx=xmx, tag='tv1_%d' % bad)
                    try:
                        os.remove(p1)
                    except OSError:
                        pass
                    jvm_trouble = any(k in (r1.out or '') for k in ('StackOverflowError', 'OutOfMemoryError', 'Java heap space', 'GC overhead', 'java.io.', 'Could not'))
                    value_error = any(k in (r1.out or '') for k in ('Attempted to', 'not in the domain', 'is not a function', 'was applied to', 'In evaluation, the identifier',
                                                                      'nonexistent field', 'which is not', 'non-enumerable', 'Evaluating an expression of the form'))
                    if r1.rc == 0 and r1.diameter - 1 >= 1:
                        acc += 1; infra.pop()        # fine on its own: the earlier failure was the run, not the record
                        infra.append('record %d: TLC failed in the chunk but accepts the record alone' % bad)
                    elif jvm_trouble or not value_error:
                        # a failure of the JVM / of TLC itself (stack, heap, I/O) says nothing about the record: never a verdict
                        infra.append('record %d: TLC could not be run to a verdict on the record alone (%s)' % (bad, (r1.error or 'rc=%s' % r1.rc)[:120]))
                    elif r1.rc != 124:
                        try:
                            rec = json.loads(lines[bad])
                        except Exception:
                            rec = dict(raw=lines[bad][:200])
                        if isinstance(rec, dict):
                            rec['_unevaluable'] = (r1.error or 'TLC evaluation error')[:200]
                        rej.append((bad, rec))
                continue
            consumed = min(consumed, n - 1)
            acc += consumed
            idx = cur + consumed
            try:
                rec = json.loads(lines[idx])
            except Exception:
                rec = lines[idx]
            rej.append((idx, rec)); last = r.out[-3000:]
            cur = idx + 1
            if boundary is not None:
                while cur < hi and not boundary(lines[cur - 1]):
                    cur += 1
        if cur < hi and rounds > max_rejects:
            infra.append('%d records of this chunk left unexamined after %d rejections in it' % (hi - cur, len(rej)))
        return acc, rej, infra, st, tr, last
    with ThreadPoolExecutor(max_workers=NCPU) as ex:
        results = list(ex.map(one, chunks))
    for acc, rej, infra, st, tr, last in results:
        out['accepted'] += acc; out['rejected'] += rej; out['infra'] += infra
        out['states'] += st; out['transitions'] += tr
        if last:
            out['last_out'] = last
    return out


# ----------------------------------------------------------------------------------------------- evidence / verdicts
class Check:
    """Accumulates coverage + violations for one property run."""

    def __init__(self, pid, tier, seed):
        self.pid = pid; self.tier = tier; self.seed = seed
        self.t0 = time.time()
        self.states = 0; self.transitions = 0; self.traces = 0
        self.samples = []; self.cov = {}; self.assumptions = []
        self.violations = []     # (key, description, replay_path)
        self.known_hits = []
        self.notes = []
        self.known = load_known().get(pid, [])
        self.symbolic = []
        os.makedirs(os.path.join(CACHE, 'replay'), exist_ok=True)

    def add_tlc(self, res, what=None):
        self.states += res.distinct; self.transitions += max(res.generated, res.distinct)
        if what:
            self.cov.setdefault('tlc_runs', []).append(dict(model=what, distinct=res.distinct, generated=res.generated,
                                                            diameter=res.diameter, ok=bool(res.ok), wall_s=round(res.wall, 1)))

    def add_validation(self, v, what=None):
        self.states += v['states']; self.transitions += v['transitions']; self.traces += v['accepted']
        if what:
            self.cov.setdefault('trace_validations', []).append(dict(trace=what, events=v['total'], accepted=v['accepted'],
                                                                    rejected=len(v['rejected']), infra=v['infra']))

    def add_symbolic(self, name, res):
        self.symbolic.append(dict(obligation=name, status=res.status, wall_s=round(res.wall, 1)))

    def sample(self, s):
        if len(self.samples) < 12:
            self.samples.append(s)

    def sample_trace(self, path, n=6):
        lines = [ln for ln in open(path).read().split('\n') if ln.strip()]
        if not lines:
            return
        step = max(1, len(lines) // n)
        for ln in lines[::step][:n]:
            try:
                self.sample(compact(json.loads(ln)))
            except Exception:
                pass

    def note(self, s):
        self.notes.append(s); log(s)

    def violation(self, key, desc, replay_obj):
        """key identifies the failing case class; matched against known findings."""
        for k in self.known:
            if k.get('status', 'open') == 'open' and re.search(k['match'], key):
                if k['id'] not in [h['id'] for h in self.known_hits]:
                    self.known_hits.append(dict(id=k['id'], what=k['what'], key=key))
                return False
        rp = os.path.join(EVID, 'replay', '%s_%d.json' % (self.pid, len(self.violations)))
        os.makedirs(os.path.dirname(rp), exist_ok=True)
        json.dump(dict(property=self.pid, key=key, desc=desc, case=replay_obj), open(rp, 'w'), indent=1)
        self.violations.append((key, desc, rp))
        return True

    def finish(self, level='model_checking', extra_cov=None):
        cov = dict(states=max(1, self.states), transitions=max(1, self.transitions),
                   traces_validated_against_impl=self.traces,
                   samples=self.samples or ['(no sample recorded)'])
        cov.update(self.cov)
        if self.symbolic:
            cov['symbolic'] = self.symbolic
        if self.notes:
            cov['notes'] = self.notes
        if self.known_hits:
            cov['known_findings_reproduced'] = self.known_hits
        if extra_cov:
            cov.update(extra_cov)
        ev = dict(property_id=self.pid, tier=self.tier, seed=self.seed, level=level, coverage=cov,
                  assumptions=self.assumptions, wall_s=round(time.time() - self.t0, 1), violations=len(self.violations))
        os.makedirs(EVID, exist_ok=True)
        json.dump(ev, open(os.path.join(EVID, self.pid + '.json'), 'w'), indent=1, default=str)
        for h in self.known_hits:
            print('KNOWN-FINDING: property=%s %s' % (self.pid, h['what']), flush=True)
        for key, desc, rp in self.violations:
            print('VIOLATION property=%s replay=%s' % (self.pid, rp), flush=True)
            print('  ' + key + ': ' + desc[:400], flush=True)
        log('%s %s: states=%d traces=%d violations=%d wall=%.0fs' % (self.pid, self.tier, self.states, self.traces,
                                                                    len(self.violations), time.time() - self.t0))
        return 1 if self.violations else 0


def compact(x):
    """8-limb byte arrays -> hex strings, for readable evidence samples."""
    if isinstance(x, list):
        if len(x) == 8 and all(isinstance(b, int) and 0 <= b < 256 for b in x):
            return '0x%016x' % unw64(x)
        if len(x) > 24:
            return [compact(y) for y in x[:24]] + ['... (%d more)' % (len(x) - 24)]
        return [compact(y) for y in x]
    if isinstance(x, dict):
        return {k: compact(v) for k, v in x.items()}
    return x


def load_known():
    p = os.path.join(VERIF, 'known_findings.json')
    if not os.path.exists(p):
        return {}
    j = json.load(open(p))
    out = {}
    for f in j.get('findings', []):
        out.setdefault(f['property'], []).append(f)
    return out


def seed_from_env():
    try:
        return int(os.environ.get('VERIF_SEED', '1'))
    except ValueError:
        return 1


class Rng:
    """splitmix64 – same generator as the C++ harness."""

    def __init__(self, seed):
        self.s = seed & (2**64 - 1)

    def next(self):
        self.s = (self.s + 0x9E3779B97F4A7C15) & (2**64 - 1)
        z = self.s
        z = ((z ^ (z >> 30)) * 0xBF58476D1CE4E5B9) & (2**64 - 1)
        z = ((z ^ (z >> 27)) * 0x94D049BB133111EB) & (2**64 - 1)
        return z ^ (z >> 31)

    def below(self, n):
        return self.next() % n

    def word(self):
        """64-bit word with representation mix: canonical / non-canonical band / small / near-boundaries."""
        k = self.below(8)
        if k == 0:
            return P + self.below(2**32 - 1)          # non-canonical band [p, 2^64)
        if k == 1:
            return self.below(2**32)
        if k == 2:
            return (P - 1 - self.below(2**20)) % 2**64
        if k == 3:
            h = [0, 1, 2, 0x7FFFFFFF, 0x80000000, 0x80000001, 0xFFFFFFFE, 0xFFFFFFFF, 0xFFFFFFFD, 3]
            return (h[self.below(10)] << 32) | h[self.below(10)]
        return self.next()


def confirm_case(wd, module, cfg, cmd_fn, write_cases, cases, ci, env=None, post=None, tag='confirm'):
    """Re-run a rejected case before it is reported.  First exactly the case alone in a fresh process; if that run is
    accepted, the whole process history up to and including the case (a failure that needs earlier calls - a cache, a
    static, a global runtime setting - is deterministic but invisible in isolation).
    cmd_fn(cases_path, trace_path) -> argv;  write_cases(path, cases);  ci is the 1-based index of the case.
    post(trace_path) optionally rewrites the trace (e.g. adds fields the trace spec expects).
    Returns 'single', 'history' or None (not reproduced)."""
    c2 = os.path.join(wd, tag + '_cases.txt'); t2 = os.path.join(wd, tag + '.ndjson')
    for mode, sub in (('single', [cases[ci - 1]]), ('history', cases[:ci])):
        write_cases(c2, sub)
        if os.path.exists(t2):
            os.remove(t2)
        sh(cmd_fn(c2, t2), timeout=1800)
        if not os.path.exists(t2):
            continue
        if post:
            post(t2)
        want = 1 if mode == 'single' else ci
        keep = []
        for ln in open(t2).read().split('\n'):
            if not ln.strip():
                continue
            try:
                j = json.loads(ln)
            except Exception:
                continue
            if j.get('ci') == want:
                keep.append(ln)
        if not keep:
            continue
        t3 = os.path.join(wd, tag + '_last.ndjson')
        open(t3, 'w').write('\n'.join(keep) + '\n')
        v = validate_trace(wd, module, cfg, t3, nsplit=1, env=env)
        if v['rejected']:
            return mode
        if mode == 'single' and ci == 1:
            break
    return None


def concurrent_pass(ck, wd, module, cfg, cmd_fn, write_cases, cases, what, threads=8, env=None, post=None, max_cases=2500, min_chunk=200):
    """The same calls made by `threads` plain threads at the same time (driver partition mode, VERIF_THREADS): the trace is
    validated like any other; a rejection is reported only if a second concurrent run of the same cases is rejected again.
    Returns True if a violation was recorded."""
    step = max(1, len(cases) // max_cases)
    sub = cases[::step]
    c2 = os.path.join(wd, 'conc_cases.txt')
    write_cases(c2, sub)
    rounds = []
    for attempt in range(1, 7):
        t2 = os.path.join(wd, 'conc_%d.ndjson' % attempt)
        if os.path.exists(t2):
            os.remove(t2)
        r = sh(cmd_fn(c2, t2), timeout=1800, env={'VERIF_THREADS': str(threads)})
        if not os.path.exists(t2):
            ck.note('infrastructure: concurrent pass produced no trace (rc=%s)' % r.returncode)
            return False
        if post:
            post(t2)
        v = validate_trace(wd, module, cfg, t2, env=env, min_chunk=min_chunk)
        if attempt == 1:
            ck.add_validation(v, '%s: the same calls from %d concurrent plain threads (%d cases)' % (what, threads, len(sub)))
            for msg in v['infra']:
                ck.note('infrastructure: ' + msg)
            if not v['rejected'] and r.returncode == 0:
                return False
        if v['rejected'] or r.returncode != 0:
            rounds.append(v)
        if len(rounds) >= 2:
            break
    # a schedule-dependent failure need not show in every run: it is reported when two concurrent runs (of at most six) are rejected
    if len(rounds) < 2 or not rounds[1]['rejected']:
        ck.note('concurrent pass: rejection(s) in one concurrent run not seen again in five further runs; not reported')
        return False
    idx, rec = rounds[1]['rejected'][0]
    ck.violation('%s: wrong result when %d plain threads make the calls at the same time (single-threaded runs of the same calls are accepted)' % (what, threads),
                 '%d and %d records rejected in two concurrent runs; e.g. %s' % (len(rounds[0]['rejected']), len(rounds[1]['rejected']), json.dumps(compact(rec))[:300]),
                 dict(cases=[list(c) if isinstance(c, (list, tuple)) else c for c in sub[:200]], concurrent=threads))
    return True


HIST = ' (history-dependent: correct in a fresh process, wrong after the preceding calls of the same process)'
