"""C10 — inverse, division and power are exact and total on non-zero operands.
Model: InvExp.tla — the extended-Euclid loop of Goldilocks::inv and the square-and-multiply loop of exp as state
machines (one action per iteration) over the *generated* scalar kernels.  TLC: every operand word (canonical or not)
at W in {2,4} (the widths at which P is prime): Bezout invariant, exactness of every remainder step (action property), termination bound, result
a*inv(a)=1, zero-class operands only ever reach `exit`; exp: every (base, exponent) at W=3 (quick) / 4 (thorough).
Conformance: boundary / Fibonacci-quotient-chain / seeded operands in all representations through inv, div, exp of
the compiled library (zero-class operands in a forked child); Trace_Inv checks certificates a*inv=1, div*b=a and
recomputes exp over limbs."""
import os, json
import vlib
from vlib import Check, tlc, workdir, build_driver, validate_trace, sh
import c01

P = vlib.P


def gen_cases(seed, tier):
    rng = vlib.Rng(seed ^ 0xC10)
    M = 2**64
    ops = set()
    for base in (0, P, M, 2**32, 2**63, 2**31, (P - 1) // 2, 2**48, 2**16):
        for d in range(-3, 4):
            ops.add((base + d) % M)
    f0, f1 = 1, 2
    while f1 < M:
        ops.add(f1); ops.add((f1 + P) % M if f1 + P < M else f1); f0, f1 = f1, f0 + f1
    for k in range(64):
        ops.add(1 << k)
    n = 400 if tier == 'quick' else 6000
    for i in range(n):
        ops.add(rng.word())
    # operands with prescribed leading quotients in the Euclidean descent of (p, a): p/a = [q1; q2, q3, ...] with the q's
    # at the boundaries of a 32-bit / 64-bit quotient (the extended-Euclid update multiplies by the quotient)
    from fractions import Fraction
    Q = [1, 2, 3, 0xFFFF, 0x10000, 0x7FFFFFFF, 0x80000000, 0xFFFFFFFE, 0xFFFFFFFF, 0x100000000, 0x100000001]
    k = 0
    for q1 in Q:
        for q2 in Q:
            for q3 in (Q if tier != 'quick' else [1, 0xFFFFFFFF, 0x100000000, 3]):
                k += 1
                if tier == 'quick' and k % 3:
                    continue
                x = Fraction(q1) + 1 / (Fraction(q2) + Fraction(1, q3))
                a = int(Fraction(P) / x)
                for d in (0, 1, -1):
                    if 0 < a + d < P:
                        ops.add(a + d)
    for kk in list(range(1, 40)) + [255, 256, 257, 65535, 65536, 65537, 2**31, 2**32 - 1, 2**32, 2**32 + 1, 2**33]:
        ops.add(P // kk); ops.add(P // kk + 1); ops.add((P - 1) // kk * 1)
    ops = sorted(ops)
    cs = []
    # zero-class operands as the very FIRST inversions of the process (a refusal must not depend on earlier calls)
    # concurrent FIRST use: plain threads of a fresh process invert / divide at the same time (anything built lazily on
    # first use must be safe to use from the start)
    for i in range(6 if tier == 'quick' else 40):
        cs.append(('conc', 16, rng.next() & 0xFFFFFFFF))
    cs.append(('inv', 0, 0)); cs.append(('inv', P, 0)); cs.append(('div', 5, 0)); cs.append(('div', 5, P))
    for x in ops:
        cs.append(('inv', x, 0))
    for i, x in enumerate(ops):
        y = ops[(i * 7 + 3) % len(ops)]
        cs.append(('div', x, y))
    for z in (0, P):
        for x in (0, 1, P, P + 1, 12345, M - 1):
            cs.append(('div', x, z))
    exps = [0, 1, 2, 3, 7, 8, P - 2, P - 1, P, P + 1, M - 1, 2**63, 2**32, 2**32 - 1, M - 2]
    bases = [0, P, 1, P + 1, 2, 7, P - 1, M - 1, 2**32, 2**63, (P - 1) // 2]
    for b in bases:
        for e in exps:
            cs.append(('exp', b, e))
    for i in range(60 if tier == 'quick' else 1500):
        cs.append(('exp', rng.word(), rng.word() if i % 3 else rng.below(1 << 20)))
    # an operation iterated on its own (aliased) result: inv(x,x); inv(x,x) gives x back, x = x/b, x = b/x, x = x^e
    for i in range(16 if tier == 'quick' else 300):
        f = ['inv', 'div', 'rdiv', 'exp'][i % 4]
        a = ops[(i * 13 + 5) % len(ops)]; b = ops[(i * 17 + 9) % len(ops)]
        if a % P == 0: a = 3
        if b % P == 0: b = 5
        cs.append(('chain', a, b if f != 'exp' else [3, 7, 2, 65537][i % 4], f, 4 if f != 'exp' else 3))
    return cs


def write_cases(path, cases):
    with open(path, 'w') as f:
        for c in cases:
            if c[0] == 'conc':
                f.write('conc %d 0x%x\n' % (c[1], c[2]))
            elif c[0] == 'chain':
                f.write('chain %s %d 0x%x 0x%x\n' % (c[3], c[4], c[1], c[2]))
            else:
                f.write('%s 0x%x 0x%x\n' % tuple(c[:3]))


def run(tier, seed, replay=None):
    ck = Check('C10', tier, seed)
    wd = workdir('C10')
    ck.assumptions += ['exp/inv loop structure is a hand transcription (InvExp.tla) over the generated add/sub/mul kernels; the compiled loops are bound by replay certificates']
    if replay:
        cases = [tuple(c) for c in json.load(open(replay))['case']['cases']]
    else:
        ok, err = c01.gen_model(wd)
        if ok:
            for W in [2, 4]:      # P = Phi^2-Phi+1 is prime for W in {2,4} (13, 241); composite for W = 3,5,6,8
                cfg = 'MC_Inv_%d.cfg' % W
                open(os.path.join(wd, cfg), 'w').write(open(os.path.join(wd, 'MC_Inv.cfg')).read().replace('Phi = 16', 'Phi = %d' % (1 << W)))
                r = tlc(wd, 'MC_Inv', cfg, timeout=900, workers=8, tag='inv%d' % W)
                ck.add_tlc(r, 'MC_Inv W=%d: every operand word; Bezout, RemainderExact, Terminates, InvCorrect, ZeroRefused' % W)
                if not r.ok:
                    ck.note('model-level: MC_Inv W=%d: %s' % (W, r.violated or r.error))
            for W, emax in ([(2, 15), (3, 63)] if tier == 'quick' else [(2, 15), (3, 63), (4, 255)]):
                cfg = 'MC_Exp_%d.cfg' % W
                open(os.path.join(wd, cfg), 'w').write(open(os.path.join(wd, 'MC_Exp.cfg')).read().replace('Phi = 8', 'Phi = %d' % (1 << W)).replace('EMax = 63', 'EMax = %d' % emax))
                r = tlc(wd, 'MC_Exp', cfg, timeout=1200, tag='exp%d' % W)
                ck.add_tlc(r, 'MC_Exp W=%d: every (base word, exponent <= %d)' % (W, emax))
                if not r.ok:
                    ck.note('model-level: MC_Exp W=%d: %s' % (W, r.violated or r.error))
        else:
            ck.note('scalar model not derived from current source (%s)' % err)
        cases = gen_cases(seed, tier)
    exe = build_driver('drv_inv')
    cpath = os.path.join(wd, 'cases.txt'); tpath = os.path.join(wd, 'trace.ndjson')
    write_cases(cpath, cases)
    r = sh([exe, cpath, tpath], timeout=900)
    if r.returncode != 0:
        # the driver itself was ended (e.g. inv refused a non-zero operand and called exit): attribute by bisection
        done = len([1 for _ in open(tpath)]) if os.path.exists(tpath) else 0
        ck.violation('driver-ended rc=%d' % r.returncode, 'driver ended abnormally after %d events (a call on a non-zero operand ended the process, or crashed)' % done, dict(cases=[list(c) for c in cases]))
        return ck.finish()
    v = validate_trace(wd, 'Trace_Inv', 'Trace_Inv.cfg', tpath, min_chunk=40)
    ck.add_validation(v, 'inv/div/exp calls (%d cases)' % len(cases))
    ck.sample_trace(tpath)
    for msg in v['infra']:
        ck.note('infrastructure: ' + msg)
    for idx, rec in v['rejected'][:8]:
        case = cases[rec.get('ci', 1) - 1]
        ci = rec.get('ci', 1)
        how = vlib.confirm_case(wd, 'Trace_Inv', 'Trace_Inv.cfg', lambda cp, tp: [exe, cp, tp], write_cases, cases, ci)
        if how:
            ck.violation(('%s a=0x%x b=0x%x' % tuple(case[:3])) + (' (%s iterated on its own result)' % case[3] if case[0] == 'chain' else '') + (vlib.HIST if how == 'history' else ''), 'recorded result fails its certificate: %s' % json.dumps(vlib.compact(rec))[:300],
                         dict(cases=[list(x) for x in (cases[:ci] if how == 'history' else [case])], event=rec))
        else:
            ck.note('rejection not reproduced on re-run (neither alone nor after its process history): %s' % str(case))
    ck.cov['cases'] = len(cases)
    return ck.finish()
