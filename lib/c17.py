"""C17 — strided / offset / broadcast base-field wrappers and bulk copies move the right data.
Specification: tools/overloads17.json is the single table of the API (one row per overload of the `_batch`, `_avx`,
`_avx512` copy/add/sub/mul helpers and the plain vector load/store helpers: for operand a, operand b and the result, whether
it is a register, a contiguous array, a strided array, an indexed array or a broadcast element and which parameter carries the
stride / index list), drafted mechanically from the declarations and reviewed against the implementation text;
tools/gen_layout17.py turns it into spec/Overloads17.tla and into the call sites of the C++ driver.  spec/Layout.tla gives the
descriptors their meaning (Addr, Footprint, Extent, Expected over the limb field W64).  Model phase (TLC, MC_Layout): every
descriptor kind, strides {0,1,2,3,5}, all 4-lane index lists over 0..5 and selected 8-lane lists: footprints inside the exact
extent, lanes distinct exactly when the stride / index list says so, lane results depend on exactly the designated cells, the
reference scatter satisfies the acceptance predicate and writes nothing outside the footprint; every table row well-formed;
parcpy / parSetZero chunk arithmetic (ParChunks) covers 0..size-1 exactly once for sizes 0..12 x thread arguments -2..14.
Conformance: the generated driver calls every defined overload (pinned to its declared signature) >= 40 (quick) / 400
(thorough) times with operands in exact-extent arenas in front of inaccessible pages (8-byte aligned only, except the `_a`
helpers), strides {0,1,2,3,5,64,517,4099}, permuted / repeating / spread index lists, operand words in every representation;
two runs per case with different garbage in every undesignated cell and complementary result pre-fills; plus, for every row whose
shapes allow it, calls in the alias modes of Layout.tla (broadcast scalar an lvalue inside the result array / inside the other
operand's array; result in place = operand a / operand b, same pointer or register variable and same stride / index list),
where Expected is evaluated on the operand values held before the call.  The call sites are pinned to the declared signatures;
if a tree does not compile that way the driver is rebuilt with plain overload resolution (LAX_SIG), and rows that still do not
build are dropped one by one and listed.  Trace_Layout17 accepts
an event iff the designated cells are the ones Addr gives, every lane equals Expected modulo p (copies: the same word), the
changed cells are exactly the write footprint, the second run agrees and nothing else was written; a crash is never accepted.
Designation families (Layout.tla DesLevels / DesFamilies), every binary overload: operands a and b in two arrays with equal / half-equal
/ permuted strides and index lists or one index-list object (level sep); operands a and b given by the SAME base pointer
(rows with two array operands) with identical strides / index lists (op(x, x)), index lists that agree in the first / second
half of the lanes and differ in the other, that differ in exactly one lane (every lane), that are permutations of each other,
unrelated ones, one index-list object for both; the same with the result in place (one array, one address map for a, b and the
result, where the row allows ca / cb); and, for every binary row (registers and broadcasts included), the operand WORDS related in
these ways.  Trace_Layout17 checks that the designations recorded are in the family the event claims and judges the lanes on the
designated operands as always.
HUGE STRIDES AND INDEX-LIST ENTRIES: every overload with a uniform-stride array operand (input or result) and every overload with
a per-lane index list is also called with strides / list entries built from {2^29+1, 2^30, 2^31-1, 2^31, 2^32+3} elements (one
operand at a time at each value, the other strided / indexed operands small, equal or at another huge value; index lists: uniform
multiples, permuted, one far entry, all entries far, descending, repeated / offset multiples; quick: 5 calls per such operand,
thorough: 30; plus in-place calls - result IS operand a / b - where the row allows it).  The operands live in SPARSE arenas: the
whole span (up to 7 * (2^32+3) elements) plus 2^31 elements in front of the base pointer is reserved PROT_NONE / MAP_NORESERVE and
only the pages holding designated cells are accessible, end-aligned against an inaccessible page, plus decoy pages where a position
narrowed to 32 bits would land ((int32) / (uint32) of k * stride, of idx[k], of the byte offset, k * (int32)stride ...), all filled
with run-specific garbage (result arenas: complementary pre-fills) and all scanned for changes: a narrowed address gives a wrong lane
value, a changed decoy cell or a fault - each a rejected record.  The events carry the strides, list entries, positions and extents
as 64-bit limb words (TLC integers are 32 bit) and Trace_Layout17!OkCallW judges them with the limb forms of Layout.tla (AddrW,
ExtentW, CellOkW, ChangedCellsW; MC_Layout: they agree with the integer forms) like any other call.  If the address range cannot be
reserved on a machine the calls are recorded as skipped (a note), not judged.
parcpy / parSetZero: sizes 0..64 (thorough: ..200 and larger) x thread arguments {-5,0,1,2,3,7,64,1000}: exactly the cells the
chunk model covers change, to the source words / zero; and in the OpenMP delivery environments of vh::with_env (0 plain, 1 call
from inside an active parallel region, 2 / 3 process-wide thread-count setting 1 / 5): sizes {0,1,2,3,5,8,13,64,1000} (thorough:
0..40 and larger) x thread arguments {-5,0,1,2,3,4,7,64} (thorough: + 16, 1000) - the judged result is the same in every environment."""
import os, json, shutil, hashlib, time
from concurrent.futures import ThreadPoolExecutor
import vlib
from vlib import Check, tlc, workdir, build_driver, validate_trace, sh
import gen_layout17 as G

LEVEL_NOTE = ('TLC decides the layout algebra and the chunk arithmetic at small bounds; the table itself is a reviewed reading of the '
              'declarations (it is the specification, not derived from the bodies); conformance binds only the executed calls '
              '(>= 40 / 400 per overload, + 12 / 100 per allowed alias mode, + the designation families of every binary overload, + 5 / 30 calls per strided / indexed operand with strides / index entries of 2^29+1 .. 2^32+3 elements in sparse arenas; bulk copies in the 4 delivery environments of vh::with_env - thread limits and dynamic adjustment are not among them); partial overlaps with different address maps are outside the property.')
P = vlib.P
S_IN = [0, 1, 3, 517, 2, 5, 64]
S_OUT = [1, 3, 517, 2, 5, 1, 64, 0, 3]
THREADS = [-5, 0, 1, 2, 3, 7, 64, 1000]
ENV_THREADS = [-5, 0, 1, 2, 3, 4, 7, 64]
ENV_SIZES = [0, 1, 2, 3, 5, 8, 13, 64, 1000]
MEM = ('contig', 'stride', 'index')
HUGE = [2**29 + 1, 2**30, 2**31 - 1, 2**31, 2**32 + 3]      # from 2^30 on 3 * stride >= 2^31: 32-bit position arithmetic overflows / truncates
ARR = ('stride', 'index')


def gen_cases(table, variant, tier, seed, ci0):
    """-> list of (ci, line) for every defined row of this build variant"""
    rng = vlib.Rng(seed ^ 0xC17 ^ (0x512 if variant == 'avx512' else 0))
    n = 40 if tier == 'quick' else 400
    out = []; ci = ci0
    for r in table:
        if r['variant'] != variant or not r['defined']:
            continue
        for j in range(n):
            sa = S_IN[j % 7]; sb = S_IN[(3 * j + 1) % 7]; sc = S_OUT[(5 * j + 2) % 9]
            if j % 13 == 12:
                sa, sb, sc = (4099, 1, 4099) if j % 2 else (1, 4099, 1)
            ima = j % 6; imb = (5 * j + 1) % 6; imc = (j + 3) % 6
            pad = (3 * j + j // 8) % 8
            ci += 1
            out.append((ci, '%d C %s 0x%x %d %d %d %d %d %d %d %d none 0' % (ci, r['id'], rng.next(), sa, sb, sc, ima, imb, imc, pad, j % 5)))
        # aliasing modes the shapes of the row allow: scalar inside the result / the other operand's array, result in place
        for m in G.alias_modes(r):
            for j in range(12 if tier == 'quick' else 100):
                sc = [1, 3, 2, 5, 517, 64][j % 6]                        # in place: lanes stay pairwise distinct
                if m == 'sc' and j % 6 == 5:
                    sc = 0
                sa = S_IN[(2 * j + 1) % 7]; sb = S_IN[(3 * j + 2) % 7]
                ci += 1
                out.append((ci, '%d C %s 0x%x %d %d %d %d %d %d %d %d %s %d' % (ci, r['id'], rng.next(), sa, sb, sc, j % 6, (5 * j + 1) % 6, (j + 3) % 6,
                                                                            (3 * j + 1) % 8, j % 5, m, j % r['L'])))
    return out


def gen_des(table, variant, tier, seed, ci0):
    """designation families of the binary rows of this build variant -> list of (ci, line)"""
    rng = vlib.Rng(seed ^ 0xDE5C17 ^ (0x512 if variant == 'avx512' else 0))
    quick = tier == 'quick'
    out = []; ci = ci0
    STR = [1, 3, 2, 5, 517, 64, 0, 4099]

    def emit(r, j, alias, level, fam, dl, ixo, inj=False):
        nonlocal ci
        sa = STR[j % 8]; sb = STR[(3 * j + 1) % 8]; sc = [1, 3, 517, 2, 5, 64][(5 * j + 2) % 6]
        if inj:
            sa = sa or 1; sb = sb or 7
        ima = [0, 1, 3, 5, 2, 4][j % 6]; imb = [1, 3, 0, 2, 5, 4][(j // 2) % 6]
        ci += 1
        out.append((ci, '%d C %s 0x%x %d %d %d %d %d %d %d %d %s %d %s %s %d %d' % (ci, r['id'], rng.next(), sa, sb, sc, ima, imb, (j + 3) % 6, (3 * j + 1) % 8, j % 5,
                                                                                alias, j % r['L'], level, fam, dl % r['L'], 1 if ixo else 0)))
    for r in table:
        if r['variant'] != variant or not r['defined'] or r['op'] == 'copy':
            continue
        L = r['L']; ka = r['a']['kind']; kb = r['b']['kind']
        j = 0
        if ka in MEM and kb in MEM:
            # same base pointer
            if 'index' in (ka, kb):
                fams = [('eq', 0, False), ('h1', 0, False), ('h2', 0, False), ('perm', 0, False), ('any', 0, False)] + [('one', k, False) for k in range(L)]
                if ka == kb:
                    fams.append(('eq', 0, True))
            else:
                fams = [('eq', 0, False)] + ([('any', 0, False)] if 'stride' in (ka, kb) else [])
            for rep_ in range(2 if quick else 16):
                for fam, dl, ixo in fams:
                    emit(r, j, 'none', 'base', fam, dl, ixo); j += 1
            for m in G.alias_modes(r):
                if m in ('ca', 'cb') and r['c']['kind'] in MEM:
                    for rep_ in range(3 if quick else 24):
                        emit(r, j, m, 'base', 'eq', 0, False); j += 1
                    for rep_ in range(1 if quick else 8):
                        emit(r, j, m, 'sep', 'eq', 0, False); j += 1
            # two arrays, related strides / index lists (equal lists or one list object do not make them one operand)
            sfams = ([('eq', 0, False), ('h1', 0, False), ('h2', 0, False), ('perm', 0, False)] + ([('eq', 0, True)] if ka == kb else [])) if 'index' in (ka, kb) else [('eq', 0, False)]
            for rep_ in range(1 if quick else 8):
                for fam, dl, ixo in sfams:
                    emit(r, j, 'none', 'sep', fam, dl, ixo); j += 1
        # the operand words related (separate storage; registers, broadcasts)
        scal = 'scalar' in (ka, kb)
        fams = [('eq', 0), ('h1', 0), ('h2', 0)] + ([] if scal else [('perm', 0)]) + [('one', k) for k in range(L)]
        for rep_ in range(1 if quick else 8):
            for fam, dl in fams:
                emit(r, j, 'none', 'word', fam, dl, False, inj=True); j += 1
    return out


def gen_huge(table, variant, tier, seed, ci0):
    """huge strides / index-list entries (sparse arenas), every row with a strided or indexed operand -> list of (ci, line).
    A strided operand gets the value in its stride field; an indexed operand gets index mode 100 + pattern and the unit in its
    (otherwise unused) stride field (harness/drv_layout17.cpp gen_idx_huge)."""
    rng = vlib.Rng(seed ^ 0x406EC17 ^ (0x512 if variant == 'avx512' else 0))
    quick = tier == 'quick'
    out = []; ci = ci0
    for r in table:
        if r['variant'] != variant or not r['defined']:
            continue
        el = [o for o in 'abc' if r[o]['kind'] in ARR]
        if not el:
            continue
        j = 0

        def emit(st, im, alias):
            nonlocal ci
            ci += 1
            out.append((ci, '%d C %s 0x%x %d %d %d %d %d %d %d %d %s %d' % (ci, r['id'], rng.next(), st['a'], st['b'], st['c'], im['a'], im['b'], im['c'],
                                                                            (3 * j + j // 8) % 8, j % 5, alias, j % r['L'])))

        def base():
            return (dict(a=S_IN[j % 7], b=S_IN[(3 * j + 1) % 7], c=S_OUT[(5 * j + 2) % 9]), dict(a=j % 6, b=(5 * j + 1) % 6, c=(j + 3) % 6))

        def put(st, im, o, h, pat):
            st[o] = h
            if r[o]['kind'] == 'index':
                im[o] = 100 + pat % 6
        for rep_ in range(1 if quick else 6):
            for X in el:
                for hi, h in enumerate(HUGE):
                    st, im = base()
                    for q, o in enumerate(el):
                        if o == X:
                            put(st, im, o, h, j + rep_)
                        else:
                            # the other strided / indexed operands: small, the same huge value, another huge value
                            m = (j + q) % 3
                            if m:
                                put(st, im, o, h if m == 1 else HUGE[(hi + 2) % 5], j + q + 2 * rep_)
                    emit(st, im, 'none'); j += 1
        # result in place (one array, one address map: the operand follows the result's stride / index list)
        for m in G.alias_modes(r):
            if m in ('ca', 'cb') and r['c']['kind'] in ARR:
                for hi in ([j % 5, (j + 2) % 5] if quick else list(range(5)) * 3):
                    st, im = base()
                    put(st, im, 'c', HUGE[hi], j)
                    other = 'b' if m == 'ca' else 'a'
                    if other in el and j % 2:
                        put(st, im, other, HUGE[(hi + 1) % 5], j + 1)
                    emit(st, im, m); j += 1
    return out


def _narrow(rec):
    """a wide event (64-bit limb words) with the fields of an ordinary one, Python integers (for explain / coverage only)"""
    if not rec.get('wide'):
        return rec
    r = dict(rec)
    for o in 'abc':
        r['s' + o] = vlib.unw64(rec['s%sw' % o]); r['e' + o] = vlib.unw64(rec['e%sw' % o])
        r['i' + o] = [vlib.unw64(x) for x in rec['i%sw' % o]]; r['a' + o] = [vlib.unw64(x) for x in rec['a%sw' % o]]
    r['chg'] = [x - (1 << 64) if x >> 63 else x for x in (vlib.unw64(w) for w in rec['chgw'])]
    return r


def gen_par(tier, seed, ci0):
    rng = vlib.Rng(seed ^ 0xC17BA5)
    sizes = list(range(0, 65)) if tier == 'quick' else list(range(0, 201)) + [255, 256, 257, 511, 1000, 1023, 1024, 1025, 4097]
    out = []; ci = ci0
    for fn in ('parcpy', 'parSetZero'):
        for s in sizes:
            for ti, t in enumerate(THREADS):
                ci += 1
                out.append((ci, '%d P %s %d %d %d 0x%x 0' % (ci, fn, s, t, [0, 3][(s + ti) % 2], rng.next())))
    # OpenMP delivery environments: the same calls from inside a parallel region / under a foreign thread-count setting
    esizes = ENV_SIZES if tier == 'quick' else list(range(0, 41)) + [64, 65, 127, 255, 1000, 4097]
    for fn in ('parcpy', 'parSetZero'):
        for s in esizes:
            for ti, t in enumerate(ENV_THREADS + ([] if tier == 'quick' else [16, 1000])):
                if s > 1000 and t not in (1, 4, 64):
                    continue
                for env in (0, 1, 2, 3):
                    ci += 1
                    out.append((ci, '%d P %s %d %d %d 0x%x %d' % (ci, fn, s, t, [0, 3][(s + ti + env) % 2], rng.next(), env)))
    return out


def explain(rec, rows):
    """human-readable reason for the evidence (the verdict is TLC's, this only describes)"""
    try:
        if rec.get('e') == 'crash':
            return 'the call ended with %s %s' % (rec['kind'], rec['code'])
        if rec.get('e') == 'par':
            n = rec['size']
            bad = [i for i in range(len(rec['d1'])) if (i < n and rec['d1'][i] != (rec['src'][i] if rec['fn'] == 'parcpy' else [0] * 8)) or (i >= n and rec['d1'][i] != rec['d0'][i])]
            return 'size=%d threads=%d delivery environment %d (%s): %d wrong cells after the call: %s' % (
                n, rec['nt'], rec.get('env', 0), ['plain call', 'call from inside an active parallel region', 'process-wide thread setting 1', 'process-wide thread setting 5'][rec.get('env', 0) % 4],
                len(bad), bad[:10])
        r = rows[rec['id']]; L = r['L']; why = []
        if rec.get('wide'):
            rec = _narrow(rec)
            why.append('huge strides / index-list entries in sparse arenas (%s)' % ', '.join(
                '%s: %s' % (o, ('stride %d' % rec['s' + o]) if r[o]['kind'] == 'stride' else ('index list %s' % rec['i' + o])) for o in 'abc' if r[o]['kind'] in ARR))
            if rec.get('nchg', 0) > len(rec['chg']):
                why.append('%d cells of the result arena changed' % rec['nchg'])
        if rec.get('dlv', 'none') != 'none':
            why.append({'base': 'operands a and b given by the same base pointer', 'sep': 'operands a and b in two arrays with related strides / index lists', 'word': 'operand words related'}[rec['dlv']] +
                       ', family %s%s%s' % (rec['des'], ' lane %d' % rec['dl'] if rec['des'] == 'one' else '', ', one index-list object' if rec.get('ixo') else '') +
                       (' (cells a %s, cells b %s)' % (rec['aa'], rec['ab']) if rec['dlv'] != 'word' else ''))
        a = [vlib.unw64(x) for x in rec['a']]; b = [vlib.unw64(x) for x in rec['b']] or [0] * L; res = [vlib.unw64(x) for x in rec['r']]
        f = dict(copy=lambda x, y: x, add=lambda x, y: (x + y) % P, sub=lambda x, y: (x - y) % P, mul=lambda x, y: (x * y) % P)[r['op']]
        for k in range(L):
            lanes = [j for j in range(L) if rec['ac'][j] == rec['ac'][k]] if r['c']['kind'] != 'reg' else [k]
            ok = any((res[k] == a[j]) if r['op'] == 'copy' else (res[k] % P == f(a[j], b[j])) for j in lanes)
            if not ok:
                why.append('lane %d: %s(0x%x, 0x%x) gave 0x%x' % (k, r['op'], a[k], b[k], res[k]))
        fp = sorted(set(rec['ac'])) if r['c']['kind'] not in ('reg',) else []
        if sorted(rec['chg']) != fp:
            why.append('cells changed %s, write footprint %s' % (rec['chg'][:12], fp[:12]))
        for k in ('same', 'in_same', 'slack_ok'):
            if not rec[k]:
                why.append({'same': 'second run with different garbage in undesignated cells gave different results', 'in_same': 'an operand array or index list was modified',
                            'slack_ok': 'memory in front of an array was written'}[k])
        return '; '.join(why) or 'rejected by Trace_Layout17'
    except Exception as ex:
        return 'rejected by Trace_Layout17 (%s)' % ex


def build_variant(ck, table, v, wd):
    """-> (exe, mode, dropped rows).  1. call sites pinned to the declared signatures; 2. if that does not build: overload
    resolution instead (LAX_SIG; the argument expressions have exactly the declared types); 3. if that does not build either:
    every row as a translation unit of its own, the rows that do not build are dropped and reported."""
    def gdir(inc, lax):
        cfg = G.gen_cfg(lax)
        d = os.path.join(wd, 'gen_%s' % hashlib.sha256((inc + cfg).encode()).hexdigest()[:16])
        os.makedirs(d, exist_ok=True)
        open(os.path.join(d, 'layout17_rows.inc'), 'w').write(inc)
        open(os.path.join(d, 'layout17_cfg.inc'), 'w').write(cfg)
        return d
    inc = G.gen_inc(table, v)
    try:
        return build_driver('drv_layout17', v, ['-I' + gdir(inc, False)]), 'pinned', []
    except vlib.BuildError as e1:
        first = [ln for ln in str(e1).split('\n') if 'error' in ln][:2]
        ck.note('build (%s): the call sites pinned to the declared signatures do not compile (%s); rebuilding with LAX_SIG (plain overload resolution)' % (v, ' | '.join(x.strip()[:200] for x in first)))
    try:
        return build_driver('drv_layout17', v, ['-I' + gdir(inc, True)]), 'lax', []
    except vlib.BuildError as e2:
        ck.note('build (%s): the LAX_SIG build fails too; building every row on its own to find the rows that do not build' % v)
    ids = [r['id'] for r in table if r['variant'] == v and r['defined']]

    def one(i):
        try:
            exe = build_driver('drv_layout17', v, ['-I' + gdir(G.gen_inc(table, v, only=[i]), True)])
            shutil.rmtree(os.path.dirname(exe), ignore_errors=True)      # probe only
            return i, None
        except vlib.BuildError as e:
            why = [ln.strip() for ln in str(e).split('\n') if 'error' in ln or 'undefined reference' in ln]
            return i, (why[0][:300] if why else str(e)[-300:])
    vlib.build_lib(v)
    with ThreadPoolExecutor(max_workers=8) as ex:
        res = list(ex.map(one, ids))
    bad = [(i, why) for i, why in res if why]
    good = [i for i, why in res if not why]
    return build_driver('drv_layout17', v, ['-I' + gdir(G.gen_inc(table, v, only=good), True)]), 'lax, rows dropped', bad


def run_driver(exe, lines, wd, tag):
    cpath = os.path.join(wd, 'cases_%s.txt' % tag); tpath = os.path.join(wd, 'trace_%s.ndjson' % tag)
    open(cpath, 'w').write('\n'.join(lines) + '\n')
    r = sh([exe, cpath, tpath], timeout=1800)
    return r, tpath


def run(tier, seed, replay=None):
    ck = Check('C17', tier, seed)
    wd = workdir('C17')
    ck.assumptions += ['tools/overloads17.json is a reviewed reading of the declarations and naming scheme; it is the specification of the API',
                       'result and operands either are disjoint or overlap in one of the alias modes of Layout.tla (scalar inside an array, result in place with the same address map); other partial overlaps are not exercised',
                       'where a stride of 0 or a repeating index list maps several lanes to one result cell, the cell may hold the result of any of them']
    table = G.load_table()
    rows = {r['id']: r for r in table}
    # ---- artefacts generated from the table
    tla = G.gen_tla(table)
    committed = os.path.join(vlib.SPEC, 'Overloads17.tla')
    if not os.path.exists(committed) or open(committed).read() != tla:
        ck.note('spec/Overloads17.tla is not the module generated from tools/overloads17.json (run tools/gen_layout17.py gen spec); the generated one is used')
    open(os.path.join(wd, 'Overloads17.tla'), 'w').write(tla)
    st = G.check(vlib.REPO, table)
    for k, msg in (('no_row', 'declared in goldilocks_base_field.hpp but not in the table (not exercised)'), ('no_declaration', 'table row without a declaration in this tree'),
                   ('table_says_undefined_but_defined', 'listed as undefined in the table but defined in this tree (not exercised; re-draft the table)')):
        if st[k]:
            ck.note('%s: %s' % (msg, ', '.join(st[k])))
    variants = ['avx2'] + (['avx512'] if vlib.have_avx512() else [])
    not_ex = [dict(id=r['id'], decl=r['decl'], reason='declared but undefined (calling it is a link error)') for r in table if not r['defined']]
    if 'avx512' not in variants:
        not_ex += [dict(id=r['id'], reason='this CPU has no avx512f') for r in table if r['variant'] == 'avx512' and r['defined']]
    # ---- model phase and builds side by side
    # (the model phase keeps running beside the conformance step; its result is collected before the verdict)
    ex = ThreadPoolExecutor(max_workers=3)
    fm = None if (replay or os.environ.get('VERIF_NOMODEL')) else ex.submit(tlc, wd, 'MC_Layout', 'MC_Layout.cfg', 6, None, 1500)
    try:
        fb = {v: ex.submit(build_variant, ck, table, v, wd) for v in variants}
        built = {v: f.result() for v, f in fb.items()}
        exes = {v: b[0] for v, b in built.items()}
        ck.cov['build_mode'] = {v: b[1] for v, b in built.items()}
        dropped = set()
        for v, b in built.items():
            for i, why in b[2]:
                dropped.add(i)
                not_ex.append(dict(id=i, decl=rows[i]['decl'], reason='does not build in this tree: ' + why))
        if dropped:
            ck.note('rows dropped because they do not build: %s' % ', '.join(sorted(dropped)))
            table_run = [r for r in table if r['id'] not in dropped]
        else:
            table_run = table
    except BaseException:
        ex.shutdown(wait=True)
        raise

    def model_result():
        if fm:
            r = fm.result()
            ck.add_tlc(r, 'MC_Layout: descriptor algebra (all kinds, strides {0,1,2,3,5}, all 4-lane index lists over 0..5), %d table rows well-formed, parcpy chunk arithmetic sizes 0..12 x threads -2..14 x delivered teams 1..15, same-base designations (all pairs of 4-lane index lists over 0..2)' % len(table))
            if not r.ok:
                ck.note('model-level: MC_Layout: %s' % (r.violated or r.error or r.out[-400:]))
        ex.shutdown(wait=True)
    # ---- cases
    per = {}
    if replay:
        rc = json.load(open(replay))['case']
        for i, (v, line) in enumerate(rc['cases']):
            t = line.split(); t[0] = str(i + 1)
            per.setdefault(v, []).append((i + 1, ' '.join(t)))
    else:
        ci = 0
        for v in variants:
            per[v] = gen_cases(table_run, v, tier, seed, ci); ci = per[v][-1][0]
            per[v] += gen_des(table_run, v, tier, seed, ci); ci = per[v][-1][0]
            per[v] += gen_huge(table_run, v, tier, seed, ci); ci = per[v][-1][0]
        per['avx2'] += gen_par(tier, seed, ci)
    byci = {}
    traces = []
    for v, cs in per.items():
        if v not in exes:
            ck.note('cases for variant %s skipped: not available on this machine' % v); continue
        for c, line in cs:
            byci[c] = (v, line)
        r, tp = run_driver(exes[v], [l for _, l in cs], wd, v)
        if r.returncode != 0:
            ck.note('infrastructure: driver (%s) ended rc=%s: %s' % (v, r.returncode, r.stderr[-300:]))
            model_result()
            ck.finish(); return 2
        traces.append(tp)
    tpath = os.path.join(wd, 'trace.ndjson')
    skips = []
    with open(tpath, 'w') as f:
        for tp in traces:
            for ln in open(tp):
                if ln.startswith('{"e":"skip"'):
                    # the address range of a huge stride could not be reserved on this machine: recorded, not judged
                    skips.append(json.loads(ln))
                else:
                    f.write(ln)
    if skips:
        ck.note('huge strides / index-list entries not exercised in %d call(s) of %d overload(s): %s' % (len(skips), len({x['id'] for x in skips}), skips[0].get('why')))
    v = validate_trace(wd, 'Trace_Layout17', 'Trace_Layout17.cfg', tpath, min_chunk=150)
    model_result()
    ck.add_validation(v, 'calls of %d overloads + parcpy/parSetZero (%d cases)' % (len([r for r in table if r['defined'] and r['variant'] in variants]), len(byci)))
    ck.sample_trace(tpath)
    for msg in v['infra']:
        ck.note('infrastructure: ' + msg)
    # ---- confirm every rejected class by re-running exactly that case
    seen = set()
    for idx, rec in v['rejected']:
        if not isinstance(rec, dict) or rec.get('ci') not in byci:
            ck.note('infrastructure: unreadable rejected record %d' % idx); continue
        var, line = byci[rec['ci']]
        cls = rec.get('id') or rec.get('fn')
        if cls in seen or len(ck.violations) >= 12:
            continue
        seen.add(cls)
        r2, t2 = run_driver(exes[var], [line], wd, 'confirm')
        v2 = validate_trace(wd, 'Trace_Layout17', 'Trace_Layout17.cfg', t2, nsplit=1)
        if v2['rejected']:
            rec2 = v2['rejected'][0][1]
            what = rows[cls]['decl'] if cls in rows else 'Goldilocks::%s' % cls
            ck.violation('%s %s%s' % (cls, what, ' crash' if rec2.get('e') == 'crash' else ''),
                         '%s [case: %s] %s' % (explain(rec2, rows), line, json.dumps(vlib.compact(rec2))[:400]),
                         dict(cases=[[var, line]], event=rec2))
        else:
            ck.note('rejected record of %s not reproduced on re-run (case %s)' % (cls, line))
    # ---- coverage
    cnt = {}; acnt = {}; dcnt = {}; drows = {}; ecnt = {}
    hcnt = dict(calls=0, in_place=0); hrows = set(); hvals = {}
    for ln in open(tpath):
        if ln.startswith('{"e":"call"') or ln.startswith('{"e":"crash"'):
            j = json.loads(ln)
            i = j.get('id'); cnt[i] = cnt.get(i, 0) + 1
            if j.get('wide'):
                hcnt['calls'] += 1; hcnt['in_place'] += 1 if j['alias'] != 'none' else 0; hrows.add(i)
                for o in 'abc':
                    big = [x for x in [vlib.unw64(j['s%sw' % o])] + [vlib.unw64(w) for w in j['i%sw' % o]] if x >= 2 ** 29]
                    if big:
                        k = '%s.%s' % ('result' if o == 'c' else 'input', rows[i][o]['kind'] if i in rows else '?')
                        hvals[k] = hvals.get(k, 0) + 1
            if j.get('alias', 'none') != 'none':
                acnt[j['alias']] = acnt.get(j['alias'], 0) + 1
            if j.get('dlv', 'none') != 'none':
                k = '%s.%s%s%s' % (j['dlv'], j['des'], '.inplace' if j['alias'] != 'none' else '', '.one_list_object' if j.get('ixo') else '')
                dcnt[k] = dcnt.get(k, 0) + 1
                drows.setdefault(j['dlv'], set()).add(i)
        elif ln.startswith('{"e":"par"'):
            j = json.loads(ln)
            ecnt[str(j.get('env', 0))] = ecnt.get(str(j.get('env', 0)), 0) + 1
    ck.cov['huge_stride_calls'] = dict(hcnt, rows=len(hrows), rows_with_strided_or_indexed_operand=len([r for r in table if r['defined'] and r['variant'] in variants and any(r[o]['kind'] in ARR for o in 'abc')]),
                                       values=[str(h) for h in HUGE], operands=hvals, skipped=len(skips), skipped_why=skips[0].get('why') if skips else '')
    ck.cov['alias_mode_calls'] = acnt
    ck.cov['designation_family_calls'] = dcnt
    ck.cov['designation_family_rows'] = {k: len(v) for k, v in drows.items()}
    ck.cov['bulk_copy_calls_per_delivery_environment'] = ecnt
    ck.cov['alias_mode_rows'] = {m: len([r for r in table if m in G.alias_modes(r) and cnt.get(r['id'])]) for m in ('sc', 'sa', 'ca', 'cb')}
    fam = {}
    for r in table:
        k = r['family'] + ('' if r['section'] == 'expr' else '.loadstore')
        f = fam.setdefault(k, dict(table=0, exercised=0))
        f['table'] += 1; f['exercised'] += 1 if cnt.get(r['id'], 0) else 0
    ck.cov['overloads_per_family'] = fam
    ck.cov['overloads_in_table'] = len(table); ck.cov['overloads_exercised'] = len([i for i in cnt if i in rows])
    ck.cov['calls_per_overload_min'] = min(cnt.values()) if cnt else 0
    ck.cov['not_exercised'] = not_ex
    ck.cov['declared_but_undefined_in_this_tree'] = st['undefined']
    ck.cov['cases'] = len(byci); ck.cov['rejected_records'] = len(v['rejected'])
    ck.cov['bulk_copy_cases'] = len([1 for c in byci.values() if ' P ' in c[1]])
    return ck.finish()
