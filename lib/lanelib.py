"""shared by C02 / C11 / C13 / C14: lane-kernel and matrix-kernel case generation, replay and validation"""
import os, json
from concurrent.futures import ThreadPoolExecutor
import vlib
from vlib import tlc, apalache, build_driver, validate_trace, sh

P = vlib.P
M = 2**64
MSB = 2**63
HALVES = [0, 1, 2, 3, 0x7FFFFFFF, 0x80000000, 0x80000001, 0xFFFFFFFC, 0xFFFFFFFD, 0xFFFFFFFE, 0xFFFFFFFF]
CORNER = sorted(set([(h1 << 32) | h0 for h1 in HALVES for h0 in HALVES] + [P - 2, P - 1, P, P + 1, MSB - 1, MSB, MSB + 1, (P ^ MSB) - 1, P ^ MSB, (P ^ MSB) + 1]))

LANE2 = ['toCanonical_avx', 'toCanonical_avx_s', 'shift_avx', 'add_avx', 'add_avx_a_sc', 'add_avx_s_b_small', 'add_avx_b_small', 'sub_avx',
         'sub_avx_s_b_small', 'mult_avx', 'mult_avx_8', 'mult_avx_128', 'mult_avx_72', 'reduce_avx_128_64', 'reduce_avx_96_64', 'square_avx', 'square_avx_128']
LANE512 = ['toCanonical_avx512', 'add_avx512', 'add_avx512_b_c', 'sub_avx512', 'sub_avx512_b_c', 'mult_avx512', 'mult_avx512_8', 'mult_avx512_128',
           'mult_avx512_72', 'reduce_avx512_128_64', 'reduce_avx512_96_64', 'square_avx512', 'square_avx512_128']
MAT2 = ['dot_avx', 'dot_avx_a', 'spmv_avx_4x12', 'spmv_avx_4x12_a', 'spmv_avx_4x12_8', 'mmult_avx_4x12', 'mmult_avx_4x12_a', 'mmult_avx_4x12_8', 'mmult_avx', 'mmult_avx_a', 'mmult_avx_8']
MAT512 = ['dot_avx512', 'spmv_avx512_4x12', 'spmv_avx512_4x12_8', 'mmult_avx512_4x12', 'mmult_avx512_4x12_8', 'mmult_avx512', 'mmult_avx512_8']


def fit(k, a, b):
    """force an operand pair into the kernel's documented operand assumption"""
    if k == 'add_avx_a_sc':
        a = (a % P) ^ MSB
    if k in ('add_avx_s_b_small', 'add_avx_b_small', 'sub_avx_s_b_small'):
        if b > P - 1:
            b = b - P if b >= P else b
    if k in ('add_avx512_b_c', 'sub_avx512_b_c'):
        b %= P
    if k.endswith('_8') or k.endswith('_72'):
        b &= 0xFF
    if '96_64' in k:
        a &= 0xFFFFFFFF
    return a, b


def lane_cases(kernels, seed, tier):
    rng = vlib.Rng(seed ^ 0x1A9E)
    out = []
    for k in kernels:
        L = 8 if '512' in k else 4
        pairs = []
        # corner x corner (subsampled), every corner word with itself / its neighbours, random in all representations
        n = len(CORNER)
        step = 7 if tier == 'quick' else 2
        for i in range(0, n * n, step):
            pairs.append((CORNER[i // n], CORNER[(i % n)]))
        for i in range(600 if tier == 'quick' else 20000):
            pairs.append((rng.word(), rng.word()))
        for x in CORNER:
            pairs.append((x, (x + P) % M)); pairs.append((x, (M - x) % M)); pairs.append((x, x))
        # the 32-bit-compare shortcut: sums / differences whose high halves tie
        for h in HALVES:
            for lo in (0, 1, 0xFFFFFFFF, 0xFFFFFFFE):
                a = ((h ^ 0x80000000) << 32) | lo
                pairs.append((a, 0xFFFFFFFF00000000)); pairs.append((a, 0xFFFFFFFF)); pairs.append((a, 1)); pairs.append((a, (P - 1 - lo) % M))
        # carry boundaries inside the product: operands chosen (by inverses mod 2^32) so that the low halves of the two
        # middle partial products take prescribed values t1, t2 and the column sum hi(al*bl) + t1 + t2 sits exactly at a
        # carry boundary (2^32 - 1 | 2^32 | 2^33 - 1 | 2^33); for the 8-bit kernels the single column hi(al*b) + lo(ah*b)
        if 'mult' in k or 'square' in k:
            W32 = 1 << 32
            def inv32(x):
                return pow(x, -1, W32)
            small = k.endswith('_8') or k.endswith('_72')
            for i in range(40 if tier == 'quick' else 600):
                if small:
                    b = [3, 5, 7, 9, 255, 253, 129, 127, 1, 17][i % 10]
                    al = [0xFFFFFFFF, 0xFFFFFFFE, rng.below(W32), 0x80000001][i % 4]
                    c = (al * b) >> 32
                    for t1 in ((W32 - c) % W32, (W32 - c - 1) % W32, W32 - 1):
                        ah = (t1 * inv32(b)) % W32
                        pairs.append(((ah << 32) | al, b))
                else:
                    al = rng.below(W32) | 1; bl = rng.below(W32) | 1
                    if i % 5 == 0:
                        al = 0xFFFFFFFF
                    if i % 7 == 0:
                        bl = 0xFFFFFFFF
                    c = (al * bl) >> 32
                    for tgt in (W32 - 1, W32, 2 * W32 - 1, 2 * W32):
                        t1 = [W32 - 1, rng.below(W32), 0x80000000][i % 3]
                        t2 = tgt - c - t1
                        if not (0 <= t2 < W32):
                            t1 = max(0, min(W32 - 1, tgt - c - (W32 - 1))); t2 = tgt - c - t1
                        if not (0 <= t2 < W32):
                            continue
                        ah = (t1 * inv32(bl)) % W32; bh = (t2 * inv32(al)) % W32
                        a = (ah << 32) | al; b = (bh << 32) | bl
                        pairs.append((a, a) if 'square' in k else (a, b))
        pairs = [fit(k, a, b) for a, b in pairs]
        while len(pairs) % L:
            pairs.append(fit(k, rng.word(), rng.word()))
        groups = [pairs[i:i + L] for i in range(0, len(pairs), L)]
        TWO_OUT = k.endswith('_128') or k.endswith('_72')
        UNARY = k.startswith('toCanonical') or k.startswith('shift') or k.startswith('square')
        for gi, g in enumerate(groups):
            out.append(('lane', k, g))
            if gi % 5 == 0:       # the same operands in rotated lane positions, different neighbours
                r = (gi // 5) % (L - 1) + 1
                out.append(('lane', k, g[r:] + g[:r]))
            if gi % 4 == 1 and not TWO_OUT:     # register aliasing: the output register is an operand register
                modes = ['ca'] if UNARY else ['ca', 'cb', 'all']
                mode = modes[(gi // 4) % len(modes)]
                gg = g
                if mode == 'all':
                    gg = [fit(k, a, a) for a, _ in g]
                    gg = [(a, a) for a, _ in gg] if all(fit(k, a, a) == (a, a) for a, _ in gg) else None
                if gg:
                    out.append(('lane', k, gg, mode))
        # every small/large pattern across the lanes of one register (a kernel must not look at its neighbours)
        smalls = [3, 1, 0, 0xFFFFFFFF, 2, 0x10000]; larges = [M - 1, 1 << 32, P - 1, (1 << 63) + 5, P + 7, 0xFFFFFFFF00000000]
        for pat in (range(1 << L) if L == 4 else list(range(0, 256, 5)) + [0x0F, 0xF0, 0xCC, 0x33, 0xFC, 0x03]):
            g = []
            for i in range(L):
                big = (pat >> i) & 1
                a = (larges if big else smalls)[(pat + i) % 6]
                b = (larges if ((pat >> ((i + 1) % L)) & 1) else smalls)[(pat + 2 * i) % 6]
                g.append(fit(k, a, b))
            out.append(('lane', k, g))
    return out


def mat_cases(kernels, seed, tier, consts=None):
    rng = vlib.Rng(seed ^ 0x3A7)
    out = []
    small_mult = [1, 2, 3, 5, 7, 15, 17, 255, 65537]
    for k in kernels:
        ns = 24 if '512' in k else 12
        nm = 144 if k.startswith('mmult_avx') and '4x12' not in k else (48 if 'mmult' in k else 12)
        eight = k.endswith('_8')
        n = (54 if tier == 'quick' else 900)
        if nm == 144:
            n = (18 if tier == 'quick' else 180)
        for i in range(n):
            mode = i % 9
            if mode == 0:      # everything random, all representations
                s = [rng.word() for _ in range(ns)]; m = [rng.word() for _ in range(nm)]
            elif mode == 1:    # boundary values
                s = [CORNER[rng.below(len(CORNER))] for _ in range(ns)]; m = [CORNER[rng.below(len(CORNER))] for _ in range(nm)]
            elif mode == 2:    # products that stay below 2^64 but land in the non-canonical band [p, 2^64): small m, y ~ (2^64-1-r)/m
                m = []; s = [0] * ns
                for t in range(nm):
                    m.append(small_mult[rng.below(len(small_mult))])
                for t in range(ns):
                    mm = m[(t % 12) if ns == 12 else ((t // 8) * 4 + (t % 4))]
                    s[t] = ((M - 1 - rng.below(1 << 20)) // mm) if mm else rng.word()
            elif mode == 3:    # the D9 witness shape: 3 * 0x5555555555555555 = 2^64 - 1 in several blocks of one lane
                s = [3] * ns; m = [0x5555555555555555] * nm
                if i % 12 == 3:
                    s = [0x5555555555555555] * ns; m = [3] * nm
            elif mode == 4:    # non-canonical coefficients and states
                s = [(P + rng.below(2**32 - 1)) for _ in range(ns)]; m = [(P + rng.below(2**32 - 1)) for _ in range(nm)]
            elif mode == 6:    # coefficient 1 (or state 1) passes the other operand through verbatim: choose the addends of one
                               # lane so that a partial sum lands in [p, 2^64) WITHOUT wrapping and the next addend is large
                def triple():
                    k = rng.below(4)
                    if k == 0:
                        w1 = P - 1 - rng.below(4); w2 = 2**32 - 1 - rng.below(4)
                    elif k == 1:
                        w1 = rng.next() % P; w2 = (M - 1 - w1 - rng.below(1 << 16)) % M
                    elif k == 2:
                        w1 = M - 1 - rng.below(1 << 10); w2 = rng.below(1 << 10)
                    else:
                        w1 = P + rng.below(2**32 - 1); w2 = rng.below(2**31)
                    w3 = [P + 1, M - 1, P - 1, 2**63 - 2**31 + 1, P + rng.below(2**32 - 1), rng.next() | (1 << 63)][rng.below(6)]
                    t3 = [w1, w2, w3]
                    r = rng.below(3)
                    return t3[r:] + t3[:r]
                one_in_state = (i // 9) % 2 == 0
                s = [0] * ns; m = [0] * nm
                if ns == 12:
                    for lane in range(4):
                        t3 = triple()
                        for j in range(3):
                            s[4 * j + lane] = 1 if one_in_state else t3[j]
                    for row in range(nm // 12):
                        for lane in range(4):
                            t3 = triple()
                            for j in range(3):
                                m[12 * row + 4 * j + lane] = t3[j] if one_in_state else [1, 2, 1][j]
                else:
                    for half in range(2):
                        for lane in range(4):
                            t3 = triple()
                            for j in range(3):
                                s[8 * j + 4 * half + lane] = 1 if one_in_state else t3[j]
                    for row in range(nm // 12):
                        for lane in range(4):
                            t3 = triple()
                            for j in range(3):
                                m[12 * row + 4 * j + lane] = t3[j] if one_in_state else [1, 2, 1][j]
            elif mode == 7:    # all coefficients below 2^32 (and large states): a narrower product pipeline must not be selected wrongly
                s = [(M - 1 - rng.below(1 << 34)) if rng.below(3) else (P - 1 - rng.below(1 << 20)) for _ in range(ns)]
                m = [[0xFFFFFFFF, 0xC0000000, 0x80000000, 0x7FFFFFFF, 0xFFFFFFFE][rng.below(5)] if rng.below(2) else rng.below(1 << 32) for _ in range(nm)]
            elif mode == 8:    # all coefficients below 2^16 / 2^63
                lim = 16 if (i // 9) % 2 else 63
                s = [rng.word() for _ in range(ns)]; m = [rng.next() >> (64 - lim) for _ in range(nm)]
            else:              # the library's own tables when available
                s = [rng.word() for _ in range(ns)]
                if consts and nm == 144:
                    m = consts['M_'] if i % 2 else consts['P_']
                elif consts and nm == 12:
                    r = rng.below(22); m = consts['S'][23 * r:23 * r + 12]
                elif consts:
                    o = rng.below(3); m = consts['P_'][48 * o:48 * o + 48]
                else:
                    m = [rng.word() for _ in range(nm)]
            if eight:
                m = [x & 0xFF if mode != 5 or x > 255 else x for x in m]
                if mode == 3:
                    # 255 * 0x0101010101010101 = 2^64 - 1: every spmv_8 lane output is the non-canonical word 2^64-1,
                    # which the column sums of mmult_*_8 then have to add correctly
                    m = [255] * nm
                    blk = 4 if ns == 12 else 8
                    s = [(0x0101010101010101 if (t // blk) == (i // 6) % 3 else 0) for t in range(ns)]
            out.append(('mat', k, s, m))
            if i % 4 == 0 and ('spmv' in k or '4x12' in k):
                out.append(('mat', k, s, m, ['ca', 'c1', 'c2'][(i // 4) % 3]))      # in place: the output register is the first / second / third state register
        # a single product equal to p-1 exactly (and to p, 2^64-1) in each of the twelve positions, everything else zero: the
        # first / second operand of every adder of the chain meets the word 0xFFFFFFFF00000000 alone
        if not eight:
            for j in range(12):
                for form in range(3):
                    w = [P - 1, P, M - 1][form]
                    s = [0] * ns; m = [0] * nm
                    for h in range(ns // 12):
                        pos = (4 * (j // 4) + (j % 4)) if ns == 12 else (8 * (j // 4) + 4 * h + (j % 4))
                        s[pos] = w if (j + form) % 2 == 0 else 1
                    for row in range(max(1, nm // 12)):
                        m[12 * row + j] = 1 if (j + form) % 2 == 0 else w
                    out.append(('mat', k, s, m))
        if k.startswith('dot'):
            # the horizontal sum of the four lane results: unit coefficients in one block (zero elsewhere) pass four state
            # words through as the lane values; the words are chosen so that their integer sum is k*2^64 + t with k = 1..3
            # carries and t at p, at 2^64 - 3*2^32 .. 2^64, at 0 (each fold of the carries must itself be folded)
            halves = 1 if ns == 12 else 2
            for i in range(36 if tier == 'quick' else 600):
                s = [0] * ns; m = [0] * nm
                blk = i % 3
                for h in range(halves):
                    kc = 1 + (i + h) % 3
                    t = [P - 2 + rng.below(5), M - 1 - rng.below(3 << 32), rng.below(4), P - 1 - rng.below(1 << 33), M - 1 - rng.below(4)][(i // 3 + h) % 5]
                    hi = [M - 1 - rng.below(1 << 34) for _ in range(3)]
                    tot = kc * M + t
                    # kc lanes near 2^64, the others absorb the remainder
                    lanes = hi[:kc]
                    rest = tot - sum(lanes)
                    free = 4 - kc
                    if rest < 0 or rest > free * (M - 1):
                        lanes = [M - 1] * 3; rest = 3 * M + (P - 1) - sum(lanes); free = 1
                    for f in range(free):
                        x = min(M - 1, rest) if f == free - 1 else min(M - 1, rest // (free - f))
                        lanes.append(x); rest -= x
                    r = rng.below(4); lanes = lanes[r:] + lanes[:r]
                    for lane in range(4):
                        if ns == 12:
                            s[4 * blk + lane] = lanes[lane]; m[4 * blk + lane] = 1
                        else:
                            s[8 * blk + 4 * h + lane] = lanes[lane]; m[4 * blk + lane] = 1
                if i % 2:
                    # the same with the words as coefficients and unit states
                    if ns == 12:
                        s, m = [1 if m[j] else 0 for j in range(12)], [s[j] for j in range(12)]
                out.append(('mat', k, s, m))
    return out


def write_cases(path, cases):
    with open(path, 'w') as f:
        for c in cases:
            if c[0] == 'lane':
                tag = ('@' + c[3]) if len(c) > 3 and c[3] else ''
                f.write('lane%s %s %s\n' % (tag, c[1], ' '.join('0x%x 0x%x' % p for p in c[2])))
            else:
                tag = ('@' + c[4]) if len(c) > 4 and c[4] else ''
                f.write('mat%s %s %d %s %d %s\n' % (tag, c[1], len(c[2]), ' '.join('0x%x' % x for x in c[2]), len(c[3]), ' '.join('0x%x' % x for x in c[3])))


def gen_lane_model(ck, wd):
    """regenerate LaneKernels.tla from the intrinsic code of the current tree (fallback: the committed copy)"""
    import avx2tla
    try:
        text, nprod = avx2tla.generate(os.path.join(vlib.REPO, 'src'))
        open(os.path.join(wd, 'LaneKernels.tla'), 'w').write(text)
        ck.cov['lane_model'] = 'generated from the current tree (%d kernels)' % len(nprod)
        try:
            ctext, sig = avx2tla.generate_chains(os.path.join(vlib.REPO, 'src'))
            open(os.path.join(wd, 'MatChains.tla'), 'w').write(ctext)
            ck.cov['chain_model'] = 'generated from the current tree (%d chain kernels)' % len(sig)
        except avx2tla.ParseError as e:
            ck.note('12-wide chain model not derived from current source (avx2tla: %s); committed fallback copy used' % e)
        return True
    except avx2tla.ParseError as e:
        ck.note('lane model not derived from current source (avx2tla: %s); the committed fallback copy is used, replay families still run' % e)
        ck.cov['lane_model'] = 'fallback (generator could not parse the current tree)'
        return False


def lead_cases(kernels, leads):
    """model counterexamples (pairs of lane words) as register groups for every kernel, in every lane position"""
    out = []
    for k in kernels:
        L = 8 if '512' in k else 4
        for a, b in leads:
            for (x, y) in ((a, b), (b, a)):
                p = fit(k, x % M, y % M)
                for pos in range(L):
                    g = [fit(k, (pos * 0x9E3779B97F4A7C15 + i) % M, (i * 77 + 5) % M) for i in range(L)]
                    g[pos] = p
                    out.append(('lane', k, g))
    return out


def model_lane(ck, wd, tier, apa_invs):
    gen_lane_model(ck, wd)
    leads = []
    for W in ([2, 3, 4] if tier == 'quick' else [2, 3, 4, 5]):
        cfg = 'MC_Lane_%d.cfg' % W
        open(os.path.join(wd, cfg), 'w').write(open(os.path.join(wd, 'MC_Lane.cfg')).read().replace('Phi = 16', 'Phi = %d' % (1 << W)))
        r = tlc(wd, 'MC_Lane', cfg, timeout=1500, tag='lane%d' % W)
        ck.add_tlc(r, 'MC_Lane W=%d: every lane operand pair, every AVX2 and AVX512 kernel under its documented assumption' % W)
        if not r.ok:
            ck.note('model-level lead: MC_Lane W=%d: %s' % (W, r.violated or r.error))
            import re as _re
            m = _re.search(r'/\\ a = (\d+)\s*\n/\\ b = (\d+)', r.out) or _re.search(r'/\\ b = (\d+)\s*\n/\\ a = (\d+)', r.out)
            if m:
                g = [int(m.group(1)), int(m.group(2))]
                if 'b = ' in m.group(0).split('\n')[0]:
                    g = [g[1], g[0]]
                phi = 1 << W
                def lift(v):
                    def l1(h):
                        return h if h < phi // 2 else (1 << 32) - (phi - h)
                    return (l1(v >> W) << 32) | l1(v & (phi - 1))
                leads.append((lift(g[0]), lift(g[1])))
    with ThreadPoolExecutor(max_workers=10) as ex:
        for inv, res in ex.map(lambda i: (i, apalache(wd, 'Apa_Lane', i, timeout=400)), apa_invs):
            ck.add_symbolic('W=32 %s (all lane contents; partial products free)' % inv, res)
            if res.status == 'violated':
                ck.note('model-level lead: Apalache W=32 %s counterexample %s (replayed on the library)' % (inv, res.cex))
                if res.cex and 'a' in res.cex and 'b' in res.cex:
                    leads.append((res.cex['a'], res.cex['b']))
                    # obligations with a fixed second factor: the counterexample's operand pair is (a, that constant)
                    mk = {'_3': 3, '_255': 255, '_F': (1 << 32) + 1}
                    for suf, kconst in mk.items():
                        if inv.endswith(suf):
                            leads.append((res.cex['a'], kconst))
    return leads


def replay(ck, wd, variant, cases, label, keyfn):
    exe = build_driver('drv_lane', variant)
    cpath = os.path.join(wd, 'cases_%s.txt' % variant); tpath = os.path.join(wd, 'trace_%s.ndjson' % variant)
    write_cases(cpath, cases)
    r = sh([exe, cpath, tpath], timeout=1200)
    if r.returncode != 0:
        ck.violation('%s build: kernel driver ended rc=%d%s' % (variant, r.returncode, ' (signal: an access outside an exact-extent operand array ending at an inaccessible page, or an abort)' if r.returncode < 0 else ''), r.stderr[-300:], dict(cases=[]))
        return
    v = validate_trace(wd, 'Trace_Lane', 'Trace_Lane.cfg', tpath, min_chunk=60)
    ck.add_validation(v, label)
    ck.sample_trace(tpath, n=3)
    for msg in v['infra']:
        ck.note('infrastructure: ' + msg)
    seen = set()
    for idx, rec in v['rejected']:
        k = rec.get('k')
        if k in seen or len(ck.violations) >= 8:
            continue
        seen.add(k)
        case = cases[rec['ci'] - 1]
        how = vlib.confirm_case(wd, 'Trace_Lane', 'Trace_Lane.cfg', lambda cp, tp: [exe, cp, tp], write_cases, cases, rec['ci'])
        if how:
            ck.violation('%s build: %s%s' % (variant, keyfn(case, rec), vlib.HIST if how == 'history' else ''), json.dumps(vlib.compact(rec))[:500],
                         dict(cases=[json.loads(json.dumps(x)) for x in (cases[:rec['ci']] if how == 'history' else [case])]))
        else:
            ck.note('rejection of kernel %s not reproduced on re-run (neither alone nor after its process history)' % k)
    ck.cov.setdefault('rejected_records', 0)
    ck.cov['rejected_records'] += len(v['rejected'])


def case_from_json(c):
    if c[0] == 'lane':
        return ('lane', c[1], [tuple(p) for p in c[2]]) + tuple(c[3:4])
    return ('mat', c[1], c[2], c[3]) + tuple(c[4:5])


def chain_leads(out, W=2):
    """(a0,a1,a2,b0,b1,b2) of a TLC counterexample of MC_MatChain, lifted digit-wise to 64 bit"""
    import re as _re
    vals = {}
    for k in ('a0', 'a1', 'a2', 'b0', 'b1', 'b2'):
        ms = _re.findall(r'/\\ %s = (\d+)' % k, out)
        if not ms:
            return None
        vals[k] = int(ms[-1])
    phi = 1 << W
    def lift(v):
        def l1(h):
            return h if h < phi // 2 else (1 << 32) - (phi - h)
        return (l1(v >> W) << 32) | l1(v & (phi - 1))
    return {k: lift(v) for k, v in vals.items()}


def chain_lead_cases(kernels, lead):
    """place the lifted counterexample in every lane of the sparse kernels and in a row of the dense ones"""
    out = []
    if not lead:
        return out
    for k in kernels:
        ns = 24 if '512' in k else 12
        nm = 144 if k.startswith('mmult_avx') and '4x12' not in k else (48 if 'mmult' in k else 12)
        eight = k.endswith('_8')
        blk = 8 if ns == 24 else 4
        s = [0] * ns
        for j in range(3):
            for t in range(blk):
                s[blk * j + t] = lead['a%d' % j]
        m = [0] * nm
        for row in range(nm // 12):
            for j in range(3):
                for t in range(4):
                    b = lead['b%d' % j]
                    m[12 * row + 4 * j + t] = (b & 0xFF) if eight else b
        out.append(('mat', k, s, m))
        # and as a column-sum witness: the four transposed columns are rows of products by coefficient 1
        s2 = [lead['a0'], lead['a1'], lead['a2'], lead['b0']] * (ns // 4)
        m2 = [0] * nm
        for row in range(nm // 12):
            for t in range(12):
                m2[12 * row + t] = 1
        out.append(('mat', k, s2, m2))
    return out
