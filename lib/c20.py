"""C20 — GPU field arithmetic (gl64_t) and device tables implement the same field as the CPU.
No GPU, no nvcc: what is bound is the TEXT of /repo/src/gl64_t.cuh and ntt_goldilocks.cuh (current tree).
 (0) trusted base: spec/Ptx.tla (integer subset of PTX, width-parametric) is unit-tested operator by operator against its
     arithmetic definition by TLC (MC_Ptx, Phi = 4, 8; thorough: 16); tools/ptx_prims.hpp (the same table in C++) tests
     itself against __int128 arithmetic when the driver starts.  A failure of either is exit 2, never a verdict.
 (a) model: tools/ptx2tla.py derives Gl64_gen.tla (+ a C++ PTX executor) from the inline PTX, both __CUDA_ARCH__
     variants; TLC exhaustive at w in {3,4} (thorough: 5), Apalache at w = 32 (linear members, reduce(temp[4]) for all
     four-register inputs, mul(uint32)/mul with free partial products); counterexamples become replay cases
 (b) tables: GpuTables.tla evaluated by TLC over W64, one state per row, one run per check
 (c) replay: corner family of 32-bit halves, model counterexamples lifted to 64 bit, seeded random operands, through
     the generated executor for both arch variants; every event validated by TLC (Trace_Gpu over W64); a rejection
     is confirmed by re-running exactly that case before it is reported."""
import os, json, re
from concurrent.futures import ThreadPoolExecutor
import vlib
from vlib import Check, tlc, apalache, workdir, build_driver, validate_trace, sh

P = vlib.P
ARCHS = (700, 600)
HALVES = [0, 1, 2, 3, 0x7FFFFFFF, 0x80000000, 0x80000001, 0xFFFFFFFC, 0xFFFFFFFD, 0xFFFFFFFE, 0xFFFFFFFF]
CANON_OPS = ('add', 'sub', 'cneg')                   # precondition: canonical operands
INTERNAL = ('mulraw', 'red4')                        # internal steps: replayed for information, never a violation
TABLE_OF = dict(OmegasEqCpu='omegas', OmegasOrder='omegas', OmegasInv='omegas_inv', DomainInv='domain_size_inverse')


def lift(v, W):
    """lift a 2W-bit model word to 64 bit digit-wise (halves near 2^W stay near 2^32)."""
    phi = 1 << W
    l = lambda h: h if h < phi // 2 else (1 << 32) - (phi - h)
    return (l(v >> W) << 32) | l(v & (phi - 1))


def leads_of(a, b):
    out = []
    for arch in ARCHS:
        for x, y in ((a, b), (b, a)):
            out += [(op, arch, x, y) for op in ('mul', 'mulraw', 'red4')]
            out += [('mulw', arch, x, y & 0xFFFFFFFF), ('sqr', arch, x, 0), ('red', arch, x, 0), ('cneg', arch, x % P, 1),
                    ('cneg', arch, x % P, 0), ('add', arch, x % P, y % P), ('sub', arch, x % P, y % P)]
    return out


class Infra(Exception):
    """the machinery contradicts itself: exit 2 (./check prints the traceback), never a VIOLATION."""


# ------------------------------------------------------------------------------------------------ trusted base
def ptx_unit_tests(ck, wd, tier):
    """every operator of spec/Ptx.tla against its arithmetic definition (MC_Ptx), exhaustively at small widths."""
    def one(phi):
        cfg = 'MC_Ptx_%d.cfg' % phi
        open(os.path.join(wd, cfg), 'w').write(open(os.path.join(wd, 'MC_Ptx.cfg')).read().replace('Phi = 8', 'Phi = %d' % phi))
        return phi, tlc(wd, 'MC_Ptx', cfg, workers=4, timeout=900, tag='ptx%d' % phi)
    with ThreadPoolExecutor(max_workers=3) as ex:
        for phi, r in ex.map(one, [4, 8] if tier == 'quick' else [4, 8, 16]):
            ck.add_tlc(r, 'MC_Ptx Phi=%d (11 invariants: every Ptx.tla operator against its arithmetic definition)' % phi)
            if not r.ok:
                raise Infra('spec/Ptx.tla fails its unit tests at Phi=%d: %s\n%s' %
                            (phi, r.violated or r.error or 'rc=%s' % r.rc, r.out[-1500:]))


# ------------------------------------------------------------------------------------------------ model
def tlc_models(ck, wd, tier, info):
    leads = []
    for W in ([3, 4] if tier == 'quick' else [3, 4, 5]):
        cfg_text = open(os.path.join(wd, 'MC_Gl64.cfg')).read().replace('Phi = 16', 'Phi = %d' % (1 << W))
        if not (info['free_ok']['MulFree'] and info['free_ok']['MulWFree']):
            cfg_text = cfg_text.replace('INVARIANT InvFree\n', '')
        for attempt in range(4):            # after a violated invariant, drop it and look for the next one
            cfg = 'MC_Gl64_W%d_%d.cfg' % (W, attempt)
            open(os.path.join(wd, cfg), 'w').write(cfg_text)
            r = tlc(wd, 'MC_Gl64', cfg, workers=8, timeout=900, tag='W%d_%d' % (W, attempt))
            if attempt == 0:
                ck.add_tlc(r, 'MC_Gl64 w=%d (all %d word pairs, 13 invariants, both arch variants)' % (W, 1 << (4 * W)))
            m = re.search(r'/\\ a = (\d+)\s*\n/\\ b = (\d+)', r.out)
            if not (r.violated and m):
                if not r.ok:
                    ck.note('MC_Gl64 w=%d did not complete: %s' % (W, r.error or 'rc=%s' % r.rc))
                break
            a, b = int(m.group(1)), int(m.group(2))
            ck.note('model-level lead: MC_Gl64 w=%d violates %s at a=%d b=%d; lifted to 64 bit and replayed' % (W, r.violated, a, b))
            leads += leads_of(lift(a, W), lift(b, W))
            cfg_text = cfg_text.replace('INVARIANT %s\n' % r.violated, '')
    return leads


def apa_models(ck, wd, tier, info):
    """-> list of (label, ApaResult) ; run in a background pool while the other phases proceed."""
    names = ([] if tier == 'quick' else ['MulRaw', 'MulW']) + ['MulWRaw', 'Red4x', 'Add', 'Sub', 'Cneg', 'Red']   # slowest first
    gen_name = dict(Red4x='Red4', MulWRaw='MulWRawFree', MulW='MulWFree', MulRaw='MulRawFree')
    invs = ['Inv%s%d' % (n, arch) for n in names for arch in ARCHS
            if (arch == ARCHS[0] or not info['same'].get(gen_name.get(n, n))) and info['free_ok'].get(gen_name.get(n, n), True)]
    invs.append('InvPtxW')
    to = 130 if tier == 'quick' else 560
    with ThreadPoolExecutor(max_workers=8) as ex:
        return list(zip(invs, ex.map(lambda inv: apalache(wd, 'Apa_Gl64', inv, timeout=to), invs)))


def apa_leads(ck, results):
    leads = []
    for inv, res in results:
        ck.add_symbolic('w=32 %s (all inputs)' % inv, res)
        if res.status == 'inconclusive':
            ck.note('Apalache w=32 %s inconclusive after %.0fs (time budget or tool error); not a verdict' % (inv, res.wall))
        if res.status == 'violated' and res.cex:
            c = res.cex
            ck.note('model-level lead: Apalache w=32 %s counterexample %s' % (inv, {k: c.get(k) for k in ('a', 'b', 't0', 't1', 't2', 't3')}))
            if 'Red4' in inv:
                leads += [('red4', arch, (c['t1'] << 32) | c['t0'], (c['t3'] << 32) | c['t2']) for arch in ARCHS]
            elif 'Mul' not in inv:           # free-product symbols are not an operand pair
                leads += leads_of(c['a'], c['b'])
    return leads


# ------------------------------------------------------------------------------------------------ tables
def tables_phase(ck, wd, rows=None):
    import gputab
    try:
        tabs = gputab.parse(os.path.join(vlib.REPO, 'src'))
    except gputab.ParseError as e:
        ck.note('tables not derived from current source (gputab: %s); table checks skipped' % e)
        return

    def run(check, rws, tag):
        jp = os.path.join(wd, 'gputab_%s.json' % tag)
        gputab.write(os.path.join(vlib.REPO, 'src'), jp, rws)
        cfg = 'GpuTables_%s.cfg' % check
        open(os.path.join(wd, cfg), 'w').write('CONSTANT B = 256\nINIT Init\nNEXT Next\nINVARIANT %s\nCHECK_DEADLOCK FALSE\n' % check)
        r = tlc(wd, 'GpuTables', cfg, workers=1, env={'GPUTAB': jp}, timeout=300, tag=tag)
        m = None
        for m in re.finditer(r'^l = (\d+)', r.out, re.M):
            pass
        return r, (rws[int(m.group(1)) - 1] if r.violated and m else None)

    def one(check):
        rws = list(rows or range(1, 34)); bad = []; first = None
        while rws and len(bad) < 8:
            r, row = run(check, rws, check)
            first = first or r
            if row is None:
                if not r.ok:
                    ck.note('GpuTables %s did not complete: %s' % (check, r.error or 'rc=%s' % r.rc))
                break
            bad.append(row); rws = rws[rws.index(row) + 1:]
        return check, first, bad
    with ThreadPoolExecutor(max_workers=4) as ex:
        for check, r, bad in ex.map(one, TABLE_OF):
            ck.add_tlc(r, 'GpuTables %s (%d rows)' % (check, len(rows or range(33))))
            for row in bad:
                r2, again = run(check, [row], check + '_confirm')       # confirm on exactly that row
                name, i = TABLE_OF[check], row - 1
                if again != row:
                    ck.note('table rejection %s row %d not reproduced on re-run; ignored' % (name, i)); continue
                ck.violation('table %s row %d' % (name, i),
                             '%s fails at row %d: %s[%d] = 0x%016x (omegas 0x%016x, CPU W 0x%016x)' %
                             (check, i, name, i, tabs[name][i], tabs['omegas'][i], tabs['W'][i]),
                             dict(table=name, row=i, check=check, value='0x%016x' % tabs[name][i]))
    ck.cov['table_rows'] = len(rows or range(33))


# ------------------------------------------------------------------------------------------------ replay
def gen_cases(seed, tier, info):
    halves = HALVES if tier == 'quick' else sorted(set(HALVES + [4, 0xFFFF, 0x10000, 0x7FFFFFFE, 0xFFFF0000, 0xFFFFFFFB]))
    words = sorted(set([(h1 << 32) | h0 for h1 in halves for h0 in halves] +
                       [P - 2, P - 1, P, P + 1, P + 2, 2**63 - 1, 2**63, 2**63 + 1, 2**64 - 2**32, 2**64 - 2**32 - 1]))
    canon = [w for w in words if w < P]
    cases = []
    for arch in ARCHS:
        sparse = lambda name, k: arch != ARCHS[0] and info['same'].get(name) and k % 5    # same text: a subset
        cases += [('mul', arch, a, b) for a in words for b in words]
        for k, (a, b) in enumerate((a, b) for a in canon for b in canon):
            if not sparse('Add', k):
                cases.append(('add', arch, a, b))
            if not sparse('Sub', k):
                cases.append(('sub', arch, a, b))
        cases += [('mulw', arch, a, h) for a in words for h in halves]
        for a in words:
            cases += [('sqr', arch, a, 0), ('red', arch, a, 0)]
        for a in canon:
            cases += [('cneg', arch, a, 1), ('cneg', arch, a, 0)]
        for d in range(-4, 5):
            for base in (0, P, 2**64, 2**32):
                x = (base + d) % 2**64
                cases += [('red', arch, x, 0), ('sqr', arch, x, 0), ('cneg', arch, x % P, 1), ('mulraw', arch, x, (x * 3) % 2**64)]
    rng = vlib.Rng(seed)
    ops = ['mul', 'add', 'sub', 'mulw', 'mul', 'sqr', 'cneg', 'red', 'mul', 'mulraw']
    for i in range(6000 if tier == 'quick' else 80000):
        op, arch, a, b = ops[i % len(ops)], ARCHS[(i // len(ops)) % 2], rng.word(), rng.word()
        if op in CANON_OPS:
            a, b = a % P, b % P
        cases.append((op, arch, a, (b & 1) if op == 'cneg' else (b & 0xFFFFFFFF) if op == 'mulw' else b))
    return cases


def write_cases(path, cases):
    with open(path, 'w') as f:
        for op, arch, a, b in cases:
            f.write('%s %d 0x%x 0x%x\n' % (op, arch, a, b))


def replay_phase(ck, wd, exe, cases, label, tag):
    cpath = os.path.join(wd, 'cases_%s.txt' % tag); tpath = os.path.join(wd, 'trace_%s.ndjson' % tag)
    write_cases(cpath, cases)
    r = sh([exe, cpath, tpath], timeout=600)
    if r.returncode != 0 and 'self-test' in r.stderr:
        raise Infra('tools/ptx_prims.hpp contradicts its __int128 definitions: ' + r.stderr[-400:])
    if r.returncode != 0:
        ck.note('infrastructure: PTX executor driver ended with rc=%d: %s' % (r.returncode, r.stderr[-200:]))
        return
    m = re.search(r'self-test passed \((\d+) comparisons\)', r.stderr)
    if m:
        ck.cov['prims_selftest_comparisons'] = int(m.group(1))
    v = validate_trace(wd, 'Trace_Gpu', 'Trace_Gpu.cfg', tpath, max_rejects=6)
    ck.add_validation(v, label)
    ck.sample_trace(tpath)
    for msg in v['infra']:
        ck.note('infrastructure: ' + msg)
    seen = set()
    for idx, rec in v['rejected']:
        case = cases[rec.get('ci', 1) - 1]
        if (case[0], case[1]) in seen or len(seen) >= 8:
            continue                         # one witness per operation and arch variant is enough
        seen.add((case[0], case[1]))
        c2 = os.path.join(wd, 'confirm.txt'); t2 = os.path.join(wd, 'confirm.ndjson')
        write_cases(c2, [case]); sh([exe, c2, t2], timeout=60)
        v2 = validate_trace(wd, 'Trace_Gpu', 'Trace_Gpu.cfg', t2, nsplit=1)
        got = '0x%016x' % vlib.unw64(rec['r'])
        if not v2['rejected']:
            ck.note('rejection at event %d not reproduced on re-run; ignored as flaky' % idx)
        elif case[0] in INTERNAL:
            ck.note('drift (internal step, not a verdict): %s arch=%d a=0x%x b=0x%x returns %s' % (case + (got,)))
        else:
            ck.violation('op=%s arch=%d a=0x%x b=0x%x' % case,
                         'the PTX of gl64_t.cuh (%s, __CUDA_ARCH__ %s 700) returns %s, which is not the canonical field result' %
                         (case[0], '>=' if case[1] >= 700 else '<', got), dict(cases=[list(case)], event=rec))
    if len(v['rejected']) > len(seen):
        ck.note('%d further rejected records not individually confirmed' % (len(v['rejected']) - len(seen)))


def run(tier, seed, replay=None):
    import ptx2tla
    ck = Check('C20', tier, seed)
    wd = workdir('C20')
    ck.assumptions += ['no GPU execution: the PTX subset semantics of spec/Ptx.tla / tools/ptx_prims.hpp is the trusted base '
                       '(unit-tested against arithmetic definitions: MC_Ptx by TLC at small widths, ptx_prims.hpp against __int128)',
                       'every asm operand is its own register (nvcc allocates one virtual PTX register per operand; "&" changes nothing)',
                       'PTX mul/mad are trusted primitives: at w=32 their products are universally quantified symbols; that the '
                       'symbols recombine to a*b is checked exhaustively at w<=5 (MC_Gl64!InvFree)',
                       'fully reduced configuration (GL64_PARTIALLY_REDUCED, GL64_NO_REDUCTION_KLUDGE undefined); host preprocessor',
                       'the carry flag is not assumed to survive between asm statements; asm inputs are read at statement entry']
    rj = json.load(open(replay))['case'] if replay else None
    if rj and 'table' in rj:
        tables_phase(ck, wd, rows=[rj['row'] + 1])
        return ck.finish()
    try:
        gendir, info = ptx2tla.write(os.path.join(vlib.REPO, 'src'), wd, wd)
    except ptx2tla.ParseError as e:
        ck.note('model not derived from current source (ptx2tla: %s); no executor, arithmetic not explored' % e)
        ck.cov['model_derived'] = False
        if not rj:
            tables_phase(ck, wd)
        return ck.finish()
    ck.cov['model_derived'] = True
    ck.cov['ptx_operators_used'] = info['prims']
    ck.cov['header_constants'] = info['consts']
    for k in ('MulFree', 'MulWFree'):
        if not info['free_ok'][k]:
            ck.note('the 32x32 products of %s are not the ones the hand-written full-width invariants name; the free-product '
                    'obligations are left out (the products stay covered by TLC at small widths and by the replay)' % k[:-4])
    ck.cov['generated_ssa_instructions'] = info['insns']
    ck.cov['arch_independent_text'] = sorted(k for k, v in info['same'].items() if v)
    exe = build_driver('drv_ptx', extra=['-I' + gendir], libs=(), with_lib=False, omp=False)
    if rj:
        replay_phase(ck, wd, exe, [tuple(c) for c in rj['cases']], 'replay of %s' % replay, 'replay')
        return ck.finish()
    with ThreadPoolExecutor(max_workers=1) as bg:
        fut = bg.submit(apa_models, ck, wd, tier, info)          # Apalache runs while TLC, tables and replay proceed
        ptx_unit_tests(ck, wd, tier)
        leads = tlc_models(ck, wd, tier, info)
        tables_phase(ck, wd)
        cases = leads + gen_cases(seed, tier, info)
        replay_phase(ck, wd, exe, cases, 'PTX executor runs (%d cases incl. %d model leads)' % (len(cases), len(leads)), 'main')
        late = apa_leads(ck, fut.result())
    if late:
        replay_phase(ck, wd, exe, late, 'PTX executor runs of %d Apalache leads' % len(late), 'apa')
    if (leads or late) and not ck.violations:
        ck.note('model-inconclusive: model-level counterexamples were not reproduced by the executor on operand pairs')
    ck.cov['cases'] = len(cases) + len(late)
    ck.cov['exhaustive'] = False
    return ck.finish()
