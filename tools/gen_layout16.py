#!/usr/bin/env python3
"""C16: the overload table of the batched / AVX2 / AVX512 add, sub, mul families of Goldilocks3 and its generators.

The ONE source of truth is tools/overloads16.json (one row per overload).  This tool
  draft   : drafts the table mechanically from the declarations of <repo>/src/goldilocks_cubic_extension.hpp and the
            naming scheme ("3" extension operand, "1" base-field operand, "c" suffix = constant broadcast to all lanes,
            first digit operand a, second operand b; _batch/_avx = 4 lanes, _avx512 = 8 lanes; stride_x / offset_x /
            stride0 / stride1 scalar = uniform stride, the same as an array = per-element offsets).  The draft was then
            reviewed row by row against every implementation and its _batch sibling; deviations of the reviewed table
            from what the naming scheme suggests are recorded in REVIEW below and in the row's "note".
  tla     : writes spec/Overloads16.tla (the table as a TLA+ function id -> record)
  cpp     : writes the generated C++ call sites (one per row of a build variant) into a directory
  check   : compares the table with the declarations of the current tree (added / removed / changed overloads)
Descriptor of an operand (a, b) or of the result (c):
  elem : "ext" (3 coefficients) | "base" (1)
  kind : "regs"   three planar registers passed as Goldilocks3::Element_avx / Element_avx512 (register i = coefficient i)
         "regs3"  three planar registers passed as three separate __m256i / __m512i parameters
         "reg"    one register holding the base-field operand of every lane
         "contig" interleaved array, element k at [k*W .. k*W+W-1]  (W = 3 for ext, 1 for base)
         "stride" interleaved array, element k at [k*s .. k*s+W-1], s = the parameter named in "param"
         "index"  element k at [idx[k] .. idx[k]+W-1], idx = the array parameter named in "param"
         "const"  one element broadcast to all lanes: ext -> pointer/reference to 3 coefficients, base -> by value
  pass : "ref" when an ext constant is passed as Goldilocks3::Element& (otherwise a pointer)
  pbits: 32 when the stride parameter is a uint32_t
Alias modes of a row (alias_modes, mirrors Layout16!Aliasable): the result may be the SAME object as extension operand x when
both are planar register triples (regs / regs3) or both are interleaved arrays (contig / stride / index) addressed identically.
aux: "none" | "const" (pointer to the three precomputed sums b0+b1, b0+b2, b1+b2 of a constant b) |
     "regs3" (three registers holding these sums per lane)."""
import json, os, re, sys, argparse

HERE = os.path.dirname(os.path.abspath(__file__))
TABLE = os.path.join(HERE, 'overloads16.json')
HDR = 'goldilocks_cubic_extension.hpp'
DECL = re.compile(r'^\s*static inline void ((?:add|sub|mul)[0-9c]*_(?:batch|avx512|avx))\((.*)\)\s*$')
CODE = dict(regs='R', regs3='T', reg='V', contig='C', stride='S', index='I', const='K')

# Reviewed deviations from what names alone suggest (key: (name, position among same-name overloads in file order)).
REVIEW = {
    ('mul_batch', 0): dict(note='name has no "c", but b is used as ONE constant element b[0..2] for all lanes and b_[3] '
                                'carries its precomputed sums (challenge variant); definition is still a_k * b',
                           b=dict(elem='ext', kind='const')),
    ('sub33c_avx', 3): dict(note='named 33c, but b is a planar register triple with its own value in every lane (not a broadcast '
                                 'constant): element k of the result is a_k - b_k'),
}


def norm_sig(params):
    return ', '.join(re.sub(r'\s+', ' ', p.strip()) for p in params)


def split_params(s):
    return [p.strip() for p in s.split(',') if p.strip()]


def parse_param(p):
    """-> (type-class, name, is_array)"""
    m = re.match(r'^(.*?)(\w+)\s*(\[[^\]]*\])?$', p.strip())
    ty, name, arr = m.group(1).strip(), m.group(2), m.group(3)
    t = ty.replace('const', '').strip()
    t = re.sub(r'\s+', ' ', t)
    if t in ('Goldilocks3::Element_avx', 'Goldilocks3::Element_avx &', 'Goldilocks3::Element_avx512', 'Goldilocks3::Element_avx512 &'):
        cls = 'EAVX'
    elif t in ('__m256i &', '__m512i &', '__m256i', '__m512i'):
        cls = 'M'
    elif t == 'Goldilocks::Element *':
        cls = 'PTR'
    elif t == 'Goldilocks::Element' and arr:
        cls = 'PTR3'            # Goldilocks::Element b_[3]
    elif t == 'Goldilocks::Element':
        cls = 'VAL'
    elif t == 'Element &':
        cls = 'REF3'
    elif t in ('uint64_t', 'uint32_t'):
        cls = 'UARR' if arr else ('U32' if t == 'uint32_t' else 'U')
    else:
        raise ValueError('unclassified parameter: ' + p)
    return cls, name


def declarations(repo):
    out = []
    seen = {}
    for ln, line in enumerate(open(os.path.join(repo, 'src', HDR)), 1):
        m = DECL.match(line.rstrip('\n'))
        if m:
            name, params = m.group(1), split_params(m.group(2))
            k = seen.get(name, 0); seen[name] = k + 1
            out.append(dict(name=name, ord=k, line=ln, params=params, sig=norm_sig(params)))
    return out


def draft_row(d):
    name, params = d['name'], d['params']
    m = re.match(r'^(add|sub|mul)((\dc?)(\dc?))?_(batch|avx512|avx)$', name)
    op, sa, sb, fam = m.group(1), m.group(3) or '3', m.group(4) or '3', m.group(5)
    L = 8 if fam == 'avx512' else 4
    pp = [parse_param(p) for p in params]
    i = 0
    call = []
    desc = {}
    # ---- result
    cls, nm = pp[0]
    if cls == 'EAVX':
        desc['c'] = dict(elem='ext', kind='regs'); call.append('{c}'); i = 1
    elif cls == 'M':
        assert [x[0] for x in pp[:3]] == ['M', 'M', 'M']
        desc['c'] = dict(elem='ext', kind='regs3'); call.append('{c}'); i = 3
    elif cls == 'PTR':
        desc['c'] = dict(elem='ext', kind='contig'); call.append('{c}'); i = 1
        if i < len(pp) and pp[i][1] == 'stride_c':
            if pp[i][0] == 'U':
                desc['c'] = dict(elem='ext', kind='stride', param='stride_c'); call.append('{sc}')
            else:
                desc['c'] = dict(elem='ext', kind='index', param='stride_c'); call.append('{ic}')
            i += 1
    else:
        raise ValueError('result? ' + str(pp[0]))
    aux = 'none'
    # ---- operands a, b
    for X, shp in (('a', sa), ('b', sb)):
        elem = 'ext' if shp[0] == '3' else 'base'
        cls, nm = pp[i]
        if cls == 'EAVX':
            desc[X] = dict(elem='ext', kind='regs'); call.append('{%s}' % X); i += 1
        elif cls == 'M':
            if nm.endswith('0_'):
                desc[X] = dict(elem='ext', kind='regs3'); call.append('{%s}' % X); i += 3
            else:
                desc[X] = dict(elem='base', kind='reg'); call.append('{%s}' % X); i += 1
        elif cls == 'PTR':
            desc[X] = dict(elem=elem, kind='const' if shp.endswith('c') else 'contig'); call.append('{%s}' % X); i += 1
        elif cls == 'VAL':
            desc[X] = dict(elem='base', kind='const'); call.append('{%s}' % X); i += 1
        elif cls == 'REF3':
            desc[X] = dict(elem='ext', kind='const'); desc[X]['pass'] = 'ref'; call.append('{%s}' % X); i += 1
        else:
            raise ValueError('operand %s? %s' % (X, pp[i]))
        # stride / index parameters that sit between the operands (result-first shapes: c, stride_c, a, b_, stride_a)
    # ---- trailing: aux, strides
    while i < len(pp):
        cls, nm = pp[i]
        if cls == 'PTR3':
            aux = 'const'; call.append('{aux}'); i += 1
        elif cls == 'M' and nm.startswith('aux0'):
            aux = 'regs3'; call.append('{aux}'); i += 3
        elif cls in ('U', 'U32', 'UARR'):
            if nm in ('stride_a', 'offset_a', 'stride0'):
                X = 'a'
            elif nm in ('stride_b', 'offset_b', 'stride1'):
                X = 'b'
            elif nm == 'stride':
                cand = [Y for Y in 'ab' if desc[Y]['kind'] == 'contig']
                assert len(cand) == 1, (name, cand)
                X = cand[0]
            else:
                raise ValueError('stride parameter? ' + nm)
            assert desc[X]['kind'] == 'contig', (name, X, desc[X])
            desc[X]['kind'] = 'index' if cls == 'UARR' else 'stride'
            desc[X]['param'] = nm
            if cls == 'U32':
                desc[X]['pbits'] = 32              # the stride parameter is a uint32_t: strides >= 2^32 cannot be passed
            call.append('{i%s}' % X if cls == 'UARR' else '{s%s}' % X)
            i += 1
        else:
            raise ValueError('trailing? %s in %s' % (pp[i], name))
    row = dict(name=name, line=d['line'], op=op, L=L, variant='avx512' if L == 8 else 'avx2', sig=d['sig'],
               a=desc['a'], b=desc['b'], c=desc['c'], aux=aux, call='Goldilocks3::%s(%s)' % (name, ', '.join(call)), note='')
    rv = REVIEW.get((name, d['ord']))
    if rv:
        for k, v in rv.items():
            row[k] = v
    row['id'] = '%s.%s_%s_%s%s' % (name, CODE[row['c']['kind']], CODE[row['a']['kind']], CODE[row['b']['kind']], 'x' if row['aux'] != 'none' else '')
    return row


def draft(repo):
    rows = [draft_row(d) for d in declarations(repo)]
    ids = [r['id'] for r in rows]
    assert len(set(ids)) == len(ids), [i for i in ids if ids.count(i) > 1]
    return rows


def load():
    return json.load(open(TABLE))['rows']


def family(r):
    return '%s/%s' % (r['op'], 'batch' if r['name'].endswith('_batch') else ('avx512' if r['L'] == 8 else 'avx'))


def lax_sig(sig):
    """signature up to cv / reference qualifiers"""
    out = []
    for p in sig.split(', '):
        p = re.sub(r'\bconst\b', '', p).replace('&', ' ')
        out.append(re.sub(r'\s+', ' ', p).strip().replace(' *', '*').replace('* ', '*'))
    return ', '.join(out)


def match_rows(repo):
    """-> (live rows, lax rows {id: current signature}, missing_in_table [(name, sig)], gone row ids)
    A row whose exact signature is gone but whose signature up to const / & qualifiers is still declared (and is not the
    exact signature of another row) stays live; its call site then uses plain overload resolution."""
    decl = declarations(repo)
    rows = load()
    dset = {(d['name'], d['sig']) for d in decl}
    tset = {(r['name'], r['sig']) for r in rows}
    spare = [d for d in decl if (d['name'], d['sig']) not in tset]
    live, lax, gone = [], {}, []
    for r in rows:
        if (r['name'], r['sig']) in dset:
            live.append(r)
            continue
        cand = [d for d in spare if d['name'] == r['name'] and lax_sig(d['sig']) == lax_sig(r['sig'])]
        if len(cand) == 1:
            spare.remove(cand[0])
            lax[r['id']] = cand[0]['sig']
            live.append(r)
        else:
            gone.append(r['id'])
    return live, lax, sorted((d['name'], d['sig']) for d in spare), gone


REGK = ('regs', 'regs3')
ARRK = ('contig', 'stride', 'index')


def alias_modes(r):
    """operands the result may be aliased to (mirrors Layout16!Aliasable)"""
    out = []
    for X in 'ab':
        d = r[X]
        if d['elem'] == 'ext' and ((r['c']['kind'] in REGK and d['kind'] in REGK) or (r['c']['kind'] in ARRK and d['kind'] in ARRK)):
            out.append(X)
    return out


def check_against(repo):
    """table vs. the declarations in the tree under check: (missing_in_table, not_declared_any_more)"""
    decl = {(d['name'], d['sig']) for d in declarations(repo)}
    tab = {(r['name'], r['sig']) for r in load()}
    return sorted(decl - tab), sorted(tab - decl)


# ------------------------------------------------------------------------------------------------------ TLA+
def tla_desc(d):
    return '[elem |-> "%s", kind |-> "%s", param |-> "%s"]' % (d['elem'], d['kind'], d.get('param', ''))


def gen_tla(rows, path):
    o = ['---- MODULE Overloads16 ----',
         '(* GENERATED by tools/gen_layout16.py from tools/overloads16.json -- do not edit.',
         '   The table of the %d batched / AVX2 / AVX512 add, sub, mul overloads of Goldilocks3: id -> descriptors. *)' % len(rows),
         'EXTENDS TLC', 'Table16 ==']
    parts = []
    for r in rows:
        parts.append('  ("%s" :> [name |-> "%s", op |-> "%s", lanes |-> %d, variant |-> "%s", aux |-> "%s",\n      a |-> %s,\n      b |-> %s,\n      c |-> %s])'
                     % (r['id'], r['name'], r['op'], r['L'], r['variant'], r['aux'], tla_desc(r['a']), tla_desc(r['b']), tla_desc(r['c'])))
    o.append(' @@\n'.join(parts))
    o.append('Ids16 == DOMAIN Table16')
    o.append('====')
    open(path, 'w').write('\n'.join(o) + '\n')


# ------------------------------------------------------------------------------------------------------ C++
KINDS = dict(regs='K_REGS', regs3='K_REGS3', reg='K_REG', contig='K_CONTIG', stride='K_STRIDE', index='K_INDEX', const='K_CONST')


def cpp_arg(X, d, L):
    v = 'v8' if L == 8 else 'v4'
    R = dict(a='x.A', b='x.B', c='x.C')[X]
    k = d['kind']
    if k == 'regs':
        return '%s.%s' % (R, v)
    if k == 'regs3':
        return '%s.%s[0], %s.%s[1], %s.%s[2]' % (R, v, R, v, R, v)
    if k == 'reg':
        return '%s.%s[0]' % (R, v)
    if k == 'const' and d['elem'] == 'base':
        return 'x.v%s' % X
    if k == 'const' and d.get('pass') == 'ref':
        return '*(Goldilocks3::Element *)x.p%s' % X
    return 'x.p%s' % X


def cpp_ptype(p):
    m = re.match(r'^(.*?)(\w+)\s*(\[[^\]]*\])?$', p.strip())
    ty, arr = m.group(1).strip(), m.group(3) or ''
    if ty == 'Element &':
        ty = 'Goldilocks3::Element &'
    return ty + ' ' + arr if arr else ty


def cpp_fnptr(r):
    """the overload is selected by its exact declared signature, not by overload resolution on the arguments"""
    return 'static_cast<void (*)(%s)>(&Goldilocks3::%s)' % (', '.join(cpp_ptype(p) for p in r['sig'].split(', ')), r['name'])


def cpp_call(r, alias=None, lax=False):
    """alias = 'a' / 'b' (register rows): the operand is the SAME register triple as the result (x.C)"""
    L = r['L']
    v = 'v8' if L == 8 else 'v4'
    da, db = dict(r['a']), dict(r['b'])
    args = {'a': cpp_arg('a', da, L), 'b': cpp_arg('b', db, L)}
    if alias:
        args[alias] = cpp_arg('c', r[alias], L)       # the operand's own passing style (regs / regs3), the result's registers
    sub = {'{a}': args['a'], '{b}': args['b'], '{c}': cpp_arg('c', r['c'], L),
           '{sa}': 'x.sa', '{sb}': 'x.sb', '{sc}': 'x.sc', '{ia}': 'x.ia', '{ib}': 'x.ib', '{ic}': 'x.ic',
           '{aux}': 'x.px' if r['aux'] == 'const' else 'x.X.%s[0], x.X.%s[1], x.X.%s[2]' % (v, v, v)}
    s = r['call']
    for k, val in sub.items():
        s = s.replace(k, val)
    assert '{' not in s, s
    assert s.startswith('Goldilocks3::%s(' % r['name'])
    if lax:
        return s
    return cpp_fnptr(r) + s[len('Goldilocks3::' + r['name']):]


def cpp_desc(d):
    return '{%d, l16::%s}' % (3 if d['elem'] == 'ext' else 1, KINDS[d['kind']])


def cpp_site(fn, r, alias, laxrow):
    """one call site; pinned to the exact declared signature unless the row is lax or the unit is built with -DLAX_SIG"""
    if laxrow:
        return 'static void %s(l16::Ctx &x) { %s; }' % (fn, cpp_call(r, alias, True))
    return '#ifdef LAX_SIG\nstatic void %s(l16::Ctx &x) { %s; }\n#else\nstatic void %s(l16::Ctx &x) { %s; }\n#endif' % (
        fn, cpp_call(r, alias, True), fn, cpp_call(r, alias, False))


def gen_cpp(rows, variant, outdir, nparts, lax=()):
    rows = [r for r in rows if r['variant'] == variant]
    os.makedirs(outdir, exist_ok=True)
    files = []
    for p in range(nparts):
        part = rows[p::nparts]
        o = ['// GENERATED by tools/gen_layout16.py (variant %s, part %d of %d) -- one call site per table row' % (variant, p, nparts),
             '#include "rt16.hpp"']
        for j, r in enumerate(part):
            o.append('// %s  (header line %d)  %s' % (r['id'], r['line'], r['sig']))
            o.append(cpp_site('call_%d_%d' % (p, j), r, None, r['id'] in lax))
            for X in alias_modes(r):
                if r['c']['kind'] in REGK:
                    o.append(cpp_site('call_%d_%d_%s' % (p, j, X), r, X, r['id'] in lax))
        o.append('void l16_register_%d(std::vector<l16::Row> &t)\n{' % p)
        for j, r in enumerate(part):
            al = alias_modes(r)
            regal = r['c']['kind'] in REGK
            o.append('    t.push_back(l16::Row{"%s", l16::OP_%s, %d, %s, %s, %s, l16::AUX_%s, call_%d_%d, %s, %s, %s, %s});' %
                     (r['id'], r['op'].upper(), r['L'], cpp_desc(r['a']), cpp_desc(r['b']), cpp_desc(r['c']), r['aux'].upper(), p, j,
                      'call_%d_%d_a' % (p, j) if 'a' in al and regal else 'nullptr', 'call_%d_%d_b' % (p, j) if 'b' in al and regal else 'nullptr',
                      'true' if 'a' in al else 'false', 'true' if 'b' in al else 'false'))
        o.append('}')
        f = os.path.join(outdir, 'gen16_%s_%d.cpp' % (variant, p))
        open(f, 'w').write('\n'.join(o) + '\n')
        files.append(f)
    o = ['// GENERATED: registration of all parts', '#include "rt16.hpp"']
    for p in range(nparts):
        o.append('void l16_register_%d(std::vector<l16::Row> &t);' % p)
    o.append('void l16_register_all(std::vector<l16::Row> &t)\n{')
    for p in range(nparts):
        o.append('    l16_register_%d(t);' % p)
    o.append('}')
    f = os.path.join(outdir, 'gen16_%s_reg.cpp' % variant)
    open(f, 'w').write('\n'.join(o) + '\n')
    files.append(f)
    return files, rows


def main():
    ap = argparse.ArgumentParser()
    ap.add_argument('cmd', choices=['draft', 'tla', 'cpp', 'check', 'list'])
    ap.add_argument('--repo', default=os.environ.get('VERIF_REPO', '/repo'))
    ap.add_argument('--variant', default='avx2')
    ap.add_argument('--out', default=None)
    ap.add_argument('--parts', type=int, default=4)
    a = ap.parse_args()
    if a.cmd == 'draft':
        json.dump(dict(comment='C16 overload table; see tools/gen_layout16.py for the meaning of the fields', rows=draft(a.repo)),
                  sys.stdout, indent=1)
        print()
    elif a.cmd == 'tla':
        gen_tla(load(), a.out or os.path.join(os.path.dirname(HERE), 'spec', 'Overloads16.tla'))
    elif a.cmd == 'cpp':
        files, rows = gen_cpp(load(), a.variant, a.out, a.parts)
        print('\n'.join(files))
    elif a.cmd == 'check':
        miss, gone = check_against(a.repo)
        print('declared but not in table:', miss)
        print('in table but not declared:', gone)
    elif a.cmd == 'list':
        for r in load():
            print('%-28s L%d %-6s line %4d  c=%s/%s a=%s/%s%s b=%s/%s%s aux=%s' % (
                r['id'], r['L'], r['op'], r['line'], r['c']['elem'], r['c']['kind'], r['a']['elem'], r['a']['kind'],
                '(' + r['a'].get('param', '') + ')' if r['a'].get('param') else '', r['b']['elem'], r['b']['kind'],
                '(' + r['b'].get('param', '') + ')' if r['b'].get('param') else '', r['aux'] + ' alias=' + ','.join(alias_modes(r))))


if __name__ == '__main__':
    main()
