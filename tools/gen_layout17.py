#!/usr/bin/env python3
"""C17: the overload table tools/overloads17.json is the single source of truth for the strided / offset / broadcast
base-field helper API.  This tool

  draft   parses the declarations of goldilocks_base_field.hpp ("Batched operations", "implementations for expressions",
          the AVX512 block, plus the plain load/store helpers) and drafts one row per overload from the parameter types
          and the naming scheme (offset_a / offset1 / offsets1 -> operand a, offset_b / offset2 -> operand b, offset_c /
          stride_dst -> result, `stride` -> the array parameter it follows; `uint64_t x` = stride, `uint64_t x[4]` =
          per-lane index list, `const Element b` = broadcast, `const Element &src` = broadcast by reference).
          The committed table is this draft after a row-by-row review against the implementation text.
  review  derives the same descriptors a second time from the *bodies* of the definitions (index expressions
          `x[k * off]`, `x[off[k]]`, `x[k]`) and prints every row where the two readings differ (a review aid only: the
          table states what the API means, it is never generated from the bodies).
  check   compares the table with the declarations / definitions of a source tree (rows whose overload is declared but
          has no definition, declarations without a row, rows without a declaration).
  gen DIR [--inc [--lax]]  writes Overloads17.tla (the table as a TLA+ function id -> record) into DIR (spec/ for the committed
          copy) and, with --inc, the generated part of the C++ driver (DIR/<variant>/layout17_rows.inc, one call site
          per row of that build variant; lib/c17.py writes these into its work directory)."""
import json, os, re, sys, hashlib

HERE = os.path.dirname(os.path.abspath(__file__))
TABLE = os.path.join(HERE, 'overloads17.json')
IMPL = ['goldilocks_base_field_batch.hpp', 'goldilocks_base_field_avx.hpp', 'goldilocks_base_field_avx512.hpp']
FN_RE = r'(?:copy|add|sub|mul)_(?:batch|avx512|avx)|(?:load|store)_(?:avx512|avx)(?:_a)?'


def strip_comments(t):
    t = re.sub(r'/\*.*?\*/', lambda m: re.sub(r'[^\n]', ' ', m.group(0)), t, flags=re.S)
    return re.sub(r'//[^\n]*', '', t)


def parse_params(ps):
    out = []
    for p in [x.strip() for x in ps.split(',') if x.strip()]:
        p = p.replace('Goldilocks::', '')
        m = re.match(r'^(.*?)([A-Za-z_][A-Za-z_0-9]*)\s*(\[[^\]]*\])?$', p)
        ty, name, arr = m.group(1).strip(), m.group(2), m.group(3)
        ty = re.sub(r'\s+', ' ', ty).replace(' *', '*').replace(' &', '&')
        if arr:
            ty += '*'
        # top-level const of by-value parameters is not part of the signature
        if ty.startswith('const ') and not (ty.endswith('*') or ty.endswith('&')):
            ty = ty[6:]
        out.append(dict(type=ty, name=name, arr=bool(arr)))
    return out


def norm_sig(fn, params):
    return '%s(%s)' % (fn, ','.join(p['type'] for p in params))


def parse_decls(repo):
    t = strip_comments(open(os.path.join(repo, 'src', 'goldilocks_base_field.hpp')).read())
    out = []
    for m in re.finditer(r'static\s+void\s+(%s)\s*\(([^)]*)\)\s*;' % FN_RE, t):
        ps = parse_params(m.group(2))
        if m.group(1).split('_')[0] in ('add', 'sub') and all('__m' in p['type'] for p in ps):
            continue      # raw lane kernels add_avx(c, a, b) / sub_avx / add_avx512 / sub_avx512: other properties (C02 / C11)
        out.append(dict(fn=m.group(1), params=ps, sig=norm_sig(m.group(1), ps), line=t[:m.start()].count('\n') + 1,
                        text=re.sub(r'\s+', ' ', m.group(0))))
    return out


def parse_defs(repo):
    """normalised signature -> body text, for every out-of-comment definition in the implementation headers"""
    out = {}
    for f in IMPL:
        p = os.path.join(repo, 'src', f)
        if not os.path.exists(p):
            continue
        t = strip_comments(open(p).read())
        for m in re.finditer(r'inline\s+void\s+Goldilocks::(%s)\s*\(([^)]*)\)\s*\{' % FN_RE, t):
            ps = parse_params(m.group(2))
            i = m.end(); depth = 1
            while depth and i < len(t):
                depth += {'{': 1, '}': -1}.get(t[i], 0); i += 1
            out[norm_sig(m.group(1), ps)] = dict(body=t[m.end():i - 1], params=ps, file=f)
    return out


def family_of(fn):
    return 'batch' if fn.endswith('_batch') else ('avx512' if 'avx512' in fn else 'avx')


def draft_row(d):
    fn = d['fn']; fam = family_of(fn)
    op = fn.split('_')[0]
    section = 'expr'
    if op in ('load', 'store'):
        op = 'copy'; section = 'loadstore'
    L = 8 if fam == 'avx512' else 4
    desc = dict(a=None, b=None, c=None)
    args = []
    lastptr = None
    pend = []          # (operand, kind, param) attachments
    for p in d['params']:
        ty, nm = p['type'], p['name']
        if ty in ('Element*', '__m256i&', '__m512i&'):
            desc['c'] = dict(kind='reg' if 'm' in ty[:3] else 'contig'); lastptr = 'c'
            args.append('{c.%s}' % ('reg' if desc['c']['kind'] == 'reg' else 'ptr'))
        elif ty in ('const __m256i&', 'const __m512i&'):
            o = 'b' if nm.startswith('b') else 'a'
            desc[o] = dict(kind='reg'); args.append('{%s.reg}' % o)
        elif ty == 'const Element*':
            o = 'b' if (nm.startswith('b') or nm == 'in2') else 'a'
            desc[o] = dict(kind='contig'); lastptr = o; args.append('{%s.ptr}' % o)
        elif ty in ('Element', 'const Element&'):
            o = 'b' if (nm.startswith('b') or nm == 'in2') else 'a'
            desc[o] = dict(kind='scalar', byref=ty.endswith('&')); args.append('{%s.%s}' % (o, 'ref' if ty.endswith('&') else 'val'))
        elif ty in ('uint64_t', 'uint64_t*', 'const uint64_t*'):
            kind = 'index' if ty.endswith('*') else 'stride'
            if re.search(r'(_a|1)$', nm):
                o = 'a'
            elif re.search(r'(_b|2)$', nm):
                o = 'b'
            elif re.search(r'(_c|_dst)$', nm):
                o = 'c'
            elif nm == 'stride':
                o = lastptr
            else:
                raise SystemExit('cannot attach %s in %s' % (nm, d['text']))
            pend.append((o, kind, nm)); args.append('{%s.%s}' % (o, 'idx' if kind == 'index' else 'stride'))
        else:
            raise SystemExit('unknown parameter type %s in %s' % (ty, d['text']))
    for o, kind, nm in pend:
        if desc[o] is None or desc[o]['kind'] != 'contig':
            raise SystemExit('%s attaches to a non-array operand in %s' % (nm, d['text']))
        desc[o] = dict(kind=kind, par=nm)
    for o in 'abc':
        if desc[o] is None:
            desc[o] = dict(kind='none')
        desc[o].setdefault('par', ''); desc[o].setdefault('byref', False)
    ctypes = ', '.join(p['type'].replace('Element', 'Goldilocks::Element') for p in d['params'])
    return dict(fn=fn, family=fam, section=section, op=op, L=L, variant='avx512' if fam == 'avx512' else 'avx2',
                aligned=fn.endswith('_a'), decl=d['text'], sig=d['sig'], ctype='void (*)(%s)' % ctypes,
                call='Goldilocks::%s(%s)' % (fn, ', '.join(args)), a=desc['a'], b=desc['b'], c=desc['c'])


def draft(repo):
    decls = parse_decls(repo); defs = parse_defs(repo)
    rows = []; cnt = {}
    for d in decls:
        r = draft_row(d)
        k = (r['family'], r['fn'].split('_')[0])
        cnt[k] = cnt.get(k, 0) + 1
        r['id'] = '%s.%s.%02d' % (k[0], k[1], cnt[k])
        r['defined'] = d['sig'] in defs
        rows.append(dict([('id', r.pop('id'))] + list(r.items())))
    return rows


def body_desc(body, pname, offname):
    """reading of an operand from the implementation text: how is array `pname` indexed?"""
    uses = re.findall(r'\b%s\s*\[((?:[^\[\]]|\[[^\]]*\])*)\]' % re.escape(pname), body)
    kinds = set()
    for u in uses:
        u = u.replace(' ', '')
        if re.fullmatch(r'[ik]', u) or re.fullmatch(r'[0-3]', u):
            kinds.add('contig')
        elif re.fullmatch(r'[ik]\*(\w+)|(\w+)|[23]\*(\w+)', u) and not re.fullmatch(r'\w+\[[ik]\]', u):
            kinds.add('stride:' + (re.sub(r'^([ik0-9]\*)', '', u)))
        elif re.fullmatch(r'(\w+)\[[ik]\]', u):
            kinds.add('index:' + u.split('[')[0])
        else:
            kinds.add('?:' + u)
    return kinds


def review(repo, table):
    defs = parse_defs(repo); n = 0
    for r in table:
        if r['sig'] not in defs:
            print('%-16s no definition' % r['id']); continue
        d = defs[r['sig']]; body = d['body']
        ph = re.findall(r'\{([abc])\.(\w+)\}', r['call'])
        for (o, what), p in zip(ph, d['params']):
            if what != 'ptr':
                continue
            ks = body_desc(body, p['name'], None)
            if not ks and re.search(r'(load|store)\w*\([^;]*\b%s\b' % p['name'], body) or \
                    (not ks and re.search(r'\(__m\d+i \*\)\(?%s\)?' % p['name'], body)):
                ks = {'contig'}           # whole-vector load / store
            want = r[o]['kind'] + ((':' + r[o]['par']) if r[o]['kind'] in ('stride', 'index') else '')
            if want.startswith('stride'):
                ok = ks <= {want, 'contig'} and want in ks      # dst[0], dst[stride], dst[2*stride] is a strided store
            else:
                ok = ks == {want}
            if not ok:
                n += 1
                print('%-16s operand %s: table says %s, body of %s reads as %s' % (r['id'], o, want, r['sig'], sorted(ks)))
    print('review: %d rows, %d differences' % (len(table), n))
    return n


def check(repo, table):
    decls = parse_decls(repo); defs = parse_defs(repo)
    dsig = {d['sig'] for d in decls}; tsig = {r['sig'] for r in table}
    return dict(no_row=sorted(dsig - tsig), no_declaration=sorted(tsig - dsig),
                undefined=sorted(r['id'] for r in table if r['sig'] in dsig and r['sig'] not in defs),
                table_says_undefined_but_defined=sorted(r['id'] for r in table if not r['defined'] and r['sig'] in defs))


# ------------------------------------------------------------------------------------------------ generation
def tla_desc(d):
    return '[kind |-> "%s", par |-> "%s", byref |-> %s]' % (d['kind'], d.get('par', ''), 'TRUE' if d.get('byref') else 'FALSE')


def gen_tla(table):
    L = ['---- MODULE Overloads17 ----',
         '(* GENERATED by tools/gen_layout17.py from tools/overloads17.json (sha256 %s) -- do not edit.' % table_hash(table),
         '   One row per overload of the batched / AVX2 / AVX512 copy, add, sub, mul helpers of goldilocks_base_field.hpp:',
         '   which operand is a register, a contiguous array, a strided array (parameter par carries the stride), an',
         '   indexed array (par carries the per-lane index list) or a broadcast element; where lane k of the result goes. *)',
         'EXTENDS TLC', 'Ov17 ==']
    for i, r in enumerate(table):
        L.append('  %s"%s" :> [id |-> "%s", fam |-> "%s", fn |-> "%s", sec |-> "%s", op |-> "%s", lanes |-> %d, variant |-> "%s", aligned |-> %s, defined |-> %s,'
                 % ('   ' if i == 0 else '@@ ', r['id'], r['id'], r['family'], r['fn'], r['section'], r['op'], r['L'], r['variant'],
                    'TRUE' if r['aligned'] else 'FALSE', 'TRUE' if r['defined'] else 'FALSE'))
        L.append('        a |-> %s, b |-> %s, c |-> %s]' % (tla_desc(r['a']), tla_desc(r['b']), tla_desc(r['c'])))
    L.append('Ov17Ids == DOMAIN Ov17')
    L.append('====')
    return '\n'.join(L) + '\n'


KIND_C = dict(none='K_NONE', reg='K_REG', contig='K_CONTIG', stride='K_STRIDE', index='K_INDEX', scalar='K_SCALAR')


def alias_modes(r):
    """aliasing modes a row's shapes allow (spec: Layout.tla AliasAllowed): sc / sa = the broadcast scalar argument is an lvalue
    inside the result array / inside the other operand's array; ca / cb = the result IS operand a / b (same pointer or register
    variable, same stride / index list)"""
    mem = ('contig', 'stride', 'index')
    m = []
    sc = [o for o in 'ab' if r[o]['kind'] == 'scalar']
    if sc and r['c']['kind'] in mem:
        m.append('sc')
    if any(r[o]['kind'] == 'scalar' and r['ab'.replace(o, '')]['kind'] in mem for o in 'ab'):
        m.append('sa')
    for o in 'ab':
        if r[o]['kind'] == r['c']['kind'] and r['c']['kind'] in mem + ('reg',):
            m.append('c' + o)
    return m


def gen_inc(table, variant, only=None):
    """one call site per row of this build variant.  CALLSIG(fn, signature) pins the call to the declared signature
    (static_cast) or, under LAX_SIG, leaves it to overload resolution (the argument expressions have exactly the declared
    types); only = restrict to these row ids"""
    L = ['// GENERATED by tools/gen_layout17.py from tools/overloads17.json (sha256 %s), variant %s -- do not edit.' % (table_hash(table), variant)]
    for r in table:
        if r['variant'] != variant or not r['defined'] or (only is not None and r['id'] not in only):
            continue
        reg = 'reg512()' if r['L'] == 8 else 'reg256()'
        call = r['call']
        args = call[call.index('(') + 1:-1]
        for o, O in (('a', 'x.A'), ('b', 'x.B'), ('c', 'x.C')):
            args = args.replace('{%s.ptr}' % o, '%s.ptr()' % O).replace('{%s.reg}' % o, '%s.%s' % (O, reg)) \
                       .replace('{%s.val}' % o, '%s.sref()' % O).replace('{%s.ref}' % o, '%s.sref()' % O) \
                       .replace('{%s.stride}' % o, '%s.stride' % O).replace('{%s.idx}' % o, '%s.idxp()' % O)
        def kc(d):
            return 'K_SCALARREF' if d['kind'] == 'scalar' and d.get('byref') else KIND_C[d['kind']]
        L.append('ROW("%s", OP_%s, %d, %s, %s, %s, %d, CALLSIG(%s, %s)(%s))'
                 % (r['id'], r['op'].upper(), r['L'], kc(r['a']), kc(r['b']), kc(r['c']), 1 if r['aligned'] else 0, r['fn'], r['ctype'], args))
    return '\n'.join(L) + '\n'


def gen_cfg(lax):
    """layout17_cfg.inc: build switches of the generated driver (kept out of the compiler flags so that the library objects
    are shared between the pinned and the lax build)"""
    return '// GENERATED by tools/gen_layout17.py\n' + ('#define LAX_SIG 1\n' if lax else '')


def table_hash(table):
    return hashlib.sha256(json.dumps(table, sort_keys=True).encode()).hexdigest()[:16]


def load_table(path=TABLE):
    return json.load(open(path))['rows']


def write_table(rows, path=TABLE):
    with open(path, 'w') as f:
        f.write('{"_comment": "C17 overload table: drafted by tools/gen_layout17.py draft, reviewed row by row against the implementation text; this table is the specification of the API (see spec/Layout.tla for the meaning of the descriptors).",\n "rows": [\n')
        f.write(',\n'.join('  ' + json.dumps(r) for r in rows))
        f.write('\n]}\n')


def main():
    a = sys.argv[1:]
    repo = os.environ.get('VERIF_REPO', '/repo')
    if not a:
        print(__doc__); return 2
    if a[0] == 'draft':
        rows = draft(repo)
        write_table(rows, a[1] if len(a) > 1 else TABLE)
        print('drafted %d rows' % len(rows))
    elif a[0] == 'review':
        return 1 if review(repo, load_table()) else 0
    elif a[0] == 'check':
        print(json.dumps(check(repo, load_table()), indent=1))
    elif a[0] == 'gen':
        out = a[1]
        t = load_table()
        open(os.path.join(out, 'Overloads17.tla'), 'w').write(gen_tla(t))
        if '--inc' in a:
            for v in ('avx2', 'avx512'):
                os.makedirs(os.path.join(out, v), exist_ok=True)
                open(os.path.join(out, v, 'layout17_rows.inc'), 'w').write(gen_inc(t, v))
                open(os.path.join(out, v, 'layout17_cfg.inc'), 'w').write(gen_cfg('--lax' in a))
        print('generated Overloads17.tla%s in %s' % (' and <variant>/layout17_rows.inc' if '--inc' in a else '', out))
    return 0


if __name__ == '__main__':
    sys.exit(main())
