#!/bin/bash
# verify_seed.sh <worktree> <n>  -> prints one JSON line; confirms: demo passes clean, tests pass with patch, demo fails with patch
WT=$1; N=$2; cd $WT || exit 9
git checkout -q -- src
R_clean=$(bash out/build$N.sh $WT/src >/tmp/sv_$$.log 2>&1; echo $?)
if ! git apply --check out/patch$N.diff 2>/dev/null; then echo "{\"wt\":\"$WT\",\"n\":$N,\"error\":\"patch does not apply\"}"; exit 0; fi
git apply out/patch$N.diff
g++ tests/tests.cpp src/*.cpp -lgtest -lgmp -O3 -Wall -pthread -fopenmp -mavx2 -o /tmp/sv_testcpu_$$ >/tmp/sv_b_$$.log 2>&1; R_build=$?
PASSED=0; R_test=99
if [ $R_build = 0 ]; then /tmp/sv_testcpu_$$ > /tmp/sv_t_$$.log 2>&1; R_test=$?; PASSED=$(grep -c "\[       OK \]" /tmp/sv_t_$$.log); fi
R_mut=$(bash out/build$N.sh $WT/src >/tmp/sv_m_$$.log 2>&1; echo $?)
git checkout -q -- src
rm -f /tmp/sv_testcpu_$$ /tmp/sv_*_$$.log /tmp/sv_$$.log
echo "{\"wt\":\"$WT\",\"n\":$N,\"demo_clean_rc\":$R_clean,\"build_rc\":$R_build,\"tests_rc\":$R_test,\"tests_passed\":$PASSED,\"demo_mutant_rc\":$R_mut}"
