#!/usr/bin/env python3
"""Front end for C20: derive a model and an executor from the TEXT of the device field type gl64_t.

/repo/src/gl64_t.cuh (current tree) is run through the host preprocessor twice (__CUDA_ARCH__ = 700 and 600,
GL64_PARTIALLY_REDUCED off, #include lines removed); the members operator+= operator-= cneg mul(gl64_t) mul(uint32_t)
reduce(uint32_t[4]) reduce() to() from() operator*=(both) sqr() are located by signature and symbolically executed:
the C++ glue must consist of whitelisted trivial forms (declarations, lo()/hi(), -x, 0-MOD, (val==0), (int)flag,
calls of the members above, return *this), the inline asm of the PTX subset of spec/Ptx.tla.  The result is one
straight-line SSA program per operator and arch, printed by two back ends:
  Gl64_gen.tla       width-parametric TLA+ (EXTENDS Ptx; registers mod Beta = Phi, CC.CF explicit)
  ptx_exec_gen.hpp   C++ (uint32_t/uint64_t, primitives of tools/ptx_prims.hpp) so that full-width cases can be run
Operators: Add Sub Cneg Mul MulRaw Sqr MulW Red (xa, xb), Red4(t0,t1,t2,t3), and with every register-by-register
product replaced by a free symbol q_k (in order of first use): MulFree(xa,xb,q1..q4), MulWFree(xa,xb,q1,q2) and, without
the final to(), MulRawFree, MulWRawFree.
Anything outside the whitelist raises ParseError (exit 3): callers degrade to 'model not derived from current source'."""
import hashlib, os, re, shutil, subprocess, sys

ARCHS = (700, 600)
HERE = os.path.dirname(os.path.abspath(__file__))


class ParseError(Exception):
    pass


# ------------------------------------------------------------------------------------------------ text handling
def preprocess(path, arch):
    try:
        text = re.sub(r'^[ \t]*#[ \t]*include.*$', '', open(path).read(), flags=re.M)
    except OSError as e:
        raise ParseError('cannot read %s: %s' % (path, e))
    r = subprocess.run(['g++', '-E', '-P', '-x', 'c++', '-D__USE_CUDA__', '-D__CUDA_ARCH__=%d' % arch, '-D__device__=',
                        '-D__forceinline__=', '-D__noinline__=', '-D__constant__=', '-'],
                       input=text, capture_output=True, text=True)
    if r.returncode != 0:
        raise ParseError('preprocess failed: ' + r.stderr[-300:])
    return r.stdout


def close(text, i, op, cl):
    """index of the bracket closing the one opened just before position i (string literals skipped)."""
    depth = 1; instr = False
    while i < len(text):
        c = text[i]
        if instr:
            if c == '\\':
                i += 1
            elif c == '"':
                instr = False
        elif c == '"':
            instr = True
        elif c == op:
            depth += 1
        elif c == cl:
            depth -= 1
            if depth == 0:
                return i
        i += 1
    raise ParseError('unbalanced ' + op)


def split_top(text, sep):
    """split at sep outside string literals and outside ( [ { nesting."""
    out = []; cur = ''; depth = 0; instr = False; i = 0
    while i < len(text):
        c = text[i]
        if instr:
            if c == '\\':
                cur += c; i += 1; c = text[i]
            elif c == '"':
                instr = False
        elif c == '"':
            instr = True
        elif c in '([{':
            depth += 1
        elif c in ')]}':
            depth -= 1
        elif c == sep and depth == 0:
            out.append(cur); cur = ''; i += 1; continue
        cur += c; i += 1
    out.append(cur)
    return out


G = r'gl64_t\s*&\s*'
SIG = {  # member -> (signature regex, parameter kind)
    'add': (G + r'operator\s*\+=\s*\(\s*const\s+gl64_t\s*&\s*(\w+)\s*\)', 'obj'),
    'sub': (G + r'operator\s*-=\s*\(\s*const\s+gl64_t\s*&\s*(\w+)\s*\)', 'obj'),
    'cneg': (G + r'cneg\s*\(\s*bool\s+(\w+)\s*\)', 'bool'),
    'mul': (r'void\s+mul\s*\(\s*const\s+gl64_t\s*&\s*(\w+)\s*\)', 'obj'),
    'mulw': (r'void\s+mul\s*\(\s*(?:const\s+)?uint32_t\s+(\w+)\s*\)', 'u32'),
    'red4': (r'void\s+reduce\s*\(\s*uint32_t\s+(\w+)\s*\[\s*4\s*\]\s*\)', 'arr'),
    'red': (r'void\s+reduce\s*\(\s*\)', None),
    'to': (r'void\s+to\s*\(\s*\)', None),
    'from': (r'void\s+from\s*\(\s*\)', None),
    'muleq': (G + r'operator\s*\*=\s*\(\s*const\s+gl64_t\s*&\s*(\w+)\s*\)', 'obj'),
    'mulweq': (G + r'operator\s*\*=\s*\(\s*const\s+uint32_t\s+(\w+)\s*\)', 'u32'),
    'sqr': (G + r'sqr\s*\(\s*\)', None),
}


def members(pre):
    m = re.search(r'class\s+gl64_t\s*\{', pre)
    if not m:
        raise ParseError('class gl64_t not found')
    cls = pre[m.end():close(pre, m.end(), '{', '}')]
    out = {}
    for key, (sig, kind) in SIG.items():
        ms = list(re.finditer(sig + r'\s*(?:const\s*)?\{', cls))
        if len(ms) != 1:
            raise ParseError('member %s: %d definitions match its signature' % (key, len(ms)))
        body = cls[ms[0].end():close(cls, ms[0].end(), '{', '}')]
        out[key] = (ms[0].group(1) if kind else None, kind, body)
    return out


# ------------------------------------------------------------------------------------------------ symbolic execution
class V:
    """an SSA value or constant: n = name / constant token, t = 'r' (.u32) 'l' (.u64) 'f' (flag, predicate) 'k' (literal)."""
    def __init__(self, n, t):
        self.n = n; self.t = t


K0 = V('0', 'k')
CONSTS = {'MOD': 'l', 'NEGMOD': 'l', 'WC': 'r'}
CTY = {'uint64_t': 'l', 'uint32_t': 'r', 'int': 'r'}


def isconst(v):
    return v.t == 'k' or v.n in CONSTS


class Gen:
    def __init__(self, mem, free=False):
        self.mem = mem; self.free = free
        self.ir = []          # (dst, type, fn, width|None, [arg tokens])
        self.cells = {}       # C++ storage: key -> V | None (indeterminate)
        self.ctype = {}
        self.fid = 0
        self.prods = {}; self.q = []
        self.ptx = {}         # named PTX registers (predicates)
        self.depth = 0

    def emit(self, t, fn, w, *args):
        n = 'v%d' % (len(self.ir) + 1)
        self.ir.append((n, t, fn, w, [a.n for a in args]))
        return V(n, t)

    # ---- C++ glue
    def call(self, key, arg=None):
        pname, kind, body = self.mem[key]
        self.depth += 1
        if self.depth > 6:
            raise ParseError('recursion in member calls')
        self.fid += 1
        fr = {'#': 'f%d.' % self.fid}
        if kind == 'obj':
            fr[pname] = ('obj', arg)
        elif kind == 'arr':
            fr[pname] = ('arr', arg)
        elif kind:
            self.decl(fr, pname, 'r', arg)
        for s in split_top(body, ';'):
            self.stmt(fr, s.strip())
        self.depth -= 1

    def decl(self, fr, name, t, val=None):
        key = fr['#'] + name
        fr[name] = ('cell', key); self.ctype[key] = t; self.cells[key] = val

    def lv(self, fr, e):
        """C++ lvalue -> storage key."""
        e = e.strip()
        if e == 'val':
            return 'this.val'
        m = re.fullmatch(r'(\w+)\s*\.\s*val', e)
        if m and fr.get(m.group(1), ('',))[0] == 'obj':
            return fr[m.group(1)][1] + '.val'
        m = re.fullmatch(r'(\w+)\s*\[\s*(\d+)\s*\]', e)
        if m and fr.get(m.group(1), ('',))[0] == 'arr':
            key = '%s[%s]' % (fr[m.group(1)][1], m.group(2))
            if key not in self.cells:
                raise ParseError('index out of range: ' + e)
            return key
        if re.fullmatch(r'\w+', e) and fr.get(e, ('',))[0] == 'cell':
            return fr[e][1]
        raise ParseError('glue lvalue not whitelisted: ' + e)

    def load(self, fr, e):
        v = self.cells[self.lv(fr, e)]
        if v is None:
            raise ParseError('read of indeterminate ' + e)
        return v

    def rv(self, fr, e):
        """C++ rvalue (whitelist of trivial forms) -> V."""
        e = e.strip()
        while e.startswith('(') and close(e, 1, '(', ')') == len(e) - 1:
            e = e[1:-1].strip()
        if re.fullmatch(r'\d+', e):
            return V(e, 'k')
        if e == 'MOD':
            return V('MOD', 'l')
        if re.fullmatch(r'0\s*-\s*MOD', e):
            return V('NEGMOD', 'l')
        if re.fullmatch(r'gl64_device\s*::\s*W', e):
            return V('WC', 'r')
        m = re.fullmatch(r'(?:(\w+)\s*\.\s*)?(lo|hi)\s*\(\s*\)', e)
        if m:
            return self.emit('r', m.group(2), None, self.load(fr, (m.group(1) + '.val') if m.group(1) else 'val'))
        if re.fullmatch(r'val\s*==\s*0', e):
            return self.emit('r', 'isz', None, self.load(fr, 'val'))
        m = re.fullmatch(r'\(\s*(?:int|unsigned|unsigned\s+int|uint32_t|int32_t)\s*\)\s*(\w+)', e)
        if m:
            v = self.load(fr, m.group(1))
            if v.t == 'l':                      # a narrowing cast keeps the low word
                return self.emit('r', 'lo', None, v)
        elif e.startswith('-'):
            v = self.load(fr, e[1:])
            if v.t != 'r':
                raise ParseError('negation of a non-32-bit value: ' + e)
            return self.emit('r', 'neg', None, v)
        else:
            v = self.load(fr, e)
        return v

    def stmt(self, fr, s):
        if not s or re.fullmatch(r'return\s+\*\s*this', s):
            return
        if s.startswith('__asm__'):
            return self.asm(fr, s)
        m = re.fullmatch(r'(uint64_t|uint32_t|int)\s+(.*)', s, re.S)
        if m:
            for d in split_top(m.group(2), ','):
                a = re.fullmatch(r'\s*(\w+)\s*\[\s*(\d+)\s*\]\s*', d)
                b = re.fullmatch(r'\s*(\w+)\s*(?:=(.*))?', d, re.S)
                if a:
                    fr[a.group(1)] = ('arr', fr['#'] + a.group(1))
                    for i in range(int(a.group(2))):
                        self.cells['%s%s[%d]' % (fr['#'], a.group(1), i)] = None
                        self.ctype['%s%s[%d]' % (fr['#'], a.group(1), i)] = CTY[m.group(1)]
                elif b:
                    v = self.rv(fr, b.group(2)) if b.group(2) else None
                    if v and v.t not in ('k', CTY[m.group(1)]):
                        raise ParseError('initialiser of another width: ' + d)
                    self.decl(fr, b.group(1), CTY[m.group(1)], v)
                else:
                    raise ParseError('declaration not whitelisted: ' + s)
            return
        m = re.fullmatch(r'(\w+)\s*\((.*)\)', s, re.S)
        if m:
            f, a = m.group(1), m.group(2).strip()
            if f in ('to', 'from', 'reduce') and a == '':
                return self.call('red' if f == 'reduce' else f)
            if f == 'reduce' and fr.get(a, ('',))[0] == 'arr':
                return self.call('red4', fr[a][1])
            if f == 'mul' and re.fullmatch(r'\*\s*this', a):
                return self.call('mul', 'this')
            if f == 'mul' and fr.get(a, ('',))[0] == 'obj':
                return self.call('mul', fr[a][1])
            if f == 'mul' and fr.get(a, ('',))[0] == 'cell' and self.ctype[fr[a][1]] == 'r':
                return self.call('mulw', self.load(fr, a))
        raise ParseError('glue statement not whitelisted: ' + ' '.join(s.split())[:80])

    # ---- inline asm
    def asm(self, fr, s):
        i = s.find('(')
        j = close(s, i + 1, '(', ')') if i >= 0 else -1
        if i < 0 or s[j + 1:].strip() or not re.fullmatch(r'__asm__(\s+__volatile__)?\s*', s[:i]):
            raise ParseError('asm statement shape: ' + s[:60])
        secs = split_top(s[i + 1:j], ':')
        if len(secs) > 3 and ''.join(secs[3:]).strip():
            raise ParseError('asm clobber list unsupported')
        if re.sub(r'"((?:[^"\\]|\\.)*)"', '', secs[0]).strip():
            raise ParseError('asm template is not a string literal')
        tmpl = ''.join(re.findall(r'"((?:[^"\\]|\\.)*)"', secs[0]))
        slots = []
        for k, sec in enumerate(secs[1:3]):
            for item in (split_top(sec, ',') if sec.strip() else []):
                m = re.fullmatch(r'\s*"([=+]?)([rl])"\s*\((.*)\)\s*', item, re.S)
                if not m or (m.group(1) != '') != (k == 0):
                    raise ParseError('asm operand: ' + item.strip())
                sl = dict(out=m.group(1), t=m.group(2), e=m.group(3), v=None)
                if sl['out'] != '=':
                    sl['v'] = self.rv(fr, sl['e'])
                    if sl['v'].t not in ('k', sl['t']):
                        raise ParseError('operand %s bound to a "%s" constraint' % (sl['e'].strip(), sl['t']))
                if sl['out'] and self.ctype.get(self.lv(fr, sl['e'])) != sl['t']:
                    raise ParseError('output %s bound to a "%s" constraint' % (sl['e'].strip(), sl['t']))
                slots.append(sl)
        self.cc = None        # the carry flag is not assumed to survive from one asm statement to the next
        for ins in tmpl.replace('\\n', ' ').replace('\\t', ' ').split(';'):
            ins = ins.strip()
            if ins.startswith('{') and not ins.startswith('{%'):
                ins = ins[1:].strip()
            if ins == '}':
                self.ptx = {}; continue
            if not ins:
                continue
            m = re.fullmatch(r'\.reg\s*\.pred\s+(%[A-Za-z_]\w*)', ins)
            if m:
                self.ptx[m.group(1)] = None; continue
            self.insn(slots, ins)
        for sl in slots:
            if sl['out']:
                if sl['v'] is None:
                    raise ParseError('asm output %s never written' % sl['e'].strip())
                self.cells[self.lv(fr, sl['e'])] = sl['v']

    def rd(self, slots, tok, t):
        tok = tok.strip()
        if re.fullmatch(r'\d+', tok):
            return V(tok, 'k')
        m = re.fullmatch(r'%(\d+)', tok)
        if m:
            if int(m.group(1)) >= len(slots):
                raise ParseError('operand index out of range: ' + tok)
            v = slots[int(m.group(1))]['v']
        elif tok in self.ptx:
            v = self.ptx[tok]
        else:
            raise ParseError('cannot parse PTX operand ' + tok)
        if v is None:
            raise ParseError('read of unwritten ' + tok)
        if v.t not in ('k', t):
            raise ParseError('operand %s has another type than the instruction' % tok)
        return v

    def wr(self, slots, tok, v, guard):
        tok = tok.strip()
        m = re.fullmatch(r'%(\d+)', tok)
        if m and int(m.group(1)) < len(slots) and slots[int(m.group(1))]['out'] and slots[int(m.group(1))]['t'] == v.t:
            tgt, k = slots[int(m.group(1))], 'v'
        elif tok in self.ptx and v.t == 'f':
            tgt, k = self.ptx, tok
        else:
            raise ParseError('write to %s (not an output of that type)' % tok)
        if guard:
            if tgt[k] is None:
                raise ParseError('predicated write to unwritten ' + tok)
            v = self.emit(v.t, 'sel', 64 if v.t == 'l' else 32, guard, v, tgt[k])
        tgt[k] = v

    def prod(self, x, y, part):
        if self.free and not isconst(x) and not isconst(y):
            if (x.n, y.n) not in self.prods:
                self.prods[(x.n, y.n)] = V('q%d' % (len(self.q) + 1), 'q'); self.q.append(self.prods[(x.n, y.n)].n)
            return self.emit('r', 'p' + part, None, self.prods[(x.n, y.n)])
        return self.emit('r', 'mul' + part, None, x, y)

    def insn(self, slots, ins):
        guard = None
        m = re.fullmatch(r'@(%[A-Za-z_]\w*)\s+(.*)', ins)
        if m:
            guard, ins = self.rd(slots, m.group(1), 'f'), m.group(2)
        m = re.fullmatch(r'([a-z0-9.]+)\s+(.*)', ins)
        if not m:
            raise ParseError('cannot parse PTX instruction: ' + ins)
        parts = m.group(1).split('.'); base = parts[0]; mods = parts[1:]
        o = split_top(m.group(2), ',')
        ty = [x for x in mods if re.fullmatch(r'[usb](32|64)', x)]
        if len(ty) != 1:
            raise ParseError('instruction type: ' + ins)
        w = int(ty[0][1:]); t = 'l' if w == 64 else 'r'
        rest = [x for x in mods if x != ty[0]]
        R = lambda tok, tt=t: self.rd(slots, tok, tt)
        cc = None

        def need(n, allowed):
            if len(o) != n or [x for x in rest if x not in allowed]:
                raise ParseError('unsupported PTX instruction: ' + ins)

        def cin(c):
            if c and self.cc is None:
                raise ParseError('carry flag read before it is written in this asm statement: ' + ins)
            return self.cc if c else K0
        if base in ('add', 'addc', 'sub', 'subc'):
            need(3, ('cc',))
            x, y, ci = R(o[1]), R(o[2]), cin(base.endswith('c'))
            fr_, fc = ('addr', 'addc') if base.startswith('add') else ('subr', 'subb')
            res = self.emit(t, fr_, w, x, y, ci)
            if 'cc' in rest:
                cc = self.emit('f', fc, w, x, y, ci)
        elif base == 'mul' and w == 32 and rest in (['lo'], ['hi']):
            need(3, ('lo', 'hi'))
            res = self.prod(R(o[1]), R(o[2]), rest[0])
        elif base in ('mad', 'madc') and w == 32 and rest and rest[0] in ('lo', 'hi'):
            need(4, ('lo', 'hi', 'cc'))
            p, z, ci = self.prod(R(o[1]), R(o[2]), rest[0]), R(o[3]), cin(base == 'madc')
            res = self.emit('r', 'addr', 32, p, z, ci)
            if 'cc' in rest:
                cc = self.emit('f', 'addc', 32, p, z, ci)
        elif base == 'setp' and w == 32 and rest in (['eq'], ['ne']):
            need(3, ('eq', 'ne'))
            res = self.emit('f', 'set' + rest[0], None, R(o[1]), R(o[2]))
        elif base == 'selp':
            need(4, ())
            res = self.emit(t, 'sel', w, R(o[3], 'f'), R(o[1]), R(o[2]))
        elif base == 'mov' and len(o) == 2 and not rest:
            vec = re.fullmatch(r'\s*\{(.*)\}\s*', o[1])
            if vec and w == 64 and len(split_top(vec.group(1), ',')) == 2:
                lo_, hi_ = split_top(vec.group(1), ',')
                res = self.emit('l', 'pack', None, R(lo_, 'r'), R(hi_, 'r'))
            elif not vec and not o[0].strip().startswith('{'):
                res = R(o[1])
                if res.t == 'k':
                    res = self.emit(t, 'sel', w, V('1', 'k'), res, res)
            else:
                raise ParseError('unsupported mov form: ' + ins)
        else:
            raise ParseError('unsupported PTX instruction: ' + ins)
        self.wr(slots, o[0], res, guard)
        if cc is not None:
            if guard:
                if self.cc is None:
                    raise ParseError('predicated carry write: ' + ins)
                cc = self.emit('f', 'sel', 32, guard, cc, self.cc)
            self.cc = cc


# ------------------------------------------------------------------------------------------------ operators
# name, member, kind of second argument, free products?
OPS = [('Add', 'add', 'obj', False), ('Sub', 'sub', 'obj', False), ('Cneg', 'cneg', 'bool', False),
       ('Mul', 'muleq', 'obj', False), ('MulRaw', 'mul', 'obj', False), ('Sqr', 'sqr', None, False),
       ('MulW', 'mulweq', 'u32', False), ('Red', 'red', None, False), ('Red4', 'red4', 'arr', False),
       ('MulFree', 'muleq', 'obj', True), ('MulWFree', 'mulweq', 'u32', True),
       ('MulRawFree', 'mul', 'obj', True), ('MulWRawFree', 'mulw', 'u32', True)]


def run_op(mem, member, kind, free):
    g = Gen(mem, free)
    g.cells['this.val'] = V('xa', 'l'); g.ctype['this.val'] = 'l'
    arg = None
    if kind == 'obj':
        g.cells['arg.val'] = V('xb', 'l'); g.ctype['arg.val'] = 'l'; arg = 'arg'
    elif kind == 'u32':
        arg = g.emit('r', 'lo', None, V('xb', 'l'))
    elif kind == 'bool':
        arg = g.emit('r', 'setne', None, g.emit('r', 'lo', None, V('xb', 'l')), K0)
    elif kind == 'arr':
        arg = 'in.t'
        for i in range(4):
            g.cells['in.t[%d]' % i] = V('t%d' % i, 'r'); g.ctype['in.t[%d]' % i] = 'r'
    g.call(member, arg)
    return g.ir, g.cells['this.val'], g.q


TLA_FN = dict(addr='AddR', addc='AddC', subr='SubR', subb='SubB', mullo='MulLo', mulhi='MulHi', plo='PLo', phi='PHi',
              seteq='SetEq', setne='SetNe', sel='Sel', pack='Pack', lo='Lo', hi='Hi', neg='Neg32', isz='IsZ')
TLA_K = dict(MOD='P', NEGMOD='NegMod', WC='WC')
CPP_K = dict(MOD='GL_MOD', NEGMOD='GL_NEGMOD', WC='GL_W')
CPP_T = dict(r='uint32_t', l='uint64_t', f='uint32_t')


def tla_body(ir, res):
    lets = []
    for n, t, fn, w, args in ir:
        a = [TLA_K.get(x, x) for x in args]
        if fn in ('addr', 'addc', 'subr', 'subb'):
            a = ['Beta' if w == 32 else 'T'] + a
        lets.append('%s == %s(%s)' % (n, TLA_FN[fn], ', '.join(a)))
    r = TLA_K.get(res.n, res.n)
    return ('  LET ' + '\n      '.join(lets) + '\n  IN ' + r) if lets else '  ' + r


def cpp_body(ir, res):
    out = []
    for n, t, fn, w, args in ir:
        name = fn + str(w) if fn in ('addr', 'addc', 'subr', 'subb', 'sel') else {'lo': 'lo32', 'hi': 'hi32', 'neg': 'neg32'}.get(fn, fn)
        out.append('    const %s %s = %s(%s);' % (CPP_T[t], n, name, ', '.join(CPP_K.get(x, x) for x in args)))
    return '\n'.join(out + ['    return %s;' % CPP_K.get(res.n, res.n)])


def generate(src):
    """-> (Gl64_gen.tla text, ptx_exec_gen.hpp text, info)."""
    path = os.path.join(src, 'gl64_t.cuh')
    prog = {}
    for arch in ARCHS:
        mem = members(preprocess(path, arch))
        for name, member, kind, free in OPS:
            prog[(name, arch)] = run_op(mem, member, kind, free)
    tla = ['---- MODULE Gl64_gen ----',
           '(* GENERATED by tools/ptx2tla.py from the inline PTX of gl64_t.cuh (current tree); suffix = __CUDA_ARCH__ variant. *)',
           'EXTENDS Ptx']
    cpp = ['// GENERATED by tools/ptx2tla.py from the inline PTX of gl64_t.cuh (current tree).', '#pragma once',
           '#include <string>', '#include "ptx_prims.hpp"', 'namespace ptx {']
    info = dict(same={}, insns={}, nfree={})
    for name, member, kind, free in OPS:
        bodies = {}
        for arch in ARCHS:
            ir, res, q = prog[(name, arch)]
            par = ['t0', 't1', 't2', 't3'] if kind == 'arr' else ['xa', 'xb'] + q
            bodies[arch] = tla_body(ir, res)
            info['insns']['%s%d' % (name, arch)] = len(ir)
            info['nfree'][name] = len(q)
            same = arch != ARCHS[0] and bodies[arch] == bodies[ARCHS[0]] and q == prog[(name, ARCHS[0])][2]
            info['same'][name] = same
            hd = '%s%d(%s) ==' % (name, arch, ', '.join(par))
            tla.append(hd + (' %s%d(%s)' % (name, ARCHS[0], ', '.join(par)) if same else '\n' + bodies[arch]))
            if not free:
                cpar = ', '.join(('uint32_t ' if kind == 'arr' else 'uint64_t ') + p for p in par)
                cpp.append('static inline uint64_t gl_%s_%d(%s)\n{\n%s\n}' % (name.lower(), arch, cpar, cpp_body(ir, res)))
    cpp.append('static inline bool exec(const std::string &op, int arch, uint64_t a, uint64_t b, uint64_t &r)\n{')
    for arch in ARCHS:
        for name, member, kind, free in OPS:
            if free:
                continue
            call = ('gl_red4_%d(lo32(a), hi32(a), lo32(b), hi32(b))' % arch) if kind == 'arr' else 'gl_%s_%d(a, b)' % (name.lower(), arch)
            cpp.append('    if (arch == %d && op == "%s") { r = %s; return true; }' % (arch, name.lower(), call))
    cpp += ['    return false;', '}', '}']
    tla.append('====')
    return '\n'.join(tla) + '\n', '\n'.join(cpp) + '\n', info


def write(src, tla_dir, cpp_root):
    """writes <tla_dir>/Gl64_gen.tla and <cpp_root>/gen_<hash>/{ptx_exec_gen.hpp,ptx_prims.hpp}; -> (include dir, info)."""
    try:
        tla, cpp, info = generate(src)
    except (IndexError, KeyError, ValueError, AttributeError, TypeError) as e:     # text in a shape nobody anticipated
        raise ParseError('front end could not follow the source (%s: %s)' % (type(e).__name__, e))
    open(os.path.join(tla_dir, 'Gl64_gen.tla'), 'w').write(tla)
    prims = open(os.path.join(HERE, 'ptx_prims.hpp')).read()
    d = os.path.join(cpp_root, 'gen_' + hashlib.sha256((cpp + prims).encode()).hexdigest()[:16])
    os.makedirs(d, exist_ok=True)
    open(os.path.join(d, 'ptx_exec_gen.hpp'), 'w').write(cpp)
    shutil.copy(os.path.join(HERE, 'ptx_prims.hpp'), d)
    return d, info


if __name__ == '__main__':
    src = sys.argv[1] if len(sys.argv) > 1 else '/repo/src'
    out = sys.argv[2] if len(sys.argv) > 2 else '.'
    try:
        d, info = write(src, out, out)
    except ParseError as e:
        print('ptx2tla: ' + str(e), file=sys.stderr)
        sys.exit(3)
    print(d)
