#!/usr/bin/env python3
"""Front end for C20: derive a model and an executor from the TEXT of the device field type gl64_t.

/repo/src/gl64_t.cuh (current tree) is run through the host preprocessor twice (__CUDA_ARCH__ = 700 and 600,
GL64_PARTIALLY_REDUCED off, #include lines removed); the members operator+= operator-= cneg mul(gl64_t) mul(uint32_t)
reduce(uint32_t[4]) reduce() to() from() operator*=(both) sqr() lo() hi() are located by signature and symbolically
executed.  The result is one straight-line SSA program per operator and arch, printed by two back ends:
  Gl64_gen.tla       width-parametric TLA+ (EXTENDS Ptx; registers mod Beta = Phi, CC.CF explicit)
  ptx_exec_gen.hpp   C++ (uint32_t/uint64_t, primitives of tools/ptx_prims.hpp) so that full-width cases can be run
Operators: Add Sub Cneg Mul MulRaw Sqr MulW Red (xa, xb), Red4(t0,t1,t2,t3), and with every register-by-register
32 x 32 product replaced by a free symbol q_k (in order of first use): MulFree(xa,xb,q1..q4), MulWFree(xa,xb,q1,q2) and,
without the final to(), MulRawFree, MulWRawFree.

WHAT IS TRANSLATED (anything else raises ParseError naming the statement; callers degrade to 'model not derived')

PTX (integer subset of spec/Ptx.tla; T = u32 s32 u64 s64, B = b32 b64):
  add sub addc subc [.cc] .T            mul.lo mul.hi .T    mul.wide.u32/.s32
  mad.lo mad.hi [.cc] .T   madc.lo madc.hi [.cc] .T         mad.wide.u32/.s32
  setp.{eq,ne}.{T,B}  setp.{lt,le,gt,ge}.T  setp.{lo,ls,hi,hs}.{u32,u64}       selp.{T,B}
  and or xor .{pred,B}    not.{pred,B}    neg.{s32,s64}     shl shr .{T,B} (shr.s = arithmetic; amounts clamp)
  min max .T    cvt.T.T    mov.{T,B,pred} reg|imm    mov.b64 d,{lo,hi}    mov.b64 {lo,hi},s
  operands: %n  %[name]  named registers  immediates (decimal, 0x.., 0octal, optional - and U)
  guards @%p / @!%p on every instruction (a guarded write needs an old value: Sel(p, new, old))
  .reg .pred/.b32/.u32/.s32/.b64/.u64/.s64 %a, %b;  inside { } scopes that may span several asm statements
asm statements: __asm__ [__volatile__] ( "template" ["more"] : outputs : inputs [: "memory"] ), constraints
  "r" (32 bit) "l" (64 bit) "n" (integer constant expression), outputs "=" "+" "=&" "+&"; any number of instructions
  per template; operands may be used any number of times.
  RULES (deliberately conservative, unchanged):
  * inputs are read at statement entry; every operand is its own register (nvcc gives each asm operand its own
    virtual PTX register, so '&' is accepted and changes nothing); outputs are stored to the C++ object at the end;
  * the carry flag CC.CF is NOT assumed to survive from one asm statement to the next: it is undefined at the start
    of every asm statement, addc/subc/madc before a .cc instruction of the SAME template is an error;
  * an output that is never written, a read of an unwritten register, a guarded write without old value are errors.
C++ glue (whitelist): plain { } blocks, declarations of uint64_t uint32_t int int32_t int64_t unsigned bool (scalars, initialised or
  not, and fixed arrays), assignments to such cells / val / x.val / arr[k], calls of the members above, return *this,
  and expressions built from cells, val, x.val, arr[k], lo() hi() x.lo() x.hi() (their bodies are translated too),
  integer literals, MOD and gl64_device::W (values parsed from the header), casts between the integer types (C++
  conversion rules: truncation, zero / sign extension by the SOURCE type), unary - ~ !, comparisons == != < <= > >=
  (usual arithmetic conversions, result bool), + - & | ^ on unsigned operands, << >> by a literal amount below the
  width (>> of a signed value is arithmetic); * / % between literals only (constant expressions, e.g. "n" operands):
  products of registers belong to the PTX where they are tracked."""
import hashlib, os, re, shutil, subprocess, sys

ARCHS = (700, 600)
HERE = os.path.dirname(os.path.abspath(__file__))


class ParseError(Exception):
    located = False


def short(s, n=110):
    s = ' '.join(s.split())
    return s if len(s) <= n else s[:n] + ' ...'


# ------------------------------------------------------------------------------------------------ text handling
def preprocess(path, arch):
    try:
        text = re.sub(r'^[ \t]*#[ \t]*include.*$', '', open(path).read(), flags=re.M)
    except OSError as e:
        raise ParseError('cannot read %s: %s' % (path, e))
    r = subprocess.run(['g++', '-E', '-P', '-x', 'c++', '-D__USE_CUDA__', '-D__CUDA_ARCH__=%d' % arch, '-D__device__=',
                        '-D__forceinline__=', '-D__noinline__=', '-D__constant__=', '-'],
                       input=text, capture_output=True, text=True)
    if r.returncode != 0:
        raise ParseError('preprocess failed: ' + r.stderr[-300:])
    return r.stdout


def close(text, i, op, cl):
    """index of the bracket closing the one opened just before position i (string literals skipped)."""
    depth = 1; instr = False
    while i < len(text):
        c = text[i]
        if instr:
            if c == '\\':
                i += 1
            elif c == '"':
                instr = False
        elif c == '"':
            instr = True
        elif c == op:
            depth += 1
        elif c == cl:
            depth -= 1
            if depth == 0:
                return i
        i += 1
    raise ParseError('unbalanced ' + op)


def split_top(text, sep):
    """split at sep outside string literals and outside ( [ { nesting."""
    out = []; cur = ''; depth = 0; instr = False; i = 0
    while i < len(text):
        c = text[i]
        if instr:
            if c == '\\':
                cur += c; i += 1; c = text[i]
            elif c == '"':
                instr = False
        elif c == '"':
            instr = True
        elif c in '([{':
            depth += 1
        elif c in ')]}':
            depth -= 1
        elif c == sep and depth == 0:
            out.append(cur); cur = ''; i += 1; continue
        cur += c; i += 1
    out.append(cur)
    return out


G = r'gl64_t\s*&\s*'
SIG = {  # member -> (signature regex, parameter kind)
    'add': (G + r'operator\s*\+=\s*\(\s*const\s+gl64_t\s*&\s*(\w+)\s*\)', 'obj'),
    'sub': (G + r'operator\s*-=\s*\(\s*const\s+gl64_t\s*&\s*(\w+)\s*\)', 'obj'),
    'cneg': (G + r'cneg\s*\(\s*bool\s+(\w+)\s*\)', 'bool'),
    'mul': (r'void\s+mul\s*\(\s*const\s+gl64_t\s*&\s*(\w+)\s*\)', 'obj'),
    'mulw': (r'void\s+mul\s*\(\s*(?:const\s+)?uint32_t\s+(\w+)\s*\)', 'u32'),
    'red4': (r'void\s+reduce\s*\(\s*uint32_t\s+(\w+)\s*\[\s*4\s*\]\s*\)', 'arr'),
    'red': (r'void\s+reduce\s*\(\s*\)', None),
    'to': (r'void\s+to\s*\(\s*\)', None),
    'from': (r'void\s+from\s*\(\s*\)', None),
    'muleq': (G + r'operator\s*\*=\s*\(\s*const\s+gl64_t\s*&\s*(\w+)\s*\)', 'obj'),
    'mulweq': (G + r'operator\s*\*=\s*\(\s*const\s+uint32_t\s+(\w+)\s*\)', 'u32'),
    'sqr': (G + r'sqr\s*\(\s*\)', None),
    'lo': (r'uint32_t\s+lo\s*\(\s*\)', None),
    'hi': (r'uint32_t\s+hi\s*\(\s*\)', None),
}


def members(pre):
    """-> (member table, constant table {'MOD': (text, type), 'gl64_device::W': ...})."""
    m = re.search(r'class\s+gl64_t\s*\{', pre)
    if not m:
        raise ParseError('class gl64_t not found')
    cls = pre[m.end():close(pre, m.end(), '{', '}')]
    out = {}
    for key, (sig, kind) in SIG.items():
        ms = list(re.finditer(sig + r'\s*(?:const\s*)?\{', cls))
        if len(ms) != 1:
            raise ParseError('member %s: %d definitions match its signature' % (key, len(ms)))
        body = cls[ms[0].end():close(cls, ms[0].end(), '{', '}')]
        out[key] = (ms[0].group(1) if kind else None, kind, body)
    km = re.findall(r'static\s+(?:const|constexpr)\s+uint64_t\s+MOD\s*=\s*([^;]+);', cls)
    kw = re.findall(r'namespace\s+gl64_device\s*\{[^{}]*?\buint32_t\s+W\s*=\s*([^;]+);', pre)
    if len(km) != 1:
        raise ParseError('constant MOD: %d definitions "static const uint64_t MOD = ...;" in class gl64_t' % len(km))
    if len(kw) != 1:
        raise ParseError('constant gl64_device::W: %d definitions "uint32_t W = ...;"' % len(kw))
    g = Gen({}, {})
    consts = {}
    for name, text, cty in (('MOD', km[0], 'u64'), ('gl64_device::W', kw[0], 'u32')):
        try:
            v, ty = g.expr({'#': 'k.', '@': 'this'}, text)
            v = g.conv(v, ty, cty)
        except ParseError as e:
            raise ParseError('constant %s = %s: %s' % (name, short(text), e))
        if v.val is None:
            raise ParseError('constant %s = %s is not an integer constant expression' % (name, short(text)))
        consts[name] = (v.val, cty)
    return out, consts


# ------------------------------------------------------------------------------------------------ values
BITS = {'r': 32, 'l': 64, 'f': 1}


class V:
    """an SSA value: n = name, t = class 'r' (32-bit register) 'l' (64-bit) 'f' (predicate / carry flag, 0/1)
    'q' (free product symbol); val = the bit pattern iff the value is a literal; org = 'Lo(xa)'-style origin."""
    def __init__(self, n, t, val=None, org=None):
        self.n = n; self.t = t; self.val = val; self.org = org


def lit(val, t):
    return V(None, t, val & ((1 << BITS[t]) - 1))


def C(w):
    return 'l' if w == 64 else 'r'


def isconst(v):
    return v.val is not None


def sx(w, x):
    return x - (1 << w) if (x >> (w - 1)) & 1 else x


def _shs(w, x, n):
    return (sx(w, x) >> min(n, w)) & ((1 << w) - 1)


# the operators the C++ glue can fold on literals (PTX instructions are never folded): fn -> f(w, *bit patterns)
PY = {
    'addr': lambda w, x, y, c: (x + y + c) & ((1 << w) - 1),
    'subr': lambda w, x, y, c: (x - y - c) & ((1 << w) - 1),
    'neg': lambda w, x: (-x) & ((1 << w) - 1),
    'notb': lambda w, x: ~x & ((1 << w) - 1),
    'band': lambda w, x, y: x & y, 'bor': lambda w, x, y: x | y, 'bxor': lambda w, x, y: x ^ y,
    'shl': lambda w, x, n: (x << min(n, w)) & ((1 << w) - 1), 'shr': lambda w, x, n: x >> min(n, w), 'shrs': _shs,
    'seteq': lambda w, x, y: int(x == y), 'setne': lambda w, x, y: int(x != y),
    'setlt': lambda w, x, y: int(x < y), 'setle': lambda w, x, y: int(x <= y),
    'setgt': lambda w, x, y: int(x > y), 'setge': lambda w, x, y: int(x >= y),
    'setlts': lambda w, x, y: int(sx(w, x) < sx(w, y)), 'setles': lambda w, x, y: int(sx(w, x) <= sx(w, y)),
    'setgts': lambda w, x, y: int(sx(w, x) > sx(w, y)), 'setges': lambda w, x, y: int(sx(w, x) >= sx(w, y)),
    'lo': lambda w, x: x & 0xffffffff, 'hi': lambda w, x: x >> 32,
    'zext': lambda w, x: x, 'sext': lambda w, x: sx(32, x) & ((1 << 64) - 1),
}

TYPES = {'uint64_t': 'u64', 'uint32_t': 'u32', 'int': 's32', 'int32_t': 's32', 'int64_t': 's64', 'unsigned': 'u32',
         'unsigned int': 'u32', 'long long': 's64', 'unsigned long long': 'u64', 'bool': 'bool'}
TYPE_WORDS = set(' '.join(TYPES).split())


def tcls(cty):
    return 'l' if cty in ('u64', 's64') else 'r'


def tbits(cty):
    return 64 if cty in ('u64', 's64') else 32


def tsigned(cty):
    return cty in ('s32', 's64')


# ------------------------------------------------------------------------------------------------ glue expressions
TOK = re.compile(r'\s*(?:(0[xX][0-9a-fA-F]+|\d+)([uUlL]*)|([A-Za-z_]\w*(?:\s*::\s*[A-Za-z_]\w*)*)|'
                 r'(==|!=|<=|>=|<<|>>|&&|\|\||->|[-+*/%&|^~!<>()\[\].,?:=]))')
PREC = {'|': 1, '^': 2, '&': 3, '==': 4, '!=': 4, '<': 5, '<=': 5, '>': 5, '>=': 5, '<<': 6, '>>': 6, '+': 7, '-': 7,
        '*': 8, '/': 8, '%': 8}


def tokenize(e):
    out = []; i = 0
    e = e.rstrip()
    while i < len(e):
        m = TOK.match(e, i)
        if not m or m.end() == i:
            raise ParseError('glue expression not whitelisted: ' + short(e))
        if m.group(1) is not None:
            out.append(('num', m.group(1), m.group(2)))
        elif m.group(3) is not None:
            out.append(('id', re.sub(r'\s+', '', m.group(3))))
        else:
            out.append(('op', m.group(4)))
        i = m.end()
    return out


def lit_type(text, suf):
    """C++ type of an integer literal (LP64)."""
    val = int(text, 16) if text[:2].lower() == '0x' else int(text, 8) if len(text) > 1 and text[0] == '0' else int(text)
    suf = suf.lower(); uns = 'u' in suf; lng = 'l' in suf; dec = text[:2].lower() != '0x' and not (len(text) > 1 and text[0] == '0')
    cands = (['s32'] if not (uns or lng) else []) + (['u32'] if not lng and (uns or not dec) else []) + \
            (['s64'] if not uns else []) + (['u64'] if uns or not dec else [])
    for c in cands:
        if val < (1 << (tbits(c) - (1 if tsigned(c) else 0))):
            return val, c
    raise ParseError('integer literal out of range: ' + text)


class ExprParser:
    def __init__(self, text):
        self.text = text; self.t = tokenize(text); self.i = 0

    def bad(self):
        raise ParseError('glue expression not whitelisted: ' + short(self.text))

    def peek(self, k=0):
        return self.t[self.i + k] if self.i + k < len(self.t) else ('end', '')

    def take(self, op=None):
        tk = self.peek()
        if op is not None and tk != ('op', op):
            self.bad()
        self.i += 1
        return tk

    def parse(self):
        n = self.binary(0)
        if self.peek()[0] != 'end':
            self.bad()
        return n

    def binary(self, lvl):
        l = self.unary()
        while True:
            tk = self.peek()
            if tk[0] != 'op' or tk[1] not in PREC or PREC[tk[1]] < lvl:
                return l
            self.take()
            r = self.binary(PREC[tk[1]] + 1)
            l = ('bin', tk[1], l, r)

    def typename(self):
        """at '(' : the type name if the parenthesis holds exactly a type name, else None."""
        k = 1; words = []
        while self.peek(k)[0] == 'id' and self.peek(k)[1] in TYPE_WORDS | {'const'}:
            if self.peek(k)[1] != 'const':
                words.append(self.peek(k)[1])
            k += 1
        if words and self.peek(k) == ('op', ')') and ' '.join(words) in TYPES:
            self.i += k + 1
            return TYPES[' '.join(words)]
        return None

    def unary(self):
        tk = self.peek()
        if tk[0] == 'op' and tk[1] in ('-', '~', '!', '+'):
            self.take()
            return ('un', tk[1], self.unary())
        if tk == ('op', '('):
            ty = self.typename()
            if ty:
                return ('cast', ty, self.unary())
            self.take()
            n = self.binary(0)
            self.take(')')
            return n
        if tk[0] == 'num':
            self.take()
            return ('num',) + lit_type(tk[1], tk[2])
        if tk[0] != 'id':
            self.bad()
        self.take()
        name = tk[1]
        if name in TYPES and self.peek() == ('op', '('):          # functional cast
            self.take()
            n = self.binary(0)
            self.take(')')
            return ('cast', TYPES[name], n)
        if self.peek() == ('op', '('):
            if name not in ('lo', 'hi') or self.peek(1) != ('op', ')'):
                self.bad()
            self.i += 2
            return ('member', None, name)
        if self.peek() == ('op', '.'):
            f = self.peek(1)
            if f == ('id', 'val'):
                self.i += 2
                return ('field', name)
            if f[0] == 'id' and f[1] in ('lo', 'hi') and self.peek(2) == ('op', '(') and self.peek(3) == ('op', ')'):
                self.i += 4
                return ('member', name, f[1])
            self.bad()
        if self.peek() == ('op', '['):
            if self.peek(1)[0] != 'num' or self.peek(2) != ('op', ']'):
                self.bad()
            k = lit_type(self.peek(1)[1], self.peek(1)[2])[0]
            self.i += 3
            return ('index', name, k)
        return ('id', name)


# ------------------------------------------------------------------------------------------------ symbolic execution
class Gen:
    def __init__(self, mem, consts, free=False):
        self.mem = mem; self.K = consts; self.free = free
        self.ir = []          # (dst, class, fn, width|None, [V])
        self.defs = {}        # dst -> (fn, width, [V])
        self.cells = {}       # C++ storage: key -> V | None (indeterminate)
        self.ctype = {}       # key -> 'u32' 's32' 'u64' 's64' 'bool'
        self.fid = 0
        self.prods = {}; self.q = []; self.qdesc = []
        self.scopes = [{}]    # PTX register scopes: name -> [class, V | None]
        self.depth = 0
        self.cc = None

    def emit(self, t, fn, w, *args):
        if fn == 'lo' and args[0].n in self.defs:               # (uint32_t)(x >> 32) is hi(x)
            f2, w2, a2 = self.defs[args[0].n]
            if f2 == 'shr' and w2 == 64 and a2[1].val == 32:
                fn, args = 'hi', (a2[0],)
        n = 'v%d' % (len(self.ir) + 1)
        self.ir.append((n, t, fn, w, list(args)))
        self.defs[n] = (fn, w, list(args))
        org = None
        if fn in ('lo', 'hi') and args[0].n in ('xa', 'xb'):
            org = '%s(%s)' % (fn.capitalize(), args[0].n)
        return V(n, t, org=org)

    def gemit(self, t, fn, w, *args):
        """glue operator: folded when every argument is a literal."""
        if fn in PY and all(a.val is not None for a in args):
            return lit(PY[fn](w, *[a.val for a in args]), t)
        return self.emit(t, fn, w, *args)

    # ---- C++ glue
    def call(self, key, arg=None, this=None, caller=None):
        pname, kind, body = self.mem[key]
        self.depth += 1
        if self.depth > 6:
            raise ParseError('recursion in member calls')
        self.fid += 1
        fr = {'#': 'f%d.' % self.fid, '@': this or (caller['@'] if caller else 'this')}
        if kind == 'obj':
            fr[pname] = ('obj', arg)
        elif kind == 'arr':
            fr[pname] = ('arr', arg)
        elif kind:
            self.decl(fr, pname, kind, arg)
        for s in split_top(body, ';'):
            self.stmt(fr, s.strip())
            if fr.get('done'):                                  # nothing after a return is executed
                break
        self.depth -= 1
        return fr.get('ret')

    def decl(self, fr, name, cty, val=None):
        key = fr['#'] + name
        fr[name] = ('cell', key); self.ctype[key] = cty; self.cells[key] = val

    def lv(self, fr, e):
        """C++ lvalue -> storage key."""
        e = e.strip()
        if e == 'val':
            return fr['@'] + '.val'
        m = re.fullmatch(r'(\w+)\s*\.\s*val', e)
        if m and fr.get(m.group(1), ('',))[0] == 'obj':
            return fr[m.group(1)][1] + '.val'
        m = re.fullmatch(r'(\w+)\s*\[\s*(\d+)\s*\]', e)
        if m and fr.get(m.group(1), ('',))[0] == 'arr':
            key = '%s[%s]' % (fr[m.group(1)][1], int(m.group(2)))
            if key not in self.cells:
                raise ParseError('index out of range: ' + e)
            return key
        if re.fullmatch(r'\w+', e) and fr.get(e, ('',))[0] == 'cell':
            return fr[e][1]
        raise ParseError('glue lvalue not whitelisted: ' + short(e))

    def load(self, fr, e):
        key = self.lv(fr, e)
        v = self.cells[key]
        if v is None:
            raise ParseError('read of indeterminate ' + e)
        return v, self.ctype[key]

    def conv(self, v, frm, to):
        """C++ integral conversion of a value of type frm to type to."""
        if to == 'bool':
            return v if frm == 'bool' else self.gemit('r', 'setne', tbits(frm), v, lit(0, tcls(frm)))
        if tbits(frm) == tbits(to):
            return v
        if tbits(to) == 32:
            return self.gemit('r', 'lo', None, v)
        return self.gemit('l', 'sext' if frm == 's32' else 'zext', None, v)

    def expr(self, fr, text):
        """C++ rvalue (whitelist) -> (V, C++ type)."""
        return self.ev(fr, ExprParser(text).parse(), text)

    def ev(self, fr, n, text):
        k = n[0]
        if k == 'num':
            return lit(n[1], tcls(n[2])), n[2]
        if k == 'id':
            if n[1] in self.K:
                return lit(self.K[n[1]][0], tcls(self.K[n[1]][1])), self.K[n[1]][1]
            if n[1] in ('true', 'false'):
                return lit(int(n[1] == 'true'), 'r'), 'bool'
            return self.load(fr, n[1])
        if k == 'field':
            return self.load(fr, n[1] + '.val')
        if k == 'index':
            return self.load(fr, '%s[%d]' % (n[1], n[2]))
        if k == 'member':
            obj = fr['@']
            if n[1] is not None:
                if fr.get(n[1], ('',))[0] != 'obj':
                    raise ParseError('glue expression not whitelisted: ' + short(text))
                obj = fr[n[1]][1]
            ret = self.call(n[2], this=obj)
            if ret is None:
                raise ParseError('member %s() does not consist of a return statement' % n[2])
            return self.conv(ret[0], ret[1], 'u32'), 'u32'
        if k == 'cast':
            v, ty = self.ev(fr, n[2], text)
            return self.conv(v, ty, n[1]), n[1]
        if k == 'un':
            v, ty = self.ev(fr, n[2], text)
            if n[1] == '!':
                return self.gemit('r', 'seteq', tbits(ty), v, lit(0, tcls(ty))), 'bool'
            if ty == 'bool':
                ty = 's32'                                     # integer promotion
            if n[1] == '+':
                return v, ty
            return self.gemit(tcls(ty), 'neg' if n[1] == '-' else 'notb', tbits(ty), v), ty
        if k == 'bin':
            op = n[1]
            (x, tx), (y, ty) = self.ev(fr, n[2], text), self.ev(fr, n[3], text)
            tx = 's32' if tx == 'bool' else tx; ty = 's32' if ty == 'bool' else ty
            if op in ('<<', '>>'):
                if y.val is None or sx(tbits(ty), y.val) < 0 or y.val >= tbits(tx):
                    raise ParseError('shift by a non-literal or out-of-range amount: ' + short(text))
                if op == '<<' and tsigned(tx) and x.val is None:
                    raise ParseError('<< on a signed value: ' + short(text))
                fn = 'shl' if op == '<<' else 'shrs' if tsigned(tx) else 'shr'
                return self.gemit(tcls(tx), fn, tbits(tx), x, lit(y.val, 'r')), tx
            # usual arithmetic conversions
            if tbits(tx) == tbits(ty):
                ct = tx if not tsigned(tx) else ty
            else:
                ct = tx if tbits(tx) == 64 else ty
            x, y = self.conv(x, tx, ct), self.conv(y, ty, ct)
            w, t = tbits(ct), tcls(ct)
            if op in ('==', '!=', '<', '<=', '>', '>='):
                fn = {'==': 'seteq', '!=': 'setne', '<': 'setlt', '<=': 'setle', '>': 'setgt', '>=': 'setge'}[op]
                if tsigned(ct) and op not in ('==', '!='):
                    fn += 's'
                return self.gemit('r', fn, w, x, y), 'bool'
            if op in ('*', '/', '%'):                            # constant expressions only
                if x.val is None or y.val is None or (op != '*' and y.val == 0):
                    raise ParseError('%s outside a constant expression: %s' % (op, short(text)))
                a, b = (sx(w, x.val), sx(w, y.val)) if tsigned(ct) else (x.val, y.val)
                q = abs(a) // abs(b) * (1 if (a < 0) == (b < 0) else -1) if op != '*' else 0   # C++ truncates
                return lit(a * b if op == '*' else q if op == '/' else a - q * b, t), ct
            if tsigned(ct) and (x.val is None or y.val is None):
                raise ParseError('%s on signed operands: %s' % (op, short(text)))
            if op in ('+', '-'):
                return self.gemit(t, 'addr' if op == '+' else 'subr', w, x, y, lit(0, 'f')), ct
            return self.gemit(t, {'&': 'band', '|': 'bor', '^': 'bxor'}[op], w, x, y), ct
        raise ParseError('glue expression not whitelisted: ' + short(text))

    def stmt(self, fr, s):
        try:
            self.stmt_(fr, s)
        except ParseError as e:
            if e.located:
                raise
            e2 = ParseError('%s  [in statement: %s]' % (e, short(s, 160)))
            e2.located = True
            raise e2

    def stmt_(self, fr, s):
        if not s:
            return
        if re.fullmatch(r'return\s+\*\s*this', s) or s == 'return':
            fr['done'] = True
            return
        if s.startswith('__asm__'):
            return self.asm(fr, s)
        if s.startswith('{'):                                   # a plain block: its statements, then what follows it
            j = close(s, 1, '{', '}')
            for s2 in split_top(s[1:j], ';') + [s[j + 1:]]:
                if not fr.get('done'):
                    self.stmt(fr, s2.strip())
            return
        m = re.fullmatch(r'return\s+(.*)', s, re.S)
        if m:
            fr['ret'] = self.expr(fr, m.group(1)); fr['done'] = True
            return
        m = re.fullmatch(r'(?:const\s+)?((?:unsigned\s+|long\s+)*\w+)\s+(?!=)(.*)', s, re.S)
        if m and ' '.join(m.group(1).split()) in TYPES and re.match(r'[A-Za-z_]', m.group(2)):
            cty = TYPES[' '.join(m.group(1).split())]
            for d in split_top(m.group(2), ','):
                a = re.fullmatch(r'\s*(\w+)\s*\[\s*(\d+)\s*\]\s*', d)
                b = re.fullmatch(r'\s*(\w+)\s*(?:=(?!=)(.*))?', d, re.S)
                if a:
                    fr[a.group(1)] = ('arr', fr['#'] + a.group(1))
                    for i in range(int(a.group(2))):
                        self.cells['%s%s[%d]' % (fr['#'], a.group(1), i)] = None
                        self.ctype['%s%s[%d]' % (fr['#'], a.group(1), i)] = cty
                elif b:
                    v = None
                    if b.group(2):
                        v, ty = self.expr(fr, b.group(2))
                        v = self.conv(v, ty, cty)
                    self.decl(fr, b.group(1), cty, v)
                else:
                    raise ParseError('declaration not whitelisted')
            return
        m = re.fullmatch(r'(\w+)\s*\((.*)\)', s, re.S)
        if m:
            f, a = m.group(1), m.group(2).strip()
            if f in ('to', 'from', 'reduce') and a == '':
                return self.call('red' if f == 'reduce' else f, caller=fr)
            if f == 'reduce' and fr.get(a, ('',))[0] == 'arr':
                return self.call('red4', fr[a][1], caller=fr)
            if f == 'mul' and re.fullmatch(r'\*\s*this', a):
                return self.call('mul', fr['@'], caller=fr)
            if f == 'mul' and fr.get(a, ('',))[0] == 'obj':
                return self.call('mul', fr[a][1], caller=fr)
            if f == 'mul' and fr.get(a, ('',))[0] == 'cell' and self.ctype[fr[a][1]] == 'u32':
                return self.call('mulw', self.load(fr, a)[0], caller=fr)
        m = re.fullmatch(r'([\w.\[\]\s]+?)\s*(\+|-|&|\||\^|<<|>>)=(?!=)(.*)', s, re.S)
        if m:                                                     # compound assignment: x op= e  is  x = (x) op (e)
            lhs = m.group(1).strip()
            return self.stmt_(fr, '%s = (%s) %s (%s)' % (lhs, lhs, m.group(2), m.group(3).strip()))
        m = re.fullmatch(r'(\+\+|--)\s*([\w.\[\]]+)|([\w.\[\]]+)\s*(\+\+|--)', s)
        if m:
            lhs = m.group(2) or m.group(3); op = (m.group(1) or m.group(4))[0]
            return self.stmt_(fr, '%s = (%s) %s 1' % (lhs, lhs, op))
        m = re.fullmatch(r'([\w.\[\]\s]+?)=(?!=)(.*)', s, re.S)
        if m:
            key = self.lv(fr, m.group(1))
            v, ty = self.expr(fr, m.group(2))
            self.cells[key] = self.conv(v, ty, self.ctype[key])
            return
        raise ParseError('glue statement not whitelisted')

    # ---- inline asm
    def asm(self, fr, s):
        i = s.find('(')
        j = close(s, i + 1, '(', ')') if i >= 0 else -1
        if i < 0 or s[j + 1:].strip() or not re.fullmatch(r'__asm__(\s+__volatile__)?(\s+volatile)?\s*', s[:i]):
            raise ParseError('asm statement shape')
        secs = split_top(s[i + 1:j], ':')
        if len(secs) > 4 or (len(secs) == 4 and [c for c in split_top(secs[3], ',') if c.strip() not in ('', '"memory"')]):
            raise ParseError('asm clobber list unsupported (only "memory")')
        if re.sub(r'"((?:[^"\\]|\\.)*)"', '', secs[0]).strip():
            raise ParseError('asm template is not a string literal')
        tmpl = ''.join(re.findall(r'"((?:[^"\\]|\\.)*)"', secs[0]))
        slots = []; names = {}
        for k, sec in enumerate(secs[1:3]):
            for item in (split_top(sec, ',') if sec.strip() else []):
                m = re.fullmatch(r'\s*(?:\[\s*(\w+)\s*\]\s*)?"([=+]?)(&?)([rln])"\s*\((.*)\)\s*', item, re.S)
                if not m or (m.group(2) != '') != (k == 0) or (m.group(3) and not m.group(2)) or (m.group(4) == 'n' and k == 0):
                    raise ParseError('asm operand: ' + short(item))
                sl = dict(out=m.group(2), t=m.group(4), e=m.group(5).strip(), v=None, imm=None)
                if sl['out']:
                    cty = self.ctype.get(self.lv(fr, sl['e']))
                    if cty == 'bool' or tcls(cty) != sl['t']:
                        raise ParseError('output %s (%s) bound to a "%s" constraint' % (sl['e'], cty, sl['t']))
                if sl['out'] != '=':
                    v, cty = self.expr(fr, sl['e'])
                    if sl['t'] == 'n':
                        if v.val is None:
                            raise ParseError('"n" operand %s is not an integer constant expression' % sl['e'])
                        sl['imm'] = sx(tbits(cty), v.val) if tsigned(cty) else v.val
                    elif v.val is not None:
                        sl['v'] = self.conv(v, cty, 'u64' if sl['t'] == 'l' else 'u32')
                    elif tcls(cty) != sl['t']:
                        raise ParseError('operand %s (%s) bound to a "%s" constraint' % (sl['e'], cty, sl['t']))
                    else:
                        sl['v'] = v
                if m.group(1):
                    names[m.group(1)] = len(slots)
                slots.append(sl)
        self.names = names
        self.cc = None        # the carry flag is not assumed to survive from one asm statement to the next
        for ins in re.sub(r'\\[nt]', ' ', tmpl).split(';'):
            ins = ins.strip()
            while ins[:1] in ('{', '}'):
                if ins[0] == '{':
                    self.scopes.append({})
                elif len(self.scopes) == 1:
                    raise ParseError('unbalanced } in asm template')
                else:
                    self.scopes.pop()
                ins = ins[1:].strip()
            if not ins:
                continue
            try:
                m = re.fullmatch(r'\.reg\s*\.(\w+)\s+(.*)', ins, re.S)
                if m:
                    t = 'f' if m.group(1) == 'pred' else {'32': 'r', '64': 'l'}.get(m.group(1)[1:]) if m.group(1)[0] in 'bus' else None
                    regs = [x.strip() for x in m.group(2).split(',')]
                    if t is None or not all(re.fullmatch(r'%%?[A-Za-z_$][\w$]*', x) for x in regs):
                        raise ParseError('unsupported register declaration')
                    for x in regs:
                        self.scopes[-1][x.replace('%%', '%')] = [t, None]
                    continue
                self.insn(slots, ins)
            except ParseError as e:
                if e.located:
                    raise
                e2 = ParseError('%s  [PTX: %s]' % (e, short(ins)))
                raise e2
        for sl in slots:
            if sl['out']:
                if sl['v'] is None:
                    raise ParseError('asm output %s never written' % sl['e'])
                self.cells[self.lv(fr, sl['e'])] = sl['v']

    def slot(self, slots, tok):
        m = re.fullmatch(r'%(\d+|\[\s*\w+\s*\])', tok)
        if not m:
            return None
        k = int(m.group(1)) if m.group(1).isdigit() else self.names.get(m.group(1)[1:-1].strip(), len(slots))
        if k >= len(slots):
            raise ParseError('operand %s does not exist' % tok)
        return slots[k]

    def reg(self, tok):
        tok = tok.replace('%%', '%')
        for sc in reversed(self.scopes):
            if tok in sc:
                return sc[tok]
        return None

    def rd(self, slots, tok, t):
        tok = tok.strip()
        m = re.fullmatch(r'(-?)\s*(0[xX][0-9a-fA-F]+|\d+)[uU]?', tok)
        if m:
            d = m.group(2)
            val = int(d, 16) if d[:2].lower() == '0x' else int(d, 8) if len(d) > 1 and d[0] == '0' else int(d)
            return lit(-val if m.group(1) else val, t)
        sl = self.slot(slots, tok)
        if sl is not None:
            if sl['t'] == 'n':
                return lit(sl['imm'], t)
            v = sl['v']
        elif self.reg(tok) is not None:
            v = self.reg(tok)[1]
            if self.reg(tok)[0] != t:
                raise ParseError('register %s is declared with another size than the instruction wants' % tok)
        else:
            raise ParseError('cannot parse PTX operand ' + tok)
        if v is None:
            raise ParseError('read of unwritten ' + tok)
        if v.t != t:
            raise ParseError('operand %s has another size than the instruction wants' % tok)
        return v

    def wr(self, slots, tok, v, guard):
        tok = tok.strip()
        sl = self.slot(slots, tok)
        if sl is not None and sl['out'] and sl['t'] == v.t:
            tgt, k = sl, 'v'
        elif sl is None and self.reg(tok) is not None and self.reg(tok)[0] == v.t:
            tgt, k = self.reg(tok), 1
        else:
            raise ParseError('write to %s (not an output / declared register of that size)' % tok)
        if guard:
            if tgt[k] is None:
                raise ParseError('predicated write to unwritten ' + tok)
            v = self.emit(v.t, 'sel', BITS[v.t] if v.t != 'f' else 32, guard, v, tgt[k])
        tgt[k] = v

    def prod(self, x, y, part, w, sg):
        """part lo / hi / wide of the product of two registers of width w (sg: signed instruction type)."""
        if self.free and w == 32 and not isconst(x) and not isconst(y) and not (sg and part != 'lo'):
            key = tuple(sorted((x.n, y.n)))
            if key not in self.prods:
                self.prods[key] = V('q%d' % (len(self.q) + 1), 'q'); self.q.append(self.prods[key].n)
                self.qdesc.append(tuple(sorted((x.org or '?', y.org or '?'))))
            return self.emit('l' if part == 'wide' else 'r', 'p' + part, None, self.prods[key])
        if part == 'wide':
            return self.emit('l', 'mulwides' if sg else 'mulwide', None, x, y)
        return self.emit(C(w), 'mullo' if part == 'lo' else 'mulhis' if sg else 'mulhi', w, x, y)

    def insn(self, slots, ins):
        guard = None
        m = re.fullmatch(r'@\s*(!?)\s*(%%?[A-Za-z_$][\w$]*)\s+(.*)', ins, re.S)
        if m:
            guard, ins = self.rd(slots, m.group(2), 'f'), m.group(3).strip()
            if m.group(1):
                guard = self.emit('f', 'notp', None, guard)
        m = re.fullmatch(r'([a-z][a-z0-9]*(?:\.[a-z0-9]+)*)\s+(.*)', ins, re.S)
        if not m:
            raise ParseError('cannot parse PTX instruction')
        parts = m.group(1).split('.'); base = parts[0]; mods = parts[1:]
        o = [x.strip() for x in split_top(m.group(2), ',')]
        US = ('u32', 's32', 'u64', 's64'); BS = ('b32', 'b64')
        tys = [x for x in mods if x in US + BS + ('pred',)]
        rest = [x for x in mods if x not in tys]
        R = lambda tok, t: self.rd(slots, tok, t)
        K0 = lit(0, 'f')
        cc = None

        def bad():
            raise ParseError('unsupported PTX instruction')

        def ty1(allowed):
            if len(tys) != 1 or tys[0] not in allowed:
                bad()
            return ('p', 1) if tys[0] == 'pred' else (tys[0][0], int(tys[0][1:]))

        def shape(n, *allowed):
            if len(o) != n or len(set(rest)) != len(rest) or [x for x in rest if x not in allowed]:
                bad()

        def cin(c):
            if c and self.cc is None:
                raise ParseError('carry flag read before it is written in this asm statement')
            return self.cc if c else K0
        if base in ('add', 'addc', 'sub', 'subc'):
            k, w = ty1(US); shape(3, 'cc'); t = C(w)
            x, y, ci = R(o[1], t), R(o[2], t), cin(base in ('addc', 'subc'))
            fr_, fc = ('addr', 'addc') if base.startswith('add') else ('subr', 'subb')
            res = self.emit(t, fr_, w, x, y, ci)
            if 'cc' in rest:
                cc = self.emit('f', fc, w, x, y, ci)
        elif base == 'mul':
            k, w = ty1(US)
            if len(o) != 3 or len(rest) != 1 or rest[0] not in ('lo', 'hi', 'wide') or (rest[0] == 'wide' and w != 32):
                bad()
            t = C(w)
            res = self.prod(R(o[1], t), R(o[2], t), rest[0], w, k == 's')
        elif base in ('mad', 'madc'):
            k, w = ty1(US); t = C(w)
            part = [x for x in rest if x in ('lo', 'hi', 'wide')]
            if len(part) != 1:
                bad()
            part = part[0]
            shape(4, part, 'cc')
            if part == 'wide':
                if w != 32 or base == 'madc' or 'cc' in rest:
                    bad()
                p, z = self.prod(R(o[1], 'r'), R(o[2], 'r'), 'wide', 32, k == 's'), R(o[3], 'l')
                res = self.emit('l', 'addr', 64, p, z, K0)
            else:
                p, z, ci = self.prod(R(o[1], t), R(o[2], t), part, w, k == 's'), R(o[3], t), cin(base == 'madc')
                res = self.emit(t, 'addr', w, p, z, ci)
                if 'cc' in rest:
                    cc = self.emit('f', 'addc', w, p, z, ci)
        elif base == 'setp':
            k, w = ty1(US + BS); t = C(w)
            if len(o) != 3 or len(rest) != 1 or '|' in o[0]:
                bad()
            cmp_ = rest[0]
            if cmp_ in ('eq', 'ne'):
                fn = 'set' + cmp_
            elif cmp_ in ('lt', 'le', 'gt', 'ge') and k != 'b':
                fn = 'set' + cmp_ + ('s' if k == 's' else '')
            elif cmp_ in ('lo', 'ls', 'hi', 'hs') and k == 'u':
                fn = {'lo': 'setlt', 'ls': 'setle', 'hi': 'setgt', 'hs': 'setge'}[cmp_]
            else:
                bad()
            res = self.emit('f', fn, w, R(o[1], t), R(o[2], t))
        elif base == 'selp':
            k, w = ty1(US + BS); shape(4); t = C(w)
            res = self.emit(t, 'sel', w, R(o[3], 'f'), R(o[1], t), R(o[2], t))
        elif base in ('and', 'or', 'xor'):
            k, w = ty1(BS + ('pred',)); shape(3); t = 'f' if k == 'p' else C(w)
            res = self.emit(t, 'b' + base, 32 if k == 'p' else w, R(o[1], t), R(o[2], t))
        elif base == 'not':
            k, w = ty1(BS + ('pred',)); shape(2)
            res = self.emit('f', 'notp', None, R(o[1], 'f')) if k == 'p' else self.emit(C(w), 'notb', w, R(o[1], C(w)))
        elif base == 'neg':
            k, w = ty1(('s32', 's64')); shape(2)
            res = self.emit(C(w), 'neg', w, R(o[1], C(w)))
        elif base in ('shl', 'shr'):
            k, w = ty1(US + BS); shape(3)
            res = self.emit(C(w), 'shl' if base == 'shl' else 'shrs' if k == 's' else 'shr', w, R(o[1], C(w)), R(o[2], 'r'))
        elif base in ('min', 'max'):
            k, w = ty1(US); shape(3)
            res = self.emit(C(w), base + k, w, R(o[1], C(w)), R(o[2], C(w)))
        elif base == 'cvt':
            if len(tys) != 2 or rest or len(o) != 2 or [x for x in tys if x not in US]:
                bad()
            dw, sk, sw = int(tys[0][1:]), tys[1][0], int(tys[1][1:])
            src = R(o[1], C(sw))
            res = src if dw == sw else self.emit('r', 'lo', None, src) if dw < sw else \
                self.emit('l', 'sext' if sk == 's' else 'zext', None, src)
        elif base == 'mov':
            k, w = ty1(US + BS + ('pred',)); shape(2)
            dvec = re.fullmatch(r'\{(.*)\}', o[0], re.S); svec = re.fullmatch(r'\{(.*)\}', o[1], re.S)
            if svec and not dvec and w == 64 and len(split_top(svec.group(1), ',')) == 2:
                lo_, hi_ = split_top(svec.group(1), ',')
                res = self.emit('l', 'pack', None, R(lo_, 'r'), R(hi_, 'r'))
            elif dvec and not svec and w == 64 and len(split_top(dvec.group(1), ',')) == 2:
                src = R(o[1], 'l')
                for tok, fn in zip(split_top(dvec.group(1), ','), ('lo', 'hi')):
                    self.wr(slots, tok, self.emit('r', fn, None, src), guard)
                return
            elif not dvec and not svec:
                res = R(o[1], 'f' if k == 'p' else C(w))
            else:
                bad()
        else:
            bad()
        self.wr(slots, o[0], res, guard)
        if cc is not None:
            if guard:
                if self.cc is None:
                    raise ParseError('predicated carry write without an old carry')
                cc = self.emit('f', 'sel', 32, guard, cc, self.cc)
            self.cc = cc


# ------------------------------------------------------------------------------------------------ operators
# name, member, kind of second argument, free products?
OPS = [('Add', 'add', 'obj', False), ('Sub', 'sub', 'obj', False), ('Cneg', 'cneg', 'bool', False),
       ('Mul', 'muleq', 'obj', False), ('MulRaw', 'mul', 'obj', False), ('Sqr', 'sqr', None, False),
       ('MulW', 'mulweq', 'u32', False), ('Red', 'red', None, False), ('Red4', 'red4', 'arr', False),
       ('MulFree', 'muleq', 'obj', True), ('MulWFree', 'mulweq', 'u32', True),
       ('MulRawFree', 'mul', 'obj', True), ('MulWRawFree', 'mulw', 'u32', True)]
# the products the hand-written full-width invariants (Apa_Gl64, MC_Gl64!InvFree) give to q1, q2, ...
FREE_SHAPE = {'obj': [('Lo(xa)', 'Lo(xb)'), ('Hi(xa)', 'Hi(xb)'), ('Hi(xb)', 'Lo(xa)'), ('Hi(xa)', 'Lo(xb)')],
              'u32': [('Lo(xa)', 'Lo(xb)'), ('Hi(xa)', 'Lo(xb)')]}


def run_op(mem, consts, member, kind, free):
    g = Gen(mem, consts, free)
    g.cells['this.val'] = V('xa', 'l'); g.ctype['this.val'] = 'u64'
    arg = None
    if kind == 'obj':
        g.cells['arg.val'] = V('xb', 'l'); g.ctype['arg.val'] = 'u64'; arg = 'arg'
    elif kind == 'u32':
        arg = g.emit('r', 'lo', None, V('xb', 'l'))
    elif kind == 'bool':
        arg = g.emit('r', 'setne', 32, g.emit('r', 'lo', None, V('xb', 'l')), lit(0, 'r'))
    elif kind == 'arr':
        arg = 'in.t'
        for i in range(4):
            g.cells['in.t[%d]' % i] = V('t%d' % i, 'r'); g.ctype['in.t[%d]' % i] = 'u32'
    g.call(member, arg, this='this')
    if len(g.scopes) != 1:
        raise ParseError('member %s: a { scope of the inline PTX is never closed' % member)
    res = g.cells['this.val']
    live = {res.n}                                              # drop what the result does not depend on
    for n, t, fn, w, args in reversed(g.ir):
        if n in live:
            live.update(a.n for a in args)
    return [i for i in g.ir if i[0] in live], res, g.q, g.qdesc


# fn -> (TLA+ operator, takes the modulus m, C++ primitive or None, C++ primitive is a template on the register type)
FN = dict(addr=('AddR', 1, 'addr', 1), addc=('AddC', 1, 'addc', 1), subr=('SubR', 1, 'subr', 1), subb=('SubB', 1, 'subb', 1),
          mullo=('MulLo', 1, 'mullo', 1), mulhi=('MulHi', 1, 'mulhi', 1), mulhis=('MulHiS', 1, 'mulhis', 1),
          mulwide=('MulWide', 0, 'mulwide', 0), mulwides=('MulWideS', 0, 'mulwides', 0),
          plo=('PLo', 0, None, 0), phi=('PHi', 0, None, 0), pwide=('PWide', 0, None, 0),
          seteq=('SetEq', 0, 'seteq', 1), setne=('SetNe', 0, 'setne', 1), setlt=('SetLt', 0, 'setlt', 1),
          setle=('SetLe', 0, 'setle', 1), setgt=('SetGt', 0, 'setgt', 1), setge=('SetGe', 0, 'setge', 1),
          setlts=('SetLtS', 1, 'setlts', 1), setles=('SetLeS', 1, 'setles', 1), setgts=('SetGtS', 1, 'setgts', 1),
          setges=('SetGeS', 1, 'setges', 1), sel=('Sel', 0, 'sel', 1),
          band=('BAnd', 0, 'band', 1), bor=('BOr', 0, 'bor', 1), bxor=('BXor', 0, 'bxor', 1),
          notb=('NotB', 1, 'notb', 1), notp=('NotP', 0, 'notp', 0), neg=('Neg', 1, 'neg', 1),
          shl=('Shl', 1, 'shl', 1), shr=('Shr', 1, 'shr', 1), shrs=('ShrS', 1, 'shrs', 1),
          minu=('MinU', 0, 'minu', 1), maxu=('MaxU', 0, 'maxu', 1), mins=('MinS', 1, 'mins', 1), maxs=('MaxS', 1, 'maxs', 1),
          zext=('ZExt', 0, 'zext', 0), sext=('SExt', 0, 'sext', 0), pack=('Pack', 0, 'pack', 0),
          lo=('Lo', 0, 'lo32', 0), hi=('Hi', 0, 'hi32', 0))
CPP_T = dict(r='uint32_t', l='uint64_t', f='uint32_t')


def tla_lit(val, t):
    """a literal as a polynomial in Beta = 2^32 (balanced digits): exact at W = 32, scaled with the width below."""
    if t == 'f' or val < 4:
        return str(val)
    if val == 0xffffffff00000001:
        return 'P'
    if val == 0xffffffff:
        return 'WC'
    ds = []; n = val
    while n:
        d = n & 0xffffffff; n >>= 32
        if d > 0x80000000:
            d -= 1 << 32; n += 1
        ds.append(d)
    terms = []
    for i in reversed(range(len(ds))):
        d = ds[i]; c = abs(d)
        if not d:
            continue
        if c <= 0xffff:
            cs = str(c)
        else:
            k = (c & -c).bit_length() - 1
            if k >= 16:
                cs = '((Beta \\div %d) * %d)' % (1 << (32 - k), c >> k) if c >> k != 1 else '(Beta \\div %d)' % (1 << (32 - k))
            else:
                cs = '(((Beta \\div 65536) * %d) + %d)' % (c >> 16, c & 0xffff)
        pw = ['', 'Beta', 'T', '(T * Beta)'][i]
        terms.append((d < 0, cs if not pw else pw if cs == '1' else '(%s * %s)' % (pw, cs)))
    e = terms[0][1]
    for neg, tx in terms[1:]:
        e = '(%s %s %s)' % (e, '-' if neg else '+', tx)
    return 'Lit(%s, %s)' % ('Beta' if t == 'r' else 'T', e)


def tla_shamt(k):
    """a literal shift amount in units of the register width: 32a + b -> a*W + b for |b| <= 8, 32a + 16 -> a*W + W/2."""
    a, b = (k + 8) // 32, (k + 8) % 32 - 8
    if a == 0 or k > 72:
        return str(k)
    aw = 'W' if a == 1 else '(%d * W)' % a
    if b == 16:
        return '(%s + (W \\div 2))' % aw
    if b > 8:
        return str(k)
    return aw if b == 0 else '(%s %s %d)' % (aw, '+' if b > 0 else '-', abs(b))


def tla_arg(a, shamt=False):
    if a.val is None:
        return a.n
    return tla_shamt(a.val) if shamt else tla_lit(a.val, a.t)


def cpp_arg(a):
    if a.val is None:
        return a.n
    return '0x%xULL' % a.val if a.t == 'l' else '0x%xU' % a.val


def tla_body(ir, res):
    lets = []
    for n, t, fn, w, args in ir:
        a = [tla_arg(x, fn in ('shl', 'shr', 'shrs') and i == 1) for i, x in enumerate(args)]
        if FN[fn][1]:
            a = ['Beta' if w == 32 else 'T'] + a
        if t == 'f' and fn in ('band', 'bor', 'bxor'):          # on predicates: the one-bit operator itself
            lets.append('%s == B1(%d, %s)' % (n, ('band', 'bor', 'bxor').index(fn), ', '.join(a)))
            continue
        lets.append('%s == %s(%s)' % (n, FN[fn][0], ', '.join(a)))
    r = tla_arg(res)
    return ('  LET ' + '\n      '.join(lets) + '\n  IN ' + r) if lets else '  ' + r


def cpp_body(ir, res):
    out = []
    for n, t, fn, w, args in ir:
        name = FN[fn][2] + ('<uint%d_t>' % (64 if w == 64 else 32) if FN[fn][3] else '')
        out.append('    const %s %s = %s(%s);' % (CPP_T[t], n, name, ', '.join(cpp_arg(x) for x in args)))
    return '\n'.join(out + ['    return %s;' % cpp_arg(res)])


def generate(src):
    """-> (Gl64_gen.tla text, ptx_exec_gen.hpp text, info)."""
    path = os.path.join(src, 'gl64_t.cuh')
    prog = {}
    consts = {}
    for arch in ARCHS:
        mem, consts[arch] = members(preprocess(path, arch))
        for name, member, kind, free in OPS:
            prog[(name, arch)] = run_op(mem, consts[arch], member, kind, free)
    tla = ['---- MODULE Gl64_gen ----',
           '(* GENERATED by tools/ptx2tla.py from the inline PTX of gl64_t.cuh (current tree); suffix = __CUDA_ARCH__ variant. *)',
           'EXTENDS Ptx']
    cpp = ['// GENERATED by tools/ptx2tla.py from the inline PTX of gl64_t.cuh (current tree).', '#pragma once',
           '#include <string>', '#include "ptx_prims.hpp"', 'namespace ptx {']
    info = dict(same={}, insns={}, nfree={}, free_ok={}, prims=sorted({i[2] for p in prog.values() for i in p[0]}),
                consts={'%s@%d' % (k, a): '0x%x' % v[0] for a in ARCHS for k, v in consts[a].items()})
    for name, member, kind, free in OPS:
        bodies = {}
        for arch in ARCHS:
            ir, res, q, qdesc = prog[(name, arch)]
            npar = len(FREE_SHAPE[kind]) if free else 0
            ok = not free or [tuple(sorted(d)) for d in qdesc] == [tuple(sorted(d)) for d in FREE_SHAPE[kind]]
            info['free_ok'][name] = info['free_ok'].get(name, True) and ok
            par = ['t0', 't1', 't2', 't3'] if kind == 'arr' else ['xa', 'xb'] + ['q%d' % (i + 1) for i in range(npar)]
            # products in another number or order than the hand-written invariants expect: a stub of the right arity
            # (lib/c20.py then leaves the free-product obligations out; the products stay covered by TLC and replay)
            plain = name[:-4] if name[:-4] in [o[0] for o in OPS] else None
            bodies[arch] = tla_body(ir, res) if ok else '  %s%d(xa, xb)' % (plain, arch) if plain else '  0'
            info['insns']['%s%d' % (name, arch)] = len(ir)
            info['nfree'][name] = len(q)
            same = arch != ARCHS[0] and bodies[arch] == bodies[ARCHS[0]] and q == prog[(name, ARCHS[0])][2]
            info['same'][name] = same
            hd = '%s%d(%s) ==' % (name, arch, ', '.join(par))
            tla.append(hd + (' %s%d(%s)' % (name, ARCHS[0], ', '.join(par)) if same else '\n' + bodies[arch]))
            if not free:
                cpar = ', '.join(('uint32_t ' if kind == 'arr' else 'uint64_t ') + p for p in par)
                cpp.append('static inline uint64_t gl_%s_%d(%s)\n{\n%s\n}' % (name.lower(), arch, cpar, cpp_body(ir, res)))
    cpp.append('static inline bool exec(const std::string &op, int arch, uint64_t a, uint64_t b, uint64_t &r)\n{')
    for arch in ARCHS:
        for name, member, kind, free in OPS:
            if free:
                continue
            call = ('gl_red4_%d(lo32(a), hi32(a), lo32(b), hi32(b))' % arch) if kind == 'arr' else 'gl_%s_%d(a, b)' % (name.lower(), arch)
            cpp.append('    if (arch == %d && op == "%s") { r = %s; return true; }' % (arch, name.lower(), call))
    cpp += ['    return false;', '}', '}']
    tla.append('====')
    return '\n'.join(tla) + '\n', '\n'.join(cpp) + '\n', info


def write(src, tla_dir, cpp_root):
    """writes <tla_dir>/Gl64_gen.tla and <cpp_root>/gen_<hash>/{ptx_exec_gen.hpp,ptx_prims.hpp}; -> (include dir, info)."""
    try:
        tla, cpp, info = generate(src)
    except (IndexError, KeyError, ValueError, AttributeError, TypeError) as e:     # text in a shape nobody anticipated
        raise ParseError('front end could not follow the source (%s: %s)' % (type(e).__name__, e))
    open(os.path.join(tla_dir, 'Gl64_gen.tla'), 'w').write(tla)
    prims = open(os.path.join(HERE, 'ptx_prims.hpp')).read()
    d = os.path.join(cpp_root, 'gen_' + hashlib.sha256((cpp + prims).encode()).hexdigest()[:16])
    os.makedirs(d, exist_ok=True)
    open(os.path.join(d, 'ptx_exec_gen.hpp'), 'w').write(cpp)
    shutil.copy(os.path.join(HERE, 'ptx_prims.hpp'), d)
    return d, info


if __name__ == '__main__':
    src = sys.argv[1] if len(sys.argv) > 1 else '/repo/src'
    out = sys.argv[2] if len(sys.argv) > 2 else '.'
    try:
        d, info = write(src, out, out)
    except ParseError as e:
        print('ptx2tla: ' + str(e), file=sys.stderr)
        sys.exit(3)
    print(d)
