#!/bin/bash
# tools/reseed.sh [jobs]  : every stored seed against the quick tier of its property's check (C08_3 also against C12); prints one line per seed
J=${1:-4}
mkdir -p /verif/.cache/reseed
ls -d /verif/seeded/C*_* | while read d; do echo "$d"; done | xargs -P $J -I{} bash -c '
  d={}; s=$(basename $d); id=${s%%_*}
  out=/verif/.cache/reseed/$s.log
  VERIF_EVID=/verif/.cache/reseed/evid_$s /verif/tools/mutrun.sh $d/patch.diff -- $id --tier quick > $out 2>&1; rc=$?
  n=$(grep -c "^VIOLATION" $out)
  echo "SEED $s rc=$rc violations=$n"
  rm -rf /verif/.cache/reseed/evid_$s'
