#!/usr/bin/env python3
"""store_seeds.py <round> <worktree-prefix> <notes.json>   notes: {"C03:1": "how it is caught", ...}
copies patchN/demoN/buildN/metaN from <prefix><ID>/out into seeded/<ID>_<next free number>/ (names normalised)."""
import json, os, shutil, sys, glob, re
rnd, prefix, notes = sys.argv[1], sys.argv[2], json.load(open(sys.argv[3]))
for key, note in sorted(notes.items()):
    pid, n = key.split(':'); n = int(n)
    src = '%s%s/out' % (prefix, pid)
    used = [int(d.rsplit('_', 1)[1]) for d in glob.glob('/verif/seeded/%s_*' % pid)]
    k = max(used + [0]) + 1
    dst = '/verif/seeded/%s_%d' % (pid, k)
    os.makedirs(dst)
    shutil.copy('%s/patch%d.diff' % (src, n), dst + '/patch.diff')
    shutil.copy('%s/demo%d.cpp' % (src, n), dst + '/demo.cpp')
    b = open('%s/build%d.sh' % (src, n)).read().replace('demo%d.cpp' % n, 'demo.cpp')
    open(dst + '/build.sh', 'w').write(b)
    m = json.load(open('%s/meta%d.json' % (src, n)))
    sv = json.load(open('/tmp/seedverify/%s_%d.json' % (pid, n)))
    assert sv['demo_clean_rc'] == 0 and sv['tests_passed'] == 30 and sv['demo_mutant_rc'] != 0, (key, sv)
    caught_by = note.get('check', pid) if isinstance(note, dict) else pid
    text = note['note'] if isinstance(note, dict) else note
    meta = dict(property=pid, round=rnd, summary=m.get('summary'), needs_to_manifest=m.get('needs_to_manifest'), files_changed=m.get('files_changed'),
                author_verified=m.get('verified'),
                confirmed_by_me=dict(worktree='scratch git worktree of /repo (HEAD with all fix: and hook commits)', demo_on_unmodified_rc=sv['demo_clean_rc'],
                                     tests_with_patch='%d/30 passed' % sv['tests_passed'], demo_with_patch_rc=sv['demo_mutant_rc']),
                detected_by=dict(check='./check %s --tier quick' % caught_by,
                                 result='VIOLATION (exit 1) with the patch applied to a scratch copy (tools/mutrun.sh); exit 0 on the unchanged tree', note=text))
    json.dump(meta, open(dst + '/meta.json', 'w'), indent=1)
    print(key, '->', dst)
