#!/usr/bin/env python3
"""Generate LaneKernels.tla (one 2W-bit lane of every register-only AVX2 / AVX512 kernel) from the intrinsic code of the
*current* tree: goldilocks_base_field_avx.hpp / _avx512.hpp.  The kernels are straight-line sequences of intrinsics and
of calls to each other; each becomes a width-parametric TLA+ operator (SSA LET chain) with the same names as the
hand-written spec/LaneKernels.tla, which remains the fallback when the code can no longer be parsed (exit status 3).

Lane semantics (Phi = 2^W, T = Phi^2, MSB = T/2, Pn = Phi-1):
  xor(x, MSB) -> (x+MSB)%T        add/sub_epi64 -> wrap           srli/slli by 32|33|31 -> div/mul by Phi|2Phi|Phi/2
  cmpgt_epi64 -> signed compare (mask)   cmpgt_epi32 (+srli 32) -> signed compare of the high halves, Pn or 0
  and/andnot with a mask -> IF ; and with P_n / sqmask -> % Phi / % 2Phi     mul_epu32 -> Lo*Lo
  movehdup / moveldup -> duplicated half     blend_epi32 0xaa -> Hi(b)*Phi + Lo(a)
  AVX512: cmpge/cmpgt_epu64_mask -> unsigned compare; mask_add_epi64 -> IF; mask_blend_epi32 0xAAAA -> as blend
Products of two non-constant operands are also emitted in a *P form (extra parameters m1..mk in code order) so that the
same text can be checked symbolically at W = 32 with free products."""
import re, sys


class ParseError(Exception):
    pass


NAMES = {
    'shift_avx': 'ShiftK', 'toCanonical_avx_s': 'ToCanonS', 'toCanonical_avx': 'ToCanon', 'add_avx_a_sc': 'AddASc', 'add_avx': 'Add',
    'add_avx_s_b_small': 'AddSBSmall', 'add_avx_b_small': 'AddBSmall', 'sub_avx': 'Sub', 'sub_avx_s_b_small': 'SubSBSmall',
    'mult_avx_128': 'Mult128', 'mult_avx_72': 'Mult72', 'reduce_avx_128_64': 'Reduce128', 'reduce_avx_96_64': 'Reduce96',
    'mult_avx': 'Mult', 'mult_avx_8': 'Mult8', 'square_avx_128': 'Square128', 'square_avx': 'Square',
    'toCanonical_avx512': 'ToCanon512', 'add_avx512': 'Add512', 'add_avx512_b_c': 'AddBC512', 'sub_avx512': 'Sub512', 'sub_avx512_b_c': 'SubBC512',
    'mult_avx512_128': 'Mult128_512', 'mult_avx512_72': 'Mult72_512', 'reduce_avx512_128_64': 'Reduce128_512', 'reduce_avx512_96_64': 'Reduce96_512',
    'mult_avx512': 'Mult512', 'mult_avx512_8': 'Mult8_512', 'square_avx512_128': 'Square128_512', 'square_avx512': 'Square512'}
CHAIN_NAMES = {'spmv_avx_4x12': 'Spmv2', 'spmv_avx_4x12_a': 'Spmv2A', 'spmv_avx_4x12_8': 'Spmv8', 'spmv_avx512_4x12': 'Spmv512', 'spmv_avx512_4x12_8': 'Spmv8_512',
               'mmult_avx_4x12': 'ColSum', 'mmult_avx_4x12_a': 'ColSumA', 'mmult_avx_4x12_8': 'ColSum8', 'mmult_avx512_4x12': 'ColSum512', 'mmult_avx512_4x12_8': 'ColSum8_512'}
CONSTS = {'MSB': ('word', 'MSB'), 'P': ('word', 'P'), 'P_n': ('word', 'Pn'), 'P8': ('word', 'P'), 'P8_n': ('word', 'Pn'),
          'P_s': ('word', 'Shift(P)'), 'sqmask': ('lowmask', '(2 * Phi)'), 'sqmask8': ('lowmask', '(2 * Phi)')}


def strip_comments(s):
    s = re.sub(r'/\*.*?\*/', '', s, flags=re.S)
    return re.sub(r'//[^\n]*', '', s)


def functions(text):
    """register-only kernels: inline void Goldilocks::name(__mXXXi &out.., const __mXXXi &in..) { body }"""
    out = {}
    for m in re.finditer(r'inline\s+void\s+Goldilocks::(\w+)\s*\(([^)]*)\)\s*\{', text):
        name, params = m.group(1), m.group(2)
        ps = [p.strip() for p in params.split(',')]
        if not all(re.fullmatch(r'(const\s+)?__m(256|512)i\s*&\s*\w+', p) for p in ps):
            continue
        i = m.end(); depth = 1
        while depth:
            c = text[i]
            depth += (c == '{') - (c == '}')
            i += 1
        body = text[m.end():i - 1]
        outs = [re.search(r'(\w+)$', p).group(1) for p in ps if not p.startswith('const')]
        ins = [re.search(r'(\w+)$', p).group(1) for p in ps if p.startswith('const')]
        if name in ('square_avx', 'square_avx512'):       # (c, a): a is a non-const reference but an input
            outs, ins = outs[:1], outs[1:] + ins
        if name in NAMES and name not in out:
            out[name] = (outs, ins, body)
    return out


def chain_functions(text):
    out = {}
    for m in re.finditer(r'inline\s+void\s+Goldilocks::(\w+)\s*\(([^)]*)\)\s*\{', text):
        name, params = m.group(1), m.group(2)
        if name not in CHAIN_NAMES or name in out:
            continue
        ps = [p.strip() for p in params.split(',')]
        i = m.end(); depth = 1
        while depth:
            c = text[i]
            depth += (c == '{') - (c == '}')
            i += 1
        body = text[m.end():i - 1]
        outs = [re.search(r'(\w+)$', p).group(1) for p in ps if re.fullmatch(r'__m(256|512)i\s*&\s*\w+', p)]
        ins = [re.search(r'(\w+)$', p).group(1) for p in ps if re.fullmatch(r'const\s+__m(256|512)i\s*&\s*\w+', p)]
        out[name] = (outs, ins, body)
    return out


def split_args(s):
    args = []; d = 0; cur = ''
    for ch in s:
        if ch == '(':
            d += 1
        if ch == ')':
            d -= 1
        if ch == ',' and d == 0:
            args.append(cur.strip()); cur = ''
        else:
            cur += ch
    if cur.strip():
        args.append(cur.strip())
    return args


class Gen:
    def __init__(self, fname, outs, ins, body, sigs):
        self.fname = fname; self.outs = outs; self.ins = ins; self.sigs = sigs
        self.env = {v: ('word', v) for v in ins}     # var -> (kind, tla expr)
        self.lets = []; self.n = 0; self.prods = []
        self.body = body
        self.chain = False          # chain kernels: values coming from memory / permutations become parameters
        self.opaque = []

    def fresh(self, base):
        self.n += 1
        return '%s_%d' % (re.sub(r'\W', '', base), self.n)

    def bind(self, var, kind, expr):
        v = self.fresh(var)
        self.lets.append('%s == %s' % (v, expr))
        self.env[var] = (kind, v)

    def val(self, tok):
        tok = tok.strip()
        if tok in self.env:
            return self.env[tok]
        if tok in CONSTS:
            return CONSTS[tok]
        if re.fullmatch(r'0[xX][0-9a-fA-F]+|\d+', tok):
            return ('imm', int(tok, 0))
        return self.expr(tok)

    def expr(self, e):
        e = e.strip()
        m = re.fullmatch(r'(\w+)\s*\((.*)\)', e, flags=re.S)
        if not m:
            if e in self.env or e in CONSTS or re.fullmatch(r'0[xX][0-9a-fA-F]+|\d+', e):
                return self.val(e)
            raise ParseError('%s: cannot parse expression %r' % (self.fname, e))
        f, args = m.group(1), split_args(m.group(2))
        f0 = re.sub(r'^_mm(256|512)_', '', f)
        if f0 in ('castps_si256', 'castsi256_ps', 'castps_si512', 'castsi512_ps', 'castpd_si256', 'castsi256_pd'):
            return self.val(args[0])
        A = [self.val(a) for a in args]

        def w(i):
            k, x = A[i]
            if k not in ('word',):
                raise ParseError('%s: %s operand %d is %s, expected a lane word' % (self.fname, f, i, k))
            return x
        if f0 in ('xor_si256', 'xor_si512'):
            ks = [a for a in A]
            if A[1] == ('word', 'MSB'):
                return ('word', '((%s + MSB) %% T)' % w(0))
            if A[0] == ('word', 'MSB'):
                return ('word', '((%s + MSB) %% T)' % w(1))
            raise ParseError('%s: xor with a non-MSB operand' % self.fname)
        if f0 == 'add_epi64':
            return ('word', '((%s + %s) %% T)' % (w(0), w(1)))
        if f0 == 'sub_epi64':
            return ('word', '((%s - %s) %% T)' % (w(0), w(1)))
        if f0 == 'cmpgt_epi64':
            return ('mask', 'Gt64s(%s, %s)' % (w(0), w(1)))
        if f0 == 'cmpgt_epi32':
            return ('mask32', 'GtHi32s(%s, %s)' % (w(0), w(1)))
        if f0 == 'cmpeq_epi32':
            return ('mask32', '(Hi(%s) = Hi(%s))' % (w(0), w(1)))
        if f0 == 'cmpeq_epi64':
            return ('mask', '(%s = %s)' % (w(0), w(1)))
        if f0 in ('and_si256', 'and_si512'):
            for i, j in ((0, 1), (1, 0)):
                if A[i][0] == 'mask':
                    return ('word', '(IF %s THEN %s ELSE 0)' % (A[i][1], w(j)))
                if A[i] == ('word', 'Pn'):
                    return ('word', '(%s %% Phi)' % w(j))
                if A[i][0] == 'lowmask':
                    return ('word', '(%s %% %s)' % (w(j), A[i][1]))
            raise ParseError('%s: general bitwise and is not modelled' % self.fname)
        if f0 in ('andnot_si256', 'andnot_si512'):
            if A[0][0] == 'mask':
                return ('word', '(IF %s THEN 0 ELSE %s)' % (A[0][1], w(1)))
            raise ParseError('%s: andnot without a mask' % self.fname)
        if f0 == 'srli_epi64':
            k = A[1]
            if k[0] != 'imm':
                raise ParseError('shift count')
            if A[0][0] == 'mask32':
                if k[1] != 32:
                    raise ParseError('mask32 shifted by %d' % k[1])
                return ('word', '(IF %s THEN Pn ELSE 0)' % A[0][1])
            d = {32: 'Phi', 33: '(2 * Phi)', 31: '(Phi \\div 2)'}.get(k[1])
            if not d:
                raise ParseError('%s: srli by %d' % (self.fname, k[1]))
            return ('word', '(%s \\div %s)' % (w(0), d))
        if f0 == 'slli_epi64':
            k = A[1]
            d = {32: 'Phi', 33: '(2 * Phi)', 31: '(Phi \\div 2)'}.get(k[1] if k[0] == 'imm' else None)
            if not d:
                raise ParseError('%s: slli count' % self.fname)
            return ('word', '((%s * %s) %% T)' % (w(0), d))
        if f0 == 'mul_epu32':
            if A[0] == ('word', 'Pn') or A[1] == ('word', 'Pn'):
                x = w(1) if A[0] == ('word', 'Pn') else w(0)
                return ('word', '((%s %% Phi) * Pn)' % x)
            self.prods.append('((%s %% Phi) * (%s %% Phi))' % (w(0), w(1)))
            return ('word', '@P%d@' % len(self.prods))
        if f0 == 'movehdup_ps':
            return ('word', '((%s \\div Phi) * Phi + (%s \\div Phi))' % (w(0), w(0)))
        if f0 == 'moveldup_ps':
            return ('word', '((%s %% Phi) * Phi + (%s %% Phi))' % (w(0), w(0)))
        if f0 == 'blend_epi32':
            if A[2] != ('imm', 0xaa):
                raise ParseError('%s: blend mask' % self.fname)
            return ('word', '((%s \\div Phi) * Phi + (%s %% Phi))' % (w(1), w(0)))
        if f0 == 'mask_blend_epi32':
            if A[0] != ('imm', 0xAAAA):
                raise ParseError('%s: mask_blend mask' % self.fname)
            return ('word', '((%s \\div Phi) * Phi + (%s %% Phi))' % (w(2), w(1)))
        if f0 == 'cmpge_epu64_mask':
            return ('mask', '(%s >= %s)' % (w(0), w(1)))
        if f0 == 'cmpgt_epu64_mask':
            return ('mask', '(%s > %s)' % (w(0), w(1)))
        if f0 == 'cmplt_epu64_mask':
            return ('mask', '(%s < %s)' % (w(0), w(1)))
        if f0 == 'cmple_epu64_mask':
            return ('mask', '(%s <= %s)' % (w(0), w(1)))
        if f0 == 'mask_add_epi64':
            if A[1][0] != 'mask':
                raise ParseError('%s: mask_add without mask' % self.fname)
            return ('word', '(IF %s THEN ((%s + %s) %% T) ELSE %s)' % (A[1][1], w(2), w(3), w(0)))
        if f0 == 'mask_sub_epi64':
            return ('word', '(IF %s THEN ((%s - %s) %% T) ELSE %s)' % (A[1][1], w(2), w(3), w(0)))
        raise ParseError('%s: unsupported intrinsic %s' % (self.fname, f))

    def run(self):
        body = strip_comments(self.body)
        for st in [s.strip() for s in body.split(';')]:
            if not st:
                continue
            st = re.sub(r'\s+', ' ', st)
            m = re.fullmatch(r'(?:const )?(?:__m256i|__m512i|__mmask8|__mmask16) ([\w, ]+)', st)
            if m:
                continue                                            # plain declarations
            m = re.fullmatch(r'(?:const )?(?:__m256i|__m512i|__mmask8|__mmask16) (\w+) = (.*)', st)
            if m and self.chain and (re.match(r'_mm(256|512)_(permute|unpack|set4|set_epi64|castpd)', m.group(2))):
                m = None
            if m:
                k, x = self.expr(m.group(2)) if '(' in m.group(2) else self.val(m.group(2))
                if k == 'imm':
                    self.env[m.group(1)] = (k, x)
                else:
                    self.bind(m.group(1), k, x)
                continue
            m = re.fullmatch(r'(\w+) = (.*)', st)
            if m:
                k, x = self.expr(m.group(2)) if '(' in m.group(2) else self.val(m.group(2))
                self.bind(m.group(1), k, x)
                continue
            m = re.fullmatch(r'(?:Goldilocks::)?(\w+)\s*\((.*)\)', st)
            if m and m.group(1) in self.sigs:
                callee = m.group(1); args = split_args(m.group(2))
                couts, cins, _ = self.sigs[callee]
                if len(args) != len(couts) + len(cins):
                    raise ParseError('%s: call of %s with %d args' % (self.fname, callee, len(args)))
                inexprs = []
                for a in args[len(couts):]:
                    k, x = self.val(a)
                    if k != 'word':
                        raise ParseError('%s: non-word argument to %s' % (self.fname, callee))
                    inexprs.append(x)
                call = '%s(%s)' % (NAMES[callee], ', '.join(inexprs))
                if len(couts) == 1:
                    self.bind(args[0], 'word', call)
                else:
                    r = self.fresh('r'); self.lets.append('%s == %s' % (r, call))
                    self.bind(args[0], 'word', r + '.h'); self.bind(args[1], 'word', r + '.l')
                continue
            if self.chain:
                # loads of coefficient rows, calls of other 12-wide kernels, permutations: the assigned register is an
                # opaque lane value (a parameter of the generated chain operator)
                m = re.fullmatch(r'(?:Goldilocks::)?(?:load_avx|load_avx_a|load_avx512|load_avx512_a)\s*\((\w+), &\((\w+)\[(\d+)\]\)\)', st)
                if m:
                    pname = '%s%d' % (re.sub(r'_\w+$', '', m.group(2)), int(m.group(3)) // 4)
                    self.env[m.group(1)] = ('word', pname); self.opaque.append(pname); continue
                m = re.fullmatch(r'(?:const )?__m512i (\w+) = _mm512_set4_epi64\((\w+)\[(\d+)\]\.fe, .*\)', st)
                if m:
                    pname = '%s%d' % (re.sub(r'_\w+$', '', m.group(2)), (int(m.group(3)) - 3) // 4)
                    self.env[m.group(1)] = ('word', pname); self.opaque.append(pname); continue
                m = re.fullmatch(r'(?:const )?(?:__m256i|__m512i) (\w+) = (.*)', st) or re.fullmatch(r'(\w+) = (.*)', st)
                if m:
                    self.env[m.group(1)] = ('word', m.group(1)); self.opaque.append(m.group(1)); continue
                m = re.fullmatch(r'(?:Goldilocks::)?(\w+)\s*\((\w+), .*\)', st)
                if m:
                    self.env[m.group(2)] = ('word', m.group(2)); self.opaque.append(m.group(2)); continue
            raise ParseError('%s: cannot parse statement %r' % (self.fname, st))
        for o in self.outs:
            if o not in self.env or self.env[o][0] != 'word':
                raise ParseError('%s: output %s not produced' % (self.fname, o))

    def emit(self):
        name = NAMES[self.fname]
        res = self.env[self.outs[0]][1] if len(self.outs) == 1 else '[h |-> %s, l |-> %s]' % (self.env[self.outs[0]][1], self.env[self.outs[1]][1])
        lets = '\n      '.join(self.lets)
        params = ', '.join(self.ins)
        out = []
        if self.prods:
            np_ = len(self.prods)
            body = lets
            for i in range(np_):
                body = body.replace('@P%d@' % (i + 1), 'm%d' % (i + 1))
            r2 = res
            pparams = params + ', ' + ', '.join('m%d' % (i + 1) for i in range(np_))
            out.append('%sP(%s) ==\n  LET %s\n  IN %s\n' % (name, pparams, body, r2))
            # the real products, in code order; they may refer to earlier SSA names, so re-evaluate the chain
            body2 = lets
            for i in range(np_):
                body2 = body2.replace('@P%d@' % (i + 1), self.prods[i])
            out.append('%s(%s) ==\n  LET %s\n  IN %s\n' % (name, params, body2, res))
        else:
            if self.lets:
                out.append('%s(%s) ==\n  LET %s\n  IN %s\n' % (name, params, lets, res))
            else:
                out.append('%s(%s) == %s\n' % (name, params, res))
        return ''.join(out), len(self.prods)


HEADER = '''---- MODULE LaneKernels ----
(* GENERATED by tools/avx2tla.py from goldilocks_base_field_avx.hpp / _avx512.hpp of the current tree.
   One 2W-bit lane of every register-only AVX2 / AVX512 kernel; same operator names as the hand-written fallback. *)
EXTENDS GL
Pn == Phi - 1
Shift(x) == (x + MSB) % T
S64(x) == IF x >= MSB THEN x - T ELSE x
S32(h) == IF h >= Phi \\div 2 THEN h - Phi ELSE h
Gt64s(a, b) == S64(a) > S64(b)
GtHi32s(a, b) == S32(Hi(a)) > S32(Hi(b))
Ps == Shift(P)
SmallB(b) == b <= T - Phi
IsShiftedCanon(x) == IsCanon(Shift(x))
'''

ORDER = ['shift_avx', 'toCanonical_avx_s', 'toCanonical_avx', 'add_avx_a_sc', 'add_avx', 'add_avx_s_b_small', 'add_avx_b_small', 'sub_avx',
         'sub_avx_s_b_small', 'mult_avx_128', 'mult_avx_72', 'reduce_avx_128_64', 'reduce_avx_96_64', 'mult_avx', 'mult_avx_8', 'square_avx_128', 'square_avx',
         'toCanonical_avx512', 'add_avx512_b_c', 'add_avx512', 'sub_avx512_b_c', 'sub_avx512', 'mult_avx512_128', 'mult_avx512_72',
         'reduce_avx512_128_64', 'reduce_avx512_96_64', 'mult_avx512', 'mult_avx512_8', 'square_avx512_128', 'square_avx512']


def generate(src):
    t = strip_comments(open(src + '/goldilocks_base_field_avx.hpp').read()) + '\n' + strip_comments(open(src + '/goldilocks_base_field_avx512.hpp').read())
    sigs = functions(t)
    missing = [k for k in ORDER if k not in sigs]
    if missing:
        raise ParseError('kernels not found: %s' % missing)
    parts = [HEADER]
    nprod = {}
    for k in ORDER:
        outs, ins, body = sigs[k]
        g = Gen(k, outs, ins, body, sigs)
        g.run()
        txt, npd = g.emit()
        nprod[NAMES[k]] = npd
        parts.append(txt)
    parts.append('====\n')
    return ''.join(parts), nprod


def generate_chains(src):
    """MatChains.tla: the per-lane arithmetic chains of the 12-wide kernels (spmv: products and adders; mmult: the sums of
    the four transposed columns), generated from the current tree; coefficient rows and transposed columns are parameters."""
    t = strip_comments(open(src + '/goldilocks_base_field_avx.hpp').read()) + '\n' + strip_comments(open(src + '/goldilocks_base_field_avx512.hpp').read())
    sigs = functions(t)
    ch = chain_functions(t)
    missing = [k for k in CHAIN_NAMES if k not in ch]
    if missing:
        raise ParseError('chain kernels not found: %s' % missing)
    parts = ['---- MODULE MatChains ----\n(* GENERATED by tools/avx2tla.py from the 12-wide kernels of goldilocks_base_field_avx.hpp / _avx512.hpp: the per-lane\n   arithmetic chains; values loaded from coefficient rows (b0, b1, b2) and transposed column registers (c0..c3) are parameters. *)\nEXTENDS LaneKernels\n']
    sig = {}
    for k, name in CHAIN_NAMES.items():
        outs, ins, body = ch[k]
        g = Gen(k, outs, ins, body, sigs)
        g.chain = True
        g.run()
        res = g.env[outs[0]][1]
        text = '\n      '.join(g.lets)
        used = [p for p in dict.fromkeys(ins + g.opaque) if re.search(r'\b%s\b' % re.escape(p), text + ' ' + res)]
        if g.prods:
            raise ParseError('%s: direct products in a chain kernel' % k)
        parts.append('%s(%s) ==\n  LET %s\n  IN %s\n' % (name, ', '.join(used), text, res))
        sig[name] = used
    parts.append('====\n')
    return ''.join(parts), sig


if __name__ == '__main__':
    src = sys.argv[1] if len(sys.argv) > 1 else '/repo/src'
    out = sys.argv[2] if len(sys.argv) > 2 else 'LaneKernels.tla'
    try:
        text, nprod = generate(src)
    except ParseError as e:
        print('avx2tla: ' + str(e), file=sys.stderr)
        sys.exit(3)
    open(out, 'w').write(text)
    print(nprod)
    if len(sys.argv) > 3:
        try:
            ctext, sig = generate_chains(src)
        except ParseError as e:
            print('avx2tla(chains): ' + str(e), file=sys.stderr)
            sys.exit(3)
        open(sys.argv[3], 'w').write(ctext)
        print(sig)
