// PTX-subset primitives at w = 32 for the generated executor (ptx_exec_gen.hpp, emitted by tools/ptx2tla.py).
// One function per operator of spec/Ptx.tla; a .u32 register is uint32_t, a .u64 register uint64_t, CC.CF and
// predicates are uint32_t 0/1.  No GPU is involved: this executes the *text* of gl64_t.cuh.
#pragma once
#include <cstdint>
namespace ptx
{
    typedef unsigned __int128 u128;
    static const uint64_t GL_MOD = 0xffffffff00000001ULL, GL_NEGMOD = 0xffffffffULL;
    static const uint32_t GL_W = 0xffffffffU;
    static inline uint32_t addr32(uint32_t x, uint32_t y, uint32_t ci) { return (uint32_t)((uint64_t)x + y + ci); }
    static inline uint32_t addc32(uint32_t x, uint32_t y, uint32_t ci) { return (uint32_t)(((uint64_t)x + y + ci) >> 32); }
    static inline uint64_t addr64(uint64_t x, uint64_t y, uint32_t ci) { return (uint64_t)((u128)x + y + ci); }
    static inline uint32_t addc64(uint64_t x, uint64_t y, uint32_t ci) { return (uint32_t)(((u128)x + y + ci) >> 64); }
    static inline uint32_t subr32(uint32_t x, uint32_t y, uint32_t bi) { return (uint32_t)((uint64_t)x - y - bi); }
    static inline uint32_t subb32(uint32_t x, uint32_t y, uint32_t bi) { return (uint64_t)x < (uint64_t)y + bi ? 1u : 0u; }
    static inline uint64_t subr64(uint64_t x, uint64_t y, uint32_t bi) { return x - y - bi; }
    static inline uint32_t subb64(uint64_t x, uint64_t y, uint32_t bi) { return (u128)x < (u128)y + bi ? 1u : 0u; }
    static inline uint32_t mullo(uint32_t x, uint32_t y) { return (uint32_t)((uint64_t)x * y); }
    static inline uint32_t mulhi(uint32_t x, uint32_t y) { return (uint32_t)(((uint64_t)x * y) >> 32); }
    static inline uint32_t seteq(uint32_t x, uint32_t y) { return x == y ? 1u : 0u; }
    static inline uint32_t setne(uint32_t x, uint32_t y) { return x != y ? 1u : 0u; }
    static inline uint32_t sel32(uint32_t p, uint32_t x, uint32_t y) { return p == 1 ? x : y; }
    static inline uint64_t sel64(uint32_t p, uint64_t x, uint64_t y) { return p == 1 ? x : y; }
    static inline uint64_t pack(uint32_t l, uint32_t h) { return ((uint64_t)h << 32) | l; }
    static inline uint32_t lo32(uint64_t v) { return (uint32_t)v; }
    static inline uint32_t hi32(uint64_t v) { return (uint32_t)(v >> 32); }
    static inline uint32_t neg32(uint32_t x) { return 0u - x; }
    static inline uint32_t isz(uint64_t v) { return v == 0 ? 1u : 0u; }
}
