// PTX-subset primitives at W = 32 for the generated executor (ptx_exec_gen.hpp, emitted by tools/ptx2tla.py).
// One function per operator of spec/Ptx.tla (same names in lower case); U is the unsigned type of the instruction's
// register width (uint32_t: .b32 .u32 .s32, uint64_t: .b64 .u64 .s64); registers are bit patterns, signed
// instructions read them in two's complement.  CC.CF and predicates are uint32_t 0/1.  No GPU is involved: this
// executes the *text* of gl64_t.cuh.
// ptx::selftest() compares every primitive with its definition in (unsigned) __int128 arithmetic on a corner grid
// and on pseudo-random operands; harness/drv_ptx.cpp runs it first (a mismatch is an infrastructure failure).
#pragma once
#include <cstdint>
#include <cstdio>
#include <string>
namespace ptx
{
    typedef unsigned __int128 u128;
    typedef __int128 i128;
    template <class U> struct tr;
    template <> struct tr<uint32_t> { typedef int32_t S; typedef uint64_t D; static const unsigned bits = 32; };
    template <> struct tr<uint64_t> { typedef int64_t S; typedef u128 D; static const unsigned bits = 64; };

    // ---- add / sub with carry (CF of sub is the borrow)
    template <class U> static inline U addr(U x, U y, uint32_t ci) { return (U)(x + y + (U)ci); }
    template <class U> static inline uint32_t addc(U x, U y, uint32_t ci)
    {
        U s = (U)(x + y);
        uint32_t c1 = s < x ? 1u : 0u;
        U s2 = (U)(s + (U)ci);
        return c1 | (s2 < s ? 1u : 0u);
    }
    template <class U> static inline U subr(U x, U y, uint32_t bi) { return (U)(x - y - (U)bi); }
    template <class U> static inline uint32_t subb(U x, U y, uint32_t bi) { return (x < y || (bi && x == y)) ? 1u : 0u; }
    // ---- products
    template <class U> static inline U mullo(U x, U y) { return (U)(x * y); }
    static inline uint32_t mulhi_(uint32_t x, uint32_t y) { return (uint32_t)(((uint64_t)x * y) >> 32); }
    static inline uint64_t mulhi_(uint64_t x, uint64_t y)
    {   // schoolbook on 32-bit halves
        uint64_t x0 = (uint32_t)x, x1 = x >> 32, y0 = (uint32_t)y, y1 = y >> 32;
        uint64_t p00 = x0 * y0, p01 = x0 * y1, p10 = x1 * y0, p11 = x1 * y1;
        uint64_t mid = (p00 >> 32) + (uint32_t)p01 + (uint32_t)p10;
        return p11 + (p01 >> 32) + (p10 >> 32) + (mid >> 32);
    }
    template <class U> static inline U mulhi(U x, U y) { return mulhi_(x, y); }
    template <class U> static inline U mulhis(U x, U y)
    {   // signed high part from the unsigned one
        typedef typename tr<U>::S S;
        U h = mulhi_(x, y);
        if ((S)x < 0) h = (U)(h - y);
        if ((S)y < 0) h = (U)(h - x);
        return h;
    }
    static inline uint64_t mulwide(uint32_t x, uint32_t y) { return (uint64_t)x * y; }
    static inline uint64_t mulwides(uint32_t x, uint32_t y) { return (uint64_t)((int64_t)(int32_t)x * (int64_t)(int32_t)y); }
    // ---- comparisons, selection
    template <class U> static inline uint32_t seteq(U x, U y) { return x == y ? 1u : 0u; }
    template <class U> static inline uint32_t setne(U x, U y) { return x != y ? 1u : 0u; }
    template <class U> static inline uint32_t setlt(U x, U y) { return x < y ? 1u : 0u; }
    template <class U> static inline uint32_t setle(U x, U y) { return x <= y ? 1u : 0u; }
    template <class U> static inline uint32_t setgt(U x, U y) { return x > y ? 1u : 0u; }
    template <class U> static inline uint32_t setge(U x, U y) { return x >= y ? 1u : 0u; }
    template <class U> static inline uint32_t setlts(U x, U y) { typedef typename tr<U>::S S; return (S)x < (S)y ? 1u : 0u; }
    template <class U> static inline uint32_t setles(U x, U y) { typedef typename tr<U>::S S; return (S)x <= (S)y ? 1u : 0u; }
    template <class U> static inline uint32_t setgts(U x, U y) { typedef typename tr<U>::S S; return (S)x > (S)y ? 1u : 0u; }
    template <class U> static inline uint32_t setges(U x, U y) { typedef typename tr<U>::S S; return (S)x >= (S)y ? 1u : 0u; }
    template <class U> static inline U sel(uint32_t p, U x, U y) { return p == 1 ? x : y; }
    // ---- logic
    template <class U> static inline U band(U x, U y) { return x & y; }
    template <class U> static inline U bor(U x, U y) { return x | y; }
    template <class U> static inline U bxor(U x, U y) { return x ^ y; }
    template <class U> static inline U notb(U x) { return (U)~x; }
    static inline uint32_t notp(uint32_t p) { return 1u - p; }
    template <class U> static inline U neg(U x) { return (U)((U)0 - x); }
    // ---- shifts (amount clamped to the register width)
    template <class U> static inline U shl(U x, uint32_t n) { return n >= tr<U>::bits ? (U)0 : (U)(x << n); }
    template <class U> static inline U shr(U x, uint32_t n) { return n >= tr<U>::bits ? (U)0 : (U)(x >> n); }
    template <class U> static inline U shrs(U x, uint32_t n)
    {
        const U top = (U)1 << (tr<U>::bits - 1);
        const U fill = (x & top) ? (U)~(U)0 : (U)0;
        if (n >= tr<U>::bits)
            return fill;
        return n == 0 ? x : (U)((x >> n) | (U)(fill << (tr<U>::bits - n)));
    }
    // ---- min / max
    template <class U> static inline U minu(U x, U y) { return x <= y ? x : y; }
    template <class U> static inline U maxu(U x, U y) { return x >= y ? x : y; }
    template <class U> static inline U mins(U x, U y) { typedef typename tr<U>::S S; return (S)x <= (S)y ? x : y; }
    template <class U> static inline U maxs(U x, U y) { typedef typename tr<U>::S S; return (S)x >= (S)y ? x : y; }
    // ---- conversions
    static inline uint64_t zext(uint32_t x) { return x; }
    static inline uint64_t sext(uint32_t x) { return (x & 0x80000000u) ? (0xffffffff00000000ULL | x) : (uint64_t)x; }
    static inline uint64_t pack(uint32_t l, uint32_t h) { return ((uint64_t)h << 32) | l; }
    static inline uint32_t lo32(uint64_t v) { return (uint32_t)v; }
    static inline uint32_t hi32(uint64_t v) { return (uint32_t)(v >> 32); }

    // ------------------------------------------------------------------------------------------- self-test
    namespace st
    {
        struct Ctx { long long n = 0, bad = 0; std::string first; };
        static inline void chk(Ctx &c, const char *what, unsigned bits, u128 x, u128 y, unsigned k, u128 got, u128 want)
        {
            c.n++;
            if (got == want)
                return;
            if (!c.bad++)
            {
                char buf[256];
                snprintf(buf, sizeof buf, "%s<%u>(x=0x%llx y=0x%llx k=%u) = 0x%llx:%016llx, definition gives 0x%llx:%016llx", what, bits,
                         (unsigned long long)x, (unsigned long long)y, k, (unsigned long long)(got >> 64), (unsigned long long)got,
                         (unsigned long long)(want >> 64), (unsigned long long)want);
                c.first = buf;
            }
        }
        // mathematical value of a two's complement pattern, floor division and reduction modulo 2^bits in __int128
        static inline i128 sv(u128 x, unsigned bits) { return (x >> (bits - 1)) & 1 ? (i128)x - ((i128)1 << bits) : (i128)x; }
        static inline u128 rg(i128 v, unsigned bits)
        {
            i128 m = (i128)1 << bits;
            i128 r = v % m;
            return (u128)(r < 0 ? r + m : r);
        }
        static inline i128 fdiv(i128 a, i128 d) { i128 q = a / d; return (a % d != 0 && ((a < 0) != (d < 0))) ? q - 1 : q; }
        // signed 64 x 64 -> high part, by sign-magnitude on unsigned __int128 pieces (the product does not fit i128 as such)
        static inline u128 mulhis_ref(u128 x, u128 y, unsigned bits)
        {
            if (bits == 32)
                return rg(fdiv(sv(x, 32) * sv(y, 32), (i128)1 << 32), 32);
            i128 sx = sv(x, 64), sy = sv(y, 64);
            bool negp = (sx < 0) != (sy < 0);
            u128 ax = (u128)(sx < 0 ? -sx : sx), ay = (u128)(sy < 0 ? -sy : sy);      // <= 2^63
            u128 a0 = ax & 0xffffffffULL, a1 = ax >> 32, b0 = ay & 0xffffffffULL, b1 = ay >> 32;
            u128 lo = a0 * b0, mid = a0 * b1 + a1 * b0, hi = a1 * b1;              // |p| = hi*2^64 + mid*2^32 + lo
            u128 low = lo + ((mid & 0xffffffffULL) << 32);                          // < 2^65
            u128 high = hi + (mid >> 32) + (low >> 64);
            low &= (((u128)1) << 64) - 1;
            if (!negp)
                return high & ((((u128)1) << 64) - 1);
            // floor(-|p| / 2^64) = -high - (low != 0)
            i128 h = -(i128)high - (low != 0 ? 1 : 0);
            return rg(h, 64);
        }
        template <class U> static inline void pair(Ctx &c, U x, U y, uint32_t k)
        {
            const unsigned B = tr<U>::bits;
            const u128 M = (u128)1 << B;
            const uint32_t ci = k & 1;
            const i128 sx = sv(x, B), sy = sv(y, B);
            chk(c, "addr", B, x, y, ci, addr<U>(x, y, ci), ((u128)x + y + ci) % M);
            chk(c, "addc", B, x, y, ci, addc<U>(x, y, ci), ((u128)x + y + ci) / M);
            chk(c, "subr", B, x, y, ci, subr<U>(x, y, ci), rg((i128)x - (i128)y - ci, B));
            chk(c, "subb", B, x, y, ci, subb<U>(x, y, ci), (i128)x - (i128)y - ci < 0 ? 1 : 0);
            chk(c, "mullo", B, x, y, 0, mullo<U>(x, y), ((u128)x * y) % M);
            chk(c, "mulhi", B, x, y, 0, mulhi<U>(x, y), ((u128)x * y) / M);
            chk(c, "mulhis", B, x, y, 0, mulhis<U>(x, y), mulhis_ref(x, y, B));
            chk(c, "seteq", B, x, y, 0, seteq<U>(x, y), (u128)x == (u128)y);
            chk(c, "setne", B, x, y, 0, setne<U>(x, y), (u128)x != (u128)y);
            chk(c, "setlt", B, x, y, 0, setlt<U>(x, y), (u128)x < (u128)y);
            chk(c, "setle", B, x, y, 0, setle<U>(x, y), (u128)x <= (u128)y);
            chk(c, "setgt", B, x, y, 0, setgt<U>(x, y), (u128)x > (u128)y);
            chk(c, "setge", B, x, y, 0, setge<U>(x, y), (u128)x >= (u128)y);
            chk(c, "setlts", B, x, y, 0, setlts<U>(x, y), sx < sy);
            chk(c, "setles", B, x, y, 0, setles<U>(x, y), sx <= sy);
            chk(c, "setgts", B, x, y, 0, setgts<U>(x, y), sx > sy);
            chk(c, "setges", B, x, y, 0, setges<U>(x, y), sx >= sy);
            chk(c, "sel", B, x, y, ci, sel<U>(ci, x, y), ci ? x : y);
            u128 a = 0, o = 0, e = 0;
            for (unsigned i = 0; i < B; i++)
            {
                unsigned bx = (unsigned)(((u128)x >> i) % 2), by = (unsigned)(((u128)y >> i) % 2);
                a += (u128)(bx * by) << i;
                o += (u128)(bx + by - bx * by) << i;
                e += (u128)((bx + by) % 2) << i;
            }
            chk(c, "band", B, x, y, 0, band<U>(x, y), a);
            chk(c, "bor", B, x, y, 0, bor<U>(x, y), o);
            chk(c, "bxor", B, x, y, 0, bxor<U>(x, y), e);
            chk(c, "notb", B, x, 0, 0, notb<U>(x), M - 1 - x);
            chk(c, "neg", B, x, 0, 0, neg<U>(x), rg(-sx, B));
            const unsigned kk = k > B ? B : k;
            chk(c, "shl", B, x, 0, k, shl<U>(x, k), kk == B ? 0 : (((u128)x << kk) % M));
            chk(c, "shr", B, x, 0, k, shr<U>(x, k), kk == B ? 0 : ((u128)x >> kk));
            chk(c, "shrs", B, x, 0, k, shrs<U>(x, k), rg(fdiv(sx, (i128)1 << kk), B));
            chk(c, "minu", B, x, y, 0, minu<U>(x, y), (u128)x < (u128)y ? x : y);
            chk(c, "maxu", B, x, y, 0, maxu<U>(x, y), (u128)x < (u128)y ? y : x);
            chk(c, "mins", B, x, y, 0, mins<U>(x, y), rg(sx < sy ? sx : sy, B));
            chk(c, "maxs", B, x, y, 0, maxs<U>(x, y), rg(sx < sy ? sy : sx, B));
        }
        static inline void narrow(Ctx &c, uint32_t x, uint32_t y)
        {
            chk(c, "mulwide", 32, x, y, 0, mulwide(x, y), (u128)x * y);
            chk(c, "mulwides", 32, x, y, 0, mulwides(x, y), rg(sv(x, 32) * sv(y, 32), 64));
            chk(c, "zext", 32, x, 0, 0, zext(x), x);
            chk(c, "sext", 32, x, 0, 0, sext(x), rg(sv(x, 32), 64));
            chk(c, "pack", 32, x, y, 0, pack(x, y), (u128)x + ((u128)y << 32));
            uint64_t w = ((uint64_t)y << 32) | x;
            chk(c, "lo32", 64, w, 0, 0, lo32(w), (u128)w % ((u128)1 << 32));
            chk(c, "hi32", 64, w, 0, 0, hi32(w), (u128)w >> 32);
            chk(c, "notp", 1, x & 1, 0, 0, notp(x & 1), (x & 1) ? 0 : 1);
        }
    }
    // -> number of mismatches (0 = the table agrees with its definitions); msg = first mismatch
    static inline long long selftest(std::string &msg, long long *ncmp = nullptr)
    {
        st::Ctx c;
        const uint64_t H[] = {0, 1, 2, 3, 0x7ffffffeULL, 0x7fffffffULL, 0x80000000ULL, 0x80000001ULL, 0xfffffffeULL, 0xffffffffULL};
        const uint32_t K[] = {0, 1, 2, 31, 32, 33, 63, 64, 65, 0x80000000u, 0xffffffffu};
        uint64_t words[100];
        int nw = 0;
        for (uint64_t h1 : H)
            for (uint64_t h0 : H)
                words[nw++] = (h1 << 32) | h0;
        unsigned ki = 0;
        for (uint64_t h1 : H)
            for (uint64_t h0 : H)
            {
                for (uint32_t k : K)
                    st::pair<uint32_t>(c, (uint32_t)h1, (uint32_t)h0, k);
                st::narrow(c, (uint32_t)h1, (uint32_t)h0);
            }
        for (int i = 0; i < nw; i++)
            for (int j = 0; j < nw; j++)
                st::pair<uint64_t>(c, words[i], words[j], K[ki++ % (sizeof K / sizeof K[0])]);
        for (int i = 0; i < nw; i++)
            for (uint32_t k : K)
                st::pair<uint64_t>(c, words[i], words[(i * 7 + 3) % nw], k);
        uint64_t s = 0x9e3779b97f4a7c15ULL;      // splitmix64
        auto next = [&s]() { uint64_t z = (s += 0x9e3779b97f4a7c15ULL); z = (z ^ (z >> 30)) * 0xbf58476d1ce4e5b9ULL;
                             z = (z ^ (z >> 27)) * 0x94d049bb133111ebULL; return z ^ (z >> 31); };
        for (int i = 0; i < 20000; i++)
        {
            uint64_t x = next(), y = next(), k = next();
            st::pair<uint64_t>(c, x, y, (uint32_t)(k % 70));
            st::pair<uint32_t>(c, (uint32_t)x, (uint32_t)y, (uint32_t)((k >> 8) % 40));
            st::narrow(c, (uint32_t)(x >> 32), (uint32_t)(y >> 32));
        }
        msg = c.first;
        if (ncmp)
            *ncmp = c.n;
        return c.bad;
    }
}
