#!/usr/bin/env python3
"""C20 tables: read the three 33-row device tables (omegas, omegas_inv, domain_size_inverse) from
src/ntt_goldilocks.cuh and the CPU table W[33] from src/goldilocks_base_field.cpp (current tree, text only) and write
them as 8-byte-limb words to the JSON file spec/GpuTables.tla reads (JsonDeserialize(IOEnv.GPUTAB)).
"rows" lists the 1-based rows TLC visits (one state per row).  Exit 3 if a table cannot be parsed."""
import json, os, re, sys

GPU = ('omegas', 'omegas_inv', 'domain_size_inverse')


class ParseError(Exception):
    pass


def _ints(body, what, wrap=None):
    body = re.sub(r'//[^\n]*|/\*.*?\*/', '', body, flags=re.S)
    out = []
    for tok in [t.strip() for t in body.split(',') if t.strip()]:
        if wrap:
            m = re.fullmatch(wrap + r'\s*\((.*)\)', tok, re.S)
            if not m:
                raise ParseError('%s: entry %r is not %s(...)' % (what, tok, wrap))
            tok = m.group(1).strip()
        m = re.fullmatch(r'(0[xX][0-9a-fA-F]+|\d+)[uUlL]*', tok)
        if not m or not 0 <= int(m.group(1), 0) < 2**64:
            raise ParseError('%s: entry %r is not a 64-bit literal' % (what, tok))
        out.append(int(m.group(1), 0))
    if len(out) != 33:
        raise ParseError('%s has %d rows, expected 33' % (what, len(out)))
    return out


def parse(src):
    try:
        cuh = open(os.path.join(src, 'ntt_goldilocks.cuh')).read()
        cpp = open(os.path.join(src, 'goldilocks_base_field.cpp')).read()
    except OSError as e:
        raise ParseError(str(e))
    tabs = {}
    for name in GPU:
        m = re.search(r'uint64_t\s+%s\s*\[\s*33\s*\]\s*=\s*\{(.*?)\}\s*;' % name, cuh, re.S)
        if not m:
            raise ParseError('table %s[33] not found' % name)
        tabs[name] = _ints(m.group(1), name)
    m = re.search(r'Goldilocks\s*::\s*W\s*\[\s*33\s*\]\s*=\s*\{(.*?)\}\s*;', cpp, re.S)
    if not m:
        raise ParseError('Goldilocks::W[33] not found')
    tabs['W'] = _ints(m.group(1), 'W', r'Goldilocks\s*::\s*fromU64')
    return tabs


def write(src, path, rows=None):
    tabs = parse(src)
    limbs = lambda x: [(x >> (8 * i)) & 255 for i in range(8)]
    j = {k: [limbs(x) for x in v] for k, v in tabs.items()}
    j['rows'] = list(rows or range(1, 34))
    json.dump(j, open(path, 'w'))
    return tabs


if __name__ == '__main__':
    try:
        write(sys.argv[1] if len(sys.argv) > 1 else '/repo/src', sys.argv[2] if len(sys.argv) > 2 else 'gputab.json')
    except ParseError as e:
        print('gputab: ' + str(e), file=sys.stderr)
        sys.exit(3)
