#!/usr/bin/env python3
"""Generate ScalarAsm_gen.tla from the inline-asm blocks of Goldilocks::add / sub / mul in the *current*
/repo/src tree (preprocessed with the repo's flags).  Each block becomes a width-parametric straight-line SSA
LET chain over 2W-bit registers (T = Phi^2); the single forward `jnc 1f ... 1:` becomes an IF-merge.
Operators emitted:  AddProg(a,b) SubProg(a,b) MulProg(a,b) MulRedProg(hi,lo)   and  *Sig: the tuple of
carry/borrow outcomes consulted by cmovc/jnc (the path signature).
Exit status 3 (and a message) if the asm can no longer be parsed -- callers degrade to 'model not derived'."""
import re, subprocess, sys

CONST = {'CQ': '(Phi - 1)', 'ZR': '0', 'TWO32': 'Phi'}


class ParseError(Exception):
    pass


def preprocess(src):
    r = subprocess.run(['g++', '-E', '-P', '-std=c++17', '-mavx2', '-fopenmp', '-I' + src,
                        src + '/goldilocks_base_field.hpp'], capture_output=True, text=True)
    if r.returncode != 0:
        raise ParseError('preprocess failed: ' + r.stderr[-500:])
    return r.stdout


def asm_of(pre, fn_sig_regex):
    m = re.search(fn_sig_regex, pre)
    if not m:
        raise ParseError('function not found: ' + fn_sig_regex)
    body = pre[m.end():]
    # stop at end of this function: first "\n}" at depth 0 -- approximate by next 'inline ' at line start
    nxt = re.search(r'\ninline ', body)
    if nxt:
        body = body[:nxt.start()]
    if '__asm__' not in body:
        raise ParseError('no asm block in ' + fn_sig_regex)
    a = body.index('__asm__')
    i = body.index('(', a)
    depth = 0; start = i
    while True:
        c = body[i]
        if c == '(':
            depth += 1
        elif c == ')':
            depth -= 1
            if depth == 0:
                break
        i += 1
    text = body[start + 1:i]
    parts = []; cur = ''; instr = False; d = 0
    for ch in text:
        if ch == '"':
            instr = not instr
        if not instr:
            if ch == '(':
                d += 1
            if ch == ')':
                d -= 1
            if ch == ':' and d == 0:
                parts.append(cur); cur = ''; continue
        cur += ch
    parts.append(cur)
    tmpl = ''.join(re.findall(r'"((?:[^"\\]|\\.)*)"', parts[0]))
    insns = [l.strip().rstrip(';').strip() for l in tmpl.replace('\\t', '').split('\\n') if l.strip()]

    def ops(sec):
        return re.findall(r'"([^"]*)"\s*\(([^()]*(?:\([^()]*\))?[^()]*)\)', sec)
    outs = ops(parts[1]) if len(parts) > 1 else []
    ins = ops(parts[2]) if len(parts) > 2 else []
    # the C statements before the asm: which C variable is in1 / in2
    pre_stmts = body[:a]
    return insns, outs, ins, pre_stmts


R32 = {'eax': 'rax', 'ebx': 'rbx', 'ecx': 'rcx', 'edx': 'rdx', 'r10d': 'r10'}


def gen(name, insns, outs, ins, params, mul_free=False):
    operands = [e.strip() for _, e in outs] + [e.strip() for _, e in ins]
    cons = [c for c, _ in outs] + [c for c, _ in ins]
    env = {}
    lets = []
    n = [0]
    sig = []

    def fresh(base):
        n[0] += 1
        return f'{base}_{n[0]}'

    def bind(reg, expr):
        v = fresh(reg); lets.append(f'{v} == {expr}'); env[reg] = v; return v

    def canon(tok):
        tok = tok.strip()
        m = re.fullmatch(r'%(\d+)', tok)
        if m:
            k = int(m.group(1))
            if k >= len(operands):
                raise ParseError('operand index out of range ' + tok)
            e = operands[k]
            if cons[k].startswith('='):
                return ('reg', 'out')
            base = e.split('.')[-2] if e.endswith('.fe') else e
            if e in CONST:
                return ('const', CONST[e])
            return ('in', e)
        m = re.fullmatch(r'%%(\w+)', tok)
        if m:
            r = m.group(1)
            if r in R32:
                return ('reg32', R32[r])
            return ('reg', r)
        m = re.fullmatch(r'\$(\d+)', tok)
        if m:
            return ('imm', int(m.group(1)))
        raise ParseError('cannot parse operand ' + tok)
    if 'a' in cons[0]:
        outreg = 'rax'
    elif 'd' in cons[0]:
        outreg = 'rdx'
    else:
        outreg = 'out'

    def rname(v):
        return outreg if v == 'out' else v

    def rd(o):
        k, v = o
        if k == 'const':
            return v
        if k == 'in':
            if v not in params:
                raise ParseError('unknown input operand ' + v)
            return params[v]
        if k == 'imm':
            return str(v)
        r = rname(v)
        if r not in env:
            raise ParseError('read of unset register ' + r)
        if k == 'reg32':
            return f'({env[r]} % Phi)'
        return env[r]

    def wr(o, expr):
        k, v = o
        if k not in ('reg', 'reg32'):
            raise ParseError('write to non-register')
        return bind(rname(v), expr)
    cf = None
    pending_label = None; cond = None; snapshot = None
    for ins_ in insns:
        if re.fullmatch(r'\d+:', ins_):
            if pending_label != ins_[:-1]:
                raise ParseError('unexpected label ' + ins_)
            for r, v in list(env.items()):
                if snapshot.get(r) != v:
                    if r not in snapshot:
                        continue
                    bind(r, f'IF {cond} THEN {snapshot[r]} ELSE {v}')
            pending_label = None
            continue
        m = re.fullmatch(r'(\w+)\s*(.*)', ins_)
        if not m:
            raise ParseError('cannot parse insn ' + ins_)
        op, args = m.group(1), [a for a in m.group(2).split(',') if a.strip()]
        if op == 'xor':
            a, b = canon(args[0]), canon(args[1])
            if a != b:
                raise ParseError('xor of different registers unsupported')
            wr(b, '0'); cf = None
            cfn = fresh('cf'); lets.append(f'{cfn} == FALSE'); cf = cfn
        elif op == 'mov':
            s, d = canon(args[0]), canon(args[1])
            wr(d, rd(s))
        elif op in ('add', 'sub'):
            s, d = canon(args[0]), canon(args[1])
            if d[0] == 'reg32':
                raise ParseError('32-bit add/sub unsupported')
            t = fresh('t')
            if op == 'add':
                lets.append(f'{t} == {rd(d)} + {rd(s)}')
                cfn = fresh('cf'); lets.append(f'{cfn} == ({t} >= T)'); cf = cfn
                wr(d, f'IF {cfn} THEN {t} - T ELSE {t}')      # operands are registers in 0..T-1
            else:
                lets.append(f'{t} == {rd(d)} - {rd(s)}')
                cfn = fresh('cf'); lets.append(f'{cfn} == ({t} < 0)'); cf = cfn
                wr(d, f'IF {cfn} THEN {t} + T ELSE {t}')
        elif op == 'cmovc':
            if cf is None:
                raise ParseError('cmovc without flag')
            s, d = canon(args[0]), canon(args[1]); sig.append(cf)
            wr(d, f'IF {cf} THEN {rd(s)} ELSE {rd(d)}')
        elif op == 'jnc':
            if cf is None or pending_label is not None:
                raise ParseError('unsupported jnc')
            pending_label = args[0].strip().rstrip('f'); cond = f'(~{cf})'; snapshot = dict(env); sig.append(cf)
        elif op == 'mul':
            s = canon(args[0])
            if mul_free:
                bind('rdx', 'hi'); bind('rax', 'lo')
            else:
                prod = fresh('prod'); lets.append(f'{prod} == {env["rax"]} * {rd(s)}')
                bind('rdx', f'{prod} \\div T'); bind('rax', f'{prod} % T')
            cf = None
        elif op == 'rol':
            k, d = canon(args[0]), canon(args[1])
            if k != ('imm', 32):
                raise ParseError('rol by other than 32')
            wr(d, f'(({rd(d)} % Phi) * Phi) + ({rd(d)} \\div Phi)')
        else:
            raise ParseError('unsupported insn ' + ins_)
    if pending_label is not None:
        raise ParseError('unterminated jnc')
    if outreg not in env:
        raise ParseError('output never written')
    res = env[outreg]
    plist = 'hi, lo' if mul_free else ', '.join(params.values())
    body = '\n      '.join(lets)
    s = f'{name}({plist}) ==\n  LET {body}\n  IN {res}\n'
    enc = ' + '.join(f'{2 ** i} * (IF {c} THEN 1 ELSE 0)' for i, c in enumerate(sig)) or '0'
    s += f'{name}Sig({plist}) ==\n  LET {body}\n  IN {enc}\n'
    return s


SIGS = [('Add', r'inline void Goldilocks::add\(Element &result, const Element &in1, const Element &in2\)'),
        ('Sub', r'inline void Goldilocks::sub\(Element &result, const Element &in1, const Element &in2\)'),
        ('Mul', r'inline void Goldilocks::mul\(Element &result, const Element &in1, const Element &in2\)')]


def generate(src):
    pre = preprocess(src)
    mod = ['---- MODULE ScalarAsm_gen ----',
           '(* GENERATED by tools/asm2tla.py from the inline asm of goldilocks_base_field_scalar.hpp (current tree). *)',
           'EXTENDS GL']
    info = {}
    for name, sig in SIGS:
        insns, outs, ins, pre_stmts = asm_of(pre, sig)
        info[name] = insns
        # map asm input expressions to a / b
        params = {}
        for (_, e) in ins:
            e = e.strip()
            if e in CONST:
                continue
            # find which of in1 / in2 it denotes
            if re.search(r'\bin1\b', e) or re.search(r'\b%s\s*=\s*in1\b' % re.escape(e), pre_stmts):
                params[e] = 'a'
            elif re.search(r'\bin2\b', e) or re.search(r'\b%s\s*=\s*in2\b' % re.escape(e), pre_stmts):
                params[e] = 'b'
            else:
                raise ParseError('cannot bind asm input ' + e)
        if sorted(params.values()) != ['a', 'b']:
            raise ParseError('inputs do not bind to (in1,in2): %r' % params)
        params = dict(sorted(params.items(), key=lambda kv: kv[1]))
        mod.append(gen(name + 'Prog', insns, outs, ins, params))
        if name == 'Mul':
            mod.append(gen('MulRedProg', insns, outs, ins, {k: '0' for k in params}, mul_free=True))
    mod.append('====')
    return '\n'.join(mod) + '\n', info


if __name__ == '__main__':
    src = sys.argv[1] if len(sys.argv) > 1 else '/repo/src'
    out = sys.argv[2] if len(sys.argv) > 2 else 'ScalarAsm_gen.tla'
    try:
        text, info = generate(src)
    except ParseError as e:
        print('asm2tla: ' + str(e), file=sys.stderr)
        sys.exit(3)
    open(out, 'w').write(text)
