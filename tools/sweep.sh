#!/bin/bash
# tools/sweep.sh <tier> <ID>...   runs the checks one after another; one RESULT line per check (exit code, wall time)
T=$1; shift
for id in "$@"; do
  s=$(date +%s)
  ./check $id --tier $T > sweep_$id.log 2>&1; rc=$?
  e=$(date +%s)
  echo "RESULT $id $T rc=$rc wall=$((e-s))s $(grep -c '^VIOLATION' sweep_$id.log) violations; $(tail -1 sweep_$id.log | cut -c1-150)"
done
