#!/usr/bin/env python3
"""Writes /verif/MANIFEST.json from the table below; a property is claimed iff lib/<id>.py exists."""
import json, os
V = os.path.dirname(os.path.dirname(os.path.abspath(__file__)))
T = {
 'C01': dict(tech='TLA+ model generated from the inline asm; TLC exhaustive at reduced width; Apalache symbolic at W=32; TLC trace validation of replayed library calls',
             text='The asm blocks of add/sub/mul are translated at check time into a width-parametric TLA+ operator. TLC enumerates every pair of words (canonical or not) at W<=4 (quick) / 5 (thorough) for all eight operations; Apalache proves the same operator text for all 2^128 operand pairs at W=32 (mul: all 128-bit (hi,lo)). The compiled library is then driven over a path-complete corner family, model counterexamples and seeded random words through every call form and aliasing pattern, and each recorded call is accepted or rejected by the TLC trace specification Trace_Scalar over the limb field W64.',
             note='x86 mul instruction trusted; asm->TLA+ translator (tools/asm2tla.py) and the C++ wrapper transcription ScalarOps.tla trusted for the model side, but the replay binds the compiled code directly.', ref='8/C01'),
 'C02': dict(tech='TLA+ lane model of AVX2 kernels; TLC exhaustive at reduced width; Apalache W=32; TLC trace validation per lane', text='', note='', ref='8/C02'),
 'C03': dict(tech='TLA+ state machine of the NTT scheduler checked by TLC over all configurations; TLC-evaluated DFT oracle validates recorded executions', text='', note='', ref='8/C03'),
 'C04': dict(tech='same NTT state machine (inverse entry); TLC-evaluated inverse DFT oracle', text='', note='', ref='8/C04'),
 'C05': dict(tech='same NTT state machine (extendPol entry); TLC-evaluated LDE oracle', text='', note='', ref='8/C05'),
 'C06': dict(tech='TLA+ Poseidon permutation evaluated by TLC over W64; cross-variant trace validation', text='', note='', ref='8/C06'),
 'C07': dict(tech='PlusCal sponge checked by TLC with symbolic permutation; permutation-hook trace validation', text='', note='', ref='8/C07'),
 'C08': dict(tech='TLA+ Merkle builder checked by TLC with symbolic hash; node-by-node trace validation', text='', note='', ref='8/C08'),
 'C09': dict(tech='TLA+ cubic extension: TLC exhaustive over small fields; trace validation by schoolbook over W64', text='', note='', ref='8/C09'),
 'C10': dict(tech='PlusCal inverse loop checked by TLC for every operand at W in {2,4}; certificate trace validation', text='', note='', ref='8/C10'),
 'C11': dict(tech='TLA+ lane model of AVX512 kernels; TLC reduced width; Apalache W=32; trace validation per lane', text='', note='', ref='8/C11'),
 'C12': dict(tech='TLA+ team/interleaving model checked by TLC; sequentialising OpenMP stand-in replays TLC-chosen member orders', text='', note='', ref='8/C12'),
 'C13': dict(tech='TLA+ matrix-kernel chains and tag layout (AVX2); TLC/Apalache; trace validation against sums over W64', text='', note='', ref='8/C13'),
 'C14': dict(tech='TLA+ matrix-kernel chains and tag layout (AVX512); TLC/Apalache; trace validation', text='', note='', ref='8/C14'),
 'C15': dict(tech='TLA+ conversion model (Conv) checked by TLC at reduced width and Apalache at W=32; trace validation with limb parsing', text='', note='', ref='8/C15'),
 'C16': dict(tech='TLA+ layout/overload table; generated driver; trace validation', text='', note='', ref='8/C16'),
 'C17': dict(tech='TLA+ layout/overload table; generated driver; trace validation', text='', note='', ref='8/C17'),
 'C18': dict(tech='TLA+ heap model (Mem) invariants by TLC; recording allocator events validated against it', text='', note='', ref='8/C18'),
 'C19': dict(tech='TLA+ object-history model checked by TLC; TLC-generated histories replayed shared vs fresh', text='', note='', ref='8/C19'),
 'C20': dict(tech='TLA+ model generated from the PTX strings; TLC reduced width; Apalache w=32; PTX executor traces', text='', note='', ref='8/C20'),
}
# per-property descriptions are refined in lib/<id>.py docstrings: use them when present
checks = []; na = []
for pid in sorted(T):
    t = T[pid]
    p = os.path.join(V, 'lib', pid.lower() + '.py')
    ready = [l.strip() for l in open(os.path.join(V, 'ready.txt')) if l.strip()]
    if not os.path.exists(p) or pid not in ready:
        na.append(dict(property_id=pid, reason='check not built yet in this round (planned: %s; DESIGN.md section %s)' % (t['tech'], t['ref'])))
        continue
    text = t['text']; note = t['note']
    src = open(p).read()
    if src.startswith('"""'):
        doc = src[3:src.index('"""', 3)].strip()
        if not text:
            text = ' '.join(doc.split())
    meta = {}
    import re
    m = re.search(r'^LEVEL_NOTE = (.*)$', src, re.M)
    if m:
        try:
            note = eval(m.group(1))
        except Exception:
            pass
    checks.append(dict(property_id=pid, quick_cmd='./check %s --tier quick' % pid, thorough_cmd='./check %s --tier thorough' % pid,
                       evidence_file='/verif/evidence/%s.json' % pid, replay_cmd_template='./check %s --replay {path}' % pid,
                       engine='tlc+apalache+conformance', technique=t['tech'],
                       level_claimed=dict(category='model_checking', text=text, design_ref='DESIGN.md section ' + t['ref']),
                       level_note=note or 'TLC/Apalache within the stated bounds; conformance binds only the executions replayed.'))
hooks_commits = []
hp = os.path.join(V, 'hooks_commits.txt')
if os.path.exists(hp):
    hooks_commits = [l.strip() for l in open(hp) if l.strip()]
M = dict(version=1, setup_cmd='./setup.sh',
         hooks=dict(guard='GOLDILOCKS_VERIF', enable='checks compile /repo/src with -DGOLDILOCKS_VERIF (lib/vlib.py BASEFLAGS)',
                    baseline_off_cmd='cd /repo && g++ tests/tests.cpp src/*.cpp -lgtest -lgmp -O3 -Wall -pthread -fopenmp -mavx2 -o /tmp/testcpu_off && /tmp/testcpu_off; rc=$?; rm -f /tmp/testcpu_off; exit $rc',
                    source_commits=hooks_commits, add_only=True),
         engines=[dict(name='tlc', path='/opt/veriftools/tla/tla2tools.jar', serves_properties=sorted(T), kind_free_text='explicit-state model checking and trace validation'),
                  dict(name='apalache', path='/opt/veriftools/apalache', serves_properties=['C01', 'C02', 'C11', 'C13', 'C14', 'C15', 'C20'], kind_free_text='symbolic full-width checking of the same TLA+ operators')],
         checks=checks, not_applicable=na,
         notes='All checks: ./check <ID> --tier quick|thorough. Evidence rewritten on every run. Known findings: known_findings.json.')
json.dump(M, open(os.path.join(V, 'MANIFEST.json'), 'w'), indent=1)
print('claimed:', [c['property_id'] for c in checks], 'not_applicable:', len(na))
