#!/usr/bin/env python3
"""Front end for G01: make the GPU DEVICE code of the current tree executable on the host.

Nothing is retyped.  Three mechanical steps, all driven by the current source text:

 1. host gl64_t (one header per __CUDA_ARCH__ variant, 700 and 600): /repo/src/gl64_t.cuh is run through the host
    preprocessor exactly as tools/ptx2tla.py (C20) does.  The class text is kept as it is, except that
      * the bodies of the seven PTX-bearing LEAF members  operator+=  operator-=  cneg  mul(gl64_t)  mul(uint32_t)
        reduce(uint32_t[4])  reduce()  are replaced by a call of a C++ function generated from that member's inline PTX
        by C20's translator (ptx2tla.run_op + ptx2tla.cpp_body over tools/ptx_prims.hpp): the generated PTX executor;
      * every other member whose body contains inline asm (operator<<= >>= czero csel operator^=(int) dot_product ...)
        is replaced by a stub that ends the process with exit code 97 (device code under test that reaches one is
        reported as an infrastructure limit, never as a verdict).
    Constructors, conversions, friend operators (+ - * /), operator-(), sqr, to/from, is_zero/is_one, reciprocal(),
    copy_gpu/op_gpu ... are therefore compiled by g++ FROM THE SOURCE TEXT, on top of the generated leaves.
 2. poseidon_goldilocks.cu contains kernel launches (<<< >>>) g++ cannot parse: the file is cut into top-level chunks;
    every chunk is kept verbatim except function definitions that are neither __device__ / __global__ nor
    init_gpu_const (host drivers of the CUDA runtime).  #line directives keep diagnostics pointing at the original.
 3. goldilocks_cubic_extension.cuh and utils/cuda_utils.cuh / cuda_utils.hpp are copied verbatim next to the shims
    (gl64_t.cuh -> the generated host class; cuda.h -> empty __device__/__global__/... macros, threadIdx/blockIdx/
    blockDim/gridDim as host variables, __shared__ = static, __syncthreads() = no-op, cudaMemcpyToSymbol = checked memcpy),
    so that their own #include "gl64_t.cuh" / <cuda.h> resolve to the shims.

write(repo, out_root) -> (gendir, info); gendir's name carries a hash of everything generated (build cache key)."""
import hashlib, os, re, shutil, sys

HERE = os.path.dirname(os.path.abspath(__file__))
sys.path.insert(0, HERE)
import ptx2tla as P
from ptx2tla import ParseError

ARCHS = (700, 600)
LEAVES = [('add', 'obj'), ('sub', 'obj'), ('cneg', 'bool'), ('mul', 'obj'), ('mulw', 'u32'), ('red4', 'arr'), ('red', None)]
UNSUPPORTED_EXIT = 97


# ------------------------------------------------------------------------------------------------ host gl64_t
def skip_lit(text, i):
    """i at a quote character: index just after the closing quote."""
    q = text[i]; i += 1
    while i < len(text):
        if text[i] == '\\':
            i += 2; continue
        if text[i] == q:
            return i + 1
        i += 1
    raise ParseError('unterminated literal')


def scope_bodies(text):
    """brace blocks at nesting depth 0 of `text` -> [(header_start, open_brace, close_brace)]."""
    out = []; i = 0; start = 0
    while i < len(text):
        c = text[i]
        if c == '"' or (c == "'" and not (i and (text[i - 1].isalnum()))):
            i = skip_lit(text, i); continue
        if c == '{':
            j = P.close(text, i + 1, '{', '}')
            out.append((start, i, j))
            i = j + 1; start = i; continue
        if c == ';':
            start = i + 1
        i += 1
    return out


def host_class(path, arch):
    """-> (header text, info) for one __CUDA_ARCH__ variant."""
    pre = P.preprocess(path, arch)
    mem, consts = P.members(pre)
    m = re.search(r'class\s+gl64_t\s*\{', pre)
    end = P.close(pre, m.end(), '{', '}')
    cls = pre[m.end():end]
    funcs = []; repl = []; leaf_spans = []; insns = {}
    for key, kind in LEAVES:
        ir, res, q, qdesc = P.run_op(mem, consts, key, kind, False)
        insns[key] = len(ir)
        par = ['t0', 't1', 't2', 't3'] if kind == 'arr' else ['xa', 'xb']
        cpar = ', '.join(('uint32_t ' if kind == 'arr' else 'uint64_t ') + p for p in par)
        funcs.append('static inline uint64_t g01_%s_%d(%s)\n{\n%s\n}' % (key, arch, cpar, P.cpp_body(ir, res)))
        ms = list(re.finditer(P.SIG[key][0] + r'\s*(?:const\s*)?\{', cls))
        if len(ms) != 1:
            raise ParseError('member %s: %d definitions match its signature' % (key, len(ms)))
        b0 = ms[0].end(); b1 = P.close(cls, b0, '{', '}')
        pn = ms[0].group(1) if kind else None
        arg = {'obj': '%s.val' % pn, 'bool': '(uint64_t)(%s ? 1 : 0)' % pn, 'u32': '(uint64_t)%s' % pn, None: '0'}.get(kind)
        call = 'ptx::g01_red4_%d(%s[0], %s[1], %s[2], %s[3])' % (arch, pn, pn, pn, pn) if kind == 'arr' else \
               'ptx::g01_%s_%d(val, %s)' % (key, arch, arg)
        returns_self = P.SIG[key][0].startswith(P.G)
        repl.append((b0, b1, ' val = %s;%s ' % (call, ' return *this;' if returns_self else '')))
        leaf_spans.append((b0, b1))
    stubbed = []
    for hs, ob, cb in scope_bodies(cls):
        if '__asm__' not in cls[ob:cb]:
            continue
        if any(b0 == ob + 1 for b0, b1 in leaf_spans):
            continue
        head = ' '.join(cls[hs:ob].split())
        if '(' not in head:
            raise ParseError('inline asm outside a member function: ' + P.short(head))
        name = re.sub(r'[^\w+\-*/^<>=!&|()\[\] ,:]', '', head)[-90:].replace('"', '')
        stubbed.append(name)
        repl.append((ob + 1, cb, ' ::g01_unsupported("%s"); ' % name))
    for b0, b1, new in sorted(repl, reverse=True):
        cls = cls[:b0] + new + cls[b1:]
    if '__asm__' in cls:
        raise ParseError('inline asm left in the host class after rewriting')
    text = '\n'.join([
        '// GENERATED by tools/gpuhost.py from gl64_t.cuh (current tree), __CUDA_ARCH__ = %d: the class text of the source with' % arch,
        '// the PTX-bearing leaf members bound to the executor generated by tools/ptx2tla.py; other asm members are stubs.',
        '#pragma once', '#include <cstdint>', '#include <cstddef>', '#include <cassert>', '#include <cstdlib>', '#include <cstdio>',
        '#include <unistd.h>', '#include "cuda.h"', '#include "ptx_prims.hpp"',
        '[[noreturn]] static void g01_unsupported(const char *what)',
        '{ fprintf(stderr, "G01: device code reached gl64_t member outside the translated subset: %%s\\n", what); fflush(nullptr); _exit(%d); }' % UNSUPPORTED_EXIT,
        'namespace ptx {'] + funcs + ['}', pre[:m.end()] + cls + pre[end:], ''])
    return text, dict(insns=insns, stubbed=stubbed, consts={k: '0x%x' % v[0] for k, v in consts.items()})


# ------------------------------------------------------------------------------------------------ .cu extraction
def chunks(text):
    """top-level chunks of a C++/CUDA translation unit -> [(start, end, kind, header)], kind in pp | func | other."""
    out = []; i = 0; n = len(text); start = None; depth = 0
    def at_line_start(k):
        j = k - 1
        while j >= 0 and text[j] in ' \t':
            j -= 1
        return j < 0 or text[j] == '\n'
    while i < n:
        c = text[i]
        if text.startswith('//', i):
            j = text.find('\n', i); i = n if j < 0 else j; continue
        if text.startswith('/*', i):
            j = text.find('*/', i + 2)
            if j < 0:
                raise ParseError('unterminated comment')
            i = j + 2; continue
        if c == '#' and depth == 0 and start is None and at_line_start(i):
            j = i
            while True:
                k = text.find('\n', j)
                if k < 0:
                    k = n; break
                if text[k - 1] == '\\':
                    j = k + 1; continue
                break
            out.append((i, k, 'pp', text[i:k])); i = k; continue
        if c == '"' or c == "'":
            if start is None:
                start = i
            i = skip_lit(text, i); continue
        if c.isspace():
            i += 1; continue
        if start is None:
            start = i
        if c in '{([':
            depth += 1
        elif c in '})]':
            depth -= 1
            if depth < 0:
                raise ParseError('unbalanced brackets in translation unit')
            if depth == 0 and c == '}':
                seg = text[start:i + 1]
                head = seg[:seg.find('{')]
                # a function definition ends here; an initialiser / class / enum goes on to its ';'
                if '(' in head and not re.search(r'\b(class|struct|enum|union|namespace)\b', head) and '=' not in re.sub(r'\([^()]*\)', '', head):
                    out.append((start, i + 1, 'func', ' '.join(head.split()))); start = None
        elif c == ';' and depth == 0:
            out.append((start, i + 1, 'other', ' '.join(text[start:min(i + 1, start + 160)].split()))); start = None
        i += 1
    if start is not None and text[start:].strip():
        raise ParseError('translation unit ends inside a declaration')
    return out


KEEP_HOST = ('init_gpu_const',)


def extract_cu(path, label):
    try:
        text = open(path).read()
    except OSError as e:
        raise ParseError('cannot read %s: %s' % (path, e))
    kept = []; dropped = []; out = ['// GENERATED by tools/gpuhost.py: top-level chunks of %s (current tree), verbatim; host functions that drive the' % label,
                                    '// CUDA runtime (kernel launches) are left out.']
    for s, e, kind, head in chunks(text):
        if kind == 'func':
            m = re.search(r'([A-Za-z_]\w*(?:\s*::\s*[A-Za-z_]\w*)*)\s*\($', head[:head.find('(') + 1])
            name = m.group(1) if m else head
            dev = re.search(r'\b__(device|global)__\b', head) is not None
            if not (dev or name in KEEP_HOST):
                dropped.append(name); continue
            if '<<<' in text[s:e]:
                raise ParseError('kernel launch inside device function ' + name)
            kept.append(name)
        line = text.count('\n', 0, s) + 1
        out.append('#line %d "%s"' % (line, label))
        out.append(text[s:e])
    return '\n'.join(out) + '\n', kept, dropped


# ------------------------------------------------------------------------------------------------ shims
CUDA_H = r'''// GENERATED shim (tools/gpuhost.py): the CUDA vocabulary the device code under test uses, on the host.
#pragma once
#include <cstdint>
#include <cstddef>
#include <cstdio>
#include <cstdlib>
#include <cstring>
#include <cassert>
#include <cmath>
#include <vector>
#include <string>
#define __device__
#define __host__
#define __global__
#define __constant__
#define __forceinline__
#define __noinline__
#define __shared__ static
struct g01_uint3 { unsigned int x, y, z; };
static g01_uint3 threadIdx = {0, 0, 0}, blockIdx = {0, 0, 0}, blockDim = {1, 1, 1}, gridDim = {1, 1, 1};
static long long g01_syncs = 0;
static inline void __syncthreads() { g01_syncs++; }
typedef int cudaError_t;
enum { cudaSuccess = 0 };
enum cudaMemcpyKind { cudaMemcpyHostToHost = 0, cudaMemcpyHostToDevice = 1, cudaMemcpyDeviceToHost = 2, cudaMemcpyDeviceToDevice = 3 };
static inline const char *cudaGetErrorString(cudaError_t) { return "shim"; }
static inline cudaError_t cudaGetDeviceCount(int *n) { *n = 1; return cudaSuccess; }
static inline cudaError_t cudaSetDevice(int) { return cudaSuccess; }
static bool g01_upload_ok = true;
static long long g01_uploads = 0;
template <class T>
static inline cudaError_t cudaMemcpyToSymbol(T &sym, const void *src, size_t n, size_t off = 0, cudaMemcpyKind kind = cudaMemcpyHostToDevice)
{
    g01_uploads++;
    if (off + n > sizeof(T) || kind != cudaMemcpyHostToDevice) { g01_upload_ok = false; return 1; }
    memcpy((char *)&sym + off, src, n);
    return cudaSuccess;
}
'''

GL64_SHIM = '''// GENERATED shim (tools/gpuhost.py): "gl64_t.cuh" for host execution = the generated host class of the arch variant.
#pragma once
#include "g01_arch.hpp"
#if G01_ARCH >= 700
#include "gl64_host_700.hpp"
#else
#include "gl64_host_600.hpp"
#endif
'''


def find_utils(repo):
    for d in (os.path.join(repo, 'utils'), '/repo/utils'):
        if os.path.exists(os.path.join(d, 'cuda_utils.cuh')):
            return d
    raise ParseError('utils/cuda_utils.cuh not found')


def generate(repo):
    src = os.path.join(repo, 'src')
    files = {}; info = dict(arch={})
    for arch in ARCHS:
        text, inf = host_class(os.path.join(src, 'gl64_t.cuh'), arch)
        files['gl64_host_%d.hpp' % arch] = text
        info['arch'][str(arch)] = inf
    files['gl64_t.cuh'] = GL64_SHIM
    files['cuda.h'] = CUDA_H
    ext, kept, dropped = extract_cu(os.path.join(src, 'poseidon_goldilocks.cu'), 'poseidon_goldilocks.cu')
    files['poseidon_goldilocks_dev.inc'] = ext
    info['cu_kept'] = kept; info['cu_dropped'] = dropped
    need = ['pow7', 'pow7_', 'add_', 'prod_', 'pow7add_', 'dot_', 'mvp_', 'hash_full_result_seq', 'linear_hash_one',
            'linear_partial_hash_one', 'hash_one', 'init_gpu_const', 'linear_hash_gpu', 'linear_partial_init_hash_gpu',
            'linear_partial_hash_gpu', 'linear_partial_copy_hash_gpu', 'hash_gpu']
    missing = [f for f in need if f not in kept]
    if missing:
        raise ParseError('device functions not found in poseidon_goldilocks.cu: ' + ', '.join(missing))
    try:
        cub = open(os.path.join(src, 'goldilocks_cubic_extension.cuh')).read()
    except OSError as e:
        raise ParseError('cannot read goldilocks_cubic_extension.cuh: %s' % e)
    files['goldilocks_cubic_extension.cuh'] = cub
    info['f3_constants_defined'] = bool(re.search(r'Goldilocks3GPU\s*::\s*(ZERO|ONE|NEGONE)\b', cub))
    ud = find_utils(repo)
    info['utils_dir'] = ud
    for f in ('cuda_utils.cuh', 'cuda_utils.hpp'):
        files[f] = open(os.path.join(ud, f)).read()
    files['ptx_prims.hpp'] = open(os.path.join(HERE, 'ptx_prims.hpp')).read()
    return files, info


def write(repo, out_root):
    try:
        files, info = generate(repo)
    except (IndexError, KeyError, ValueError, AttributeError, TypeError) as e:
        raise ParseError('front end could not follow the source (%s: %s)' % (type(e).__name__, e))
    h = hashlib.sha256()
    for k in sorted(files):
        h.update(k.encode()); h.update(files[k].encode())
    d = os.path.join(out_root, 'g01gen_' + h.hexdigest()[:16])
    os.makedirs(d, exist_ok=True)
    for k, v in files.items():
        open(os.path.join(d, k), 'w').write(v)
    for arch in ARCHS:
        ad = os.path.join(d, 'a%d' % arch)
        os.makedirs(ad, exist_ok=True)
        open(os.path.join(ad, 'g01_arch.hpp'), 'w').write('#pragma once\n#define G01_ARCH %d\n%s' % (
            arch, '' if info['f3_constants_defined'] else '#define G01_DEFINE_F3_CONSTANTS 1\n'))
    info['gendir'] = d
    return d, info


if __name__ == '__main__':
    repo = sys.argv[1] if len(sys.argv) > 1 else '/repo'
    out = sys.argv[2] if len(sys.argv) > 2 else '.'
    try:
        d, info = write(repo, out)
    except ParseError as e:
        print('gpuhost: ' + str(e), file=sys.stderr)
        sys.exit(3)
    print(d)
    print({k: v for k, v in info.items() if k != 'arch'})
    for a, inf in info['arch'].items():
        print(a, inf)
