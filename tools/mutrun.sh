#!/bin/bash
# usage: tools/mutrun.sh <patch-file | -e 'sed-expr' file> -- <check args>
# Runs a check against a scratch copy of /repo with a mutation applied; the scratch copy is removed afterwards.
set -e
D=$(mktemp -d /tmp/gmut.XXXXXX)
trap 'rm -rf "$D"' EXIT
cp -r /repo/src /repo/tests /repo/utils /repo/Makefile /repo/CudaArch.mk "$D"/ 2>/dev/null || true
if [ "$1" = "-e" ]; then
  sed -i "$2" "$D/$3"; shift 3
  diff -r /repo/src "$D/src" | head -20 || true
else
  PF=$(realpath "$1"); (cd "$D" && patch -p1 -s < "$PF"); shift
fi
[ "$1" = "--" ] && shift
set +e
cd /verif && VERIF_REPO="$D" VERIF_RUNTAG="_mut$$" VERIF_EVID="${VERIF_EVID:-/verif/.cache/evidence_alt}" ./check "$@"; rc=$?; rm -rf "/verif/.cache/run/"*"_mut$$"*; exit $rc
