#!/bin/bash
# Offline setup: checks tools, regenerates the W64 limb module, pre-builds the library objects from /repo.
set -e
cd "$(dirname "$0")"
mkdir -p .cache evidence
for t in java g++ python3 apalache-mc; do command -v $t >/dev/null || { echo "missing tool $t"; exit 1; }; done
python3 tools/gen_w64.py spec/W64.tla
python3 - <<'PY'
import sys
sys.path.insert(0, 'lib')
import vlib
vlib.build_lib('avx2')
if vlib.have_avx512():
    vlib.build_lib('avx512')
print('setup ok')
PY
