---- MODULE Trace_Gpu ----
(* C20: every recorded run of the PTX executor (the text of gl64_t.cuh executed by the generated C++ back end; there
   is no GPU) must return the CANONICAL result of the field operation, computed here from the definition over W64.
   Operands are taken as recorded; lib/c20.py only submits operands inside the documented preconditions (canonical
   for add/sub/cneg, any word for the multiplications and reduce()).
   mulraw (mul without the final to()) and red4 (reduce(temp[4]) on a = temp[1]:temp[0], b = temp[3]:temp[2]) are
   internal steps: any word of the right class is accepted. *)
EXTENDS TraceBase
VARIABLE l
Expected(e) ==
  CASE e.op = "add" -> FAdd(e.a, e.b)
    [] e.op = "sub" -> FSub(e.a, e.b)
    [] e.op = "cneg" -> IF e.b = Zero8 THEN Canon(e.a) ELSE FNeg(e.a)
    [] e.op = "mul" -> FMul(e.a, e.b)
    [] e.op = "mulraw" -> FMul(e.a, e.b)
    [] e.op = "sqr" -> FMul(e.a, e.a)
    [] e.op = "mulw" -> FMul(e.a, <<e.b[1], e.b[2], e.b[3], e.b[4], 0, 0, 0, 0>>)
    [] e.op = "red" -> Canon(e.a)
    [] e.op = "red4" -> Red16(e.a \o e.b)
Internal == {"mulraw", "red4"}
Ops == {"add", "sub", "cneg", "mul", "sqr", "mulw", "red"} \cup Internal
Ok(e) == /\ e.e = "gpu" /\ e.op \in Ops /\ e.arch \in {700, 600}
         /\ IsWord(e.a) /\ IsWord(e.b) /\ IsWord(e.r)
         /\ IF e.op \in Internal THEN EqModP(e.r, Expected(e)) ELSE e.r = Canon(Expected(e))
Init == l = 1
Next == l <= Len(Tr) /\ Ok(Tr[l]) /\ l' = l + 1
Accepted == TLCGet("stats").diameter - 1 = Len(Tr)
ASSUME B = 256 => FMul(PM1, PM1) = One8
ASSUME B = 256 => FMul(<<0,0,0,0,1,0,0,0>>, <<0,0,0,0,1,0,0,0>>) = <<255,255,255,255,0,0,0,0>>
ASSUME B = 256 => Red16(<<0,0,0,0,0,0,0,0, 1,0,0,0,0,0,0,0>>) = <<255,255,255,255,0,0,0,0>>
ASSUME B = 256 => Red16(<<0,0,0,0,0,0,0,0, 0,0,0,0,1,0,0,0>>) = PM1
====
