---- MODULE MC_Inv ----
EXTENDS InvExp
Init == InitInv
Spec == Init /\ [][Next]_vars
====
