---- MODULE ParChunks ----
(* Chunk arithmetic of Goldilocks::parcpy / parSetZero (C17).  A thread-count argument below 1 counts as 1;
   chunk = ceil(size / threads); the parallel loop runs i = 0, chunk, 2 chunk, ... while i < size and iteration i
   transfers min(chunk, size - i) elements starting at element i (the last chunk is shortened).  The property: for
   every size >= 0 and every int thread-count argument the pieces cover 0 .. size-1 exactly, once. *)
EXTENDS Integers, FiniteSets
Threads(t) == IF t < 1 THEN 1 ELSE t
Chunk(size, t) == (size + Threads(t) - 1) \div Threads(t)
Starts(size, t) == IF size = 0 THEN {} ELSE {i \in 0..(size - 1) : (i % Chunk(size, t)) = 0}
PieceLen(size, t, i, shorten) == IF shorten /\ size - i < Chunk(size, t) THEN size - i ELSE Chunk(size, t)
Piece(size, t, i, shorten) == i..(i + PieceLen(size, t, i, shorten) - 1)
Covered(size, t, shorten) == UNION {Piece(size, t, i, shorten) : i \in Starts(size, t)}
ExactCover(size, t, shorten) == Covered(size, t, shorten) = 0..(size - 1)
DisjointPieces(size, t, shorten) == \A i, j \in Starts(size, t) : i # j => Piece(size, t, i, shorten) \cap Piece(size, t, j, shorten) = {}
TeamSuffices(size, t) == Cardinality(Starts(size, t)) <= Threads(t)       \* one iteration per team member at most
ParOk(size, t) == ExactCover(size, t, TRUE) /\ DisjointPieces(size, t, TRUE) /\ TeamSuffices(size, t)

(* Delivery environments.  The thread-count argument is a REQUEST: the team the runtime delivers for the region may be
   smaller.  env 0: plain call; env 1: the call is made from inside an active parallel region (nesting is off: the region gets
   a team of ONE); env 2 / 3: the process-wide thread-count setting is 1 / 5 when the call starts (the request of the call
   itself prevails).  The iterations of the loop are shared out among whatever team there is - iteration number j to member
   j mod team, or any other assignment - so what is transferred does not depend on the team: in every environment exactly
   0 .. size-1. *)
Envs == 0..3
Team(t, env) == IF env = 1 THEN 1 ELSE Threads(t)
MemberStarts(size, t, team, m) == {i \in Starts(size, t) : ((i \div Chunk(size, t)) % team) = m}
CoveredBy(size, t, team) == UNION {Piece(size, t, i, TRUE) : i \in UNION {MemberStarts(size, t, team, m) : m \in 0..(team - 1)}}
DeliveryOk(size, t, team) == CoveredBy(size, t, team) = 0..(size - 1)
(* the scheme that is NOT the specification: one piece per team member, numbered by the member - whole only when the team has
   a member for every piece *)
PiecePerMember(size, t, team) == UNION {Piece(size, t, m * Chunk(size, t), TRUE) : m \in {j \in 0..(team - 1) : j * Chunk(size, t) < size}}
====
