---- MODULE MC_ParOrders ----
(* C12 behaviour generator: the member execution orders and team-size caps replayed under the OpenMP stand-in:
   every permutation of teams of 2..4 members, and for larger teams the order prototypes reverse / rotations / odd-even
   (an order prototype is reduced modulo the delivered team size by the stand-in). *)
EXTENDS Integers, Sequences, FiniteSets, TLC, Json, IOUtils, SequencesExt
Perms(n) == {f \in [1..n -> 0..(n - 1)] : \A i, j \in 1..n : i # j => f[i] # f[j]}
Rot(n, k) == [i \in 1..n |-> (i - 1 + k) % n]
Rev(n) == [i \in 1..n |-> n - i]
OddEven(n) == [i \in 1..n |-> IF 2 * (i - 1) + 1 < n THEN 2 * (i - 1) + 1 ELSE 2 * ((i - 1) - (n \div 2))]
Orders == Perms(2) \cup Perms(3) \cup Perms(4) \cup {Rev(16), Rot(16, 5), Rot(16, 11), OddEven(16), Rev(7), Rot(7, 3)}
Caps == {0, 1, 2, 3, 5}
ASSUME ndJsonSerialize(IOEnv.ORDOUT, SetToSeq({[cap |-> c, order |-> o] : c \in Caps, o \in Orders}))
VARIABLE x
Init == x = 0
Next == UNCHANGED x
====
