---- MODULE Trace_Poseidon ----
(* C06: every recorded permutation call: all entry points (scalar, AVX2, in-place forms, capacity-sized hash, and per
   interleaved slot the AVX512 variant) return the same twelve field elements; for events flagged `full` the result is
   re-derived by TLC from the specified permutation. *)
EXTENDS Poseidon
Tr == ndJsonDeserialize(IOEnv.TRACE)
VARIABLE l
Has(e, k) == k \in DOMAIN e
First4(v) == SubSeq(v, 1, 4)
OkPerm(e) ==
  /\ Len(e.in) = 12 /\ IsWordSeq(e.seq) /\ IsWordSeq(e.avx)
  /\ EqV(e.avx, e.seq) /\ EqV(e.seq_ip, e.seq) /\ EqV(e.avx_ip, e.seq)
  /\ EqV(e.hseq, First4(e.seq)) /\ EqV(e.havx, First4(e.seq))
  /\ (Has(e, "out512") =>
        /\ EqV(Slot(e.in512, 0), e.in) /\ EqV(Slot(e.in512, 1), e.inb)
        /\ EqV(Slot(e.out512, 0), e.seq) /\ EqV(Slot(e.out512, 1), e.seqb)
        /\ EqV(SubSeq(e.h512, 1, 4), First4(e.seq)) /\ EqV(SubSeq(e.h512, 5, 8), First4(e.seqb)))
  /\ (e.full => EqV(e.seq, Perm(e.in)) /\ (Has(e, "seqb") => EqV(e.seqb, Perm(e.inb))))
(* one entry point iterated on its own result (no other call of it in between): every step equals the reference chain
   (scalar, out of place), and the first two steps of the reference chain are re-derived from the specification *)
Step(v, i) == SubSeq(v, 12 * (i - 1) + 1, 12 * i)
OkIter(e) ==
  /\ Len(e.in) = 12 /\ Len(e.outs) = 12 * e.k /\ Len(e.ref) = 12 * e.k
  /\ \A i \in 1..e.k : EqV(Step(e.outs, i), Step(e.ref, i))
  /\ EqV(Step(e.ref, 1), Perm(e.in))
  /\ (e.k >= 2 => EqV(Step(e.ref, 2), Perm(Step(e.ref, 1))))
(* facts about the constant tables of the tree, judged as a record of their own (first line of the trace) *)
OkTables(e) == FlatOk /\ MSmall /\ CCanon
Ok(e) == IF e.e = "perm" THEN OkPerm(e) ELSE IF e.e = "tables" THEN OkTables(e) ELSE IF e.e = "iter" THEN OkIter(e) ELSE FALSE
Init == l = 1
Next == l <= Len(Tr) /\ Ok(Tr[l]) /\ l' = l + 1
Accepted == TLCGet("stats").diameter - 1 = Len(Tr)
====
