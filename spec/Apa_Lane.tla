---- MODULE Apa_Lane ----
(* Full-width (Phi = 2^32) symbolic check of the lane kernels: all lane contents under each kernel's documented
   assumption.  The 32x32 partial products of mul_epu32 are free variables bounded by (Phi-1)^2 (sound
   over-approximation that keeps every obligation linear). *)
EXTENDS LaneKernels
VARIABLES
  \* @type: Int;
  a,
  \* @type: Int;
  b,
  \* @type: Int;
  p1,
  \* @type: Int;
  p2,
  \* @type: Int;
  p3,
  \* @type: Int;
  p4
ConstInit == Phi = 4294967296
PMax == (Phi - 1) * (Phi - 1)
Init == a \in 0..(T - 1) /\ b \in 0..(T - 1) /\ p1 \in 0..PMax /\ p2 \in 0..PMax /\ p3 \in 0..PMax /\ p4 \in 0..PMax
Next == UNCHANGED <<a, b, p1, p2, p3, p4>>
Rep(x, v) == IsWord(x) /\ Val(x) = v % P
InvToCanon == Rep(ToCanon(a), a) /\ IsCanon(ToCanon(a))
InvAdd == Rep(Add(a, b), a + b)
InvAddASc == IsShiftedCanon(a) => Rep(AddASc(a, b), Shift(a) + b)
InvAddSBSmall == SmallB(b) => (IsWord(AddSBSmall(a, b)) /\ Val(Shift(AddSBSmall(a, b))) = (Shift(a) + b) % P)
InvAddBSmall == SmallB(b) => Rep(AddBSmall(a, b), a + b)
InvSub == Rep(Sub(a, b), a - b)
InvSubSBSmall == SmallB(b) => (IsWord(SubSBSmall(a, b)) /\ Val(Shift(SubSBSmall(a, b))) = (Shift(a) - b) % P)
InvMult128P == LET m == Mult128P(a, b, p1, p2, p3, p4) IN IsWord(m.h) /\ IsWord(m.l) /\ m.h * T + m.l = p1 * T + (p2 + p3) * Phi + p4
InvMult72P == (p2 <= (Phi - 1) * 255 /\ p4 <= (Phi - 1) * 255) => LET m == Mult72P(a, b, p2, p4) IN m.h < Phi /\ IsWord(m.l) /\ m.h * T + m.l = p2 * Phi + p4
InvSquare128P == LET m == Square128P(a, p1, p2, p4) IN IsWord(m.h) /\ IsWord(m.l) /\ m.h * T + m.l = p1 * T + 2 * p2 * Phi + p4
InvMult128P_512 == LET m == Mult128_512P(a, b, p1, p2, p3, p4) IN IsWord(m.h) /\ IsWord(m.l) /\ m.h * T + m.l = p1 * T + (p2 + p3) * Phi + p4
InvMult72P_512 == (p2 <= (Phi - 1) * 255 /\ p4 <= (Phi - 1) * 255) => LET m == Mult72_512P(a, b, p2, p4) IN m.h < Phi /\ IsWord(m.l) /\ m.h * T + m.l = p2 * Phi + p4
InvSquare128P_512 == LET m == Square128_512P(a, p1, p2, p4) IN IsWord(m.h) /\ IsWord(m.l) /\ m.h * T + m.l = p1 * T + 2 * p2 * Phi + p4
(* products with one factor fixed are linear: real-operand obligations (their counterexamples are operand pairs) *)
InvMult8_3 == Rep(Mult8(a, 3), a * 3)
InvMult8_255 == Rep(Mult8(a, 255), a * 255)
InvMult_3 == Rep(Mult(a, 3), a * 3)
InvMult_F == Rep(Mult(a, Phi + 1), a * (Phi + 1))
InvMult8_512_3 == Rep(Mult8_512(a, 3), a * 3)
InvMult8_512_255 == Rep(Mult8_512(a, 255), a * 255)
InvMult512_3 == Rep(Mult512(a, 3), a * 3)
InvMult512_F == Rep(Mult512(a, Phi + 1), a * (Phi + 1))
InvReduce128 == Rep(Reduce128(a, b), a * T + b)
InvReduce96 == a < Phi => Rep(Reduce96(a, b), a * T + b)
InvToCanon512 == ToCanon512(a) = a % P
InvAdd512 == Rep(Add512(a, b), a + b)
InvAddBC512 == IsCanon(b) => Rep(AddBC512(a, b), a + b)
InvSub512 == Rep(Sub512(a, b), a - b)
InvSubBC512 == IsCanon(b) => Rep(SubBC512(a, b), a - b)
InvReduce128_512 == Rep(Reduce128_512(a, b), a * T + b)
InvReduce96_512 == a < Phi => Rep(Reduce96_512(a, b), a * T + b)
====
