---- MODULE MC_MatChain ----
(* chains of the 12-wide kernels at W = 2: all state lanes, coefficients from the representation-boundary set (quick) or all *)
EXTENDS MatKernels, TLC
CONSTANT AllB
VARIABLES a0, a1, a2, b0, b1, b2
BSet == IF AllB THEN Word ELSE {0, 1, 3, P - 1, P, T - 1}
Init == a0 \in Word /\ a1 \in Word /\ a2 = 0 /\ b0 = 0 /\ b1 = 0 /\ b2 = 0
Next == /\ a2 = 0 /\ b0 = 0 /\ b1 = 0 /\ b2 = 0
        /\ \E x \in Word, y0 \in BSet, y1 \in BSet, y2 \in BSet : a2' = x /\ b0' = y0 /\ b1' = y1 /\ b2' = y2 /\ (x # 0 \/ y0 # 0 \/ y1 # 0 \/ y2 # 0)
        /\ UNCHANGED <<a0, a1>>
Dot == (a0 * b0 + a1 * b1 + a2 * b2) % P
Sum4 == (a0 + a1 + a2 + b0) % P
Chain2 == /\ Val(Spmv2(a0, a1, a2, b0, b1, b2)) = Dot /\ Val(Spmv2A(a0, a1, a2, b0, b1, b2)) = Dot
          /\ Val(ColSum(a0, a1, a2, b0)) = Sum4 /\ Val(ColSumA(a0, a1, a2, b0)) = Sum4 /\ Val(ColSum8(a0, a1, a2, b0)) = Sum4
Chain512 == /\ Val(Spmv512(a0, a1, a2, b0, b1, b2)) = Dot
            /\ Val(ColSum512(a0, a1, a2, b0)) = Sum4 /\ Val(ColSum8_512(a0, a1, a2, b0)) = Sum4
(* non-vacuity: with LegacyBC the pinned chain through add_avx512_b_c is required to be exact - and is not *)
ChainLegacy == LegacyBC => (Val(Spmv512Legacy(a0, a1, a2, b0, b1, b2)) = Dot /\ Val(ColSum512Legacy(a0, a1, a2, b0)) = Sum4)
(* the high parts of the three 72-bit products are added as integers and must stay below Phi: at W = 32 this is 3*(2^8-1) < 2^32; at reduced width the coefficients are bounded accordingly *)
Chain8 == (b0 < Phi /\ b1 < Phi /\ b2 < Phi /\ b0 + b1 + b2 <= Phi) => (Val(Spmv8(a0, a1, a2, b0, b1, b2)) = Dot /\ Val(Spmv8_512(a0, a1, a2, b0, b1, b2)) = Dot)
ASSUME LayoutOk4
ASSUME LayoutOk8
====
