---- MODULE Sponge ----
(* C07: linear_hash as a state machine over SYMBOLIC values: input cells are distinct symbols, the permutation is an
   injective term constructor, the uninitialised stack array `state` is garbage.  One action per loop iteration.
   variant "single": linear_hash_seq / linear_hash (identical control structure); variant "pair": linear_hash_avx512,
   two streams of `len` elements (the second starts at input + len) through one 24-lane permutation per block. *)
EXTENDS Integers, Sequences, FiniteSets, TLC
CONSTANT MaxLen
VARIABLES variant, len, remaining, state, reads, out, pc
vars == <<variant, len, remaining, state, reads, out, pc>>
Z == "0"
In(i) == <<"in", i>>                       \* i-th element of the caller's array (1-based)
Garb(i) == <<"g", i>>
PermT(st) == [i \in 1..Len(st) |-> <<"p", st, i>>]
IsGarbFree(t) == TRUE
(* ---- definition (single stream starting at offset o) ---- *)
Block(o, l, k) == [i \in 1..8 |-> IF 8 * (k - 1) + i <= l THEN In(o + 8 * (k - 1) + i) ELSE Z]
RECURSIVE Absorb(_, _, _, _)
Absorb(o, l, k, cap) == LET st == Block(o, l, k) \o cap
                            outp == PermT(st)
                        IN IF 8 * k >= l THEN SubSeq(outp, 1, 4) ELSE Absorb(o, l, k + 1, SubSeq(outp, 1, 4))
SpongeDef(o, l) == IF l <= 4 THEN [i \in 1..4 |-> IF i <= l THEN In(o + i) ELSE Z] ELSE Absorb(o, l, 1, <<Z, Z, Z, Z>>)
(* pair: the two-lane permutation is the single permutation in each slot *)
Lane(slot, i) == 8 * ((i - 1) \div 4) + 4 * slot + ((i - 1) % 4) + 1
SlotOf(v24, slot) == [i \in 1..12 |-> v24[Lane(slot, i)]]
PermPair(st24) == LET a == PermT(SlotOf(st24, 0)) b == PermT(SlotOf(st24, 1))
                  IN [x \in 1..24 |-> LET g == (x - 1) \div 8 r == (x - 1) % 8 IN IF r < 4 THEN a[4 * g + r + 1] ELSE b[4 * g + (r - 4) + 1]]
Init == /\ variant \in {"single", "pair"} /\ len \in 0..MaxLen
        /\ remaining = len /\ reads = {} /\ out = <<>> /\ pc = "start"
        /\ state = [i \in 1..(IF variant = "single" THEN 12 ELSE 24) |-> Garb(i)]
Start == /\ pc = "start"
         /\ IF len <= 4
            THEN /\ out' = (IF variant = "single" THEN [i \in 1..4 |-> IF i <= len THEN In(i) ELSE Z]
                            ELSE [i \in 1..8 |-> IF i <= 4 THEN (IF i <= len THEN In(i) ELSE Z) ELSE (IF i - 4 <= len THEN In(len + i - 4) ELSE Z)])
                 /\ reads' = (IF variant = "single" THEN 1..len ELSE 1..(2 * len))
                 /\ pc' = "done" /\ UNCHANGED <<state, remaining>>
            ELSE pc' = "loop" /\ UNCHANGED <<out, reads, state, remaining>>
         /\ UNCHANGED <<variant, len>>
StepSingle ==
  /\ pc = "loop" /\ variant = "single" /\ remaining > 0
  /\ LET n == IF remaining < 8 THEN remaining ELSE 8
         base == len - remaining
         cap == IF remaining = len THEN <<Z, Z, Z, Z>> ELSE SubSeq(state, 1, 4)
         blk == [i \in 1..8 |-> IF i <= n THEN In(base + i) ELSE Z]
     IN /\ state' = PermT(blk \o cap)
        /\ reads' = reads \cup ((base + 1)..(base + n))
        /\ remaining' = remaining - n
  /\ UNCHANGED <<variant, len, out, pc>>
StepPair ==
  /\ pc = "loop" /\ variant = "pair" /\ remaining > 0
  /\ LET n == IF remaining < 8 THEN remaining ELSE 8
         base == len - remaining
         cap == IF remaining = len THEN [i \in 1..8 |-> Z] ELSE SubSeq(state, 1, 8)
         \* rate part: lanes 1..16: [A0..3][B0..3][A4..7][B4..7], zero-filled beyond n
         rate == [x \in 1..16 |-> LET g == (x - 1) \div 8 r == (x - 1) % 8
                                      idx == 4 * g + (r % 4) + 1       \* element index within the block, 1..8
                                  IN IF idx > n THEN Z ELSE IF r < 4 THEN In(base + idx) ELSE In(len + base + idx)]
     IN /\ state' = PermPair(rate \o cap)
        /\ reads' = reads \cup ((base + 1)..(base + n)) \cup ((len + base + 1)..(len + base + n))
        /\ remaining' = remaining - n
  /\ UNCHANGED <<variant, len, out, pc>>
Finish == /\ pc = "loop" /\ remaining = 0
          /\ out' = SubSeq(state, 1, IF variant = "single" THEN 4 ELSE 8)
          /\ pc' = "done" /\ UNCHANGED <<variant, len, remaining, state, reads>>
Next == Start \/ StepSingle \/ StepPair \/ Finish
Spec == Init /\ [][Next]_vars
DigestOk == pc = "done" =>
              IF variant = "single" THEN out = SpongeDef(0, len)
              ELSE SubSeq(out, 1, 4) = SpongeDef(0, len) /\ SubSeq(out, 5, 8) = SpongeDef(len, len)
ReadsExact == pc = "done" => reads = (IF variant = "single" THEN 1..len ELSE 1..(2 * len))
ReadsInside == reads \subseteq 1..(IF variant = "single" THEN len ELSE 2 * len)
Progress == pc = "loop" => remaining <= len
====
