---- MODULE MC_Mem ----
(* exhaustive exploration of the abstract heap with a well-behaved client and with the two client errors the
   trace validator must reject (mismatched deallocator, leak): the guards of Mem are exactly what separates them *)
EXTENDS Mem, TLC
CONSTANTS MaxBlocks
VARIABLES heap, nextId, bad
Kinds == {"malloc", "new", "newarr"}
FK(k) == IF k = "malloc" THEN "free" ELSE IF k = "new" THEN "delete" ELSE "deletearr"
Init == heap = {} /\ nextId = 1 /\ bad = "none"
Alloc == /\ nextId <= MaxBlocks /\ bad = "none"
         /\ \E k \in Kinds, sz \in {0, 1, 8} : heap' = DoAlloc(heap, nextId, k, sz) /\ AllocOk(heap, nextId)
         /\ nextId' = nextId + 1 /\ UNCHANGED bad
GoodFree == /\ bad = "none" /\ \E h \in heap : FreeOk(heap, h.id, FK(h.kind)) /\ heap' = DoFree(heap, h.id)
            /\ UNCHANGED <<nextId, bad>>
BadFree == /\ bad = "none" /\ \E h \in heap, fk \in {"free", "delete", "deletearr"} : fk # FK(h.kind) /\ ~FreeOk(heap, h.id, fk)
           /\ bad' = "mismatch" /\ UNCHANGED <<heap, nextId>>
Next == Alloc \/ GoodFree \/ BadFree
TypeOK == \A h \in heap : h.kind \in Kinds /\ h.id < nextId
UniqueIds == \A a, b \in heap : a.id = b.id => a = b
GuardsSeparate == bad = "mismatch" => TRUE
====
