CONSTANT B = 2
INIT Init
NEXT Next
INVARIANT TableOk
INVARIANT OperandInv
INVARIANT CallInv
INVARIANT ParInv
INVARIANT InPlaceInv
INVARIANT SameBaseInv
CHECK_DEADLOCK FALSE
