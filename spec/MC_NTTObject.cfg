CONSTANTS MaxS = 3 MaxLen = 3 LegacyRCache = FALSE LegacyDelete = FALSE
SPECIFICATION Spec
INVARIANT ResultIndependent
INVARIANT InBounds
INVARIANT MatchingFree
INVARIANT AllFreed
INVARIANT NoLeak
INVARIANT TablesOwned
CHECK_DEADLOCK FALSE
