---- MODULE Trace_Mem ----
(* C18: a recorded scenario (object construction, calls, destruction - or one library call) as a behaviour of the heap
   machine Mem: every logged allocation / deallocation must be an enabled Mem step (fresh identity; live block freed by
   the matching deallocator), at the scenario's end no block allocated inside it may be live, the routine's own
   exactness flag must hold, and the output digest must be the same under the two heap fill patterns (no uninitialised
   heap value reaches a result).  Crash events (a fault on a guard page: access outside a declared extent or of a
   freed block; an abort), releases of something that is not the start of a live block (`badfree`: interior pointer,
   second release) and sanitizer fault events are never accepted. *)
EXTENDS Mem, Json, IOUtils, TLC
Tr == ndJsonDeserialize(IOEnv.TRACE)
VARIABLES l, heap, firstDigest
Init == l = 1 /\ heap = {} /\ firstDigest = <<>>
Step(e) ==
  CASE e.e = "begin" -> heap = {} /\ UNCHANGED <<heap, firstDigest>>
    [] e.e = "alloc" -> AllocOk(heap, e.id) /\ heap' = DoAlloc(heap, e.id, e.kind, e.size) /\ UNCHANGED firstDigest
    [] e.e = "free" -> FreeOk(heap, e.id, e.kind) /\ heap' = DoFree(heap, e.id) /\ UNCHANGED firstDigest
    [] e.e = "end" -> /\ AllFreed(heap) /\ e.live = <<>> /\ e.flag_ok
                      /\ IF e.fill = 0 THEN firstDigest' = e.digest ELSE (firstDigest = e.digest /\ firstDigest' = <<>>)
                      /\ UNCHANGED heap
    [] e.e = "xbuild" -> (\A i \in 1..Len(e.digests) : e.digests[i] = e.digests[1]) /\ UNCHANGED <<heap, firstDigest>>
    [] OTHER -> FALSE
Next == l <= Len(Tr) /\ Step(Tr[l]) /\ l' = l + 1
Accepted == TLCGet("stats").diameter - 1 = Len(Tr)
====
