CONSTANT Phi = 16
INIT Init
NEXT Next
CONSTRAINT NoStep
CHECK_DEADLOCK FALSE
