---- MODULE MC_ScalarSig ----
(* Non-vacuity of the replay families: at W = 4 the corner family (halves within 3 of 0, Phi/2, Phi) reaches
   every carry/borrow path signature that any of the 65536 word pairs reaches, for add, sub and mul. *)
EXTENDS MC_Scalar
ASSUME AllSigs \subseteq CornerSigs
ASSUME Cardinality(AllSigs) >= 6
====
