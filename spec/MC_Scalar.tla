---- MODULE MC_Scalar ----
(* Exhaustive check of the scalar kernels (model generated from the asm of the current tree) at reduced width:
   every pair of words (canonical or not) for every operation. Also collects the path signatures. *)
EXTENDS ScalarOps, TLC, FiniteSets
VARIABLES a, b
Init == a \in Word /\ b = 0
Next == b < T - 1 /\ b' = b + 1 /\ UNCHANGED a
OkBin(r, v) == IsWord(r) /\ Val(r) = v % P
Exact ==
  /\ OkBin(Add(a, b), a + b)
  /\ OkBin(Sub(a, b), a - b)
  /\ OkBin(Mul(a, b), a * b)
  /\ OkBin(MulScalar(a, b), a * b)
  /\ (b = 0 => /\ OkBin(Square(a), a * a)
               /\ OkBin(Neg(a), 0 - a)
               /\ OkBin(Inc(a), a + 1)
               /\ OkBin(Dec(a), a - 1)
               /\ IsCanon(ToU(a)) /\ Val(ToU(a)) = Val(a)
               /\ IsZero(a) = (Val(a) = 0) /\ IsOne(a) = (Val(a) = 1) /\ IsNegOne(a) = (Val(a) = P - 1))
  /\ Equal(a, b) = (Val(a) = Val(b))
  /\ MulProg(a, b) = MulRedProg((a * b) \div T, (a * b) % T)
(* residue-class dependence: replacing an operand by its canonical form never changes the residue *)
ClassOnly ==
  /\ Val(Add(a, b)) = Val(Add(ToU(a), ToU(b)))
  /\ Val(Sub(a, b)) = Val(Sub(ToU(a), ToU(b)))
  /\ Val(Mul(a, b)) = Val(Mul(ToU(a), ToU(b)))
(* path-signature coverage of the corner family: halves near 0, Phi/2 and Phi *)
HalfCorners == {h \in 0..(Phi - 1) : h <= 3 \/ h >= Phi - 4 \/ (h >= Phi \div 2 - 1 /\ h <= Phi \div 2 + 1)}
Corners == {h1 * Phi + h0 : h1 \in HalfCorners, h0 \in HalfCorners}
AllSigs == {<<"add", AddProgSig(x, y)>> : x \in Word, y \in Word} \cup {<<"sub", SubProgSig(x, y)>> : x \in Word, y \in Word}
             \cup {<<"mul", MulProgSig(x, y)>> : x \in Word, y \in Word}
CornerSigs == {<<"add", AddProgSig(x, y)>> : x \in Corners, y \in Corners} \cup {<<"sub", SubProgSig(x, y)>> : x \in Corners, y \in Corners}
             \cup {<<"mul", MulProgSig(x, y)>> : x \in Corners, y \in Corners}
NoStep == b = 0 /\ a = 0
====
