CONSTANT MaxLen = 48
SPECIFICATION Spec
INVARIANT DigestOk
INVARIANT ReadsExact
INVARIANT ReadsInside
INVARIANT Progress
CHECK_DEADLOCK FALSE
