---- MODULE MC_Sponge ----
EXTENDS Sponge
====
