---- MODULE MC_NTTObject ----
EXTENDS NTTObject
====
