---- MODULE MC_W64 ----
(* Exhaustive refinement check of the limb arithmetic W64 (base B = 2, 8 limbs = 8-bit words, P = 241)
   against the integer definitions of GL with Phi = 16. The same W64 text with B = 256 is the 64-bit
   oracle used by every trace validator. *)
EXTENDS W64, TLC
G == INSTANCE GL WITH Phi <- 16
VARIABLES a, b
Init == a \in 0..255 /\ b = 0
Next == b < 255 /\ b' = b + 1 /\ UNCHANGED a
A == OfInt(a)
Bw == OfInt(b)
Inv == /\ ToInt(A) = a
       /\ IsWord(A)
       /\ ToInt(Canon(A)) = G!Val(a)
       /\ ToInt(FAdd(A, Bw)) = G!FAdd(a, b)
       /\ ToInt(FSub(A, Bw)) = G!FSub(a, b)
       /\ ToInt(FMul(A, Bw)) = G!FMul(a, b)
       /\ ToInt(FNeg(A)) = G!FNeg(a)
       /\ EqModP(A, Bw) = (G!Val(a) = G!Val(b))
       /\ ToInt(SubSeq(Mul16(A, Bw), 1, 8)) + 256 * ToInt(SubSeq(Mul16(A, Bw), 9, 16)) = a * b
       /\ (b < 4 /\ b > 0 => ToInt(FExp(A, Bw)) = ((a % 241) ^ b) % 241)
       /\ ToInt(FExp(A, Bw)) = ToInt(FExp(Canon(A), Bw))
       /\ (b >= 1 => FExp(A, Bw) = FMul(A, FExp(A, OfInt(b - 1))))
====
