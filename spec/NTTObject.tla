---- MODULE NTTObject ----
(* C19 (+C18 object lifetime): one NTT_Goldilocks object shared by a history of calls.  The only per-object mutable
   state the code keeps between calls is the lazily built extension table r / r_ (r_[i] = 7^i / N) and the heap blocks
   it owns: roots / powTwoInv (malloc, in the constructor) and r / r_ (new[]).  A call's result may depend on its own
   arguments only; every internal table read must be inside the table; the destructor must release every block with
   the deallocator matching its allocator.
     LegacyRCache  = TRUE : r / r_ are computed for the first N only            (pinned tree, D7)
     LegacyDelete  = TRUE : the destructor uses scalar delete on new[] memory   (pinned tree, D8) *)
EXTENDS Integers, Sequences, FiniteSets, TLC
CONSTANTS MaxS, MaxLen, LegacyRCache, LegacyDelete
Pow2(k) == 2^k
Calls == [call : {"ntt", "intt"}, d : 0..MaxS, e : {0}] \cup {c \in [call : {"ext"}, d : 0..MaxS, e : 0..MaxS] : c.d + c.e <= MaxS}
VARIABLES S, alive, rN, heap, hist, lastScaleN, oob, badfree, leak
vars == <<S, alive, rN, heap, hist, lastScaleN, oob, badfree, leak>>
(* heap: set of [id, kind ("malloc" / "new[]"), len] *)
Init == /\ S \in 0..MaxS /\ alive = FALSE /\ rN = 0 /\ heap = {} /\ hist = <<>> /\ lastScaleN = 0
        /\ oob = FALSE /\ badfree = FALSE /\ leak = FALSE
Construct == /\ ~alive /\ hist = <<>>
             /\ alive' = TRUE
             /\ heap' = {[id |-> "roots", kind |-> "malloc", len |-> Pow2(IF S = 0 THEN 1 ELSE S)],
                         [id |-> "powTwoInv", kind |-> "malloc", len |-> (IF S = 0 THEN 1 ELSE S) + 1]}
             /\ UNCHANGED <<S, rN, hist, lastScaleN, oob, badfree, leak>>
(* NTT / INTT read roots[idx << (s - domainPow)] and powTwoInv[domainPow]: inside the tables whenever d <= S *)
CallPlain(c) == /\ alive /\ Len(hist) < MaxLen /\ c.call \in {"ntt", "intt"} /\ c.d <= S
                /\ hist' = Append(hist, c)
                /\ UNCHANGED <<S, alive, rN, heap, lastScaleN, oob, badfree, leak>>
(* extendPol(N = 2^d): computeR(N) if no table yet (repaired: or if it was built for another N) *)
CallExt(c) ==
  /\ alive /\ Len(hist) < MaxLen /\ c.call = "ext" /\ c.d <= S
  /\ LET n == Pow2(c.d)
         rebuild == rN = 0 \/ (~LegacyRCache /\ rN # n)
         newRN == IF rebuild THEN n ELSE rN
     IN /\ rN' = newRN
        /\ heap' = IF rebuild
                   THEN {h \in heap : h.id \notin {"r", "r_"}} \cup {[id |-> "r", kind |-> "new[]", len |-> n], [id |-> "r_", kind |-> "new[]", len |-> n]}
                   ELSE heap
        /\ leak' = (leak \/ (rebuild /\ rN # 0 /\ FALSE))      \* the repaired computeR deletes the old tables first
        /\ lastScaleN' = newRN                                   \* the last inverse pass multiplies row k by r_[k] = 7^k / newRN
        /\ oob' = (oob \/ n > newRN)                             \* it reads r_[k] for all k < n
  /\ hist' = Append(hist, c)
  /\ UNCHANGED <<S, alive, badfree>>
Destroy == /\ alive
           /\ alive' = FALSE
           /\ badfree' = (LegacyDelete /\ \E h \in heap : h.kind = "new[]")   \* delete (r) on new[] memory
           /\ heap' = {}
           /\ UNCHANGED <<S, rN, hist, lastScaleN, oob, leak>>
Next == Construct \/ (\E c \in Calls : CallPlain(c) \/ CallExt(c)) \/ Destroy
Spec == Init /\ [][Next]_vars
(* ---- properties ---- *)
(* the scaling table used by the most recent extendPol is the one a fresh object would build for its N *)
ResultIndependent == (hist # <<>> /\ hist[Len(hist)].call = "ext") => lastScaleN = Pow2(hist[Len(hist)].d)
InBounds == ~oob
MatchingFree == ~badfree
AllFreed == (~alive /\ hist # <<>>) => heap = {}
NoLeak == ~leak
TablesOwned == alive => \A h \in heap : h.len >= 1
====
