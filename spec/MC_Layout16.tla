---- MODULE MC_Layout16 ----
(* C16 model phase (TLC).
   table:    every row of Overloads16 is well-formed.
   operand:  every operand descriptor that occurs in the table (and all ext/base x memory-kind combinations), 4 and 8
             lanes, strides {0,1,2,3,4,5,7}, permuted / repeated / spaced index lists over small arenas: footprint inside
             the exact extent, the last extent cell designated, the cells of distinct result elements pairwise distinct
             exactly for strides >= width / index lists spaced by >= width, contig = stride width, a constant is one element.
   alias:    every (result, operand) descriptor pair of a row whose result may be aliased to that operand (Aliasable), arrays:
             all stride / index-list combinations: when the operand is addressed exactly like the result (SameCells) and
             the result elements are distinct, both have the same footprint and extent and the result cells of element k
             meet operand cells of element k only -- so "element k of the result = Expected on the pre-call element k" is
             well defined for in-place calls; SameCells holds exactly for equal strides (contig = stride 3).
   offsets:  the index lists include arrays that look packed / uniform on some lanes only (first and last entry 3 * (n - 1)
             apart with a permuted or sparse middle, one half packed, first = last, descending): an index operand is
             addressed like a strided one shifted by idx[1] exactly when the WHOLE list is uniform (IsUniform), not when
             its ends are (LooksUniformAtEnds).
   shared:   every row whose two inputs live in memory, all stride / index-list combinations, a and b the same array:
             both footprints lie inside SharedExtent, its last cell is designated, and operand values read from one memory
             satisfy SharedAgree.
   field:    over the 13-element field (GL with Phi = 4): for every a in F_13^3 and b from a generating subset (BSub = TRUE:
             the monomials, all-ones, a few mixed elements and their negatives; FALSE: every element with b0 in {0,1,12}
             or b1 = b2) the formulas the code uses -- the A..G Karatsuba forms of the _batch and of the _avx/_avx512
             routines fed with the precomputed sums of b (challenge variants), and the shortcuts of the mixed base/ext
             shapes -- equal the scalar definition Expected(op, ...) with base operands embedded as (s, 0, 0). *)
EXTENDS GL, Overloads16, FiniteSets, Sequences
CONSTANT BSub
VARIABLES ph, od, al, fa, fb
INSTANCE Layout16 WITH FA <- FAdd, FS <- FSub, FM <- FMul, FZero <- 0

F3 == (0..(P - 1)) \X (0..(P - 1)) \X (0..(P - 1))
Zero3 == <<0, 0, 0>>
NoOp == [d |-> [elem |-> "ext", kind |-> "regs", param |-> ""], n |-> 4, s |-> 0, idx |-> <<>>]
Strides == {0, 1, 2, 3, 4, 5, 7}
Idx4 == {<<0,3,6,9>>, <<9,3,0,6>>, <<0,1,2,3>>, <<3,1,0,2>>, <<2,2,0,5>>, <<4,4,4,4>>, <<0,4,9,13>>, <<12,0,7,3>>, <<0,2,5,8>>,
         <<0,6,3,9>>, <<0,30,40,9>>, <<5,8,14,11>>, <<3,0,6,9>>, <<0,3,6,0>>, <<5,9,13,17>>, <<9,6,3,0>>}
Idx8 == {<<0,3,6,9,12,15,18,21>>, <<21,18,15,12,9,6,3,0>>, <<3,3,3,3,3,3,3,3>>, <<5,0,5,1,9,9,2,0>>, <<1,0,3,2,5,4,7,6>>,
         <<0,4,8,12,16,20,24,29>>, <<9,0,30,3,21,14,6,25>>,
         <<0,3,6,12,9,15,18,21>>, <<0,30,40,50,60,70,80,21>>, <<0,3,6,9,21,18,15,12>>, <<9,6,3,0,12,15,18,21>>,
         <<0,3,6,9,12,15,18,0>>, <<40,43,49,46,52,55,58,61>>}
TableDescs == UNION {{Table16[id].a, Table16[id].b, Table16[id].c} : id \in Ids16}
AllDescs == TableDescs \cup {[elem |-> el, kind |-> k, param |-> (IF k \in {"stride", "index"} THEN "p" ELSE "")] :
                               el \in {"ext", "base"}, k \in {"contig", "stride", "index", "const"}}
Cfgs(d, n) == CASE d.kind = "stride" -> {[d |-> d, n |-> n, s |-> s, idx |-> <<>>] : s \in Strides}
                [] d.kind = "index"  -> {[d |-> d, n |-> n, s |-> 0, idx |-> ix] : ix \in (IF n = 4 THEN Idx4 ELSE Idx8)}
                [] OTHER             -> {[d |-> d, n |-> n, s |-> 0, idx |-> <<>>]}
BGen == {<<1,0,0>>, <<0,1,0>>, <<0,0,1>>, <<1,1,1>>, <<P-1,0,0>>, <<0,P-1,0>>, <<0,0,P-1>>, <<2,5,7>>, <<P-1,P-1,P-1>>, <<3,0,11>>, <<0,6,6>>, <<0,0,0>>}
Bs == IF BSub THEN BGen ELSE {v \in F3 : v[1] \in {0, 1, P - 1} \/ v[2] = v[3]}

NoAl == [c |-> NoOp, x |-> NoOp]
Init == ph = "start" /\ od = NoOp /\ al = NoAl /\ fa = Zero3 /\ fb = Zero3
ChooseOperand == /\ ph = "start" /\ ph' = "operand" /\ UNCHANGED <<al, fa, fb>>
                 /\ \E d \in AllDescs, n \in {4, 8} : od' \in Cfgs(d, n)
ChooseAlias == /\ ph = "start" /\ ph' = "alias" /\ UNCHANGED <<od, fa, fb>>
               /\ \E id \in Ids16, m \in {"a", "b"} :
                    LET r == Table16[id] IN
                    /\ m \in AliasModes(r) /\ InMem(r.c)
                    /\ \E cc \in Cfgs(r.c, r.lanes), xc \in Cfgs(r[m], r.lanes) : al' = [c |-> cc, x |-> xc]
ChooseShared == /\ ph = "start" /\ ph' = "shared" /\ UNCHANGED <<od, fa, fb>>
                /\ \E id \in Ids16 :
                     LET r == Table16[id] IN
                     /\ Shareable(r.a, r.b)
                     /\ \E ac \in Cfgs(r.a, r.lanes), bc \in Cfgs(r.b, r.lanes) : al' = [c |-> ac, x |-> bc]
ChooseA == ph = "start" /\ ph' = "fieldA" /\ fa' \in F3 /\ UNCHANGED <<od, al, fb>>
ChooseB == ph = "fieldA" /\ ph' = "field" /\ fb' \in Bs /\ UNCHANGED <<od, al, fa>>
Next == ChooseOperand \/ ChooseAlias \/ ChooseShared \/ ChooseA \/ ChooseB

TableOk == ph = "start" => /\ \A id \in Ids16 : RowOk(Table16[id])
                           /\ Cardinality(Ids16) = 156
                           /\ \A id \in Ids16 : \A m \in AliasModes(Table16[id]) \ {"none"} :
                                 Table16[id][m].elem = "ext" /\ (InMem(Table16[id].c) = InMem(Table16[id][m]))
                           /\ Cardinality({id \in Ids16 : AliasModes(Table16[id]) # {"none"}}) = 90
Gap(ix, w) == \A i, j \in DOMAIN ix : i # j => (ix[i] - ix[j] >= w \/ ix[j] - ix[i] >= w)
OperandInv ==
  ph = "operand" =>
    LET d == od.d  n == od.n  s == od.s  ix == od.idx  w == Width(d)
        F == Footprint(d, n, s, ix)  E == Extent(d, n, s, ix)
    IN /\ F \subseteq 0..(E - 1)
       /\ (F # {}) = InMem(d)
       /\ (F # {} => (E - 1) \in F)                                          \* exact extent: its last cell is designated
       /\ Cardinality(F) <= n * w
       /\ (d.kind = "contig" => F = 0..((n * w) - 1) /\ Disjoint(d, n, s, ix)
                                /\ \A k \in 0..(n - 1), i \in 0..(w - 1) : Addr(d, k, i, s, ix) = Addr([d EXCEPT !.kind = "stride"], k, i, w, ix))
       /\ (d.kind = "stride" => (Disjoint(d, n, s, ix) = (s >= w)) /\ E = ((n - 1) * s) + w)
       /\ (d.kind = "index" => (Disjoint(d, n, s, ix) = Gap(ix, w)) /\ \A k \in 1..n : ix[k] \in F /\ (ix[k] + w) - 1 \in F)
       /\ (d.kind = "index" => \A st \in Strides :
               /\ IsUniform(ix, n, st) = (\A k \in 0..(n - 1), i \in 0..(w - 1) :
                                             Addr(d, k, i, s, ix) = ix[1] + Addr([d EXCEPT !.kind = "stride"], k, i, st, <<>>))
               /\ (IsUniform(ix, n, st) => LooksUniformAtEnds(ix, n, st) /\ AgreesOn(ix, 0..(n - 1), ix[1], st)))
       /\ (d.kind = "const" => F = (IF d.elem = "ext" THEN {0, 1, 2} ELSE {}))
       /\ (d.kind \in {"regs", "regs3", "reg"} => F = {} /\ E = 0)
       /\ (InMem(d) => \A k \in 0..(n - 1) : Cardinality(ElemCells(d, k, s, ix)) = w /\ ElemCells(d, k, s, ix) \subseteq F)
AliasInv ==
  ph = "alias" =>
    LET c == al.c  x == al.x  n == c.n
        same == SameCells(c.d, x.d, n, c.s, c.idx, x.s, x.idx)
    IN /\ (same /\ Disjoint(c.d, n, c.s, c.idx)) =>
            /\ Footprint(c.d, n, c.s, c.idx) = Footprint(x.d, n, x.s, x.idx)
            /\ Extent(c.d, n, c.s, c.idx) = Extent(x.d, n, x.s, x.idx)
            /\ \A j, k \in 0..(n - 1) : j # k => ElemCells(c.d, k, c.s, c.idx) \cap ElemCells(x.d, j, x.s, x.idx) = {}
            /\ \A k \in 0..(n - 1) : ElemCells(c.d, k, c.s, c.idx) = ElemCells(x.d, k, x.s, x.idx)
       /\ (c.d.kind = "stride" /\ x.d.kind = "stride" => same = (c.s = x.s))
       /\ (c.d.kind = "contig" /\ x.d.kind = "stride" => same = (x.s = 3))
       /\ (c.d.kind = "stride" /\ x.d.kind = "contig" => same = (c.s = 3))
       /\ (c.d.kind = "contig" /\ x.d.kind = "contig" => same)
       /\ (c.d.kind = "index" /\ x.d.kind = "index" => same = (c.idx = x.idx))
(* the index lists of the model do contain arrays whose ends look packed / uniform while the array is not *)
ASSUME \E ix \in Idx4 : LooksUniformAtEnds(ix, 4, 3) /\ ~IsUniform(ix, 4, 3)
ASSUME \E ix \in Idx8 : LooksUniformAtEnds(ix, 8, 3) /\ ~IsUniform(ix, 8, 3)
ASSUME \E ix \in Idx8 : AgreesOn(ix, 0..3, ix[1], 3) /\ ~IsUniform(ix, 8, 3)
SharedInv ==
  ph = "shared" =>
    LET a == al.c  b == al.x  n == a.n
        Fa == Footprint(a.d, n, a.s, a.idx)  Fb == Footprint(b.d, n, b.s, b.idx)
        SE == SharedExtent(a.d, b.d, n, a.s, a.idx, b.s, b.idx)
        \* operand values read from ONE memory whose cell at position q holds q
        Rd(c) == [k \in 1..n |-> [i \in 1..Width(c.d) |-> Addr(c.d, k - 1, i - 1, c.s, c.idx)]]
    IN /\ (Fa \cup Fb) \subseteq 0..(SE - 1) /\ (SE - 1) \in (Fa \cup Fb)
       /\ SE >= Extent(a.d, n, a.s, a.idx) /\ SE >= Extent(b.d, n, b.s, b.idx)
       /\ SharedAgree(a.d, b.d, n, a.s, a.idx, b.s, b.idx, Rd(a), Rd(b))
       /\ SharedAgree(a.d, b.d, n, a.s, a.idx, b.s, b.idx, Rd(a), [k \in 1..n |-> [i \in 1..Width(b.d) |-> 0 - 1]]) = (Fa \cap Fb = {})
Ext == [elem |-> "ext", kind |-> "contig", param |-> ""]
Bas == [elem |-> "base", kind |-> "contig", param |-> ""]
FieldInv ==
  ph = "field" =>
    LET a == fa  b == fb  x == Sums(b) IN
    /\ KarBatch(a, b, x) = Expected("mul", Ext, Ext, a, b)
    /\ KarAvx(a, b, x) = Expected("mul", Ext, Ext, a, b)
    /\ Expected("mul", Ext, Ext, a, b) = Expected("mul", Ext, Ext, b, a)
    /\ Mul13(a[1], b) = Expected("mul", Bas, Ext, <<a[1]>>, b)
    /\ Add13(a[1], b) = Expected("add", Bas, Ext, <<a[1]>>, b)
    /\ Add13(b[1], a) = Expected("add", Ext, Bas, a, <<b[1]>>)
    /\ Sub31(a, b[1]) = Expected("sub", Ext, Bas, a, <<b[1]>>)
    /\ Sub13(a[1], b) = Expected("sub", Bas, Ext, <<a[1]>>, b)
    /\ Expected("sub", Ext, Ext, Expected("add", Ext, Ext, a, b), b) = a
    \* the definition itself: x^3 = x + 1 (b = x, a arbitrary: multiplication by x shifts and folds)
    /\ (b = <<0, 1, 0>> => Expected("mul", Ext, Ext, a, b) = <<a[3], FAdd(a[1], a[3]), a[2]>>)
====
