---- MODULE Cubic ----
(* C09: F_p[x]/(x^3 - x - 1) over the width-parametric field GL.  Elements are triples <<c0,c1,c2>>.
   CMulSchool is the definition (x^3 = x + 1, x^4 = x^2 + x); CMulKar is the code's A..G formula;
   CInv is the code's closed form.  *)
EXTENDS GL, Sequences
F3 == (0..(P-1)) \X (0..(P-1)) \X (0..(P-1))
Zero3 == <<0, 0, 0>>
One3 == <<1, 0, 0>>
CAdd(a, b) == <<FAdd(a[1], b[1]), FAdd(a[2], b[2]), FAdd(a[3], b[3])>>
CSub(a, b) == <<FSub(a[1], b[1]), FSub(a[2], b[2]), FSub(a[3], b[3])>>
CNeg(a) == CSub(Zero3, a)
CMulSchool(a, b) ==
  LET d0 == a[1] * b[1]
      d1 == a[1] * b[2] + a[2] * b[1]
      d2 == a[1] * b[3] + a[2] * b[2] + a[3] * b[1]
      d3 == a[2] * b[3] + a[3] * b[2]
      d4 == a[3] * b[3]
  IN <<(d0 + d3) % P, (d1 + d3 + d4) % P, (d2 + d4) % P>>
CMulKar(a, b) ==
  LET A == FMul(FAdd(a[1], a[2]), FAdd(b[1], b[2]))
      Bq == FMul(FAdd(a[1], a[3]), FAdd(b[1], b[3]))
      C == FMul(FAdd(a[2], a[3]), FAdd(b[2], b[3]))
      D == FMul(a[1], b[1])
      E == FMul(a[2], b[2])
      F == FMul(a[3], b[3])
      G == FSub(D, E)
  IN <<FSub(FAdd(C, G), F), FSub(FSub(FSub(FAdd(A, C), E), E), D), FSub(Bq, G)>>
RECURSIVE PowM(_, _)
PowM(b, k) == IF k = 0 THEN 1 ELSE (b * PowM(b, k - 1)) % P
FInv(x) == PowM(x, P - 2)
CNorm(v) ==
  LET a == v[1] b == v[2] c == v[3] IN
  (3*a*b*c + a*b*b - a*a*a - 2*a*a*c - a*c*c - b*b*b + b*c*c - c*c*c) % P
CInv(v) ==
  LET a == v[1] b == v[2] c == v[3]
      tinv == FInv(CNorm(v))
  IN <<((b*c + b*b - a*a - 2*a*c - c*c) * tinv) % P, ((b*a - c*c) * tinv) % P, ((a*c + c*c - b*b) * tinv) % P>>
CIsOne(v) == v[1] % P = 1 /\ v[2] % P = 0 /\ v[3] % P = 0
(* batch inversion (Montgomery's trick), as in the code: prefix products, one inversion, backward sweep *)
RECURSIVE Prefix(_, _)
Prefix(src, i) == IF i = 1 THEN <<src[1]>> ELSE LET p == Prefix(src, i - 1) IN Append(p, CMulKar(p[i - 1], src[i]))
RECURSIVE Sweep(_, _, _, _, _)
Sweep(src, tmp, z, i, acc) == IF i = 1 THEN [acc EXCEPT ![1] = z]
                              ELSE Sweep(src, tmp, CMulKar(z, src[i]), i - 1, [acc EXCEPT ![i] = CMulKar(z, tmp[i - 1])])
BatchInverse(src) == LET n == Len(src) tmp == Prefix(src, n) IN Sweep(src, tmp, CInv(tmp[n]), n, [i \in 1..n |-> Zero3])
====
