---- MODULE Trace_Sponge ----
(* C07: a recorded linear_hash call = (input array, the sequence of permutation calls observed through the tracer hook,
   digest).  The observed permutation inputs must be exactly the absorb sequence of the sponge definition built from
   the logged input (block k, zero padding, capacity = first four outputs of call k-1, zero for k = 1), the digest the
   first four outputs of the last call; at most four elements pass through unchanged, zero padded.  The AVX512
   variant carries two streams in the interleaved layout.  A sample of the observed permutation pairs is re-derived
   from Poseidon.Perm (the function itself is C06's subject). *)
EXTENDS Poseidon
Tr == ndJsonDeserialize(IOEnv.TRACE)
VARIABLE l
Z4 == <<Zero8, Zero8, Zero8, Zero8>>
Blk(inp, o, n, k) == [i \in 1..8 |-> IF 8 * (k - 1) + i <= n THEN inp[o + 8 * (k - 1) + i] ELSE Zero8]
PassThrough(inp, o, n) == [i \in 1..4 |-> IF i <= n THEN inp[o + i] ELSE Zero8]
EqW(a, b) == Len(a) = Len(b) /\ \A i \in 1..Len(a) : a[i] = b[i]
(* single stream: perms[k].in / .out are 12-vectors *)
StreamOk(inp, o, n, pin(_), pout(_), np, digest) ==
  IF n <= 4 THEN np = 0 /\ EqW(digest, PassThrough(inp, o, n))
  ELSE /\ np = (n + 7) \div 8
       /\ \A k \in 1..np : EqV(pin(k), Blk(inp, o, n, k) \o (IF k = 1 THEN Z4 ELSE SubSeq(pout(k - 1), 1, 4)))
       /\ EqV(digest, SubSeq(pout(np), 1, 4))
OkLh(e) ==
  /\ e.input_same /\ e.slack_ok
  /\ LET np == Len(e.perms) IN
     IF e.variant = "avx512"
     THEN /\ Len(e.input) = 2 * e.len
          /\ StreamOk(e.input, 0, e.len, LAMBDA k : Slot(e.perms[k].in, 0), LAMBDA k : Slot(e.perms[k].out, 0), np, SubSeq(e.digest, 1, 4))
          /\ StreamOk(e.input, e.len, e.len, LAMBDA k : Slot(e.perms[k].in, 1), LAMBDA k : Slot(e.perms[k].out, 1), np, SubSeq(e.digest, 5, 8))
     ELSE /\ Len(e.input) = e.len
          /\ StreamOk(e.input, 0, e.len, LAMBDA k : e.perms[k].in, LAMBDA k : e.perms[k].out, np, e.digest)
  /\ (e.check_perm > 0 /\ Len(e.perms) >= e.check_perm =>
        LET p == e.perms[e.check_perm] IN
        IF e.variant = "avx512" THEN EqV(Slot(p.out, 0), Perm(Slot(p.in, 0))) /\ EqV(Slot(p.out, 1), Perm(Slot(p.in, 1)))
        ELSE EqV(p.out, Perm(p.in)))
Ok(e) == IF e.e = "lh" THEN OkLh(e) ELSE FALSE
Init == l = 1
Next == l <= Len(Tr) /\ Ok(Tr[l]) /\ l' = l + 1
Accepted == TLCGet("stats").diameter - 1 = Len(Tr)
====
