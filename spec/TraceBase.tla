---- MODULE TraceBase ----
(* Shared plumbing of the trace validators: the recorded implementation trace (ndjson, one event per line,
   64-bit values as 8 byte limbs) is read from the file named by the environment variable TRACE; the trace
   specification consumes one record per step, so TLC's search depth localises the first record it rejects. *)
EXTENDS W64, Json, IOUtils, TLC
Tr == ndJsonDeserialize(IOEnv.TRACE)
Has(e, k) == k \in DOMAIN e
====
