---- MODULE Layout ----
(* Operand layouts of the batched / vector helper API (C16, C17).

   A call of a helper works on L lanes (4 for the `_batch` and `_avx` families, 8 for `_avx512`).  Every operand
   (a, b: inputs; c: result) is described by a descriptor, a record [kind, par, byref]:

     kind = "reg"     lane k is lane k of a vector register (64-bit lane k of an __m256i / __m512i); no memory
            "contig"  lane k is element k of an array                                  (arena index k)
            "stride"  lane k is element k * s of an array, s the value of parameter par (arena index k * s)
            "index"   lane k is element idx[k] of an array, idx the L-element list passed in parameter par
            "scalar"  every lane is the same element, passed by value (byref = FALSE: no memory) or by reference
                      (byref = TRUE: a one-element arena, index 0)
            "none"    the operation has no such operand (copy has no b)

   An *arena* is the array an operand points to, indexed from 0; the operand's footprint is the exact set of
   arena indices the call may read (inputs) or must write (result); nothing else of the arena is read for the
   result or written.  The extent of the arena a caller has to provide is max(footprint) + 1: the conformance driver
   puts exactly that many elements in front of an inaccessible page.

   Sequences of lanes are 1-based TLA+ sequences: lane k is position k + 1. *)
EXTENDS W64, FiniteSets

Kinds    == {"reg", "contig", "stride", "index", "scalar", "none"}
MemKinds == {"contig", "stride", "index"}
InKinds  == {"reg", "contig", "stride", "index", "scalar"}
OutKinds == {"reg", "contig", "stride", "index"}
Ops      == {"copy", "add", "sub", "mul"}
Lanes(nl) == 0..(nl - 1)

Desc(kind, par, byref) == [kind |-> kind, par |-> par, byref |-> byref]
IsDesc(d) == /\ DOMAIN d = {"kind", "par", "byref"} /\ d.kind \in Kinds /\ d.byref \in BOOLEAN
             /\ (d.kind \in {"stride", "index"}) = (d.par # "")      \* exactly the strided / indexed operands name a parameter
             /\ (d.byref => d.kind = "scalar")

InMemory(d) == d.kind \in MemKinds \/ (d.kind = "scalar" /\ d.byref)

(* arena index (memory operands) or register lane (reg) holding lane k; s = stride argument, idx = index-list argument *)
Addr(d, k, s, idx) ==
  CASE d.kind = "contig" -> k
    [] d.kind = "stride" -> k * s
    [] d.kind = "index"  -> idx[k + 1]
    [] d.kind = "scalar" -> 0
    [] OTHER             -> k

Footprint(d, nl, s, idx) == IF InMemory(d) THEN {Addr(d, k, s, idx) : k \in Lanes(nl)} ELSE {}
SetMax(S) == CHOOSE m \in S : \A x \in S : x <= m
Extent(d, nl, s, idx) == LET F == Footprint(d, nl, s, idx) IN IF F = {} THEN 0 ELSE SetMax(F) + 1
LanesAt(d, nl, s, idx, addr) == {k \in Lanes(nl) : Addr(d, k, s, idx) = addr}
Injective(d, nl, s, idx) == \A j, k \in Lanes(nl) : j # k => Addr(d, j, s, idx) # Addr(d, k, s, idx)

(* the field operation of a lane; operands and result are 64-bit words in any representation *)
Expected(op, a, b) == CASE op = "copy" -> a [] op = "add" -> FAdd(a, b) [] op = "sub" -> FSub(a, b) [] op = "mul" -> FMul(a, b)
(* copies move the word unchanged; arithmetic results are field elements, their representation is free *)
ResultOk(op, r, a, b) == IF op = "copy" THEN r = a ELSE EqModP(r, Expected(op, a, b))

(* value of lane k of an input operand: mem = contents of its arena (function on arena indices) or, for register /
   by-value operands, the nl lane values themselves (function on Lanes) *)
LaneVal(d, mem, k, s, idx) == mem[Addr(d, k, s, idx)]

(* A result delivered to memory: cell x of the result arena afterwards holds the result of a lane designated to x
   (lanes are pairwise distinct unless the stride or index list maps several lanes to one cell; then any of them,
   the property does not order lanes) and every other cell is unchanged. *)
CellOk(op, dc, nl, sc, ic, x, cell, av, bv) == \E k \in LanesAt(dc, nl, sc, ic, x) : ResultOk(op, cell, av[k + 1], bv[k + 1])

(* ---- aliasing.  Callers use these helpers in place.  The meaning of a call does not change when arguments overlap
   in one of the following ways, because lane k of the result depends on lane k of the operands only and a by-value
   (broadcast) argument is the value it had at call entry:  in every mode lane k of the result is Expected(op, a_k, b_k)
   evaluated on the operand values held BEFORE the call.
     "none"  result and operands are disjoint objects
     "sc"    the broadcast scalar argument is an lvalue inside the result array, the cell of result lane aj
     "sa"    the broadcast scalar argument is an element of the other operand's array, the cell of its lane aj
     "ca"    the result IS operand a: same array (or the same register variable), same stride / index list
     "cb"    the result IS operand b, likewise
   Partial overlaps with different address maps are outside the property. *)
AliasModes == {"none", "sc", "sa", "ca", "cb"}
Other(o) == IF o = "a" THEN "b" ELSE "a"
ScalarOperands(r) == {o \in {"a", "b"} : r[o].kind = "scalar"}
AliasAllowed(r, m) ==
  CASE m = "none" -> TRUE
    [] m = "sc" -> ScalarOperands(r) # {} /\ r.c.kind \in MemKinds
    [] m = "sa" -> \E o \in ScalarOperands(r) : r[Other(o)].kind \in MemKinds
    [] m = "ca" -> r.a.kind = r.c.kind /\ r.c.kind \in MemKinds \cup {"reg"}
    [] m = "cb" -> r.b.kind = r.c.kind /\ r.c.kind \in MemKinds \cup {"reg"}
    [] OTHER -> FALSE

(* ---- designation families of the two operands of a binary call.  Lane k of the result is the operation on the k-th DESIGNATED
   operands whatever the relation between the two designations: the operands may be given by the same base pointer with
   identical strides / index lists (the call then computes op(x, x)), with lists that agree in some lanes only, or with the
   same cells in another order.  Level "sep": two arrays, the family is a relation between the two address sequences (equal
   strides / index lists, even one index-list object, do not make two arrays one operand).  Level "base": operands a and b are one array (same base pointer), each with its own stride /
   index list; the family is a relation between the two address sequences.  Level "word": separate storage, the family is the
   same relation between the operand words (registers and broadcast elements have no address).
     "eq"    identical in every lane            "one"   different in exactly lane dl
     "h1"    identical in the first half of the lanes, different somewhere in the second half     "h2"  the other way round
     "perm"  equal as multisets, different as sequences                                          "any"  no relation claimed
   Together with an in-place mode (ca / cb) the only same-base designation inside the property is "eq" with the result's
   address map: one array, one map (other overlaps of an operand with the result are partial overlaps). *)
DesLevels == {"none", "sep", "base", "word"}
DesFamilies == {"none", "eq", "h1", "h2", "one", "perm", "any"}
Differ(nl, x, y) == {k \in Lanes(nl) : x[k + 1] # y[k + 1]}
SameBag(nl, x, y) == \A k \in 1..nl : Cardinality({j \in 1..nl : x[j] = x[k]}) = Cardinality({j \in 1..nl : y[j] = x[k]})
DesRel(f, nl, x, y, dl) ==
  LET D == Differ(nl, x, y)  h == nl \div 2
  IN CASE f = "eq"   -> D = {}
       [] f = "h1"   -> D # {} /\ D \subseteq h..(nl - 1)
       [] f = "h2"   -> D # {} /\ D \subseteq 0..(h - 1)
       [] f = "one"  -> D = {dl}
       [] f = "perm" -> D # {} /\ SameBag(nl, x, y)
       [] f = "any"  -> TRUE
       [] OTHER      -> FALSE
SameBaseAllowed(r) == r.op # "copy" /\ r.a.kind \in MemKinds /\ r.b.kind \in MemKinds
(* one array, two address maps: a cell designated by both operands holds one word *)
SharedConsistent(nl, aa, ab, av, bv) == \A j, k \in 1..nl : aa[j] = ab[k] => av[j] = bv[k]
Max2(x, y) == IF x >= y THEN x ELSE y

(* Which result cells must differ from their pre-call content?  pre[k + 1] is the word the cell of result lane k is known
   to have held before the call (an operand word, in the alias modes) or <<>> when the cell held a pre-fill that is known
   to differ from anything written (two runs with complementary pre-fills); r = the result words after the call. *)
ChangedCells(dc, nl, sc, ic, r, pre) ==
  IF InMemory(dc) THEN {Addr(dc, k, sc, ic) : k \in {j \in Lanes(nl) : pre[j + 1] = <<>> \/ r[j + 1] # pre[j + 1]}} ELSE {}

(* ---- wide positions.  Strides, index-list entries and arena positions of 2^31 and more do not fit a TLC integer.  A call with
   such arguments is recorded with EVERY stride, index-list entry, arena position and extent as a 64-bit word of 8 limbs (W64,
   least significant first) and judged with the limb forms below.  They say the same as Addr / Footprint / Extent / LanesAt /
   Injective / CellOk / ChangedCells: lane k of a strided operand is element k * s, of an indexed operand element idx[k], whatever
   the size of s and idx[k]; MC_Layout checks that the two forms agree wherever both are defined.  FitsW: arguments below 2^40,
   so that neither the positions of up to 8 lanes nor their byte offsets wrap at 2^64 (a wrapping position is outside the
   property).  A changed position that is not a position of the array at all (a cell in front of the base pointer) is recorded as
   the two's-complement word of its negative index: it equals no footprint position. *)
MulSmallW(k, w) == Norm8(k * w[1], k * w[2], k * w[3], k * w[4], k * w[5], k * w[6], k * w[7], k * w[8])
SuccW(w) == Norm8(w[1] + 1, w[2], w[3], w[4], w[5], w[6], w[7], w[8])
FitsW(w) == IsWord(w) /\ w[6] = 0 /\ w[7] = 0 /\ w[8] = 0
AddrW(d, k, sw, idxw) ==
  CASE d.kind = "contig" -> OfInt(k)
    [] d.kind = "stride" -> MulSmallW(k, sw)
    [] d.kind = "index"  -> idxw[k + 1]
    [] d.kind = "scalar" -> Zero8
    [] OTHER             -> OfInt(k)
FootprintW(d, nl, sw, idxw) == IF InMemory(d) THEN {AddrW(d, k, sw, idxw) : k \in Lanes(nl)} ELSE {}
MaxW(S) == CHOOSE m \in S : \A x \in S : Ge8(m, x)
ExtentW(d, nl, sw, idxw) == LET F == FootprintW(d, nl, sw, idxw) IN IF F = {} THEN Zero8 ELSE SuccW(MaxW(F))
LanesAtW(d, nl, sw, idxw, addr) == {k \in Lanes(nl) : AddrW(d, k, sw, idxw) = addr}
InjectiveW(d, nl, sw, idxw) == \A j, k \in Lanes(nl) : j # k => AddrW(d, j, sw, idxw) # AddrW(d, k, sw, idxw)
CellOkW(op, dc, nl, scw, icw, x, cell, av, bv) == \E k \in LanesAtW(dc, nl, scw, icw, x) : ResultOk(op, cell, av[k + 1], bv[k + 1])
ChangedCellsW(dc, nl, scw, icw, r, pre) ==
  IF InMemory(dc) THEN {AddrW(dc, k, scw, icw) : k \in {j \in Lanes(nl) : pre[j + 1] = <<>> \/ r[j + 1] # pre[j + 1]}} ELSE {}

(* ---- one table row (Overloads17 / Overloads16) *)
RowFields == {"id", "fam", "fn", "sec", "op", "lanes", "variant", "aligned", "defined", "a", "b", "c"}
WellFormedRow(r) ==
  /\ DOMAIN r = RowFields
  /\ r.op \in Ops /\ r.lanes \in {4, 8} /\ r.variant \in {"avx2", "avx512"} /\ r.fam \in {"batch", "avx", "avx512"}
  /\ r.aligned \in BOOLEAN /\ r.defined \in BOOLEAN
  /\ IsDesc(r.a) /\ IsDesc(r.b) /\ IsDesc(r.c)
  /\ r.a.kind \in InKinds /\ r.c.kind \in OutKinds
  /\ (r.op = "copy") = (r.b.kind = "none")
  /\ (r.fam = "avx512") = (r.lanes = 8) /\ (r.fam = "avx512") = (r.variant = "avx512")
  /\ (r.fam = "batch" => r.a.kind # "reg" /\ r.b.kind # "reg" /\ r.c.kind # "reg")
  \* every stride / index parameter belongs to exactly one operand
  /\ \A x, y \in {"a", "b", "c"} : (x # y /\ r[x].par # "") => r[x].par # r[y].par
  \* a call that touches neither memory nor a broadcast is a raw lane kernel (other properties) -- except register copies
  /\ (r.op # "copy" => \E x \in {"a", "b", "c"} : r[x].kind # "reg")
====
