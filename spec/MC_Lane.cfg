CONSTANT Phi = 16
INIT Init
NEXT Next
INVARIANT Avx2
INVARIANT Avx512
CHECK_DEADLOCK FALSE
