CONSTANT Phi = 16
INIT Init
NEXT Next
INVARIANT InvAdd
INVARIANT InvSub
INVARIANT InvCneg
INVARIANT InvMul700
INVARIANT InvMul600
INVARIANT InvSqr
INVARIANT InvMulW700
INVARIANT InvMulW600
INVARIANT InvRed
INVARIANT InvRaw
INVARIANT InvRed4x700
INVARIANT InvRed4x600
INVARIANT InvFree
CHECK_DEADLOCK FALSE
