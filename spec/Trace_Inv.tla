---- MODULE Trace_Inv ----
(* C10: certificates.  inv(a)*a = 1 ; div(a,b)*b = a ; exp recomputed by square-and-multiply over limbs;
   an operand congruent to zero must end the process (no value may be returned for it). *)
EXTENDS TraceBase
VARIABLE l
ZeroClass(x) == EqModP(x, Zero8)
OkInv(e) == IsWord(e.r) /\ ~ZeroClass(e.a) /\ FMul(e.a, e.r) = One8
OkDiv(e) == IsWord(e.r) /\ ~ZeroClass(e.b) /\ EqModP(FMul(e.r, e.b), e.a)
OkExp(e) == IsWord(e.r) /\ EqModP(e.r, FExp(e.a, e.b))
(* the process ended instead of returning: only legitimate for a zero-class divisor, with a non-zero status *)
OkEnded(e) == /\ ZeroClass(IF e.op = "inv" THEN e.a ELSE e.b)
              /\ e.kind = "exit" /\ e.code # 0
Ok(e) == CASE e.e = "inv" -> OkInv(e) [] e.e = "div" -> OkDiv(e) [] e.e = "exp" -> OkExp(e) [] e.e = "ended" -> OkEnded(e) [] OTHER -> FALSE
Init == l = 1
Next == l <= Len(Tr) /\ Ok(Tr[l]) /\ l' = l + 1
Accepted == TLCGet("stats").diameter - 1 = Len(Tr)
====
