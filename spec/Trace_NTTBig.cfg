CONSTANT B = 256
INIT Init
NEXT Next
POSTCONDITION Accepted
CHECK_DEADLOCK FALSE
