INIT Init
NEXT Next
