---- MODULE Trace_Layout16 ----
(* C16 conformance: one recorded call of a batched / AVX2 / AVX512 add, sub, mul overload of Goldilocks3 per event.
   event "l16": id (row of Overloads16), the stride / index arguments passed (sa sb sc, ia ib ic), for each memory operand the
   arena size used (an bn cn) and the position of coefficient 0 of every element as the driver addressed it (ap bp cp),
   the k-th operands a[k], b[k] (read back from arenas / registers before the call; x[k] = the precomputed sums handed
   to a challenge variant), the k-th results r[k] (read from the result arena / registers after the call), the result-arena
   positions whose content changed (chg, nchg; two complementary pre-fills), same = a second run with different garbage
   in every undesignated cell gave identical results, inw = no input arena / index list was modified, slack = nothing
   before the start of an arena was touched.
   al = "none" | "a" | "b": the result was the same object as that operand (same registers / same pointer); a and b are
   always the values held before the call.  wa / wb: the operand has a huge stride (sparse arena: only the pages holding
   designated cells are accessible); its stride, element positions and extent are then logged as 64-bit limb words
   (saw apw anw ...) because TLC integers are 32 bit, and checked with the limb form of Addr for a strided operand.
   CALL HISTORIES.  hn > 1: the event is call number hs (0-based) of a history of hn calls of the same overload made one after
   the other in one process and thread on the SAME objects: the arenas of a, b and of the result, the offset arrays, the
   precomputed sums and the register context keep their addresses, and between two calls their contents are overwritten in
   place (hk, informative, names how: coordinates permuted, basis elements, a value with the same xor / sum of coordinates,
   one coordinate changed, the other representation of the same value, offset arrays permuted, ...).  A call of a history is
   an ORDINARY event: a, b, x are the operands as they are at THAT call, and it is judged by OkCall exactly like a single
   call.  This specification has no variable besides the position l in the trace and Ok(e) reads nothing but e, so the
   verdict on a call cannot depend on any earlier call -- state kept by the library between calls must never matter.
   sh = TRUE: operands a and b were the same array (same pointer): both extents logged are SharedExtent and cells
   designated by both operands hold one value (SharedAgree).
   Accepted iff the driver addressed the operands as the table row says, every result element is congruent (mod p,
   coefficient-wise) to the scalar extension operation on the k-th operands, the changed positions are exactly the write
   footprint of the row, and same / inw / slack hold.  A "crash" event (guard-page fault, abort) is never accepted. *)
EXTENDS TraceBase, Overloads16, FiniteSets
VARIABLE l
INSTANCE Layout16 WITH FA <- FAdd, FS <- FSub, FM <- FMul, FZero <- Zero8

Eq3(u, v) == EqModP(u[1], v[1]) /\ EqModP(u[2], v[2]) /\ EqModP(u[3], v[3])
SeqSet(s) == {s[i] : i \in DOMAIN s}
(* the driver addressed element k of operand d where the row says *)
PosOk(d, n, ps, s, idx) ==
  IF InMem(d) THEN Len(ps) = n /\ \A k \in 0..(n - 1) : ps[k + 1] = Addr(d, k, 0, s, idx)
  ELSE Len(ps) = 0
AddrOk(d, n, ps, ext, s, idx) == PosOk(d, n, ps, s, idx) /\ ext = Extent(d, n, s, idx)
ArgsOkN(d, n, s, idx) == /\ Len(idx) = (IF d.kind = "index" THEN n ELSE 0) /\ (d.kind # "stride" => s = 0)
                         /\ \A i \in DOMAIN idx : idx[i] >= 0
(* Addr(d, k, 0, s, idx) = k * s and Extent = (n - 1) * s + Width(d) for a strided operand, over 8 byte limbs *)
MulSmallW(k, w) == Norm8(k * w[1], k * w[2], k * w[3], k * w[4], k * w[5], k * w[6], k * w[7], k * w[8])
AddSmallW(w, i) == Norm8(w[1] + i, w[2], w[3], w[4], w[5], w[6], w[7], w[8])
ASSUME \A s \in {0, 1, 3, 7, 1000, 65537}, k \in 0..7 :
         /\ MulSmallW(k, OfInt(s)) = OfInt(k * s)
         /\ AddSmallW(MulSmallW(k, OfInt(s)), 3) = OfInt(Addr([elem |-> "ext", kind |-> "stride", param |-> "p"], k, 0, s, <<>>) + 3)
WideOk(d, n, psw, extw, sw) ==
  /\ d.kind = "stride" /\ IsWord(sw) /\ sw[8] = 0 /\ sw[7] = 0 /\ sw[6] = 0        \* stride < 2^40: no wrap below
  /\ Len(psw) = n /\ \A k \in 0..(n - 1) : psw[k + 1] = MulSmallW(k, sw)
  /\ extw = AddSmallW(MulSmallW(n - 1, sw), Width(d))
OpAddrOk(d, n, wide, ps, ext, s, idx, psw, extw, sw) ==
  IF wide THEN WideOk(d, n, psw, extw, sw) /\ Len(ps) = 0 /\ s = 0 /\ Len(idx) = 0
  ELSE ArgsOkN(d, n, s, idx) /\ AddrOk(d, n, ps, ext, s, idx)
ValsOk(d, n, vs) == /\ Len(vs) = n
                    /\ \A k \in 1..n : Len(vs[k]) = Width(d) /\ IsWordSeq(vs[k])
                    /\ (d.kind = "const" => \A k \in 1..n : vs[k] = vs[1])          \* a broadcast operand is one element
AuxOk(r, n, e) == IF r.aux = "none" THEN Len(e.x) = 0
                  ELSE /\ Len(e.x) = n /\ \A k \in 1..n : Len(e.x[k]) = 3 /\ IsWordSeq(e.x[k]) /\ Eq3(e.x[k], Sums(e.b[k]))
                       /\ (r.aux = "const" => \A k \in 1..n : e.x[k] = e.x[1])
(* a and b are one array: each addressed as its row says inside one arena that ends at the larger footprint *)
SharedOk(r, n, e) ==
  /\ Shareable(r.a, r.b) /\ ~e.wa /\ ~e.wb /\ e.al = "none"
  /\ ArgsOkN(r.a, n, e.sa, e.ia) /\ PosOk(r.a, n, e.ap, e.sa, e.ia)
  /\ ArgsOkN(r.b, n, e.sb, e.ib) /\ PosOk(r.b, n, e.bp, e.sb, e.ib)
  /\ e.an = SharedExtent(r.a, r.b, n, e.sa, e.ia, e.sb, e.ib) /\ e.bn = e.an
HistOk(e) == e.hn >= 1 /\ e.hs >= 0 /\ e.hs < e.hn
OkCall(e) ==
  LET r == Table16[e.id]  n == r.lanes
      WF == Footprint(r.c, n, e.sc, e.ic)
  IN /\ HistOk(e)
     /\ IF e.sh THEN SharedOk(r, n, e)
        ELSE /\ OpAddrOk(r.a, n, e.wa, e.ap, e.an, e.sa, e.ia, e.apw, e.anw, e.saw)
             /\ OpAddrOk(r.b, n, e.wb, e.bp, e.bn, e.sb, e.ib, e.bpw, e.bnw, e.sbw)
     /\ ArgsOkN(r.c, n, e.sc, e.ic) /\ AddrOk(r.c, n, e.cp, e.cn, e.sc, e.ic)
     \* alias mode: allowed by the row, and the aliased operand is addressed exactly like the result
     /\ e.al \in AliasModes(r)
     /\ (e.al = "a" => ~e.wa /\ (InMem(r.c) => SameCells(r.c, r.a, n, e.sc, e.ic, e.sa, e.ia)))
     /\ (e.al = "b" => ~e.wb /\ (InMem(r.c) => SameCells(r.c, r.b, n, e.sc, e.ic, e.sb, e.ib)))
     /\ ValsOk(r.a, n, e.a) /\ ValsOk(r.b, n, e.b) /\ AuxOk(r, n, e)
     /\ (e.sh => SharedAgree(r.a, r.b, n, e.sa, e.ia, e.sb, e.ib, e.a, e.b))
     /\ (InMem(r.c) => Disjoint(r.c, n, e.sc, e.ic))                 \* the harness asked for a well-defined result
     /\ Len(e.r) = n
     /\ \A k \in 1..n : Len(e.r[k]) = 3 /\ IsWordSeq(e.r[k]) /\ Eq3(e.r[k], Expected(r.op, r.a, r.b, e.a[k], e.b[k]))
     \* without aliasing every result cell differs from one of the two complementary pre-fills; an aliased result cell held
     \* the operand coefficient before the call and stays unchanged when the result coefficient has the same word (the
     \* result check above reads it from that cell), so only "nothing outside the write footprint changed" remains
     /\ IF e.al = "none" THEN e.nchg = Cardinality(WF) /\ SeqSet(e.chg) = WF
        ELSE e.nchg = Len(e.chg) /\ SeqSet(e.chg) \subseteq WF
     /\ e.same /\ e.inw /\ e.slack
Ok(e) == CASE e.e = "l16" -> e.id \in Ids16 /\ OkCall(e)
           [] OTHER -> FALSE
Init == l = 1
Next == l <= Len(Tr) /\ Ok(Tr[l]) /\ l' = l + 1
Accepted == TLCGet("stats").diameter - 1 = Len(Tr)
====
