---- MODULE Trace_Layout16 ----
(* C16 conformance: one recorded call of a batched / AVX2 / AVX512 add, sub, mul overload of Goldilocks3 per event.
   event "l16": id (row of Overloads16), the stride / index arguments passed (sa sb sc, ia ib ic), for each memory operand the
   arena size used (an bn cn) and the position of coefficient 0 of every element as the driver addressed it (ap bp cp),
   the k-th operands a[k], b[k] (read back from arenas / registers before the call; x[k] = the precomputed sums handed
   to a challenge variant), the k-th results r[k] (read from the result arena / registers after the call), the result-arena
   positions whose content changed (chg, nchg; two complementary pre-fills), same = a second run with different garbage
   in every undesignated cell gave identical results, inw = no input arena / index list was modified, slack = nothing
   before the start of an arena was touched.
   Accepted iff the driver addressed the operands as the table row says, every result element is congruent (mod p,
   coefficient-wise) to the scalar extension operation on the k-th operands, the changed positions are exactly the write
   footprint of the row, and same / inw / slack hold.  A "crash" event (guard-page fault, abort) is never accepted. *)
EXTENDS TraceBase, Overloads16, FiniteSets
VARIABLE l
INSTANCE Layout16 WITH FA <- FAdd, FS <- FSub, FM <- FMul, FZero <- Zero8

Eq3(u, v) == EqModP(u[1], v[1]) /\ EqModP(u[2], v[2]) /\ EqModP(u[3], v[3])
SeqSet(s) == {s[i] : i \in DOMAIN s}
(* the driver addressed element k of operand d where the row says *)
AddrOk(d, n, ps, ext, s, idx) ==
  IF InMem(d) THEN /\ Len(ps) = n /\ \A k \in 0..(n - 1) : ps[k + 1] = Addr(d, k, 0, s, idx)
                   /\ ext = Extent(d, n, s, idx)
  ELSE Len(ps) = 0 /\ ext = 0
ArgsOk(d, n, s, idx) == /\ Len(idx) = (IF d.kind = "index" THEN n ELSE 0) /\ (d.kind # "stride" => s = 0)
                        /\ \A i \in DOMAIN idx : idx[i] >= 0
ValsOk(d, n, vs) == /\ Len(vs) = n
                    /\ \A k \in 1..n : Len(vs[k]) = Width(d) /\ IsWordSeq(vs[k])
                    /\ (d.kind = "const" => \A k \in 1..n : vs[k] = vs[1])          \* a broadcast operand is one element
AuxOk(r, n, e) == IF r.aux = "none" THEN Len(e.x) = 0
                  ELSE /\ Len(e.x) = n /\ \A k \in 1..n : Len(e.x[k]) = 3 /\ IsWordSeq(e.x[k]) /\ Eq3(e.x[k], Sums(e.b[k]))
                       /\ (r.aux = "const" => \A k \in 1..n : e.x[k] = e.x[1])
OkCall(e) ==
  LET r == Table16[e.id]  n == r.lanes
      WF == Footprint(r.c, n, e.sc, e.ic)
  IN /\ ArgsOk(r.a, n, e.sa, e.ia) /\ ArgsOk(r.b, n, e.sb, e.ib) /\ ArgsOk(r.c, n, e.sc, e.ic)
     /\ AddrOk(r.a, n, e.ap, e.an, e.sa, e.ia) /\ AddrOk(r.b, n, e.bp, e.bn, e.sb, e.ib) /\ AddrOk(r.c, n, e.cp, e.cn, e.sc, e.ic)
     /\ ValsOk(r.a, n, e.a) /\ ValsOk(r.b, n, e.b) /\ AuxOk(r, n, e)
     /\ (InMem(r.c) => Disjoint(r.c, n, e.sc, e.ic))                 \* the harness asked for a well-defined result
     /\ Len(e.r) = n
     /\ \A k \in 1..n : Len(e.r[k]) = 3 /\ IsWordSeq(e.r[k]) /\ Eq3(e.r[k], Expected(r.op, r.a, r.b, e.a[k], e.b[k]))
     /\ e.nchg = Cardinality(WF) /\ SeqSet(e.chg) = WF
     /\ e.same /\ e.inw /\ e.slack
Ok(e) == CASE e.e = "l16" -> e.id \in Ids16 /\ OkCall(e)
           [] OTHER -> FALSE
Init == l = 1
Next == l <= Len(Tr) /\ Ok(Tr[l]) /\ l' = l + 1
Accepted == TLCGet("stats").diameter - 1 = Len(Tr)
====
