---- MODULE Trace_Cubic ----
(* C09: every recorded cubic-extension call is recomputed by schoolbook arithmetic modulo x^3 - x - 1 over the
   limb field; inverses by certificate a * inv(a) = 1. Coefficient representations of results are free. *)
EXTENDS TraceBase
VARIABLE l
Zero3 == <<Zero8, Zero8, Zero8>>
One3 == <<One8, Zero8, Zero8>>
Eq3(x, y) == EqModP(x[1], y[1]) /\ EqModP(x[2], y[2]) /\ EqModP(x[3], y[3])
IsW3(x) == Len(x) = 3 /\ IsWord(x[1]) /\ IsWord(x[2]) /\ IsWord(x[3])
CAdd(a, b) == <<FAdd(a[1], b[1]), FAdd(a[2], b[2]), FAdd(a[3], b[3])>>
CSub(a, b) == <<FSub(a[1], b[1]), FSub(a[2], b[2]), FSub(a[3], b[3])>>
CMul(a, b) ==
  LET d0 == FMul(a[1], b[1])
      d1 == FAdd(FMul(a[1], b[2]), FMul(a[2], b[1]))
      d2 == FAdd(FAdd(FMul(a[1], b[3]), FMul(a[2], b[2])), FMul(a[3], b[1]))
      d3 == FAdd(FMul(a[2], b[3]), FMul(a[3], b[2]))
      d4 == FMul(a[3], b[3])
  IN <<FAdd(d0, d3), FAdd(FAdd(d1, d3), d4), FAdd(d2, d4)>>
Emb(s) == <<s, Zero8, Zero8>>                      \* base-field element / integer as an extension element
IsZero3(a) == Eq3(a, Zero3)
RECURSIVE ResOf(_, _, _)
ResOf(ds, i, acc) == IF i > Len(ds) THEN acc ELSE ResOf(ds, i + 1, TLCEval(FAdd(FMul(acc, Small(10)), Small(ds[i]))))
Expected(e) ==
  CASE e.op = "add" -> CAdd(e.a, e.b)
    [] e.op = "sub" -> CSub(e.a, e.b)
    [] e.op = "mul" -> CMul(e.a, e.b)
    [] e.op = "add_eb" -> CAdd(e.a, Emb(e.b[1])) [] e.op = "add_be" -> CAdd(e.a, Emb(e.b[1])) [] e.op = "add_eu" -> CAdd(e.a, Emb(e.b[1]))
    [] e.op = "sub_eb" -> CSub(e.a, Emb(e.b[1])) [] e.op = "sub_eu" -> CSub(e.a, Emb(e.b[1]))
    [] e.op = "sub_be" -> CSub(Emb(e.b[1]), e.a)
    [] e.op = "mul_eb" -> CMul(e.a, Emb(e.b[1])) [] e.op = "mul_be" -> CMul(e.a, Emb(e.b[1])) [] e.op = "mul_eu" -> CMul(e.a, Emb(e.b[1]))
    [] e.op = "neg" -> CSub(Zero3, e.a)
    [] e.op = "square" -> CMul(e.a, e.a)
OkC3(e) ==
  /\ IsW3(e.a) /\ IsW3(e.r)
  /\ IF e.op = "inv" THEN ~IsZero3(e.a) /\ Eq3(CMul(e.a, e.r), One3)
     ELSE IF e.op = "div_eb" THEN ~EqModP(e.b[1], Zero8) /\ Eq3(CMul(e.r, Emb(e.b[1])), e.a)
     ELSE Eq3(e.r, Expected(e))
OkC3s(e) == LET m == ResOf(e.d, 1, Zero8) s == IF e.neg THEN FNeg(m) ELSE m IN Eq3(e.r, CMul(e.a, Emb(s)))
OkBinv(e) == /\ Len(e.src) = 3 * e.n /\ Len(e.res) = 3 * e.n /\ e.inplace_same
             /\ \A i \in 0..(e.n - 1) : Eq3(CMul(SubSeq(e.src, 3 * i + 1, 3 * i + 3), SubSeq(e.res, 3 * i + 1, 3 * i + 3)), One3)
OkIsOne(e) == e.r = Eq3(e.a, One3)
E32M1 == <<B-1, B-1, B-1, B-1, 0, 0, 0, 0>>
SignedRes(x) == IF x[8] >= B \div 2 THEN FSub(x, E32M1) ELSE Canon(x)
OkConv(e) == /\ \A i \in 1..3 : e.u[i] = Canon(e.a[i]) /\ EqModP(e.f[i], e.a[i]) /\ EqModP(e.g[i], SignedRes(e.sx[i])) /\ e.cp[i] = e.a[i]
             /\ Eq3(e.z, Zero3) /\ Eq3(e.o, One3)
Ok(e) == CASE e.e = "c3" -> OkC3(e) [] e.e = "c3s" -> OkC3s(e) [] e.e = "binv" -> OkBinv(e) [] e.e = "isone" -> OkIsOne(e)
           [] e.e = "conv3" -> OkConv(e) [] OTHER -> FALSE
Init == l = 1
Next == l <= Len(Tr) /\ Ok(Tr[l]) /\ l' = l + 1
Accepted == TLCGet("stats").diameter - 1 = Len(Tr)
====
