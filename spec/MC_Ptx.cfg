CONSTANT Phi = 8
INIT Init
NEXT Next
INVARIANT InvPow2
INVARIANT InvSx
INVARIANT InvAdd
INVARIANT InvSub
INVARIANT InvMul
INVARIANT InvMulWide
INVARIANT InvSet
INVARIANT InvLogic
INVARIANT InvShift
INVARIANT InvMinMax
INVARIANT InvCvt
CHECK_DEADLOCK FALSE
