---- MODULE Trace_Lane ----
(* Register aliasing (field `al`: the output register is operand a / operand b / all three the same; `inplace` for the block
   kernels) does not change what is expected: operands are the values the registers held before the call.
   C02 / C11: every lane of every recorded kernel call must represent the field element the scalar operation yields on
   that lane's operands (exact 128-bit value for the product kernels, canonical value for the canonicalisers), under
   the kernel's documented operand assumption.
   C13 / C14: the 12-wide kernels must equal the mathematical 3-block diagonal product / its horizontal sum / the 4x12
   block product / the 12x12 matrix-vector product, for AVX512 per interleaved state.  All sums are recomputed over the
   limb field. *)
EXTENDS TraceBase
VARIABLE l
Sh(x) == [x EXCEPT ![8] = (x[8] + (B \div 2)) % B]                         \* xor MSB
SmallB(b) == Ge8(PM1, b)                                                  \* b <= 0xFFFFFFFF00000000
Lt256(b) == \A i \in 2..8 : b[i] = 0
Lt2p32(a) == \A i \in 5..8 : a[i] = 0
Is(k, names) == k \in names
Wide(lo, hi) == lo \o hi
OkLane1(k, a, b, r, r2) ==
  CASE Is(k, {"toCanonical_avx", "toCanonical_avx512"}) -> r = Canon(a)
    [] k = "toCanonical_avx_s" -> Sh(r) = Canon(Sh(a))
    [] k = "shift_avx" -> r = Sh(a)
    [] Is(k, {"add_avx", "add_avx512"}) -> EqModP(r, FAdd(a, b))
    [] k = "add_avx_a_sc" -> IsCanon(Sh(a)) /\ EqModP(r, FAdd(Sh(a), b))
    [] k = "add_avx_s_b_small" -> SmallB(b) /\ EqModP(Sh(r), FAdd(Sh(a), b))
    [] k = "add_avx_b_small" -> SmallB(b) /\ EqModP(r, FAdd(a, b))
    [] k = "add_avx512_b_c" -> IsCanon(b) /\ EqModP(r, FAdd(a, b))
    [] Is(k, {"sub_avx", "sub_avx512"}) -> EqModP(r, FSub(a, b))
    [] k = "sub_avx_s_b_small" -> SmallB(b) /\ EqModP(Sh(r), FSub(Sh(a), b))
    [] k = "sub_avx512_b_c" -> IsCanon(b) /\ EqModP(r, FSub(a, b))
    [] Is(k, {"mult_avx", "mult_avx512"}) -> EqModP(r, FMul(a, b))
    [] Is(k, {"mult_avx_8", "mult_avx512_8"}) -> Lt256(b) /\ EqModP(r, FMul(a, b))
    [] Is(k, {"mult_avx_128", "mult_avx512_128"}) -> Mul16(a, b) = Wide(r2, r)
    [] Is(k, {"mult_avx_72", "mult_avx512_72"}) -> Lt256(b) /\ Mul16(a, b) = Wide(r2, r)
    [] Is(k, {"reduce_avx_128_64", "reduce_avx512_128_64"}) -> EqModP(r, Red16(Wide(b, a)))
    [] Is(k, {"reduce_avx_96_64", "reduce_avx512_96_64"}) -> Lt2p32(a) /\ EqModP(r, Red16(Wide(b, a)))
    [] Is(k, {"square_avx", "square_avx512"}) -> EqModP(r, FMul(a, a))
    [] Is(k, {"square_avx_128", "square_avx512_128"}) -> Mul16(a, a) = Wide(r2, r)
    [] OTHER -> FALSE
OkLane(e) == LET nl == Len(e.a) IN
  /\ Len(e.b) = nl /\ Len(e.r) = nl /\ IsWordSeq(e.a) /\ IsWordSeq(e.b) /\ IsWordSeq(e.r)
  /\ \A i \in 1..nl : OkLane1(e.k, e.a[i], e.b[i], e.r[i], IF Has(e, "r2") THEN e.r2[i] ELSE Zero8)
(* ---- 12-wide kernels ---- *)
RECURSIVE SumR(_, _, _, _)
SumR(F(_), i, n, acc) == IF i > n THEN acc ELSE SumR(F, i + 1, n, TLCEval(FAdd(acc, F(i))))
Sum(F(_), n) == SumR(F, 1, n, Zero8)
Is512(k) == k \in {"dot_avx512", "spmv_avx512_4x12", "spmv_avx512_4x12_8", "mmult_avx512_4x12", "mmult_avx512_4x12_8", "mmult_avx512", "mmult_avx512_8"}
St(e, slot, t) == IF Is512(e.k) THEN e.s[8 * (t \div 4) + 4 * slot + (t % 4) + 1] ELSE e.s[t + 1]      \* element t (0..11) of state `slot`
Out4(e, slot, i) == IF Is512(e.k) THEN e.r[4 * slot + i + 1] ELSE e.r[i + 1]
Out12(e, slot, t) == IF Is512(e.k) THEN e.r[8 * (t \div 4) + 4 * slot + (t % 4) + 1] ELSE e.r[t + 1]
Slots(e) == IF Is512(e.k) THEN {0, 1} ELSE {0}
Coef8Ok(e) == \A i \in 1..Len(e.m) : Lt256(e.m[i])
OkMat(e) ==
  /\ IsWordSeq(e.s) /\ IsWordSeq(e.m) /\ IsWordSeq(e.r)
  /\ CASE Is(e.k, {"dot_avx", "dot_avx_a", "dot_avx512"}) ->
            \A sl \in Slots(e) : EqModP(e.r[sl + 1], Sum(LAMBDA t : FMul(St(e, sl, t - 1), e.m[t]), 12))
       [] Is(e.k, {"spmv_avx_4x12", "spmv_avx_4x12_a", "spmv_avx512_4x12"}) ->
            \A sl \in Slots(e), i \in 0..3 : EqModP(Out4(e, sl, i), Sum(LAMBDA j : FMul(St(e, sl, 4 * (j - 1) + i), e.m[4 * (j - 1) + i + 1]), 3))
       [] Is(e.k, {"spmv_avx_4x12_8", "spmv_avx512_4x12_8"}) ->
            Coef8Ok(e) /\ \A sl \in Slots(e), i \in 0..3 : EqModP(Out4(e, sl, i), Sum(LAMBDA j : FMul(St(e, sl, 4 * (j - 1) + i), e.m[4 * (j - 1) + i + 1]), 3))
       [] Is(e.k, {"mmult_avx_4x12", "mmult_avx_4x12_a", "mmult_avx512_4x12"}) ->
            \A sl \in Slots(e), k \in 0..3 : EqModP(Out4(e, sl, k), Sum(LAMBDA t : FMul(e.m[12 * k + t], St(e, sl, t - 1)), 12))
       [] Is(e.k, {"mmult_avx_4x12_8", "mmult_avx512_4x12_8"}) ->
            Coef8Ok(e) /\ \A sl \in Slots(e), k \in 0..3 : EqModP(Out4(e, sl, k), Sum(LAMBDA t : FMul(e.m[12 * k + t], St(e, sl, t - 1)), 12))
       [] Is(e.k, {"mmult_avx", "mmult_avx_a", "mmult_avx512"}) ->
            \A sl \in Slots(e), rr \in 0..11 : EqModP(Out12(e, sl, rr), Sum(LAMBDA t : FMul(e.m[12 * rr + t], St(e, sl, t - 1)), 12))
       [] Is(e.k, {"mmult_avx_8", "mmult_avx512_8"}) ->
            Coef8Ok(e) /\ \A sl \in Slots(e), rr \in 0..11 : EqModP(Out12(e, sl, rr), Sum(LAMBDA t : FMul(e.m[12 * rr + t], St(e, sl, t - 1)), 12))
       [] OTHER -> FALSE
Ok(e) == CASE e.e = "lane" -> OkLane(e) [] e.e = "mat" -> OkMat(e) [] OTHER -> FALSE
Init == l = 1
Next == l <= Len(Tr) /\ Ok(Tr[l]) /\ l' = l + 1
Accepted == TLCGet("stats").diameter - 1 = Len(Tr)
====
