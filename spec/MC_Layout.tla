---- MODULE MC_Layout ----
(* C17 model phase (TLC, small arenas; words are 8-bit, B = 2, p = 241).
   operand phase: every descriptor kind, 4 and 8 lanes, strides {0,1,2,3,5}, every 4-lane index list over 0..5
                  (permuted, repeated) and selected 8-lane lists: footprint inside the exact extent, last extent cell
                  designated, lanes pairwise distinct exactly when the stride / index list says so.
   call phase:    every (op, a, b, c) descriptor triple with strides {0,2,3} and permuted / repeating index lists:
                  lane results depend on exactly the designated cells (changing one cell of an operand arena changes
                  exactly the lanes designated to it, an undesignated cell none); the reference scatter semantics
                  satisfies the acceptance predicate CellOk of the trace specification and changes nothing outside
                  the write footprint.
   inplace phase: a call whose result IS operand a (contiguous, strides {1,2,3}, permuted index lists), operand b a separate
                  array or a broadcast element that lives inside that same array: the reference execution (lanes in
                  ascending order, each reading the current memory, the broadcast element copied at entry) leaves
                  Expected(op, a_k, b_k) of the PRE-call values in every result cell, nothing else changes, and the changed
                  cells are the ones ChangedCells predicts; re-reading the broadcast element through a reference is shown
                  to differ (the alias modes of the conformance step are not vacuous).
   par phase:     parcpy / parSetZero chunk arithmetic, sizes 0..12 x thread arguments -2..14, every delivered team 1..15.
   samebase phase: operands a and b gathered from ONE array through two index lists (all pairs of 4-lane lists over 0..2,
                  pairs of the selected 8-lane lists): replacing operand b by operand a (the op(x, x) reading of the call) is
                  right in exactly the lanes where the two lists agree; the designation families partition the pairs as the
                  trace specification expects; comparing half of the lanes does not decide "eq".
   wide:          (operand and call phases) the limb forms AddrW / FootprintW / ExtentW / LanesAtW / InjectiveW / CellOkW /
                  ChangedCellsW, used for calls with strides and index-list entries beyond 32 bits, agree with the integer forms.
   table:         every row of Overloads17 is well-formed. *)
EXTENDS Layout, Overloads17, ParChunks
VARIABLES ph, od, cc, pc, ip, sb

NoOp == [d |-> Desc("none", "", FALSE), n |-> 4, s |-> 0, idx |-> <<>>]
NoCall == [op |-> "copy", n |-> 4, a |-> NoOp, b |-> NoOp, c |-> NoOp]
NoPar == [size |-> 0, t |-> 0]
NoIp == [op |-> "add", n |-> 4, o |-> NoOp, bk |-> "array", aj |-> 0]
NoSb == [op |-> "add", n |-> 4, ia |-> <<0, 0, 0, 0>>, ib |-> <<0, 0, 0, 0>>]
Strides == {0, 1, 2, 3, 5}
Idx8 == {<<0,1,2,3,4,5,6,7>>, <<7,6,5,4,3,2,1,0>>, <<3,3,3,3,3,3,3,3>>, <<0,2,4,6,8,10,12,14>>, <<5,0,5,1,9,9,2,0>>, <<1,0,3,2,5,4,7,6>>,
         <<0,1,2,3,7,6,5,4>>, <<3,2,1,0,4,5,6,7>>, <<0,1,2,3,4,5,6,9>>}
IdxIn(n) == IF n = 4 THEN {<<0,1,2,3>>, <<3,1,0,2>>, <<2,2,0,5>>, <<4,4,4,4>>} ELSE {<<7,6,5,4,3,2,1,0>>, <<5,0,5,1,9,9,2,0>>}
IdxOut(n) == IF n = 4 THEN {<<0,1,2,3>>, <<3,1,0,2>>, <<6,0,2,5>>} ELSE {<<1,0,3,2,5,4,7,6>>, <<0,2,4,6,8,10,12,14>>}

OperandCfgs(kind, n, strides, idxs) ==
  CASE kind = "stride" -> {[d |-> Desc("stride", "p", FALSE), n |-> n, s |-> s, idx |-> <<>>] : s \in strides}
    [] kind = "index"  -> {[d |-> Desc("index", "p", FALSE), n |-> n, s |-> 0, idx |-> ix] : ix \in idxs}
    [] kind = "scalar" -> {[d |-> Desc("scalar", "", br), n |-> n, s |-> 0, idx |-> <<>>] : br \in BOOLEAN}
    [] OTHER           -> {[d |-> Desc(kind, "", FALSE), n |-> n, s |-> 0, idx |-> <<>>]}

Init == ph = "start" /\ od = NoOp /\ cc = NoCall /\ pc = NoPar /\ ip = NoIp /\ sb = NoSb
ChooseOperand == /\ ph = "start" /\ ph' = "operand" /\ UNCHANGED <<cc, pc, ip, sb>>
                 /\ \E n \in {4, 8}, kind \in InKinds :
                      od' \in OperandCfgs(kind, n, Strides, IF n = 4 THEN [1..4 -> 0..5] ELSE Idx8)
ChooseCall == /\ ph = "start" /\ ph' = "call" /\ UNCHANGED <<od, pc, ip, sb>>
              /\ \E n \in {4, 8}, op \in Ops, ka \in InKinds, kb \in InKinds \cup {"none"}, kc \in OutKinds :
                   /\ (op = "copy") = (kb = "none")
                   /\ \E a \in OperandCfgs(ka, n, {0, 2, 3}, IdxIn(n)), b \in OperandCfgs(kb, n, {0, 3}, IdxIn(n)),
                         c \in OperandCfgs(kc, n, {0, 1, 3}, IdxOut(n)) :
                        cc' = [op |-> op, n |-> n, a |-> a, b |-> b, c |-> c]
ChoosePar == /\ ph = "start" /\ ph' = "par" /\ UNCHANGED <<od, cc, ip, sb>>
             /\ \E size \in 0..12, t \in (-2)..14 : pc' = [size |-> size, t |-> t]
ChooseInPlace == /\ ph = "start" /\ ph' = "inplace" /\ UNCHANGED <<od, cc, pc, sb>>
                 /\ \E n \in {4, 8}, op \in {"add", "sub", "mul"}, kind \in MemKinds, bk \in {"array", "scalar"}, aj \in 0..7 :
                      /\ aj < n /\ (bk = "array" => aj = 0)
                      /\ \E o \in OperandCfgs(kind, n, {1, 2, 3}, IdxOut(n)) : ip' = [op |-> op, n |-> n, o |-> o, bk |-> bk, aj |-> aj]
ChooseSameBase == /\ ph = "start" /\ ph' = "samebase" /\ UNCHANGED <<od, cc, pc, ip>>
                  /\ \E op \in {"add", "sub", "mul"} :
                       \/ \E ia \in [1..4 -> 0..2], ib \in [1..4 -> 0..2] : sb' = [op |-> op, n |-> 4, ia |-> ia, ib |-> ib]
                       \/ \E ia \in Idx8, ib \in Idx8 : sb' = [op |-> op, n |-> 8, ia |-> ia, ib |-> ib]
Next == ChooseOperand \/ ChooseCall \/ ChoosePar \/ ChooseInPlace \/ ChooseSameBase

TableOk == ph = "start" => \A id \in Ov17Ids : WellFormedRow(Ov17[id]) /\ Ov17[id].id = id

Range(f) == {f[i] : i \in DOMAIN f}
OperandInv ==
  ph = "operand" =>
    LET d == od.d  n == od.n  s == od.s  ix == od.idx
        F == Footprint(d, n, s, ix)  E == Extent(d, n, s, ix)
    IN /\ F \subseteq 0..(E - 1)
       /\ (F # {}) = InMemory(d)
       /\ (F # {} => (E - 1) \in F)                                      \* exact extent: the last cell is designated
       /\ (InMemory(d) => (Injective(d, n, s, ix) = (Cardinality(F) = n)))
       /\ (d.kind = "contig" => F = 0..(n - 1) /\ Injective(d, n, s, ix))
       /\ (d.kind = "stride" /\ s >= 1 => Injective(d, n, s, ix) /\ E = ((n - 1) * s) + 1)
       /\ (d.kind = "stride" /\ s = 0 => F = {0})
       /\ (d.kind = "index" => F = Range(ix) /\ (Injective(d, n, s, ix) = (\A i, j \in 1..n : i # j => ix[i] # ix[j])))
       /\ (d.kind = "scalar" => F = (IF d.byref THEN {0} ELSE {}))
       /\ \A x \in F : LanesAt(d, n, s, ix, x) # {}
       /\ (InMemory(d) => UNION {LanesAt(d, n, s, ix, x) : x \in F} = Lanes(n))
       \* the limb forms (wide positions) say the same
       /\ LET sw == OfInt(s)  ixw == [i \in DOMAIN ix |-> OfInt(ix[i])]
          IN /\ \A k \in Lanes(n) : AddrW(d, k, sw, ixw) = OfInt(Addr(d, k, s, ix))
             /\ FootprintW(d, n, sw, ixw) = {OfInt(x) : x \in F}
             /\ ExtentW(d, n, sw, ixw) = OfInt(E)
             /\ \A x \in F : LanesAtW(d, n, sw, ixw, OfInt(x)) = LanesAt(d, n, s, ix, x)
             /\ InjectiveW(d, n, sw, ixw) = Injective(d, n, s, ix)

(* a store for an operand: its arena plus one undesignated cell behind it, or its register lanes, or the by-value element *)
Cells(o, n) == IF InMemory(o.d) THEN 0..Extent(o.d, n, o.s, o.idx) ELSE IF o.d.kind = "reg" THEN Lanes(n) ELSE {0}
Fill(o, n, m) == [i \in Cells(o, n) |-> OfInt(1 + ((m * (i + 1)) % 199))]      \* non-zero residues mod 241
Val(o, mem, k) == IF o.d.kind = "none" THEN Zero8 ELSE LaneVal(o.d, mem, k, o.s, o.idx)
Res(c, ma, mb, k) == Expected(c.op, Val(c.a, ma, k), Val(c.b, mb, k))
Bump(mem, j) == [mem EXCEPT ![j] = FAdd(@, One8)]
CallInv ==
  ph = "call" =>
    LET n == cc.n
        ma == Fill(cc.a, n, 7)  mb == Fill(cc.b, n, 11)  mc == Fill(cc.c, n, 13)
        Fc == Footprint(cc.c.d, n, cc.c.s, cc.c.idx)
        av == [k \in 1..n |-> Val(cc.a, ma, k - 1)]  bv == [k \in 1..n |-> Val(cc.b, mb, k - 1)]
        \* reference semantics of the scatter: lanes stored in ascending order
        After == [x \in DOMAIN mc |-> IF x \in Fc THEN Res(cc, ma, mb, SetMax(LanesAt(cc.c.d, n, cc.c.s, cc.c.idx, x))) ELSE mc[x]]
    IN /\ \A j \in DOMAIN ma : \A k \in Lanes(n) :
            (Addr(cc.a.d, k, cc.a.s, cc.a.idx) = j) = ~EqModP(Res(cc, Bump(ma, j), mb, k), Res(cc, ma, mb, k))
       /\ (cc.b.d.kind # "none" =>
            \A j \in DOMAIN mb : \A k \in Lanes(n) :
              (Addr(cc.b.d, k, cc.b.s, cc.b.idx) = j) = ~EqModP(Res(cc, ma, Bump(mb, j), k), Res(cc, ma, mb, k)))
       /\ (InMemory(cc.c.d) =>
            /\ Fc \subseteq DOMAIN mc
            /\ \A x \in Fc : CellOk(cc.op, cc.c.d, n, cc.c.s, cc.c.idx, x, After[x], av, bv)
            /\ {x \in DOMAIN mc : After[x] # mc[x]} \subseteq Fc
            \* the limb forms accept the same cells and predict the same changed positions
            /\ LET cw == OfInt(cc.c.s)  cxw == [i \in DOMAIN cc.c.idx |-> OfInt(cc.c.idx[i])]
                   rv == [k \in 1..n |-> After[Addr(cc.c.d, k - 1, cc.c.s, cc.c.idx)]]
                   pre == [k \in 1..n |-> IF k % 2 = 0 THEN <<>> ELSE rv[k]]
               IN /\ \A x \in Fc : CellOkW(cc.op, cc.c.d, n, cw, cxw, OfInt(x), After[x], av, bv)
                  /\ \A x \in Fc : CellOkW(cc.op, cc.c.d, n, cw, cxw, OfInt(x), FAdd(After[x], One8), av, bv)
                                      = CellOk(cc.op, cc.c.d, n, cc.c.s, cc.c.idx, x, FAdd(After[x], One8), av, bv)
                  /\ ChangedCellsW(cc.c.d, n, cw, cxw, rv, pre) = {OfInt(x) : x \in ChangedCells(cc.c.d, n, cc.c.s, cc.c.idx, rv, pre)})

(* reference execution of v = op(v, b) in place, lanes ascending, every lane reading the current memory; the broadcast
   element is cell sx of the same array: copied at entry (by value) or re-read through a reference (byref) *)
RECURSIVE SeqRun(_, _, _, _, _, _)
SeqRun(c, mem0, bm, sx, byref, st) ==
  IF st[1] = c.n THEN st[2]
  ELSE LET k == st[1]  mem == st[2]
           x == Addr(c.o.d, k, c.o.s, c.o.idx)
           bw == IF c.bk = "scalar" THEN (IF byref THEN mem[sx] ELSE mem0[sx]) ELSE bm[k]
       IN SeqRun(c, mem0, bm, sx, byref, <<k + 1, [mem EXCEPT ![x] = Expected(c.op, mem[x], bw)]>>)
InPlaceInv ==
  ph = "inplace" =>
    LET n == ip.n  o == ip.o
        mem0 == Fill(o, n, 7)
        bm == [k \in Lanes(n) |-> OfInt(1 + ((11 * (k + 1)) % 199))]
        sx == Addr(o.d, ip.aj, o.s, o.idx)
        F == Footprint(o.d, n, o.s, o.idx)
        fin == SeqRun(ip, mem0, bm, sx, FALSE, <<0, mem0>>)
        av == [k \in 1..n |-> mem0[Addr(o.d, k - 1, o.s, o.idx)]]
        bv == [k \in 1..n |-> IF ip.bk = "scalar" THEN mem0[sx] ELSE bm[k - 1]]
        rv == [k \in 1..n |-> fin[Addr(o.d, k - 1, o.s, o.idx)]]
    IN /\ Injective(o.d, n, o.s, o.idx)
       /\ \A k \in Lanes(n) : ResultOk(ip.op, rv[k + 1], av[k + 1], bv[k + 1])          \* Expected on the pre-call values
       /\ \A x \in DOMAIN mem0 \ F : fin[x] = mem0[x]
       /\ {x \in DOMAIN mem0 : fin[x] # mem0[x]} = ChangedCells(o.d, n, o.s, o.idx, rv, av)
(* not vacuous: if the broadcast element inside the result array were re-read through a reference, later lanes would differ *)
ASSUME LET c == [op |-> "add", n |-> 4, o |-> [d |-> Desc("contig", "", FALSE), n |-> 4, s |-> 0, idx |-> <<>>], bk |-> "scalar", aj |-> 0]
           m0 == Fill(c.o, 4, 7)  bm == [k \in Lanes(4) |-> One8]
       IN SeqRun(c, m0, bm, 0, TRUE, <<0, m0>>) # SeqRun(c, m0, bm, 0, FALSE, <<0, m0>>)

ParInv == ph = "par" => ParOk(pc.size, pc.t) /\ \A team \in 1..15 : DeliveryOk(pc.size, pc.t, team)
(* not vacuous: a piece per member, cut by the requested count, loses data when the delivered team is smaller *)
ASSUME \E size \in 0..12, t \in 1..14 : PiecePerMember(size, t, Team(t, 1)) # 0..(size - 1) /\ PiecePerMember(size, t, Team(t, 0)) = 0..(size - 1)

(* one array, two index lists.  The cells hold pairwise different non-zero residues, so op(x, x) and op(x, y) differ
   whenever the two designated cells differ *)
SameBaseInv ==
  ph = "samebase" =>
    LET n == sb.n
        mem == [i \in 0..15 |-> OfInt(2 + i)]
        av == [k \in 1..n |-> mem[sb.ia[k]]]  bv == [k \in 1..n |-> mem[sb.ib[k]]]
        D == Differ(n, sb.ia, sb.ib)
        Fams == {f \in {"eq", "h1", "h2", "perm"} : DesRel(f, n, sb.ia, sb.ib, 0)}
    IN /\ SharedConsistent(n, sb.ia, sb.ib, av, bv)
       /\ \A k \in Lanes(n) : (k \notin D) = ResultOk(sb.op, Expected(sb.op, av[k + 1], av[k + 1]), av[k + 1], bv[k + 1])
       /\ DesRel("eq", n, sb.ia, sb.ib, 0) = (sb.ia = sb.ib)
       /\ (DesRel("eq", n, sb.ia, sb.ib, 0) => Fams = {"eq"})
       /\ ~(DesRel("h1", n, sb.ia, sb.ib, 0) /\ DesRel("h2", n, sb.ia, sb.ib, 0))
       /\ \A k \in Lanes(n) : DesRel("one", n, sb.ia, sb.ib, k) = (D = {k})
       /\ DesRel("eq", n, av, bv, 0) = DesRel("eq", n, sb.ia, sb.ib, 0)            \* distinct cells, distinct words
(* not vacuous: two lists that agree in the first half of the lanes need not designate the same operands *)
ASSUME \E ia \in Idx8, ib \in Idx8 : ia # ib /\ \A k \in 1..4 : ia[k] = ib[k]
(* the cover invariant is not vacuous: without shortening the last chunk some configuration overruns *)
ASSUME \E size \in 0..12, t \in 1..14 : ~ExactCover(size, t, FALSE)
====
