---- MODULE MC_Exp ----
EXTENDS InvExp
CONSTANT EMax
Init == InitExp(0..EMax)
Spec == Init /\ [][Next]_vars
====
