---- MODULE GpuTables ----
(* C20 tables.  The device tables of ntt_goldilocks.cuh and the CPU table W[33] of goldilocks_base_field.cpp are read
   (as text, by tools/gputab.py) into the JSON file named by the environment variable GPUTAB; TLC visits one state
   per row (l indexes Tab.rows, row r holds the entry for log-size i = r - 1) and evaluates over the 64-bit field of
   W64 (B = 256):  omegas[i] = W[i];  omegas[i] * omegas_inv[i] = 1;  2^i * domain_size_inverse[i] = 1;
   omegas[i]^(2^i) = 1 and, for i >= 1, omegas[i]^(2^(i-1)) # 1.  One invariant per check; lib/c20.py runs
   TLC once per invariant and resumes behind a violating row, so every wrong row of every table is named.
   (The checks are invariants, not part of Next: TLC caches lazy values only outside the action context.) *)
EXTENDS W64, Json, IOUtils, TLC
VARIABLE l
Tab == JsonDeserialize(IOEnv.GPUTAB)
Row == Tab.rows[l]
RECURSIVE SqN(_, _), Dbl(_, _)
SqN(x, n) == IF n = 0 THEN x ELSE SqN(TLCEval(FMul(x, x)), n - 1)
Dbl(x, n) == IF n = 0 THEN x ELSE Dbl(TLCEval(FAdd(x, x)), n - 1)
Om == Tab.omegas[Row]
WellFormed == IsWord(Om) /\ IsWord(Tab.omegas_inv[Row]) /\ IsWord(Tab.domain_size_inverse[Row]) /\ IsWord(Tab.W[Row])
OmegasEqCpu == EqModP(Om, Tab.W[Row])
OmegasInv == EqModP(FMul(Om, Tab.omegas_inv[Row]), One8)
DomainInv == EqModP(FMul(Dbl(One8, Row - 1), Tab.domain_size_inverse[Row]), One8)
OmegasOrder == /\ EqModP(SqN(Om, Row - 1), One8)
               /\ (Row >= 2 => ~EqModP(SqN(Om, Row - 2), One8))
Init == l = 1
Next == l < Len(Tab.rows) /\ l' = l + 1
ASSUME B = 256 => FMul(PM1, PM1) = One8
====
