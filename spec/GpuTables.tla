---- MODULE GpuTables ----
(* C20 tables.  The device tables of ntt_goldilocks.cuh and the CPU table W[33] of goldilocks_base_field.cpp are read
   (as text, by tools/gputab.py) into the JSON file named by the environment variable GPUTAB; TLC visits one state
   per row (l indexes Tab.rows, row r holds the entry for log-size i = r - 1) and evaluates over the 64-bit field of
   W64 (B = 256):  omegas[i] = W[i];  omegas[i] * omegas_inv[i] = 1;  2^i * domain_size_inverse[i] = 1;
   omegas[i]^(2^i) = 1 and, for i >= 1, omegas[i]^(2^(i-1)) # 1.  Every failed <<check, row>> is accumulated in
   `fails`; the invariant is tested at the end state only, so one run names every wrong row of every table. *)
EXTENDS W64, Json, IOUtils, TLC
VARIABLES l, fails
Tab == JsonDeserialize(IOEnv.GPUTAB)
Row == Tab.rows[l]
RECURSIVE SqN(_, _), Dbl(_, _)
SqN(x, n) == IF n = 0 THEN x ELSE SqN(TLCEval(FMul(x, x)), n - 1)
Dbl(x, n) == IF n = 0 THEN x ELSE Dbl(TLCEval(FAdd(x, x)), n - 1)
Om == Tab.omegas[Row]
WellFormed == IsWord(Om) /\ IsWord(Tab.omegas_inv[Row]) /\ IsWord(Tab.domain_size_inverse[Row]) /\ IsWord(Tab.W[Row])
OmegasEqCpu == EqModP(Om, Tab.W[Row])
OmegasInv == EqModP(FMul(Om, Tab.omegas_inv[Row]), One8)
DomainInv == EqModP(FMul(Dbl(One8, Row - 1), Tab.domain_size_inverse[Row]), One8)
OmegasOrder == /\ EqModP(SqN(Om, Row - 1), One8)
               /\ (Row >= 2 => ~EqModP(SqN(Om, Row - 2), One8))
Verdict == (IF WellFormed THEN {} ELSE {<<"WellFormed", Row>>})
           \cup (IF OmegasEqCpu THEN {} ELSE {<<"OmegasEqCpu", Row>>})
           \cup (IF OmegasInv THEN {} ELSE {<<"OmegasInv", Row>>})
           \cup (IF DomainInv THEN {} ELSE {<<"DomainInv", Row>>})
           \cup (IF OmegasOrder THEN {} ELSE {<<"OmegasOrder", Row>>})
Init == l = 1 /\ fails = {}
Next == l <= Len(Tab.rows) /\ l' = l + 1 /\ fails' = fails \cup Verdict
AllRowsOk == l = Len(Tab.rows) + 1 => fails = {}
ASSUME B = 256 => FMul(PM1, PM1) = One8
====
