---- MODULE MC_Par ----
EXTENDS Par
====
