CONSTANT Phi = 16
CONSTANT Legacy = FALSE
INIT Init
NEXT Next
INVARIANT Inward
INVARIANT Outward
INVARIANT RoundTrip
INVARIANT BigInts
CHECK_DEADLOCK FALSE
