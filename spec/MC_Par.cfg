CONSTANTS Kinds = {"ntt_pass", "rev_copy", "rev_inplace", "scatter", "merkle_level", "parcpy"}
MaxPow = 2 SharedTmp = FALSE
SPECIFICATION Spec
INVARIANT Deterministic
INVARIANT NoRace
INVARIANT ChunksTile
CHECK_DEADLOCK FALSE
