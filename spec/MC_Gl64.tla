---- MODULE MC_Gl64 ----
(* C20, reduced width (Phi = Beta = 2^w, w in {3,4,5}): the operators generated from the PTX of gl64_t.cuh (both
   __CUDA_ARCH__ variants) against the field of GL.tla, exhaustively.
   += -= cneg: every pair of canonical operands (the fully reduced configuration's precondition);
   * sqr *uint32: every pair of words -- the header documents that "either multiplication variant can handle
   partially reduced inputs"; reduce(): every word; reduce(temp[4]): every four-register input (a = t1:t0, b = t3:t2).
   Demanded: the result is canonical and is the field operation. *)
EXTENDS Gl64_gen, TLC
VARIABLES a, b
Init == a \in Word /\ b = 0
Next == b < T - 1 /\ b' = b + 1 /\ UNCHANGED a
Ok(r, v) == IsCanon(r) /\ r = v % P
CC == IsCanon(a) /\ IsCanon(b)
InvAdd == CC => (Ok(Add700(a, b), a + b) /\ Ok(Add600(a, b), a + b))
InvSub == CC => (Ok(Sub700(a, b), a - b) /\ Ok(Sub600(a, b), a - b))
InvCneg == (IsCanon(a) /\ b <= 1) => (Ok(Cneg700(a, b), IF b = 1 THEN 0 - a ELSE a) /\ Ok(Cneg600(a, b), IF b = 1 THEN 0 - a ELSE a))
InvMul700 == Ok(Mul700(a, b), a * b)
InvMul600 == Ok(Mul600(a, b), a * b)
InvSqr == b = 0 => (Ok(Sqr700(a, b), a * a) /\ Ok(Sqr600(a, b), a * a))
InvMulW700 == b < Beta => Ok(MulW700(a, b), a * b)
InvMulW600 == b < Beta => Ok(MulW600(a, b), a * b)
InvRed == b = 0 => (Ok(Red700(a, b), a) /\ Ok(Red600(a, b), a))
(* the unreduced product and the four-register reduction return some word of the right class *)
Rep(r, v) == IsWord(r) /\ r % P = v % P
InvRaw == Rep(MulRaw700(a, b), a * b) /\ Rep(MulRaw600(a, b), a * b)
InvRed4x700 == Rep(Red4700(Lo(a), Hi(a), Lo(b), Hi(b)), (b * T) + a)
InvRed4x600 == Rep(Red4600(Lo(a), Hi(a), Lo(b), Hi(b)), (b * T) + a)
(* the free-product forms used at full width coincide with the real thing when the symbols are the products *)
InvFree == /\ MulFree700(a, b, Lo(a) * Lo(b), Hi(a) * Hi(b), Lo(a) * Hi(b), Hi(a) * Lo(b)) = Mul700(a, b)
           /\ MulFree600(a, b, Lo(a) * Lo(b), Hi(a) * Hi(b), Lo(a) * Hi(b), Hi(a) * Lo(b)) = Mul600(a, b)
           /\ (b < Beta => /\ MulWFree700(a, b, Lo(a) * b, Hi(a) * b) = MulW700(a, b)
                           /\ MulWFree600(a, b, Lo(a) * b, Hi(a) * b) = MulW600(a, b))
====
