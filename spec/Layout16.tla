---- MODULE Layout16 ----
(* C16: operand layouts and the meaning of the batched / AVX2 / AVX512 add, sub, mul overloads of Goldilocks3
   (sibling of Layout.tla, which covers the one-word-per-lane base-field helpers of C17; here an operand lane is an
   extension element of three coefficients or a base-field element, and registers are planar).

   A call works on n lanes (4: _batch / _avx, 8: _avx512).  Each operand (a, b inputs; c result) has a descriptor
   [elem, kind, param] (one row of Overloads16.tla, generated from tools/overloads16.json):
     elem  "ext" (three coefficients) | "base" (one; it stands for the extension element (s, 0, 0))
     kind  "regs"   three planar registers passed as one Element_avx / Element_avx512: register i, lane k = coefficient i of element k
           "regs3"  the same three planar registers passed as three separate parameters
           "reg"    one register: lane k = the base-field operand of element k
           "contig" interleaved array: coefficient i of element k at  k * W + i        (W = 3 for ext, 1 for base)
           "stride" coefficient i of element k at  k * s + i,   s = the value of the parameter named param
           "index"  coefficient i of element k at  idx[k] + i,  idx = the n-element list passed in param
           "const"  one element for all lanes: ext -> three coefficients at 0..2 of the pointer, base -> by value
   Positions count field elements from the operand's pointer (its arena).  The footprint of an operand is the exact set of
   arena positions the call may read (a, b) / must write (c); the arena a caller has to provide ends at max(footprint):
   the conformance driver puts exactly Extent cells in front of an inaccessible page.

   The field is a parameter (FA, FS, FM, FZero): Trace_Layout16 instantiates it with the 64-bit limb field W64,
   MC_Layout16 with the 13-element field GL(Phi = 4). *)
EXTENDS Integers, Sequences, FiniteSets
CONSTANTS FA(_, _), FS(_, _), FM(_, _), FZero

Kinds16 == {"regs", "regs3", "reg", "contig", "stride", "index", "const"}
OutKinds16 == {"regs", "regs3", "contig", "stride", "index"}
Width(d) == IF d.elem = "ext" THEN 3 ELSE 1
InMem(d) == d.kind \in {"contig", "stride", "index"} \/ (d.kind = "const" /\ d.elem = "ext")

(* position of coefficient i (0-based) of element k (0-based); s = stride argument, idx = index-list argument (1-based sequence) *)
Addr(d, k, i, s, idx) ==
  CASE d.kind = "contig" -> (k * Width(d)) + i
    [] d.kind = "stride" -> (k * s) + i
    [] d.kind = "index"  -> idx[k + 1] + i
    [] d.kind = "const"  -> i
ElemCells(d, k, s, idx) == {Addr(d, k, i, s, idx) : i \in 0..(Width(d) - 1)}
Footprint(d, n, s, idx) == IF InMem(d) THEN UNION {ElemCells(d, k, s, idx) : k \in 0..(n - 1)} ELSE {}
SetMax16(S) == CHOOSE m \in S : \A x \in S : x <= m
Extent(d, n, s, idx) == LET F == Footprint(d, n, s, idx) IN IF F = {} THEN 0 ELSE SetMax16(F) + 1
(* the n * W cells of a result are pairwise distinct (otherwise "element k of the result" is not well defined) *)
Disjoint(d, n, s, idx) == Cardinality(Footprint(d, n, s, idx)) = n * Width(d)

(* ---- aliasing: the result may be the SAME object as an extension operand x when both are planar register triples, or both
   are interleaved arrays with the result pointer equal to the operand pointer and every coefficient of element k of the
   result at the position of the same coefficient of element k of x (same stride / index list).  Element k of the result
   depends on element k of the operands only, so the expected result is Expected(...) on the values held BEFORE the call
   (the scalar operations are alias-safe, C09; the prover uses the vector routines in place, e.g. Horner steps
   mul33c_avx(acc, acc, challenge)).  Partial overlaps (result cells of element k on operand cells of another element) are
   outside the property. *)
RegKinds16 == {"regs", "regs3"}
ArrKinds16 == {"contig", "stride", "index"}
Aliasable(dc, dx) == dx.elem = "ext" /\ ((dc.kind \in RegKinds16 /\ dx.kind \in RegKinds16) \/ (dc.kind \in ArrKinds16 /\ dx.kind \in ArrKinds16))
SameCells(dc, dx, n, sc, ic, sx, ix) ==
  \A k \in 0..(n - 1), i \in 0..2 : Addr(dc, k, i, sc, ic) = Addr(dx, k, i, sx, ix)
AliasModes(r) == {"none"} \cup {m \in {"a", "b"} : Aliasable(r.c, r[m])}

(* ---- two inputs that are the SAME array: when both inputs live in memory the caller may pass the same pointer for a and b
   (a * a, a + a, a constant that is element 0 of the other operand, ...), with equal, nearly equal or unrelated strides /
   offset arrays.  Both are only read.  The arena the caller has to provide then ends at the larger of the two footprints, and
   a cell designated by both operands holds ONE value: coefficient i of element k of a and coefficient ii of element kk of b
   are the same word whenever their positions coincide.  The result is still Expected on the k-th operands. *)
Max16(x, y) == IF x >= y THEN x ELSE y
Shareable(da, db) == InMem(da) /\ InMem(db)
SharedExtent(da, db, n, sa, ia, sb, ib) == Max16(Extent(da, n, sa, ia), Extent(db, n, sb, ib))
SharedAgree(da, db, n, sa, ia, sb, ib, va, vb) ==
  \A k, kk \in 0..(n - 1) : \A i \in 0..(Width(da) - 1), ii \in 0..(Width(db) - 1) :
     Addr(da, k, i, sa, ia) = Addr(db, kk, ii, sb, ib) => va[k + 1][i + 1] = vb[kk + 1][ii + 1]

(* ---- per-element offset arrays that LOOK like a packed / uniform array on some lanes only.  idx agrees with the uniform array
   base + k * st on the lanes S (e.g. its first and last entry are (n - 1) * st apart) and is something else -- a permutation
   of the remaining uniform values, far positions -- on the others.  Addr reads idx[k + 1] for element k whatever the other
   entries are: nothing about an offset array may be inferred from some of its entries. *)
AgreesOn(idx, S, base, st) == \A k \in S : idx[k + 1] = base + (k * st)
LooksUniformAtEnds(idx, n, st) == idx[n] - idx[1] = (n - 1) * st
IsUniform(idx, n, st) == \A k \in 0..(n - 1) : idx[k + 1] = idx[1] + (k * st)

(* ---- the scalar extension operation (C09): F[x]/(x^3 - x - 1), schoolbook product with x^3 = x + 1, x^4 = x^2 + x *)
Emb(d, v) == IF d.elem = "base" THEN <<v[1], FZero, FZero>> ELSE v
CAdd(u, v) == <<FA(u[1], v[1]), FA(u[2], v[2]), FA(u[3], v[3])>>
CSub(u, v) == <<FS(u[1], v[1]), FS(u[2], v[2]), FS(u[3], v[3])>>
CMul(u, v) ==
  LET d0 == FM(u[1], v[1])
      d1 == FA(FM(u[1], v[2]), FM(u[2], v[1]))
      d2 == FA(FA(FM(u[1], v[3]), FM(u[2], v[2])), FM(u[3], v[1]))
      d3 == FA(FM(u[2], v[3]), FM(u[3], v[2]))
      d4 == FM(u[3], v[3])
  IN <<FA(d0, d3), FA(FA(d1, d3), d4), FA(d2, d4)>>
(* element k of the result of an overload with operation op on operand shapes da, db; x, y = the k-th operands
   (a triple for an ext operand, a 1-tuple for a base operand).  For the challenge variants the definition is still a_k * b. *)
Expected(op, da, db, x, y) ==
  LET u == Emb(da, x)  v == Emb(db, y)
  IN CASE op = "add" -> CAdd(u, v) [] op = "sub" -> CSub(u, v) [] op = "mul" -> CMul(u, v)

(* ---- the formulas the code uses (for the model check against the definition) *)
Sums(v) == <<FA(v[1], v[2]), FA(v[1], v[3]), FA(v[2], v[3])>>       \* the precomputed "challenge" sums b0+b1, b0+b2, b1+b2
KarCore(u, v, x) ==                     \* A..G of the code, x = sums of v
  [A |-> FM(FA(u[1], u[2]), x[1]), Bq |-> FM(FA(u[1], u[3]), x[2]), C |-> FM(FA(u[2], u[3]), x[3]),
   D |-> FM(u[1], v[1]), E |-> FM(u[2], v[2]), F |-> FM(u[3], v[3])]
KarBatch(u, v, x) ==                    \* _batch: result1 = (((A + C) - E) - E) - D
  LET t == KarCore(u, v, x)  G == FS(t.D, t.E)
  IN <<FS(FA(t.C, G), t.F), FS(FS(FS(FA(t.A, t.C), t.E), t.E), t.D), FS(t.Bq, G)>>
KarAvx(u, v, x) ==                      \* _avx / _avx512: result1 = (A + C) - ((E + E) + D)
  LET t == KarCore(u, v, x)  G == FS(t.D, t.E)
  IN <<FS(FA(t.C, G), t.F), FS(FA(t.A, t.C), FA(FA(t.E, t.E), t.D)), FS(t.Bq, G)>>
(* shortcuts of the mixed shapes *)
Add13(s, v) == <<FA(s, v[1]), v[2], v[3]>>                          \* base + ext, ext + base
Sub31(u, s) == <<FS(u[1], s), u[2], u[3]>>                          \* ext - base
Sub13(s, v) == <<FS(s, v[1]), FS(FZero, v[2]), FS(FZero, v[3])>>    \* base - ext
Mul13(s, v) == <<FM(s, v[1]), FM(s, v[2]), FM(s, v[3])>>            \* base * ext

(* ---- a table row is well-formed *)
DescOk(d) ==
  /\ DOMAIN d = {"elem", "kind", "param"} /\ d.elem \in {"ext", "base"} /\ d.kind \in Kinds16
  /\ (d.kind \in {"regs", "regs3"} => d.elem = "ext") /\ (d.kind = "reg" => d.elem = "base")
  /\ (d.kind \in {"stride", "index"}) = (d.param # "")
RowOk(r) ==
  /\ DOMAIN r = {"name", "op", "lanes", "variant", "aux", "a", "b", "c"}
  /\ r.op \in {"add", "sub", "mul"} /\ r.lanes \in {4, 8} /\ r.variant \in {"avx2", "avx512"}
  /\ (r.lanes = 8) = (r.variant = "avx512")
  /\ DescOk(r.a) /\ DescOk(r.b) /\ DescOk(r.c)
  /\ r.c.elem = "ext" /\ r.c.kind \in OutKinds16
  /\ (r.a.elem = "ext" \/ r.b.elem = "ext")
  /\ r.aux \in {"none", "const", "regs3"}
  /\ (r.aux # "none" => r.op = "mul" /\ r.a.elem = "ext" /\ r.b.elem = "ext")
  /\ (r.aux = "const" => r.b.kind = "const") /\ (r.aux = "regs3" => r.b.kind = "regs3")
  \* every stride / index parameter belongs to exactly one operand
  /\ \A x, y \in {"a", "b", "c"} : (x # y /\ r[x].param # "") => r[x].param # r[y].param
====
