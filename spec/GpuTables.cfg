CONSTANT B = 256
INIT Init
NEXT Next
INVARIANT AllRowsOk
CHECK_DEADLOCK FALSE
