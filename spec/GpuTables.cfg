CONSTANT B = 256
INIT Init
NEXT Next
INVARIANT WellFormed
INVARIANT OmegasEqCpu
INVARIANT OmegasInv
INVARIANT DomainInv
INVARIANT OmegasOrder
CHECK_DEADLOCK FALSE
