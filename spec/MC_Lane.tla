---- MODULE MC_Lane ----
(* every lane input (pair) at reduced width, under each kernel's documented operand assumption *)
EXTENDS LaneKernels, TLC
VARIABLES a, b
Init == a \in Word /\ b = 0
Next == b < T - 1 /\ b' = b + 1 /\ UNCHANGED a
Rep(x, v) == IsWord(x) /\ Val(x) = v % P
Avx2 ==
  /\ (b = 0 => Rep(ToCanon(a), a) /\ IsCanon(ToCanon(a)))
  /\ (b = 0 => LET s == ToCanonS(a) IN IsWord(s) /\ IsCanon(Shift(s)) /\ Val(Shift(s)) = Val(Shift(a)))
  /\ Rep(Add(a, b), a + b)
  /\ (IsShiftedCanon(a) => Rep(AddASc(a, b), Shift(a) + b))
  /\ (SmallB(b) => LET r == AddSBSmall(a, b) IN IsWord(r) /\ Val(Shift(r)) = (Shift(a) + b) % P)
  /\ (SmallB(b) => Rep(AddBSmall(a, b), a + b))
  /\ Rep(Sub(a, b), a - b)
  /\ (SmallB(b) => LET r == SubSBSmall(a, b) IN IsWord(r) /\ Val(Shift(r)) = (Shift(a) - b) % P)
  /\ LET m == Mult128(a, b) IN IsWord(m.h) /\ IsWord(m.l) /\ m.h * T + m.l = a * b
  /\ LET m == Mult128_512(a, b) IN IsWord(m.h) /\ IsWord(m.l) /\ m.h * T + m.l = a * b
  /\ Mult128P(a, b, Hi(a) * Hi(b), Hi(a) * Lo(b), Lo(a) * Hi(b), Lo(a) * Lo(b)) = Mult128(a, b)
  /\ (b < Phi => LET m == Mult72(a, b) IN m.h < Phi /\ IsWord(m.l) /\ m.h * T + m.l = a * b)
  /\ (b < Phi => LET m == Mult72_512(a, b) IN m.h < Phi /\ IsWord(m.l) /\ m.h * T + m.l = a * b)
  /\ Rep(Reduce128(a, b), a * T + b)
  /\ (a < Phi => Rep(Reduce96(a, b), a * T + b))
  /\ Rep(Mult(a, b), a * b)
  /\ (b < Phi => Rep(Mult8(a, b), a * b))
  /\ (b = 0 => LET m == Square128(a) IN IsWord(m.h) /\ IsWord(m.l) /\ m.h * T + m.l = a * a)
  /\ (b = 0 => LET m == Square128_512(a) IN IsWord(m.h) /\ IsWord(m.l) /\ m.h * T + m.l = a * a)
  /\ (b = 0 => ShiftK(a) = Shift(a))
  /\ (b = 0 => Rep(Square(a), a * a))
Avx512 ==
  /\ (b = 0 => ToCanon512(a) = a % P)
  /\ Rep(Add512(a, b), a + b)
  /\ (IsCanon(b) => Rep(AddBC512(a, b), a + b))
  /\ Rep(Sub512(a, b), a - b)
  /\ (IsCanon(b) => Rep(SubBC512(a, b), a - b))
  /\ Rep(Reduce128_512(a, b), a * T + b)
  /\ (a < Phi => Rep(Reduce96_512(a, b), a * T + b))
  /\ Rep(Mult512(a, b), a * b)
  /\ (b < Phi => Rep(Mult8_512(a, b), a * b))
  /\ (b = 0 => Rep(Square512(a), a * a))
(* non-vacuity of the documented assumptions: outside them the restricted kernels really fail somewhere *)
NeedsCanonB == \E x \in Word, y \in Word : ~IsCanon(y) /\ Val(AddBC512(x, y)) # (x + y) % P
ASSUME Phi >= 4 => NeedsCanonB
====
