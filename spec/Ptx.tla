---- MODULE Ptx ----
(* Hand-written semantics of an integer subset of PTX (the trusted base of C20), over integers, parametric in the
   register modulus Beta = Phi = 2^W (W = 32 on the device).  A 32-bit register (.b32 .u32 .s32) is a value in
   0..Beta-1, a 64-bit register a value in 0..T-1 (T = Beta^2); registers are untyped bit patterns, a signed
   instruction reads them through Sx (two's complement).  The condition-code carry flag CC.CF and predicates are 0/1.
   The first argument m of a width-generic operator is the modulus of the instruction's type (32 bit: Beta, 64: T).

     add(.cc) addc(.cc)          d = AddR(m,x,y,ci)   CF = AddC(m,x,y,ci)     ci = 0 for add, CC.CF for addc
     sub(.cc) subc(.cc)          d = SubR(m,x,y,bi)   CF = SubB(m,x,y,bi)     CF is the BORROW; subc subtracts it
     mul.lo / .hi (u) / .hi (s)  MulLo(m,x,y) / MulHi(m,x,y) / MulHiS(m,x,y)
     mul.wide.u32 / .s32         MulWide(x,y) / MulWideS(x,y)                 32 x 32 -> 64
     mad(c).lo/.hi(.cc) d,x,y,z  AddR(m, MulLo|MulHi|MulHiS(m,x,y), z, ci), CF = AddC(same arguments)
     mad.wide.u32/.s32 d,x,y,z   AddR(T, MulWide|MulWideS(x,y), z, 0)
     setp.CMP.type               eq ne: SetEq SetNe;  lt le gt ge on .u / lo ls hi hs: SetLt SetLe SetGt SetGe;
                                 lt le gt ge on .s: SetLtS SetLeS SetGtS SetGeS (m, x, y)
     selp d,x,y,p                Sel(p,x,y);  every @p-predicated write: Sel(p, new, old);  @!p: Sel(NotP(p), new, old)
     and or xor .b32 .b64        BAnd BOr BXor;   on .pred: B1(0|1|2, p, q);   not.bNN: NotB(m,x);  not.pred: NotP(p);  neg.sNN: Neg(m,x)
     shl / shr.u,.b / shr.s      Shl(m,x,n) / Shr(m,x,n) / ShrS(m,x,n)   n a 32-bit amount, clamped to the width
     min max .u / .s             MinU MaxU (x,y) / MinS MaxS (m,x,y)
     cvt.u64.u32 / .s64.s32 / to 32 bit     ZExt(x) / SExt(x) / Lo(x);  same-size cvt and mov: the value itself
     mov.b64 d,{lo,hi}           Pack(lo,hi);     mov.b64 {lo,hi},s: Lo(s), Hi(s)  (GL)
   C++ glue of the header uses the same operators (casts = ZExt/SExt/Lo, -x = Neg, ~x = NotB, comparisons = SetXx).
   Literals of the source are written by the translator as polynomials in Beta under Lit(m, .), literal shift amounts
   as multiples of W (32 -> W, 63 -> 2W-1): exact at W = 32, a faithful miniature at small W.
   tools/ptx_prims.hpp is the same table in C++ for W = 32.  spec/MC_Ptx.tla checks every operator below against its
   arithmetic definition, exhaustively at small W (run by the check before anything else). *)
EXTENDS GL
Beta == Phi
WC == Beta - 1
NegMod == T - P
(* register width in bits; MC_Ptx!InvPow2 / Apa_Gl64!InvPtxW check Pow2(W) = Phi *)
W == IF Phi = 2 THEN 1 ELSE IF Phi = 4 THEN 2 ELSE IF Phi = 8 THEN 3 ELSE IF Phi = 16 THEN 4 ELSE
     IF Phi = 32 THEN 5 ELSE IF Phi = 64 THEN 6 ELSE 32
Bits(m) == IF m = Beta THEN W ELSE 2 * W
(* 2^n for n <= 64 without a literal that TLC could not parse *)
Pow2(n) ==
  IF n <= 0 THEN 1 ELSE
  IF n = 1 THEN 2 ELSE IF n = 2 THEN 4 ELSE IF n = 3 THEN 8 ELSE IF n = 4 THEN 16 ELSE
  IF n = 5 THEN 32 ELSE IF n = 6 THEN 64 ELSE IF n = 7 THEN 128 ELSE IF n = 8 THEN 256 ELSE
  IF n = 9 THEN 512 ELSE IF n = 10 THEN 1024 ELSE IF n = 11 THEN 2048 ELSE IF n = 12 THEN 4096 ELSE
  IF n = 13 THEN 8192 ELSE IF n = 14 THEN 16384 ELSE IF n = 15 THEN 32768 ELSE IF n = 16 THEN 65536 ELSE
  IF n = 17 THEN 131072 ELSE IF n = 18 THEN 262144 ELSE IF n = 19 THEN 524288 ELSE IF n = 20 THEN 1048576 ELSE
  IF n = 21 THEN 2097152 ELSE IF n = 22 THEN 4194304 ELSE IF n = 23 THEN 8388608 ELSE IF n = 24 THEN 16777216 ELSE
  IF n = 25 THEN 33554432 ELSE IF n = 26 THEN 67108864 ELSE IF n = 27 THEN 134217728 ELSE IF n = 28 THEN 268435456 ELSE
  IF n = 29 THEN 536870912 ELSE IF n = 30 THEN 1073741824 ELSE IF n = 31 THEN (65536 * 32768) ELSE
  IF n = 32 THEN (65536 * 65536) ELSE
  IF n = 33 THEN (65536 * 65536 * 2) ELSE IF n = 34 THEN (65536 * 65536 * 4) ELSE
  IF n = 35 THEN (65536 * 65536 * 8) ELSE IF n = 36 THEN (65536 * 65536 * 16) ELSE
  IF n = 37 THEN (65536 * 65536 * 32) ELSE IF n = 38 THEN (65536 * 65536 * 64) ELSE
  IF n = 39 THEN (65536 * 65536 * 128) ELSE IF n = 40 THEN (65536 * 65536 * 256) ELSE
  IF n = 41 THEN (65536 * 65536 * 512) ELSE IF n = 42 THEN (65536 * 65536 * 1024) ELSE
  IF n = 43 THEN (65536 * 65536 * 2048) ELSE IF n = 44 THEN (65536 * 65536 * 4096) ELSE
  IF n = 45 THEN (65536 * 65536 * 8192) ELSE IF n = 46 THEN (65536 * 65536 * 16384) ELSE
  IF n = 47 THEN (65536 * 65536 * 32768) ELSE IF n = 48 THEN (65536 * 65536 * 65536) ELSE
  IF n = 49 THEN (65536 * 65536 * 65536 * 2) ELSE IF n = 50 THEN (65536 * 65536 * 65536 * 4) ELSE
  IF n = 51 THEN (65536 * 65536 * 65536 * 8) ELSE IF n = 52 THEN (65536 * 65536 * 65536 * 16) ELSE
  IF n = 53 THEN (65536 * 65536 * 65536 * 32) ELSE IF n = 54 THEN (65536 * 65536 * 65536 * 64) ELSE
  IF n = 55 THEN (65536 * 65536 * 65536 * 128) ELSE IF n = 56 THEN (65536 * 65536 * 65536 * 256) ELSE
  IF n = 57 THEN (65536 * 65536 * 65536 * 512) ELSE IF n = 58 THEN (65536 * 65536 * 65536 * 1024) ELSE
  IF n = 59 THEN (65536 * 65536 * 65536 * 2048) ELSE IF n = 60 THEN (65536 * 65536 * 65536 * 4096) ELSE
  IF n = 61 THEN (65536 * 65536 * 65536 * 8192) ELSE IF n = 62 THEN (65536 * 65536 * 65536 * 16384) ELSE
  IF n = 63 THEN (65536 * 65536 * 65536 * 32768) ELSE (65536 * 65536 * 65536 * 65536)
(* a source literal, written as a polynomial in Beta by the translator, as a register value *)
Lit(m, x) == x % m
(* the signed (two's complement) reading of a register *)
Sx(m, x) == IF x >= (m \div 2) THEN x - m ELSE x
(* ---- add / sub with carry *)
AddR(m, x, y, ci) == (x + y + ci) % m
AddC(m, x, y, ci) == (x + y + ci) \div m
SubR(m, x, y, bi) == (x - y - bi + (2 * m)) % m
SubB(m, x, y, bi) == IF x - y - bi < 0 THEN 1 ELSE 0
(* ---- products *)
MulLo(m, x, y) == (x * y) % m
MulHi(m, x, y) == (x * y) \div m
MulHiS(m, x, y) == (((Sx(m, x) * Sx(m, y)) + (m * m)) \div m) % m
MulWide(x, y) == x * y
MulWideS(x, y) == ((Sx(Beta, x) * Sx(Beta, y)) + T) % T
(* the same parts of a 32 x 32 product that is a free symbol (full-width symbolic runs) *)
PLo(q) == q % Beta
PHi(q) == q \div Beta
PWide(q) == q
(* ---- comparisons (setp, C++ glue) *)
SetEq(x, y) == IF x = y THEN 1 ELSE 0
SetNe(x, y) == IF x = y THEN 0 ELSE 1
SetLt(x, y) == IF x < y THEN 1 ELSE 0
SetLe(x, y) == IF x <= y THEN 1 ELSE 0
SetGt(x, y) == IF x > y THEN 1 ELSE 0
SetGe(x, y) == IF x >= y THEN 1 ELSE 0
SetLtS(m, x, y) == SetLt(Sx(m, x), Sx(m, y))
SetLeS(m, x, y) == SetLe(Sx(m, x), Sx(m, y))
SetGtS(m, x, y) == SetGt(Sx(m, x), Sx(m, y))
SetGeS(m, x, y) == SetGe(Sx(m, x), Sx(m, y))
Sel(p, x, y) == IF p = 1 THEN x ELSE y
(* ---- logic: o = 0 and, 1 or, 2 xor; bit by bit, by doubling, for operands below T with W <= 32 *)
B1(o, u, v) == IF o = 0 THEN (IF u = 1 /\ v = 1 THEN 1 ELSE 0)
               ELSE IF o = 1 THEN (IF u = 1 \/ v = 1 THEN 1 ELSE 0) ELSE (IF u = v THEN 0 ELSE 1)
B2(o, u, v) == B1(o, u % 2, v % 2) + (2 * B1(o, u \div 2, v \div 2))
B4(o, u, v) == B2(o, u % 4, v % 4) + (4 * B2(o, u \div 4, v \div 4))
B8(o, u, v) == B4(o, u % 16, v % 16) + (16 * B4(o, u \div 16, v \div 16))
B16(o, u, v) == B8(o, u % 256, v % 256) + (256 * B8(o, u \div 256, v \div 256))
B32(o, u, v) == B16(o, u % 65536, v % 65536) + (65536 * B16(o, u \div 65536, v \div 65536))
BW(o, u, v) == B32(o, u % Beta, v % Beta) + (Beta * B32(o, u \div Beta, v \div Beta))
BAnd(x, y) == BW(0, x, y)
BOr(x, y) == BW(1, x, y)
BXor(x, y) == BW(2, x, y)
NotB(m, x) == m - 1 - x
NotP(p) == 1 - p
Neg(m, x) == (m - x) % m
(* ---- shifts: the amount is clamped to the register width (PTX ISA: "shift amounts greater than the register
   width N are clamped to N") *)
MinN(j, k) == IF j < k THEN j ELSE k
Shl(m, x, n) == (x * Pow2(MinN(n, Bits(m)))) % m
Shr(m, x, n) == x \div Pow2(MinN(n, Bits(m)))
ShrS(m, x, n) == (x \div Pow2(MinN(n, Bits(m)))) + (IF x >= (m \div 2) THEN m - (m \div Pow2(MinN(n, Bits(m)))) ELSE 0)
(* ---- min / max *)
MinU(x, y) == IF x <= y THEN x ELSE y
MaxU(x, y) == IF x >= y THEN x ELSE y
MinS(m, x, y) == IF Sx(m, x) <= Sx(m, y) THEN x ELSE y
MaxS(m, x, y) == IF Sx(m, x) >= Sx(m, y) THEN x ELSE y
(* ---- conversions between the 32- and the 64-bit register (truncation is GL!Lo) *)
ZExt(x) == x
SExt(x) == IF x >= (Beta \div 2) THEN x + (T - Beta) ELSE x
Pack(l, h) == (h * Beta) + l
(* kept for older generated text *)
Neg32(x) == Neg(Beta, x)
IsZ(x) == SetEq(x, 0)
====
