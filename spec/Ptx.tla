---- MODULE Ptx ----
(* Hand-written semantics of the PTX subset used by gl64_t.cuh, over integers, parametric in the register
   modulus Beta = Phi = 2^w (w = 32 on the device).  A .u32 register is a value in 0..Beta-1, a .u64 register a
   value in 0..T-1 (T = Beta^2), the condition-code carry flag CC.CF and predicates are 0/1.
   The first argument m of the add/sub family is the modulus of the instruction's type (.u32: Beta, .u64: T).
     add(.cc)/addc(.cc)   d = AddR(m,x,y,ci)   CF = AddC(m,x,y,ci)      ci = 0 for add, CF for addc
     sub(.cc)/subc(.cc)   d = SubR(m,x,y,bi)   CF = SubB(m,x,y,bi)      (CF is the borrow)
     mul.lo/.hi           MulLo / MulHi
     mad(c).lo(.cc) d,x,y,z = AddR(Beta, MulLo(x,y), z, ci) ...; mad(c).hi likewise with MulHi
     setp.eq/.ne          SetEq / SetNe;   selp d,x,y,p and every @p-predicated write: Sel(p, new, old)
     mov.b64 d,{lo,hi}    Pack(lo,hi);     mov.b64 {lo,hi},s: Lo(s), Hi(s)  (GL)
   C++ glue: lo()/hi() = Lo/Hi, -x on uint32_t = Neg32, (val==0) = IsZ, gl64_device::W = WC, 0-MOD = NegMod.
   tools/ptx_prims.hpp is the same table in C++ for w = 32. *)
EXTENDS GL
Beta == Phi
WC == Beta - 1
NegMod == T - P
AddR(m, x, y, ci) == (x + y + ci) % m
AddC(m, x, y, ci) == (x + y + ci) \div m
SubR(m, x, y, bi) == (x - y - bi + (2 * m)) % m
SubB(m, x, y, bi) == IF x - y - bi < 0 THEN 1 ELSE 0
MulLo(x, y) == (x * y) % Beta
MulHi(x, y) == (x * y) \div Beta
(* the same two halves of a product that is a free symbol (full-width symbolic runs) *)
PLo(q) == q % Beta
PHi(q) == q \div Beta
SetEq(x, y) == IF x = y THEN 1 ELSE 0
SetNe(x, y) == IF x = y THEN 0 ELSE 1
Sel(p, x, y) == IF p = 1 THEN x ELSE y
Pack(l, h) == (h * Beta) + l
Neg32(x) == (Beta - x) % Beta
IsZ(x) == IF x = 0 THEN 1 ELSE 0
====
