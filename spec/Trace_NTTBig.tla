---- MODULE Trace_NTTBig ----
(* C03 / C04 / C05 at sizes beyond the exhaustively replayed ones (2^7 .. 2^10 rows): the recorded output rows
   K(d) (a fixed sample incl. 0, 1, n/2-1, n/2, n-1 and pseudo-random rows) of each call are compared with the DFT /
   inverse DFT / LDE definitions evaluated by TLC over the limb field (Horner on the sampled rows only); the complete
   output is summarised by a digest that must be equal for all calls with the same arguments' class (same call, size,
   columns) - a wrong unsampled row in one configuration shows as a digest different from the other configurations. *)
EXTENDS TraceBase
VARIABLES l, seen
In == JsonDeserialize(IOEnv.NTTIN)
BigDs == In.bigd                      \* sequence of sizes d with tables
ExtPairs == In.extpairs               \* sequence of <<d, x>>
Wr(k) == In.W[k + 1]
Xv(d) == In.X[d + 1]                  \* large sizes: one seeded vector per size (the event's xv is 0)
Mc(c) == In.M[c + 1]
Kr(d) == In.K[d + 1]
Pow2(k) == 2^k
Seven == Small(7)
HalfW == <<1, 0, 0, B \div 2, B - 1, B - 1, B - 1, (B \div 2) - 1>>
RECURSIVE FPowN(_, _)
FPowN(b, k) == IF k = 0 THEN One8 ELSE IF k % 2 = 1 THEN FMul(b, FPowN(FMul(b, b), k \div 2)) ELSE FPowN(FMul(b, b), k \div 2)
RECURSIVE Horner(_, _, _, _)
Horner(c, x, i, acc) == IF i = 0 THEN acc ELSE Horner(c, x, i - 1, TLCEval(FAdd(FMul(acc, x), c[i])))
Eval(c, x) == Horner(c, x, Len(c), Zero8)
NInv(d) == FPowN(HalfW, d)
WInv(d) == FPowN(Wr(d), Pow2(d) - 1)
InSeq(s, v) == \E i \in 1..Len(s) : s[i] = v
NeedDft == IOEnv.NEED_DFT = "1"
NeedIdft == IOEnv.NEED_IDFT = "1"
NeedLde == IOEnv.NEED_LDE = "1"
(* tables are computed once per TLC run, and only those the trace's call kind needs *)
(* evaluation points as tables of VALUES (an operator argument is re-evaluated at every use inside a recursion) *)
FwdPts == TLCEval([d \in 0..In.maxd |-> IF NeedDft /\ InSeq(BigDs, d) THEN TLCEval([i \in 1..Len(Kr(d)) |-> FPowN(Wr(d), Kr(d)[i])]) ELSE <<>>])
InvPts == TLCEval([d \in 0..In.maxd |-> IF NeedIdft /\ InSeq(BigDs, d) THEN TLCEval([i \in 1..Len(Kr(d)) |-> FPowN(WInv(d), Kr(d)[i])]) ELSE <<>>])
NeedFull(d) == NeedLde /\ \E p \in 1..Len(ExtPairs) : ExtPairs[p][1] = d
AllInvPts == TLCEval([d \in 0..In.maxd |-> IF NeedFull(d) THEN TLCEval([k \in 1..Pow2(d) |-> FPowN(WInv(d), k - 1)]) ELSE <<>>])
XvT == TLCEval([d \in 0..In.maxd |-> Xv(d)])
DftS == TLCEval([d \in 0..In.maxd |-> IF NeedDft /\ InSeq(BigDs, d) THEN TLCEval([i \in 1..Len(Kr(d)) |-> Eval(XvT[d], FwdPts[d][i])]) ELSE <<>>])
NInvT == TLCEval([d \in 0..In.maxd |-> NInv(d)])
IdftS == TLCEval([d \in 0..In.maxd |-> IF NeedIdft /\ InSeq(BigDs, d) THEN TLCEval([i \in 1..Len(Kr(d)) |-> FMul(NInvT[d], Eval(XvT[d], InvPts[d][i]))]) ELSE <<>>])
(* full inverse DFT (the interpolant's coefficients) only for the sizes used by extendPol cases *)
IdftFull == TLCEval([d \in 0..In.maxd |-> IF NeedFull(d) THEN TLCEval([k \in 1..Pow2(d) |-> FMul(NInvT[d], Eval(XvT[d], AllInvPts[d][k]))]) ELSE <<>>])
LdePts == TLCEval([p \in 1..Len(ExtPairs) |-> LET d == ExtPairs[p][1] x == ExtPairs[p][2] IN
             IF ~NeedLde THEN <<>> ELSE TLCEval([i \in 1..Len(Kr(d + x)) |-> FMul(Seven, FPowN(Wr(d + x), Kr(d + x)[i]))])])
LdeS == TLCEval([p \in 1..Len(ExtPairs) |->
           LET d == ExtPairs[p][1] IN
           IF ~NeedLde THEN <<>> ELSE TLCEval([i \in 1..Len(LdePts[p]) |-> Eval(IdftFull[d], LdePts[p][i])])])
ExtIdx(d, x) == CHOOSE p \in 1..Len(ExtPairs) : ExtPairs[p][1] = d /\ ExtPairs[p][2] = x
Table(e) == IF e.call = "ntt" THEN DftS[e.d] ELSE IF e.call = "intt" THEN IdftS[e.d] ELSE LdeS[ExtIdx(e.d, e.x)]
Rows(e) == Kr(IF e.call = "ext" THEN e.d + e.x ELSE e.d)
Key(e) == <<e.call, e.d, e.x, e.ncols>>
OkRows(e) == LET T == Table(e) nk == Len(Rows(e)) IN
  /\ Len(e.out) = nk * e.ncols
  /\ \A i \in 1..nk, c \in 0..(e.ncols - 1) : EqModP(e.out[(i - 1) * e.ncols + c + 1], FMul(Mc(c), T[i]))
OkInput(e) == LET n == Pow2(e.d) IN
  /\ Len(e.cells) = n * e.ncols
  /\ \A j \in 0..(n - 1), c \in 0..(e.ncols - 1) : EqModP(e.cells[j * e.ncols + c + 1], FMul(Mc(c), Xv(e.d)[j + 1]))
Init == l = 1 /\ seen = <<>>
Step(e) ==
  CASE e.e = "input" -> OkInput(e) /\ UNCHANGED seen
    [] e.e = "trs" -> /\ e.src_same /\ e.slack_ok /\ OkRows(e)
                      /\ LET ks == {i \in 1..Len(seen) : seen[i].key = Key(e)} IN
                         IF ks = {} THEN seen' = Append(seen, [key |-> Key(e), digest |-> e.canon_digest])
                         ELSE (\A i \in ks : seen[i].digest = e.canon_digest) /\ UNCHANGED seen
    [] OTHER -> FALSE
Next == l <= Len(Tr) /\ Step(Tr[l]) /\ l' = l + 1
Accepted == TLCGet("stats").diameter - 1 = Len(Tr)
====
