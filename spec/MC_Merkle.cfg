CONSTANTS MaxRowsPow = 3 MaxCols = 5 MaxBatch = 7 LegacyPair = FALSE
SPECIFICATION Spec
INVARIANT TreeOk
INVARIANT InBounds
INVARIANT NoGarbage
INVARIANT NoRace
INVARIANT BatchTiling
INVARIANT RootIsLast
CHECK_DEADLOCK FALSE
