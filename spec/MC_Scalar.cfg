CONSTANT Phi = 16
INIT Init
NEXT Next
INVARIANT Exact
INVARIANT ClassOnly
CHECK_DEADLOCK FALSE
