CONSTANT B = 256
CONSTANT Lit = FALSE
INIT Init
NEXT Next
POSTCONDITION Accepted
CHECK_DEADLOCK FALSE
