INIT Init
NEXT Next
POSTCONDITION Accepted
CHECK_DEADLOCK FALSE
