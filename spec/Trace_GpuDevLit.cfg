CONSTANT B = 256
CONSTANT Lit = TRUE
INIT Init
NEXT Next
POSTCONDITION Accepted
CHECK_DEADLOCK FALSE
