---- MODULE Trace_Par ----
(* C12: a recorded execution of a library routine under the sequentialising OpenMP stand-in: for every parallel region
   the cells each team member wrote (measured by snapshot differences of every buffer the call can reach, the callers'
   stack and the static data; one record per barrier phase of a region), and whether the final output is bit-identical to the one-member execution.
   Accepted iff in every region the members' write sets are pairwise disjoint (no cell written by two members: this is
   where a temporary hoisted out of the loop or made static shows), the delivered team is within 1..requested, the
   output does not depend on team size and member order, and the routine's own exactness flags hold. *)
EXTENDS TraceBase
VARIABLE l
Overlap(a, b) == a[1] = b[1] /\ a[2] <= b[3] /\ b[2] <= a[3]
DisjointW(w1, w2) == \A i \in 1..Len(w1), j \in 1..Len(w2) : ~Overlap(w1[i], w2[j])
RegionOk(r) == /\ r.T >= 1 /\ r.T <= r.req /\ Len(r.members) <= r.T       \* a later barrier phase may have fewer unfinished members
               /\ \A m1, m2 \in 1..Len(r.members) : m1 < m2 => DisjointW(r.members[m1].w, r.members[m2].w)
               /\ \A m1, m2 \in 1..Len(r.members) : m1 < m2 => r.members[m1].tid # r.members[m2].tid
OkPar(e) == e.same /\ e.flags_ok /\ \A k \in 1..Len(e.regions) : RegionOk(e.regions[k])
Ok(e) == IF e.e = "par" THEN OkPar(e) ELSE FALSE
Init == l = 1
Next == l <= Len(Tr) /\ Ok(Tr[l]) /\ l' = l + 1
Accepted == TLCGet("stats").diameter - 1 = Len(Tr)
====
