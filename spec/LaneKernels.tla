---- MODULE LaneKernels ----
(* C02 / C11 (+ the arithmetic chains of C13 / C14): one 2W-bit lane of the AVX2 and AVX512 kernels of
   goldilocks_base_field_avx.hpp / _avx512.hpp, transcribed intrinsic by intrinsic, width-parametric
   (Phi = 2^W; shifts by 32 / 33 / 31 are W / W+1 / W-1; MSB = T/2; P_n = Phi-1).
   AVX2 has no unsigned 64-bit compare: it works on "shifted" values x_s = x xor MSB and signed compares, and uses
   32-bit signed compares of the high halves where the operand is known to be "small".  AVX512 uses unsigned mask
   compares.  Products of 32-bit halves (mul_epu32) are passed in as parameters of the *P operators so that the same
   text can be checked symbolically at W = 32 with free products. *)
EXTENDS GL
Pn == Phi - 1
Shift(x) == (x + MSB) % T                               \* xor MSB
S64(x) == IF x >= MSB THEN x - T ELSE x                 \* signed view of a lane
S32(h) == IF h >= Phi \div 2 THEN h - Phi ELSE h        \* signed view of a half
Gt64s(a, b) == S64(a) > S64(b)                          \* _mm256_cmpgt_epi64
GtHi32s(a, b) == S32(Hi(a)) > S32(Hi(b))                \* high half of _mm256_cmpgt_epi32, then srli 32 -> P_n or 0
Ps == Shift(P)
(* ---------------- AVX2 ---------------- *)
ToCanonS(as) == (as + (IF Gt64s(Ps, as) THEN 0 ELSE Pn)) % T            \* toCanonical_avx_s
ToCanon(a) == Shift(ToCanonS(Shift(a)))                                  \* toCanonical_avx
AddASc(asc, b) == LET c0s == (asc + b) % T IN Shift((c0s + (IF Gt64s(asc, c0s) THEN Pn ELSE 0)) % T)    \* add_avx_a_sc
Add(a, b) == AddASc(ToCanonS(Shift(a)), b)                               \* add_avx
AddSBSmall(as, b) == LET c0s == (as + b) % T IN (c0s + (IF GtHi32s(as, c0s) THEN Pn ELSE 0)) % T          \* add_avx_s_b_small
AddBSmall(a, b) == Shift(AddSBSmall(Shift(a), b))                        \* add_avx_b_small
Sub(a, b) == LET bsc == ToCanonS(Shift(b)) as == Shift(a) c0 == (as - bsc) % T
             IN (c0 + (IF Gt64s(bsc, as) THEN P ELSE 0)) % T             \* sub_avx
SubSBSmall(as, b) == LET c0s == (as - b) % T IN (c0s - (IF GtHi32s(c0s, as) THEN Pn ELSE 0)) % T          \* sub_avx_s_b_small
(* 128-bit product from the four partial products: returns <<c_h, c_l>> *)
Mult128P(chh, chl, clh, cll) ==
  LET r0 == (chl + Hi(cll)) % T
      r1 == (clh + Lo(r0)) % T
      cl == Lo(r1) * Phi + Lo(cll)
      r2 == (chh + Hi(r0)) % T
      ch == (r2 + Hi(r1)) % T
  IN [h |-> ch, l |-> cl]
Mult128(a, b) == Mult128P(Hi(a) * Hi(b), Hi(a) * Lo(b), Lo(a) * Hi(b), Lo(a) * Lo(b))
Mult72P(chl, cll) == LET r0 == (chl + Hi(cll)) % T IN [h |-> Hi(r0), l |-> Lo(r0) * Phi + Lo(cll)]
Mult72(a, b) == Mult72P(Hi(a) * Lo(b), Lo(a) * Lo(b))
Reduce128(ch, cl) == LET c1s == SubSBSmall(Shift(cl), Hi(ch))
                         c2 == Lo(ch) * Pn
                     IN Shift(AddSBSmall(c1s, c2))
Reduce96(ch, cl) == AddBSmall(cl, Lo(ch) * Pn)
Mult(a, b) == LET m == Mult128(a, b) IN Reduce128(m.h, m.l)
Mult8(a, b) == LET m == Mult72(a, b) IN Reduce96(m.h, m.l)
Square128P(chh, clh, cll) ==
  LET r0 == (clh + (cll \div (2 * Phi))) % T
      cl == (((r0 * 2 * Phi) % T) + (cll % (2 * Phi))) % T
      ch == (chh + (r0 \div (Phi \div 2))) % T
  IN [h |-> ch, l |-> cl]
Square128(a) == Square128P(Hi(a) * Hi(a), Lo(a) * Hi(a), Lo(a) * Lo(a))
Square(a) == LET m == Square128(a) IN Reduce128(m.h, m.l)
(* ---------------- AVX512 (unsigned mask compares) ---------------- *)
ToCanon512(a) == IF a >= P THEN (a + Pn) % T ELSE a
AddBC512(a, bc) == LET c0 == (a + bc) % T IN IF a > c0 THEN (c0 + Pn) % T ELSE c0          \* add_avx512_b_c
Add512(a, b) == AddBC512(ToCanon512(a), b)                                                  \* note: operands swapped roles, still a + b
SubBC512(a, bc) == LET c0 == (a - bc) % T IN IF bc > a THEN (c0 + P) % T ELSE c0           \* sub_avx512_b_c
Sub512(a, b) == SubBC512(a, ToCanon512(b))
Reduce128_512(ch, cl) == AddBC512(SubBC512(cl, Hi(ch)), Lo(ch) * Pn)
Reduce96_512(ch, cl) == AddBC512(cl, Lo(ch) * Pn)
Mult512(a, b) == LET m == Mult128(a, b) IN Reduce128_512(m.h, m.l)
(* mult_avx512_72 takes a_h by movehdup and r0_l by moveldup: same values as the AVX2 form *)
Mult8_512(a, b) == LET m == Mult72(a, b) IN Reduce96_512(m.h, m.l)
Square512(a) == LET m == Square128(a) IN Reduce128_512(m.h, m.l)
(* documented operand assumptions *)
SmallB(b) == b <= T - Phi                      \* b <= 0xFFFFFFFF00000000
IsShiftedCanon(x) == IsCanon(Shift(x))
====
