---- MODULE Trace_Merkle ----
(* C08: a recorded Merkle build = (shape, input matrix, final tree buffer, root, and the set of permutation calls seen by
   the tracer hook).  The hook records form a finite map PermObs: input state -> output state (a set: calls from a
   parallel region have no order).  Every leaf must be the sponge digest of its row (or, batched, of the concatenated
   digests of its column batches) and every inner node the first four outputs of PermObs[left | right | 0000], level by
   level; the root is the last four elements and the buffer has 4*(2*rows-1) elements.  AVX512 hook records carry two
   states.  One observed pair per event is re-derived from Poseidon.Perm for a sample. *)
EXTENDS Poseidon, FiniteSets
Tr == ndJsonDeserialize(IOEnv.TRACE)
VARIABLE l
Z4 == <<Zero8, Zero8, Zero8, Zero8>>
(* the observed permutation map as a SET of <<canonical input state, canonical output state>> (no recursion, native
   tuple comparison): a 24-lane AVX512 record contributes its two interleaved states, a 12-lane record one pair *)
CanonV(st) == [i \in 1..Len(st) |-> Canon(st[i])]
PairAt(ps, j) == LET p == ps[(j + 1) \div 2] sl == (j + 1) % 2 IN
                 IF Len(p.in) = 12 THEN <<CanonV(p.in), CanonV(p.out)>> ELSE <<CanonV(Slot(p.in, sl)), CanonV(Slot(p.out, sl))>>
PairSet(ps) == {PairAt(ps, j) : j \in 1..(2 * Len(ps))}
Lookup(pairs, st) == LET key == CanonV(st) hits == {q \in pairs : q[1] = key} IN IF hits = {} THEN <<>> ELSE (CHOOSE q \in hits : TRUE)[2]
Functional(pairs) == Cardinality({q[1] : q \in pairs}) = Cardinality(pairs)
(* sponge digest of a sequence of words through the observed permutation map; <<>> if a needed call was not observed *)
RECURSIVE AbsorbVia(_, _, _, _)
AbsorbVia(pairs, xs, k, cap) ==
  LET n == Len(xs)
      st == [i \in 1..8 |-> IF 8 * (k - 1) + i <= n THEN xs[8 * (k - 1) + i] ELSE Zero8] \o cap
      o == Lookup(pairs, st)
  IN IF o = <<>> THEN <<>> ELSE IF 8 * k >= n THEN SubSeq(o, 1, 4) ELSE AbsorbVia(pairs, xs, k + 1, TLCEval(SubSeq(o, 1, 4)))
DigestVia(pairs, xs) == IF Len(xs) <= 4 THEN [i \in 1..4 |-> IF i <= Len(xs) THEN xs[i] ELSE Zero8] ELSE AbsorbVia(pairs, xs, 1, Z4)
RECURSIVE Cat(_, _, _)
Cat(f(_), j, n) == IF j > n THEN <<>> ELSE f(j) \o Cat(f, j + 1, n)
LeafVia(e, pairs, i) ==
  LET w == e.cols * e.dim
      row == SubSeq(e.input, i * w + 1, (i + 1) * w)
  IN IF ~e.batched THEN DigestVia(pairs, row)
     ELSE LET nb == IF e.cols > 0 THEN (e.cols + e.batch - 1) \div e.batch ELSE 1
              nlast == e.cols - (nb - 1) * e.batch
              part(j) == LET nn == IF j = nb THEN nlast ELSE e.batch IN
                         DigestVia(pairs, SubSeq(row, (j - 1) * e.batch * e.dim + 1, (j - 1) * e.batch * e.dim + nn * e.dim))
          IN DigestVia(pairs, Cat(part, 1, nb))
Slot4(t, s) == SubSeq(t, 4 * s + 1, 4 * s + 4)        \* s-th digest slot (0-based) of the tree buffer
NodeVia(pairs, t, lft, rgt) == LET o == Lookup(pairs, Slot4(t, lft) \o Slot4(t, rgt) \o Z4) IN IF o = <<>> THEN <<>> ELSE SubSeq(o, 1, 4)
RECURSIVE LevelsOk(_, _, _, _)
LevelsOk(pairs, t, pending, nextIndex) ==
  IF pending <= 1 THEN TRUE
  ELSE /\ \A i \in 0..((pending \div 2) - 1) : EqV(Slot4(t, nextIndex + pending + i), NodeVia(pairs, t, nextIndex + 2 * i, nextIndex + 2 * i + 1))
       /\ LevelsOk(pairs, t, pending \div 2, nextIndex + pending)
EqW4(a, b) == Len(a) = 4 /\ Len(b) = 4 /\ \A i \in 1..4 : a[i] = b[i]
OkMt(e) ==
  LET pairs == TLCEval(PairSet(e.perms)) IN
  /\ e.input_same /\ e.slack_ok /\ e.root_forms_agree
  /\ e.nelem = 4 * (2 * e.rows - 1) /\ Len(e.tree) = e.nelem
  /\ Functional(pairs)
  /\ \A i \in 0..(e.rows - 1) : EqV(Slot4(e.tree, i), LeafVia(e, pairs, i))
  /\ LevelsOk(pairs, e.tree, e.rows, 0)
  /\ EqW4(e.root, SubSeq(e.tree, e.nelem - 3, e.nelem))
  /\ (e.check_perm > 0 /\ e.check_perm <= 2 * Len(e.perms) => LET q == PairAt(e.perms, e.check_perm) IN EqV(q[2], Perm(q[1])))
Ok(e) == IF e.e = "mt" THEN OkMt(e) ELSE FALSE
Init == l = 1
Next == l <= Len(Tr) /\ Ok(Tr[l]) /\ l' = l + 1
Accepted == TLCGet("stats").diameter - 1 = Len(Tr)
====
