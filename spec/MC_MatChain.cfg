CONSTANTS Phi = 4 LegacyBC = FALSE AllB = FALSE
INIT Init
NEXT Next
INVARIANT Chain2
INVARIANT Chain512
INVARIANT Chain8
INVARIANT ChainLegacy
CHECK_DEADLOCK FALSE
