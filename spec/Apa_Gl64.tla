---- MODULE Apa_Gl64 ----
(* C20 at full width (Phi = Beta = 2^32) with Apalache, on the operators generated from the PTX of gl64_t.cuh:
   the linear members (+= -= cneg reduce()) for all inputs; reduce(temp[4]) for all four-register inputs (the 128-bit
   product is a free value); mul(uint32_t) and mul(gl64_t) followed by to() with every register-by-register product a
   free symbol q_k <= (Beta-1)^2 (PTX mul/mad are the trusted primitives; that the symbols recombine to a*b is
   algebra, checked exhaustively at reduced width by MC_Gl64!InvFree).  Operators that are textually identical for
   both arch variants are emitted as aliases by the generator; lib/c20.py then checks one of them.
   Kept apart from the TLC models because TLC cannot parse 64-bit literals. *)
EXTENDS Gl64_gen
VARIABLES
  \* @type: Int;
  a,
  \* @type: Int;
  b,
  \* @type: Int;
  t0,
  \* @type: Int;
  t1,
  \* @type: Int;
  t2,
  \* @type: Int;
  t3
ConstInit == Phi = 4294967296
R == 0..(Beta - 1)
Init == a \in 0..(T - 1) /\ b \in 0..(T - 1) /\ t0 \in R /\ t1 \in R /\ t2 \in R /\ t3 \in R
Next == UNCHANGED <<a, b, t0, t1, t2, t3>>
Ok(r, v) == IsCanon(r) /\ r = v % P
CC == IsCanon(a) /\ IsCanon(b)
InvAdd700 == CC => Ok(Add700(a, b), a + b)
InvAdd600 == CC => Ok(Add600(a, b), a + b)
InvSub700 == CC => Ok(Sub700(a, b), a - b)
InvSub600 == CC => Ok(Sub600(a, b), a - b)
InvCneg700 == (IsCanon(a) /\ b <= 1) => Ok(Cneg700(a, b), IF b = 1 THEN 0 - a ELSE a)
InvCneg600 == (IsCanon(a) /\ b <= 1) => Ok(Cneg600(a, b), IF b = 1 THEN 0 - a ELSE a)
InvRed700 == Ok(Red700(a, b), a)
InvRed600 == Ok(Red600(a, b), a)
N4 == (((((t3 * Beta) + t2) * Beta) + t1) * Beta) + t0
InvRed4x700 == IsWord(Red4700(t0, t1, t2, t3)) /\ Red4700(t0, t1, t2, t3) % P = N4 % P
InvRed4x600 == IsWord(Red4600(t0, t1, t2, t3)) /\ Red4600(t0, t1, t2, t3) % P = N4 % P
(* free products: a, b stay unconstrained, the symbols are (t0,t1) resp. four words packed in a, b, t0, t1 *)
Q(x) == x <= (Beta - 1) * (Beta - 1)
QW == (t1 * Beta) + t0
QV == (t3 * Beta) + t2
InvMulW700 == (Q(QW) /\ Q(QV)) => Ok(MulWFree700(a, b, QW, QV), QW + (QV * Beta))
InvMulW600 == (Q(QW) /\ Q(QV)) => Ok(MulWFree600(a, b, QW, QV), QW + (QV * Beta))
(* q1 = a0*b0, q2 = a1*b1, q3 = a0*b1, q4 = a1*b0 (order of first use in mul) *)
InvMul700 == (Q(a) /\ Q(b) /\ Q(QW) /\ Q(QV)) => Ok(MulFree700(0, 0, a, b, QW, QV), a + (b * T) + ((QW + QV) * Beta))
InvMul600 == (Q(a) /\ Q(b) /\ Q(QW) /\ Q(QV)) => Ok(MulFree600(0, 0, a, b, QW, QV), a + (b * T) + ((QW + QV) * Beta))
(* the same without the final to(): some word of the right class; to() = reduce() is InvRed *)
Rep(r, v) == IsWord(r) /\ r % P = v % P
InvMulWRaw700 == (Q(QW) /\ Q(QV)) => Rep(MulWRawFree700(a, b, QW, QV), QW + (QV * Beta))
InvMulWRaw600 == (Q(QW) /\ Q(QV)) => Rep(MulWRawFree600(a, b, QW, QV), QW + (QV * Beta))
InvMulRaw700 == (Q(a) /\ Q(b) /\ Q(QW) /\ Q(QV)) => Rep(MulRawFree700(0, 0, a, b, QW, QV), a + (b * T) + ((QW + QV) * Beta))
InvMulRaw600 == (Q(a) /\ Q(b) /\ Q(QW) /\ Q(QV)) => Rep(MulRawFree600(0, 0, a, b, QW, QV), a + (b * T) + ((QW + QV) * Beta))
(* the width constant of the shift / literal scaling of Ptx.tla at full width *)
InvPtxW == Pow2(W) = Phi /\ Pow2(2 * W) = T /\ Bits(Beta) = 32 /\ Bits(T) = 64
====
