CONSTANT Phi = 4
CONSTANT BSub = TRUE
INIT Init
NEXT Next
INVARIANT TableOk
INVARIANT OperandInv
INVARIANT AliasInv
INVARIANT SharedInv
INVARIANT FieldInv
CHECK_DEADLOCK FALSE
