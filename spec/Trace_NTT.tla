---- MODULE Trace_NTT ----
(* C03 / C04 / C05 / C19: recorded transform calls are compared with the DEFINITIONS, evaluated by TLC over the limb
   field: the DFT  out[k] = sum_j x_j w_n^(jk), its inverse, and the low-degree extension onto 7*<w_Next>, by Horner
   evaluation on several base vectors x per size (one seeded vector in mixed representations and structured ones:
   deltas with extreme values, constant p-1 / 2^64-1, alternating boundary values); column c of the input is m_c * x (checked on the logged input), so
   column c of the output must be m_c times the table row.  Any schedule / buffer use is accepted as long as the
   result is the definition, the source is preserved when the destination is another buffer, and the slack around
   exact-extent buffers is untouched.  A crash event is never accepted. *)
EXTENDS TraceBase
VARIABLE l
In == JsonDeserialize(IOEnv.NTTIN)        \* W: the library's root table (from the tree), X: base vectors, M: multipliers
MaxD == In.maxd
Wr(k) == In.W[k + 1]
Xv(d, v) == In.X[d + 1][v + 1]          \* base vector number v for size 2^d (0 = seeded mix; 1.. = structured: deltas, constants, extremes)
NV == In.nv
Mc(c) == In.M[c + 1]
Pow2(k) == 2^k
Seven == Small(7)
HalfW == <<1, 0, 0, B \div 2, B - 1, B - 1, B - 1, (B \div 2) - 1>>      \* (p+1)/2 = 1/2
RECURSIVE FPowN(_, _)
FPowN(b, k) == IF k = 0 THEN One8 ELSE IF k % 2 = 1 THEN FMul(b, FPowN(FMul(b, b), k \div 2)) ELSE FPowN(FMul(b, b), k \div 2)
RECURSIVE Horner(_, _, _, _)
Horner(c, x, i, acc) == IF i = 0 THEN acc ELSE Horner(c, x, i - 1, TLCEval(FAdd(FMul(acc, x), c[i])))
Eval(c, x) == Horner(c, x, Len(c), Zero8)
NInv(d) == FPowN(HalfW, d)
WInv(d) == FPowN(Wr(d), Pow2(d) - 1)
(* evaluation points as tables of VALUES (an operator argument is re-evaluated at every use inside a recursion) *)
XvT == TLCEval([d \in 0..MaxD |-> TLCEval([v \in 0..(NV - 1) |-> Xv(d, v)])])
FwdPts == TLCEval([d \in 0..MaxD |-> TLCEval([k \in 1..Pow2(d) |-> FPowN(Wr(d), k - 1)])])
InvPts == TLCEval([d \in 0..MaxD |-> TLCEval([k \in 1..Pow2(d) |-> FPowN(WInv(d), k - 1)])])
NInvT == TLCEval([d \in 0..MaxD |-> NInv(d)])
DftT == TLCEval([d \in 0..MaxD |-> TLCEval([v \in 0..(NV - 1) |-> TLCEval([k \in 1..Pow2(d) |-> Eval(XvT[d][v], FwdPts[d][k])])])])
IdftT == TLCEval([d \in 0..MaxD |-> TLCEval([v \in 0..(NV - 1) |-> TLCEval([k \in 1..Pow2(d) |-> FMul(NInvT[d], Eval(XvT[d][v], InvPts[d][k]))])])])
LdePts == TLCEval([d \in 0..MaxD |-> TLCEval([x \in 0..(MaxD - d) |-> TLCEval([k \in 1..Pow2(d + x) |-> FMul(Seven, FwdPts[d + x][k])])])])
LdeT == TLCEval([d \in 0..MaxD |-> TLCEval([x \in 0..(MaxD - d) |-> TLCEval([v \in 0..(NV - 1) |->
            TLCEval([k \in 1..Pow2(d + x) |-> Eval(IdftT[d][v], LdePts[d][x][k])])])])])
(* sanity of the root table taken from the tree: W[0] = 1, W[1] = -1, W[k]^2 = W[k-1] *)
ASSUME Wr(0) = One8 /\ Wr(1) = PM1 /\ \A k \in 1..32 : FMul(Wr(k), Wr(k)) = Canon(Wr(k - 1))
(* the two definitions are mutually inverse on the tables themselves (round trip) *)
ASSUME \A d \in 0..MaxD : \A v \in 0..(NV - 1) : \A k \in 1..Pow2(d) : FMul(NInvT[d], Eval(DftT[d][v], InvPts[d][k])) = Canon(XvT[d][v][k])
Table(e) == IF e.call = "ntt" THEN DftT[e.d][e.xv] ELSE IF e.call = "intt" THEN IdftT[e.d][e.xv] ELSE LdeT[e.d][e.x][e.xv]
Rows(e) == IF e.call = "ext" THEN Pow2(e.d + e.x) ELSE Pow2(e.d)
OutOk(e, out) ==
  /\ Len(out) = Rows(e) * e.ncols
  /\ LET T == Table(e) IN
     \A k \in 0..(Rows(e) - 1), c \in 0..(e.ncols - 1) : EqModP(out[k * e.ncols + c + 1], FMul(Mc(c), T[k + 1]))
OkInput(e) == LET n == Pow2(e.d) IN
  /\ Len(e.cells) = n * e.ncols
  /\ \A j \in 0..(n - 1), c \in 0..(e.ncols - 1) : EqModP(e.cells[j * e.ncols + c + 1], FMul(Mc(c), XvT[e.d][e.xv][j + 1]))
OkTr(e) == e.src_same /\ e.slack_ok /\ OutOk(e, e.out)
(* C19: the k-th call on the shared object returns exactly what a fresh object returns, and both are the definition *)
OkHist(e) == e.src_same /\ e.slack_ok /\ Len(e.out) = Len(e.fresh)
             /\ (\A i \in 1..Len(e.out) : EqModP(e.out[i], e.fresh[i])) /\ OutOk(e, e.out)
Ok(e) == CASE e.e = "input" -> OkInput(e) [] e.e = "tr" -> OkTr(e) [] e.e = "hist" -> OkHist(e) [] OTHER -> FALSE
Init == l = 1
Next == l <= Len(Tr) /\ Ok(Tr[l]) /\ l' = l + 1
Accepted == TLCGet("stats").diameter - 1 = Len(Tr)
====
