CONSTANT MaxBlocks = 4
INIT Init
NEXT Next
INVARIANT TypeOK
INVARIANT UniqueIds
CHECK_DEADLOCK FALSE
