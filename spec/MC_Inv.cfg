CONSTANT Phi = 16
SPECIFICATION Spec
INVARIANT Bezout
INVARIANT InvCorrect
INVARIANT ZeroRefused
INVARIANT NonZeroAnswered
INVARIANT Terminates
PROPERTY RemainderExact
CHECK_DEADLOCK FALSE
