---- MODULE Conv ----
(* C15: conversions between machine integers / big integers and field elements (goldilocks_base_field_tools.hpp),
   width-parametric.  A "word" is a 2W-bit pattern; signed views are two's complement.  What the code does
   differently from the mathematical definition is named: TruncRem is GMP's truncating `%`, GetUi is
   mpz_class::get_ui (magnitude, low 2W bits).  Legacy = TRUE reproduces the pinned tree before the fix: commits
   (D1: toS32 refuses -2^(W-1); D2: integers below -p map to the wrong residue). *)
EXTENDS GL
CONSTANT
  \* @type: Bool;
  Legacy
S2W(x) == IF x >= T \div 2 THEN x - T ELSE x           \* signed value of a 2W-bit word
U2W(z) == z % T                                         \* 2W-bit word of a signed value (static_cast<uint64_t>)
FromU(x) == x
FromS(z) == IF z < 0 THEN Wrap(U2W(z) + P) ELSE U2W(z)  \* (in1 < 0) ? uint64(in1) + PRIME : uint64(in1)
FromSW(z) == FromS(z)                                   \* int32 is sign-extended by the cast
ToU(x) == IF x >= P THEN x - P ELSE x
ToS(x) == LET o == ToU(x) IN IF o > (P - 1) \div 2 THEN 0 - (P - o) ELSE o
ToSW(x) == LET o == ToU(x)
               maxInt == Phi \div 2 - 1
               minInt == P - Phi \div 2
           IN IF o > maxInt
              THEN IF (IF Legacy THEN o > minInt ELSE o >= minInt) THEN [ok |-> TRUE, v |-> 0 - (P - o)] ELSE [ok |-> FALSE, v |-> 0]
              ELSE [ok |-> TRUE, v |-> o]
TruncRem(a, m) == IF a >= 0 THEN a % m ELSE 0 - ((0 - a) % m)
GetUi(a) == (IF a < 0 THEN 0 - a ELSE a) % T
FromInt(z) == IF Legacy THEN GetUi(TruncRem(z + P, P))
              ELSE LET aux == TruncRem(z, P) IN GetUi(IF aux < 0 THEN aux + P ELSE aux)
Centred(v) == IF v % P > (P - 1) \div 2 THEN (v % P) - P ELSE v % P
====
