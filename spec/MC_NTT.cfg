CONSTANTS Q = 97 G = 19 GOrd = 5 MaxS = 3
LegacySched = FALSE LegacyNull = FALSE LegacyInplace = FALSE
Calls = {"ntt", "intt", "ext"}
NCols = {0, 1, 3}
NPhases = {0, 1, 2, 3, 4, 1000000}
NBlocks = {0, 1, 2, 3, 1000000}
DstModes = {"same", "other", "null"}
BufModes = {"null", "caller"}
SPECIFICATION Spec
INVARIANT TypeOK
INVARIANT Correct
INVARIANT SrcPreserved
INVARIANT NoError
INVARIANT NoLeak
INVARIANT ScratchOnly
CHECK_DEADLOCK FALSE
