---- MODULE GL ----
(* The Goldilocks-shaped prime field, parametric in the half-word modulus Phi = 2^W.
   P = Phi^2 - Phi + 1; for Phi = 2^32 this is the Goldilocks prime 2^64 - 2^32 + 1.
   The identities the code's carry chains rely on hold for every Phi:
     Phi^2 = Phi - 1 (mod P)      Phi^3 = -1 (mod P)
   A "word" is any value in 0..T-1 (every 2W-bit pattern, canonical or not). *)
EXTENDS Integers
CONSTANT
  \* @type: Int;
  Phi
T == Phi * Phi
P == T - Phi + 1
CQ == Phi - 1            \* 2^W - 1 = T - P  (the code's CQ / P_n / GOLDILOCKS_PRIME_NEG)
MSB == T \div 2
Word == 0..(T - 1)
IsWord(x) == x >= 0 /\ x < T
Val(x) == x % P
IsCanon(x) == x >= 0 /\ x < P
Wrap(x) == x % T         \* machine arithmetic on 2W-bit registers
Hi(x) == x \div Phi
Lo(x) == x % Phi
FAdd(a, b) == (a + b) % P
FSub(a, b) == (a - b) % P
FMul(a, b) == (a * b) % P
FNeg(a) == (0 - a) % P
IsRep(x, v) == IsWord(x) /\ Val(x) = v % P
====
