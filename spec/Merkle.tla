---- MODULE Merkle ----
(* C08 (+C12 loop independence, C18 extents): the Merkle builders of poseidon_goldilocks.cpp over SYMBOLIC digests.
   The tree buffer is a sequence of 4-element slots (2*rows - 1 of them, the element-count helper / 4); the leaf loop and
   every level loop are sets of iterations that may run in ANY order (each iteration is one action), exactly as an
   OpenMP team may schedule them.  variant "single": one row per leaf iteration (seq / avx builders);
   variant "pair": the AVX512 builders hash two rows per iteration.  LegacyPair = TRUE is the pinned tree: the pair
   loop runs for i = 0, 2, ... < rows even when rows is odd (rows = 1), reading row 1 and writing slot 1 (D10). *)
EXTENDS Integers, Sequences, FiniteSets, TLC
CONSTANTS MaxRowsPow, MaxCols, MaxBatch, LegacyPair
VARIABLES rows, cols, dim, batch, variant, tree, phase, todo, pending, nextIndex, oob, garbageRead, race, acc
vars == <<rows, cols, dim, batch, variant, tree, phase, todo, pending, nextIndex, oob, garbageRead, race, acc>>
G == <<"garbage">>
NSlots == 2 * rows - 1
(* ---- batching arithmetic (element ranges of row i hashed by batch j) ---- *)
NBatches == IF batch = 0 THEN 0 ELSE IF cols > 0 THEN (cols + batch - 1) \div batch ELSE 1
NLast == cols - (NBatches - 1) * batch
BatchRange(j) == LET nn == IF j = NBatches - 1 THEN NLast ELSE batch IN [start |-> j * batch * dim, len |-> nn * dim]
(* leaf digest terms *)
RowHash(i) == <<"lh", i, 0, cols * dim>>                                   \* linear_hash of the whole row (C07)
BatchHash(i) == <<"lh", [j \in 0..(NBatches - 1) |-> <<"lh", i, BatchRange(j).start, BatchRange(j).len>>]>>
Leaf(i) == IF batch = 0 THEN RowHash(i) ELSE BatchHash(i)
Node(l, r) == <<"h", l, r>>                                                \* hash of (left | right | 0000), first four
(* ---- definition of the tree buffer ---- *)
RECURSIVE Levels(_, _)
Levels(cur, n) == IF n = 1 THEN <<>> ELSE LET nxt == [i \in 1..(n \div 2) |-> Node(cur[2 * i - 1], cur[2 * i])] IN nxt \o Levels(nxt, n \div 2)
TreeDef == LET leaves == [i \in 1..rows |-> Leaf(i - 1)] IN leaves \o Levels(leaves, rows)
Init == /\ rows \in {2^k : k \in 0..MaxRowsPow} /\ cols \in 0..MaxCols /\ dim \in {1, 3} /\ batch \in 0..MaxBatch
        /\ variant \in {"single", "pair"}
        /\ tree = [s \in 1..(2 * rows - 1) |-> G]
        /\ phase = "leaves"
        /\ todo = (IF variant = "single" THEN 0..(rows - 1)
                   ELSE {i \in 0..(rows - 1) : i % 2 = 0 /\ (LegacyPair \/ i + 1 < rows)} \cup (IF ~LegacyPair /\ rows % 2 = 1 THEN {-1} ELSE {}))
        /\ pending = rows /\ nextIndex = 0 /\ oob = FALSE /\ garbageRead = FALSE /\ race = FALSE /\ acc = {}
(* footprint of a leaf iteration: rows read, slots written *)
LeafRows(i) == IF i = -1 THEN {rows - 1} ELSE IF variant = "single" THEN {i} ELSE {i, i + 1}
LeafSlots(i) == {r + 1 : r \in LeafRows(i)}
LeafIter(i) ==
  /\ phase = "leaves" /\ i \in todo
  /\ LET rs == LeafRows(i) ws == LeafSlots(i) IN
       /\ oob' = (oob \/ \E r \in rs : r >= rows \/ \E s \in ws : s > NSlots)
       /\ race' = (race \/ (ws \cap acc # {}))
       /\ acc' = acc \cup ws
       /\ tree' = [s \in 1..NSlots |-> IF s \in ws THEN Leaf(s - 1) ELSE tree[s]]
  /\ todo' = todo \ {i}
  /\ UNCHANGED <<rows, cols, dim, batch, variant, phase, pending, nextIndex, garbageRead>>
StartLevel ==
  /\ phase \in {"leaves", "level"} /\ todo = {}
  /\ IF pending > 1
     THEN /\ phase' = "level" /\ todo' = 0..(((pending - 1) \div 2)) /\ acc' = {} /\ UNCHANGED <<pending, nextIndex>>
     ELSE /\ phase' = "done" /\ UNCHANGED <<todo, pending, nextIndex, acc>>
  /\ UNCHANGED <<rows, cols, dim, batch, variant, tree, oob, garbageRead, race>>
(* nextN = floor((pending-1)/2) + 1 iterations; iteration i reads slots nextIndex+2i, +2i+1, writes nextIndex+pending+i *)
LevelIter(i) ==
  /\ phase = "level" /\ i \in todo
  /\ LET l == nextIndex + 2 * i + 1 r == nextIndex + 2 * i + 2 w == nextIndex + pending + i + 1 IN
       /\ oob' = (oob \/ w > NSlots \/ r > NSlots)
       /\ IF w > NSlots \/ r > NSlots THEN UNCHANGED <<tree, garbageRead>>
          ELSE /\ garbageRead' = (garbageRead \/ tree[l] = G \/ tree[r] = G)
               /\ tree' = [tree EXCEPT ![w] = Node(tree[l], tree[r])]
       /\ race' = (race \/ w \in acc \/ l \in {x \in acc : x > nextIndex + pending} \/ r \in {x \in acc : x > nextIndex + pending})
       /\ acc' = acc \cup {w}
  /\ todo' = todo \ {i}
  /\ UNCHANGED <<rows, cols, dim, batch, variant, phase, pending, nextIndex>>
EndLevel ==
  /\ phase = "level" /\ todo = {} /\ pending > 1
  /\ nextIndex' = nextIndex + pending /\ pending' = pending \div 2
  /\ phase' = "leaves"            \* re-uses StartLevel's test (todo = {}): next level or done
  /\ UNCHANGED <<rows, cols, dim, batch, variant, tree, todo, oob, garbageRead, race, acc>>
Next == (\E i \in todo : LeafIter(i) \/ LevelIter(i)) \/ StartLevel \/ EndLevel
Spec == Init /\ [][Next]_vars
TreeOk == phase = "done" => tree = TreeDef
InBounds == ~oob
NoGarbage == ~garbageRead
NoRace == ~race
(* the batches of one row tile its elements exactly: every element in exactly one batch, nothing outside the row *)
BatchTiling == batch > 0 =>
   /\ \A j \in 0..(NBatches - 1) : BatchRange(j).len >= 0 /\ BatchRange(j).start + BatchRange(j).len <= cols * dim
   /\ \A x \in 0..(cols * dim - 1) : Cardinality({j \in 0..(NBatches - 1) : x >= BatchRange(j).start /\ x < BatchRange(j).start + BatchRange(j).len}) = 1
RootIsLast == phase = "done" => tree[NSlots] = TreeDef[NSlots]
====
