CONSTANT Phi = 8
CONSTANT EMax = 63
SPECIFICATION Spec
INVARIANT ExpCorrect
INVARIANT ExpInv
CHECK_DEADLOCK FALSE
