---- MODULE MC_NTTHist ----
(* C19 behaviour generator: every history of length <= MaxLen over the call alphabet below (the actions of NTTObject
   instantiated with concrete argument shapes), written as ndjson for the replay driver.  The replayed set is by
   construction the set enumerated here. *)
EXTENDS Integers, Sequences, FiniteSets, TLC, Json, IOUtils, SequencesExt
CONSTANT MaxLen
C(call, d, e, ncols, nphase, nblock, dst, buf) ==
  [call |-> call, d |-> d, e |-> e, ncols |-> ncols, nphase |-> nphase, nblock |-> nblock, dst |-> dst, buf |-> buf]
Alphabet == {
  C("ntt", 3, 0, 1, 3, 1, "same", "null"),
  C("ntt", 2, 0, 2, 2, 1, "other", "null"),
  C("ntt", 4, 0, 3, 3, 2, "null", "caller"),
  C("intt", 3, 0, 1, 3, 1, "same", "null"),
  C("intt", 1, 0, 2, 1, 2, "other", "caller"),
  C("intt", 4, 0, 1, 4, 1, "null", "null"),
  C("ext", 3, 1, 1, 3, 1, "other", "null"),
  C("ext", 2, 1, 2, 3, 1, "other", "null"),
  C("ext", 2, 2, 1, 2, 1, "same", "caller"),
  C("ext", 4, 0, 1, 3, 1, "other", "null"),
  C("ext", 1, 2, 3, 1000000, 2, "other", "null"),
  C("ext", 3, 0, 2, 2, 1, "same", "null") }
All == UNION {[1..n -> Alphabet] : n \in 1..MaxLen}
ASSUME ndJsonSerialize(IOEnv.HISTOUT, SetToSeq(All))
ASSUME PrintT(<<"histories", Cardinality(All)>>)
VARIABLE x
Init == x = 0
Next == UNCHANGED x
====
