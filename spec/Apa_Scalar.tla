---- MODULE Apa_Scalar ----
(* Full-width (Phi = 2^32) symbolic check of the generated scalar kernels with Apalache: all 2^128 operand
   pairs for add/sub/neg/inc/dec, all (hi,lo) 128-bit products for the mul reduction.  The 64x64->128 `mul`
   instruction itself is the trusted x86 primitive.  Kept apart from the TLC models because TLC cannot parse
   64-bit literals. *)
EXTENDS ScalarOps
VARIABLES
  \* @type: Int;
  a,
  \* @type: Int;
  b
ConstInit == Phi = 4294967296
Init == a \in 0..(T - 1) /\ b \in 0..(T - 1)
Next == UNCHANGED <<a, b>>
InvAdd == IsWord(Add(a, b)) /\ Val(Add(a, b)) = (a + b) % P
InvSub == IsWord(Sub(a, b)) /\ Val(Sub(a, b)) = (a - b) % P
InvNeg == IsWord(Neg(a)) /\ Val(Neg(a)) = (0 - a) % P
InvInc == IsWord(Inc(a)) /\ Val(Inc(a)) = (a + 1) % P
InvDec == IsWord(Dec(a)) /\ Val(Dec(a)) = (a - 1) % P
InvToU == IsCanon(ToU(a)) /\ Val(ToU(a)) = Val(a)
InvEq == Equal(a, b) = (Val(a) = Val(b))
(* a = hi, b = lo of a 128-bit product of two 64-bit words: hi*T + lo <= (T-1)^2 *)
InvMulRed == (a * T + b <= (T - 1) * (T - 1)) => (IsWord(MulRedProg(a, b)) /\ Val(MulRedProg(a, b)) = (a * T + b) % P)
(* the reduction chain is in fact exact for every 128-bit (hi,lo), product or not *)
InvMulRedAll == IsWord(MulRedProg(a, b)) /\ Val(MulRedProg(a, b)) = (a * T + b) % P
====
