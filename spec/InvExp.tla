---- MODULE InvExp ----
(* C10: Goldilocks::inv (extended Euclid on 2W-bit machine words, with the subtractions and products done by
   the *field* kernels, as in the code) and Goldilocks::exp (right-to-left square and multiply).
   One action per loop iteration.  "exit" models exit(-1) after the diagnostic. *)
EXTENDS ScalarOps
VARIABLES mode, a, e, t, r, newt, newr, res, base, ex, pc, steps
vars == <<mode, a, e, t, r, newt, newr, res, base, ex, pc, steps>>
InitInv == /\ mode = "inv" /\ a \in Word /\ e = 0
           /\ t = 0 /\ r = 0 /\ newt = 0 /\ newr = 0 /\ res = 0 /\ base = 0 /\ ex = 0 /\ pc = "start" /\ steps = 0
InitExp(Es) == /\ mode = "exp" /\ a \in Word /\ e \in Es
               /\ t = 0 /\ r = 0 /\ newt = 0 /\ newr = 0 /\ res = 0 /\ base = 0 /\ ex = 0 /\ pc = "start" /\ steps = 0
InvStart == /\ mode = "inv" /\ pc = "start"
            /\ IF IsZero(a) THEN pc' = "exit" /\ UNCHANGED <<t, r, newt, newr>>
               ELSE /\ t' = 0 /\ r' = P /\ newt' = 1 /\ newr' = ToU(a) /\ pc' = "loop"
            /\ UNCHANGED <<mode, a, e, res, base, ex, steps>>
InvStep == /\ mode = "inv" /\ pc = "loop" /\ newr # 0
           /\ LET q == r \div newr IN
                /\ t' = ToU(newt)
                /\ newt' = ToU(Sub(t, Mul(q, newt)))
                /\ r' = ToU(newr)
                /\ newr' = ToU(Sub(r, Mul(q, newr)))
           /\ steps' = steps + 1
           /\ UNCHANGED <<mode, a, e, res, base, ex, pc>>
InvDone == /\ mode = "inv" /\ pc = "loop" /\ newr = 0
           /\ res' = t /\ pc' = "done"
           /\ UNCHANGED <<mode, a, e, t, r, newt, newr, base, ex, steps>>
ExpStart == /\ mode = "exp" /\ pc = "start"
            /\ res' = One /\ base' = a /\ ex' = e /\ pc' = "loop"
            /\ UNCHANGED <<mode, a, e, t, r, newt, newr, steps>>
ExpStep == /\ mode = "exp" /\ pc = "loop"
           /\ LET r1 == IF ex % 2 = 1 THEN Mul(res, base) ELSE res
                  e1 == ex \div 2
              IN /\ res' = r1 /\ ex' = e1
                 /\ IF e1 = 0 THEN pc' = "done" /\ base' = base ELSE pc' = "loop" /\ base' = Mul(base, base)
           /\ steps' = steps + 1
           /\ UNCHANGED <<mode, a, e, t, r, newt, newr>>
Next == InvStart \/ InvStep \/ InvDone \/ ExpStart \/ ExpStep
RECURSIVE PowM(_, _)
PowM(b, k) == IF k = 0 THEN 1 ELSE (b * PowM(b, k - 1)) % P
(* --- invariants --- *)
Bezout == (mode = "inv" /\ pc = "loop") =>
            /\ (t * a) % P = r % P /\ (newt * a) % P = newr % P
            /\ IsCanon(t) /\ IsCanon(newt) /\ newr < r /\ r <= P
(* the field subtraction coincides with the integer remainder: 0 <= r - q*newr < newr *)
RemainderExact == [][InvStep => newr' = r % newr]_vars
InvCorrect == (mode = "inv" /\ pc = "done") => (FMul(a, res) = 1 /\ IsCanon(res) /\ r = 1)
ZeroRefused == (mode = "inv" /\ Val(a) = 0) => pc \in {"start", "exit"}
NonZeroAnswered == (mode = "inv" /\ pc = "exit") => Val(a) = 0
Terminates == steps <= 4 * 32 + 2
ExpCorrect == (mode = "exp" /\ pc = "done") => Val(res) = PowM(Val(a), e)
ExpInv == (mode = "exp" /\ pc = "loop") => (Val(res) * PowM(Val(base), ex)) % P = PowM(Val(a), e)
====
