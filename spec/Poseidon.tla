---- MODULE Poseidon ----
(* C06: the Poseidon permutation of poseidon_goldilocks.cpp over the limb field: 4 full rounds (the 4th with the
   pre-matrix P), 22 partial rounds with the sparse S rows, 4 full rounds, S-box x^7.  The constant tables are the
   ones the library was compiled with (dumped by the driver's `consts` event into the JSON file PCONST).
   Also: the flattened copies M_ / P_ used by the vector kernels, the preconditions the vector code relies on, and
   the two-state interleaved layout of the AVX512 variant. *)
EXTENDS W64, Integers, Sequences, TLC, Json, IOUtils
K == JsonDeserialize(IOEnv.PCONST)
Cc(i) == K.C[i + 1]
Mm(j, i) == K.M[12 * j + i + 1]          \* M[j][i]
Pp(j, i) == K.P[12 * j + i + 1]
Ss(i) == K.S[i + 1]
T12(F(_)) == <<F(1), F(2), F(3), F(4), F(5), F(6), F(7), F(8), F(9), F(10), F(11), F(12)>>
Sum12(G(_)) == FAdd(G(1), FAdd(G(2), FAdd(G(3), FAdd(G(4), FAdd(G(5), FAdd(G(6), FAdd(G(7), FAdd(G(8), FAdd(G(9), FAdd(G(10), FAdd(G(11), G(12))))))))))))
AddC(st, off) == T12(LAMBDA i : FAdd(st[i], Cc(off + i - 1)))
Pow7All(st) == T12(LAMBDA i : FPow7(st[i]))
(* mvp_: state[i] = sum_j mat[j][i] * old[j] *)
MvpM(st) == T12(LAMBDA i : Sum12(LAMBDA j : FMul(Mm(j - 1, i - 1), st[j])))
MvpP(st) == T12(LAMBDA i : Sum12(LAMBDA j : FMul(Pp(j - 1, i - 1), st[j])))
FullM(st, off) == MvpM(AddC(Pow7All(st), off))
(* one partial round r (0-based) *)
Partial(st, r) ==
  LET s0 == FAdd(FPow7(st[1]), Cc(5 * 12 + r))
      st1 == [st EXCEPT ![1] = s0]
      d == Sum12(LAMBDA i : FMul(st1[i], Ss(23 * r + i - 1)))
      w == T12(LAMBDA i : FAdd(st1[i], FMul(s0, Ss(23 * r + 11 + i - 1))))
  IN [w EXCEPT ![1] = d]
RECURSIVE Partials(_, _)
Partials(st, r) == IF r = 22 THEN st ELSE Partials(TLCEval(Partial(st, r)), r + 1)
Perm(inp) ==
  LET a0 == AddC(inp, 0)
      a1 == TLCEval(FullM(a0, 12))
      a2 == TLCEval(FullM(a1, 24))
      a3 == TLCEval(FullM(a2, 36))
      a4 == TLCEval(MvpP(AddC(Pow7All(a3), 48)))
      b == Partials(a4, 0)
      c1 == TLCEval(FullM(b, 5 * 12 + 22))
      c2 == TLCEval(FullM(c1, 5 * 12 + 22 + 12))
      c3 == TLCEval(FullM(c2, 5 * 12 + 22 + 24))
  IN MvpM(Pow7All(c3))
(* ---- facts about the tables the vector code relies on ---- *)
(* M_ / P_ are the row-major flattenings the vector matrix product consumes: b[i] = sum_j M_[12 i + j] s[j] must be mvp_ *)
FlatOk == \A i \in 0..11, j \in 0..11 : K.M_[12 * i + j + 1] = Mm(j, i) /\ K.P_[12 * i + j + 1] = Pp(j, i)
(* the 8-bit product kernels are only exact for coefficients below 2^8 *)
MSmall == \A i \in 1..144 : \A k \in 2..8 : K.M_[i][k] = 0
(* add_avx_b_small / add_avx512_b_c need the constant <= 0xFFFFFFFF00000000 (canonical): every C used by them *)
CCanon == \A i \in 1..118 : IsCanon(K.C[i])
(* ---- AVX512 layout: two states interleaved four lanes at a time ---- *)
Lane512(slot, i) == 8 * ((i - 1) \div 4) + 4 * slot + ((i - 1) % 4) + 1        \* position of element i (1..12) of state `slot`
Slot(v24, slot) == T12(LAMBDA i : v24[Lane512(slot, i)])
EqV(a, b) == Len(a) = Len(b) /\ \A i \in 1..Len(a) : EqModP(a[i], b[i])
====
