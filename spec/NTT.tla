---- MODULE NTT ----
(* C03/C04/C05 (+C18 extents/allocations, C12 pass structure): the transform scheduler of ntt_goldilocks.cpp as a
   state machine.  One action per critical section of the code: entry/clamping/allocation, per column block the
   bit-reversal (three variants), every batch pass (with the ping-pong swap), the fused last inverse pass, the
   fallback copy / assert, the block scatter, and the exit/free.  extendPol is the two-leg composition
   INTT(extend) ; NTT on a second object with extension = N_ext/N.

   Data live in a small prime field F_Q that has the needed roots of unity (G of order 2^GOrd, shift 7); every cell
   holds a field value; the input is a basis vector scaled by (column+1), so equality with the DFT-matrix row
   is correctness for all inputs over F_Q by linearity, and column mixing is visible.  UNDEF marks garbage
   (caller buffers / fresh mallocs) - reading it is an error.

   The specification models the REPAIRED scheduler; Legacy* = TRUE re-enable the pinned tree's behaviour:
     LegacySched   batch size derived from the object's s instead of the call's log2(size)      (D4)
     LegacyNull    NTT() does not map a NULL destination to the source                           (D5)
     LegacyInplace in-place bit reversal with extension > 1 is assert(0)                         (D6)  *)
EXTENDS Integers, Sequences, FiniteSets, TLC
CONSTANTS Q, G, GOrd, MaxS, LegacySched, LegacyNull, LegacyInplace,
          Calls, NCols, NPhases, NBlocks, DstModes, BufModes
UNDEF == -1
Pow2(k) == 2^k
RECURSIVE PowM(_, _)
PowM(b, e) == IF e = 0 THEN 1 ELSE (b * PowM(b, e - 1)) % Q
InvM(x) == PowM(x, Q - 2)
Wk(k) == PowM(G, Pow2(GOrd - k))          \* the library's primitive 2^k-th root W[k]
Shift == 7 % Q
RECURSIVE BRr(_, _, _)
BRr(x, bits, acc) == IF bits = 0 THEN acc ELSE BRr(x \div 2, bits - 1, (acc * 2) + (x % 2))
BR(x, bits) == BRr(x, bits, 0)
Min(x, y) == IF x < y THEN x ELSE y
Huge == 1000000                           \* stands for "any larger uint64" in nphase / nblock

VARIABLES cfg,      \* the call: [call, S, d, e, ncols, nphase, nblock, dstMode, bufMode, J]
          mem,      \* buffer name -> function 0..len-1 -> value
          live,     \* set of internally allocated buffers not yet freed
          pc, leg,
          lv,       \* per-leg locals: [S, size, dpow, inverse, extend, extension, src, dst, buffer]
          bl,       \* per-NTT()-call locals: [nblock, ncb, ncres, ncalloc, aux, dstb, ib, off]
          it,       \* per-NTT_iters locals: [a, a2, dstp, np, mb, res, s, count, nc]
          err, npass
vars == <<cfg, mem, live, pc, leg, lv, bl, it, err, npass>>

N(c) == Pow2(c.d)
NExt(c) == Pow2(c.d + c.e)
ValidCfg(c) ==
  /\ (c.call = "ext" => c.dstMode # "null" /\ c.ncols >= 1)
  /\ (c.call # "ext" => c.e = 0)
  /\ (c.ncols = 0 => c.J = 0 /\ c.nblock = 1 /\ c.nphase = 3)
Fill(len, v) == [i \in 0..(len - 1) |-> v]
(* caller memory: "in" holds the input matrix (rows x ncols, row-major); when the destination is the same buffer
   for extendPol it has N_ext rows of which the first N are input and the rest garbage *)
InputCell(c, i) == LET row == i \div c.ncols col == i % c.ncols IN
                     IF row >= N(c) THEN UNDEF ELSE IF row = c.J THEN (col + 1) % Q ELSE 0
OutRows(c) == IF c.call = "ext" THEN NExt(c) ELSE N(c)
InitMem(c) ==
  [b \in {"in", "out", "buf", "aux", "blk", "tmp"} |->
     IF b = "in" THEN [i \in 0..((IF c.dstMode = "other" THEN N(c) ELSE OutRows(c)) * c.ncols - 1) |-> InputCell(c, i)]
     ELSE IF b = "out" /\ c.dstMode = "other" THEN Fill(OutRows(c) * c.ncols, UNDEF)
     ELSE IF b = "buf" /\ c.bufMode = "caller" THEN Fill(OutRows(c) * c.ncols, UNDEF)
     ELSE <<>>]
(* Init fixes the coarse part of the configuration; Choose (a parallelisable step) picks the rest *)
Coarse == {[call |-> ca, S |-> S, d |-> d, e |-> e, ncols |-> 1, nphase |-> 3, nblock |-> 1, dstMode |-> "same", bufMode |-> "null", J |-> j] :
             ca \in Calls, S \in 0..MaxS, d \in 0..MaxS, e \in 0..MaxS, j \in 0..(Pow2(MaxS) - 1)}
Init == /\ cfg \in {c \in Coarse : c.d <= c.S /\ c.J < Pow2(c.d) /\ (c.call = "ext" => c.d + c.e <= MaxS) /\ (c.call # "ext" => c.e = 0)}
        /\ mem = <<>> /\ live = {} /\ pc = "choose" /\ leg = 1
        /\ lv = [S |-> 0, size |-> 0, dpow |-> 0, inverse |-> FALSE, extend |-> FALSE, extension |-> 1, src |-> "in", dst |-> "in", buffer |-> "null"]
        /\ bl = [nblock |-> 1, ncb |-> 0, ncres |-> 0, ncalloc |-> 0, aux |-> "null", dstb |-> "null", ib |-> 0, off |-> 0]
        /\ it = [a |-> "null", a2 |-> "null", dstp |-> "null", np |-> 1, mb |-> 0, res |-> 0, s |-> 1, count |-> 1, nc |-> 0]
        /\ err = "none" /\ npass = 0
Choose == /\ pc = "choose"
          /\ \E nc \in NCols, np \in NPhases, nb \in NBlocks, dm \in DstModes, bm \in BufModes :
               LET c == [cfg EXCEPT !.ncols = nc, !.nphase = np, !.nblock = nb, !.dstMode = dm, !.bufMode = bm] IN
               /\ ValidCfg(c) /\ cfg' = c /\ mem' = InitMem(c)
          /\ pc' = "call" /\ UNCHANGED <<live, leg, lv, bl, it, err, npass>>

DstName(c) == IF c.dstMode = "other" THEN "out" ELSE IF c.dstMode = "same" THEN "in" ELSE "null"
BufName(c) == IF c.bufMode = "caller" THEN "buf" ELSE "null"
(* ---- the public entry points: set up the leg ---- *)
Call ==
  /\ pc = "call"
  /\ LET c == cfg IN
     CASE c.call = "ntt" ->
            lv' = [S |-> c.S, size |-> N(c), dpow |-> c.d, inverse |-> FALSE, extend |-> FALSE, extension |-> 1,
                   src |-> "in", dst |-> DstName(c), buffer |-> BufName(c)]
       [] c.call = "intt" ->    \* INTT(): a NULL destination means in place
            lv' = [S |-> c.S, size |-> N(c), dpow |-> c.d, inverse |-> TRUE, extend |-> FALSE, extension |-> 1,
                   src |-> "in", dst |-> (IF c.dstMode = "null" THEN "in" ELSE DstName(c)), buffer |-> BufName(c)]
       [] c.call = "ext" ->     \* extendPol leg 1: INTT(output, input, N, ncols, tmp, nphase, nblock, extend = true)
            lv' = [S |-> c.S, size |-> N(c), dpow |-> c.d, inverse |-> TRUE, extend |-> TRUE, extension |-> 1,
                   src |-> "in", dst |-> DstName(c), buffer |-> (IF c.bufMode = "caller" THEN "buf" ELSE "tmp")]
  /\ IF cfg.call = "ext" /\ cfg.bufMode = "null"
     THEN mem' = [mem EXCEPT !["tmp"] = Fill(NExt(cfg) * cfg.ncols, UNDEF)] /\ live' = live \cup {"tmp"}
     ELSE UNCHANGED <<mem, live>>
  /\ pc' = "enter" /\ UNCHANGED <<cfg, leg, bl, it, err, npass>>

(* ---- NTT(): early return, clamps, allocations ---- *)
Enter ==
  /\ pc = "enter"
  /\ IF cfg.ncols = 0 \/ lv.size = 0
     THEN pc' = "legdone" /\ UNCHANGED <<mem, live, bl, lv, err>>
     ELSE LET nb0 == IF cfg.nblock < 1 THEN 1 ELSE IF cfg.nblock > cfg.ncols THEN cfg.ncols ELSE cfg.nblock
              ncb == cfg.ncols \div nb0
              ncres == cfg.ncols % nb0
              ncalloc == IF ncres > 0 THEN ncb + 1 ELSE ncb
              dst1 == IF lv.dst = "null" /\ ~LegacyNull THEN lv.src ELSE lv.dst
              needAux == lv.buffer = "null"
              auxName == IF needAux THEN "aux" ELSE lv.buffer
              dstb == IF nb0 > 1 THEN "blk" ELSE dst1
          IN /\ lv' = [lv EXCEPT !.dst = dst1]
             /\ bl' = [nblock |-> nb0, ncb |-> ncb, ncres |-> ncres, ncalloc |-> ncalloc, aux |-> auxName, dstb |-> dstb, ib |-> 0, off |-> 0]
             /\ mem' = [mem EXCEPT !["aux"] = IF needAux THEN Fill(lv.size * ncalloc, UNDEF) ELSE @,
                                   !["blk"] = IF nb0 > 1 THEN Fill(lv.size * ncalloc, UNDEF) ELSE @]
             /\ live' = live \cup (IF needAux THEN {"aux"} ELSE {}) \cup (IF nb0 > 1 THEN {"blk"} ELSE {})
             /\ pc' = "block" /\ UNCHANGED err
  /\ UNCHANGED <<cfg, leg, it, npass>>

BlockCols == IF bl.ib < bl.ncres THEN bl.ncb + 1 ELSE bl.ncb
(* ---- NTT_iters prologue: clamp nphase, batch sizes, choose the reversal target by parity ---- *)
Block ==
  /\ pc = "block"
  /\ IF bl.ib >= bl.nblock THEN pc' = "exit" /\ UNCHANGED it
     ELSE LET dstp == IF bl.dstb # "null" THEN bl.dstb ELSE lv.src
              np0 == IF cfg.nphase < 1 \/ lv.dpow = 0 THEN 1 ELSE IF cfg.nphase > lv.dpow THEN lv.dpow ELSE cfg.nphase
              base == IF LegacySched THEN (IF lv.S = 0 THEN 1 ELSE lv.S) ELSE lv.dpow   \* constructor: s >= 1
              mb0 == base \div np0
              r0 == base % np0
              mb == IF r0 > 0 THEN mb0 + 1 ELSE mb0
          IN /\ it' = [a |-> dstp, a2 |-> bl.aux, dstp |-> dstp, np |-> np0, mb |-> mb, res |-> r0, s |-> 1, count |-> 1, nc |-> BlockCols]
             /\ pc' = "reverse"
  /\ UNCHANGED <<cfg, mem, live, leg, lv, bl, err, npass>>

BLen(b) == IF b = "null" THEN 0 ELSE IF DOMAIN mem[b] = {} THEN 0 ELSE Cardinality(DOMAIN mem[b])
(* checked read / write helpers *)
Rd(b, i) == mem[b][i]
(* ---- reversePermutation(tmp, src, ...) ---- *)
Reverse ==
  /\ pc = "reverse"
  /\ LET odd == it.np % 2 = 1
         tgt == IF odd THEN it.a2 ELSE it.a
         src == lv.src
         size == lv.size
         nc == it.nc
         nca == cfg.ncols
         off == bl.off
         rowsIn == size \div lv.extension
         newa == IF odd THEN it.a2 ELSE it.a
         newa2 == IF odd THEN it.a ELSE it.a2
     IN
     IF tgt = "null" \/ src = "null" THEN err' = "nullderef" /\ pc' = "stop" /\ UNCHANGED <<mem, it>>
     ELSE IF tgt # src
     THEN \* out-of-place: dst[i*nc + k] = src[BR(i)*nca + off + k]  (zero rows beyond size/extension)
          LET need == size * nc
              srcNeed == IF lv.extension <= 1 THEN (size - 1) * nca + off + nc ELSE (rowsIn - 1) * nca + off + nc
              val(i, k) == LET r == BR(i, lv.dpow) IN
                             IF lv.extension > 1 /\ r * nca + off >= rowsIn * nca THEN 0 ELSE Rd(src, r * nca + off + k)
          IN IF need > BLen(tgt) \/ srcNeed > BLen(src) THEN err' = "oob" /\ pc' = "stop" /\ UNCHANGED <<mem, it>>
             ELSE IF \E i \in 0..(size - 1), k \in 0..(nc - 1) : val(i, k) = UNDEF THEN err' = "uninit" /\ pc' = "stop" /\ UNCHANGED <<mem, it>>
             ELSE /\ mem' = [mem EXCEPT ![tgt] = [x \in DOMAIN mem[tgt] |-> IF x < need THEN val(x \div nc, x % nc) ELSE mem[tgt][x]]]
                  /\ it' = [it EXCEPT !.a = newa, !.a2 = newa2]
                  /\ pc' = "pass" /\ UNCHANGED err
     ELSE \* in place
          IF ~(off = 0 /\ nc = nca) THEN err' = "abort" /\ pc' = "stop" /\ UNCHANGED <<mem, it>>
          ELSE IF lv.extension > 1 /\ LegacyInplace THEN err' = "abort" /\ pc' = "stop" /\ UNCHANGED <<mem, it>>
          ELSE LET need == size * nc
                   val(i, k) == LET r == BR(i, lv.dpow) IN IF r >= rowsIn THEN 0 ELSE Rd(src, r * nc + k)
               IN IF need > BLen(tgt) THEN err' = "oob" /\ pc' = "stop" /\ UNCHANGED <<mem, it>>
                  ELSE IF \E i \in 0..(size - 1), k \in 0..(nc - 1) : val(i, k) = UNDEF THEN err' = "uninit" /\ pc' = "stop" /\ UNCHANGED <<mem, it>>
                  ELSE /\ mem' = [mem EXCEPT ![tgt] = [x \in DOMAIN mem[tgt] |-> IF x < need THEN val(x \div nc, x % nc) ELSE mem[tgt][x]]]
                       /\ it' = [it EXCEPT !.a = newa, !.a2 = newa2]
                       /\ pc' = "pass" /\ UNCHANGED err
  /\ UNCHANGED <<cfg, live, leg, lv, bl, npass>>

(* the object's root table: roots[idx << (S - domainPow)], roots[1] = W[S] *)
Root(domainPow, idx) == PowM(Wk(lv.S), idx * Pow2(lv.S - domainPow))
(* one butterfly stage of batch b, on a whole-buffer function *)
Stage(buf, b, batchSize, sv, si, nc) ==
  LET mdiv2i == Pow2(si)
      mi == mdiv2i * 2
      re == lv.dpow - 1
      rs == sv - 1
      rb == Pow2(rs)
      rm == Pow2(re - rs) - 1
      mdiv2 == Pow2(sv + si - 1)
      tw(i) == LET j0 == b * (batchSize \div 2) + i
                   j1 == (j0 % (rm + 1)) * rb + (j0 \div Pow2(re - rs))
               IN Root(sv + si, j1 % mdiv2)
      lo(i) == b * batchSize + ((i \div mdiv2i) * mi) + (i % mdiv2i)
  IN [x \in DOMAIN buf |->
        LET row == x \div nc k == x % nc IN
        IF row \div batchSize # b \/ row >= lv.size THEN buf[x]
        ELSE LET offr == row - b * batchSize
                 isHi == (offr \div mdiv2i) % 2 = 1
                 i == ((offr \div mi) * mdiv2i) + (offr % mdiv2i)
                 u == buf[lo(i) * nc + k]
                 t == (tw(i) * buf[(lo(i) + mdiv2i) * nc + k]) % Q
             IN IF isHi THEN (u - t + Q) % Q ELSE (u + t) % Q]
RECURSIVE Stages(_, _, _, _, _, _, _)
Stages(buf, b, batchSize, sv, si, sInc, nc) == IF si = sInc THEN buf ELSE Stages(Stage(buf, b, batchSize, sv, si, nc), b, batchSize, sv, si + 1, sInc, nc)
RECURSIVE AllBatches(_, _, _, _, _, _, _)
AllBatches(buf, b, nB, batchSize, sv, sInc, nc) == IF b = nB THEN buf ELSE AllBatches(Stages(buf, b, batchSize, sv, 0, sInc, nc), b + 1, nB, batchSize, sv, sInc, nc)
IdxInv(i, n) == IF i = 0 THEN 0 ELSE n - i
(* r_[i] = shift^i / N for the extend leg;  powTwoInv[domainPow] = 1/N otherwise *)
Scale(y) == IF lv.extend THEN (PowM(Shift, y) * InvM(lv.size % Q)) % Q ELSE InvM(lv.size % Q)

(* ---- one batch pass: butterflies on a, transposed copy (or fused inverse scaling) into a2, swap ---- *)
Pass ==
  /\ pc = "pass" /\ it.s <= lv.dpow
  /\ LET mb == IF it.res > 0 /\ it.count = it.res + 1 /\ it.mb > 1 THEN it.mb - 1 ELSE it.mb
         sInc == IF it.s + mb <= lv.dpow THEN mb ELSE lv.dpow - it.s + 1
         batchSize == Pow2(sInc)
         nB == lv.size \div batchSize
         nc == it.nc
         need == lv.size * nc
         lastInv == ~(it.s + mb <= lv.dpow \/ ~lv.inverse)
     IN IF it.a = "null" \/ it.a2 = "null" THEN err' = "nullderef" /\ pc' = "stop" /\ UNCHANGED <<mem, it, npass>>
        ELSE IF need > BLen(it.a) \/ need > BLen(it.a2) THEN err' = "oob" /\ pc' = "stop" /\ UNCHANGED <<mem, it, npass>>
        ELSE LET worked == AllBatches(mem[it.a], 0, nB, batchSize, it.s, sInc, nc)
                 a2n == [x \in DOMAIN mem[it.a2] |->
                           IF x >= need THEN mem[it.a2][x]
                           ELSE LET y == x \div nc k == x % nc
                                    y0 == IF lastInv THEN IdxInv(y, lv.size) ELSE y
                                    xx == y0 \div nB
                                    b == y0 % nB
                                    v == worked[(b * batchSize + xx) * nc + k]
                                IN IF lastInv THEN (v * Scale(y)) % Q ELSE v]
             IN /\ mem' = [mem EXCEPT ![it.a] = worked, ![it.a2] = a2n]
                /\ it' = [it EXCEPT !.a = it.a2, !.a2 = it.a, !.mb = mb, !.s = it.s + mb, !.count = it.count + 1]
                /\ npass' = npass + 1
                /\ pc' = "pass" /\ UNCHANGED err
  /\ UNCHANGED <<cfg, live, leg, lv, bl>>

(* ---- after the passes: the result must be in dst_; otherwise assert(0) (or the 1-row fallback copy) ---- *)
Finish ==
  /\ pc = "pass" /\ it.s > lv.dpow
  /\ IF it.a # it.dstp
     THEN IF lv.size > 1 THEN err' = "abort" /\ pc' = "stop" /\ UNCHANGED mem
          ELSE /\ mem' = [mem EXCEPT ![it.dstp] = [x \in DOMAIN @ |-> IF x < lv.size * it.nc THEN mem[it.a][x] ELSE @[x]]]   \* parcpy
               /\ pc' = "scatter" /\ UNCHANGED err
     ELSE pc' = "scatter" /\ UNCHANGED <<mem, err>>
  /\ UNCHANGED <<cfg, live, leg, lv, bl, it, npass>>

(* ---- nblock > 1: copy the block's columns into the caller's destination ---- *)
Scatter ==
  /\ pc = "scatter"
  /\ IF bl.nblock > 1
     THEN IF lv.dst = "null" THEN err' = "nullderef" /\ pc' = "stop" /\ UNCHANGED mem
          ELSE LET nc == it.nc nca == cfg.ncols off == bl.off IN
               IF (lv.size - 1) * nca + off + nc > BLen(lv.dst) THEN err' = "oob" /\ pc' = "stop" /\ UNCHANGED mem
               ELSE /\ mem' = [mem EXCEPT ![lv.dst] = [x \in DOMAIN @ |->
                                 LET row == x \div nca col == x % nca IN
                                 IF row < lv.size /\ col >= off /\ col < off + nc THEN mem["blk"][row * nc + (col - off)] ELSE @[x]]]
                    /\ pc' = "block" /\ UNCHANGED err
     ELSE pc' = "block" /\ UNCHANGED <<mem, err>>
  /\ bl' = [bl EXCEPT !.ib = bl.ib + 1, !.off = bl.off + it.nc]
  /\ UNCHANGED <<cfg, live, leg, lv, it, npass>>

(* ---- NTT() epilogue: free what was allocated ---- *)
Exit ==
  /\ pc = "exit"
  /\ live' = live \ ((IF bl.nblock > 1 THEN {"blk"} ELSE {}) \cup (IF lv.buffer = "null" THEN {"aux"} ELSE {}))
  /\ mem' = [mem EXCEPT !["blk"] = IF bl.nblock > 1 THEN <<>> ELSE @, !["aux"] = IF lv.buffer = "null" THEN <<>> ELSE @]
  /\ pc' = "legdone" /\ UNCHANGED <<cfg, leg, lv, bl, it, err, npass>>

(* ---- extendPol leg 2: ntt_extension.NTT(output, output, N_ext, ncols, tmp, nphase, nblock), extension = N_ext/N ---- *)
LegDone ==
  /\ pc = "legdone"
  /\ IF cfg.call = "ext" /\ leg = 1
     THEN /\ leg' = 2
          /\ lv' = [S |-> cfg.d + cfg.e, size |-> NExt(cfg), dpow |-> cfg.d + cfg.e, inverse |-> FALSE, extend |-> FALSE,
                    extension |-> Pow2(cfg.e), src |-> DstName(cfg), dst |-> DstName(cfg), buffer |-> lv.buffer]
          /\ pc' = "enter" /\ UNCHANGED <<mem, live>>
     ELSE /\ pc' = "done" /\ UNCHANGED <<leg, lv>>
          /\ live' = live \ {"tmp"}                        \* extendPol frees its own scratch
          /\ mem' = [mem EXCEPT !["tmp"] = <<>>]
  /\ UNCHANGED <<cfg, bl, it, err, npass>>

Next == Choose \/ Call \/ Enter \/ Block \/ Reverse \/ Pass \/ Finish \/ Scatter \/ Exit \/ LegDone
Spec == Init /\ [][Next]_vars

(* ======================= properties ======================= *)
Jv == cfg.J
Nn == N(cfg)
WnF == Wk(cfg.d)
(* the definitions *)
DftRow(k) == PowM(WnF, (Jv * k) % Nn)                                     \* sum_j delta_{jJ} w^{jk}
IdftRow(k) == (PowM(InvM(WnF), (Jv * k) % Nn) * InvM(Nn % Q)) % Q
(* LDE: coefficients c_i = (1/N) w^{-iJ}; value at g * w_ext^k *)
RECURSIVE HornerSum(_, _, _)
HornerSum(x, i, acc) == IF i < 0 THEN acc ELSE HornerSum(x, i - 1, (acc * x + IdftRow(i)) % Q)
LdeRow(k) == HornerSum((Shift * PowM(Wk(cfg.d + cfg.e), k)) % Q, Nn - 1, 0)
ExpectedRow(k) == IF cfg.call = "ntt" THEN DftRow(k) ELSE IF cfg.call = "intt" THEN IdftRow(k) ELSE LdeRow(k)
OutBuf == IF cfg.dstMode = "other" THEN "out" ELSE "in"
Correct == (pc = "done" /\ cfg.ncols > 0) =>
             \A k \in 0..(OutRows(cfg) - 1), c \in 0..(cfg.ncols - 1) :
                mem[OutBuf][k * cfg.ncols + c] = ((c + 1) * ExpectedRow(k)) % Q
SrcPreserved == (pc = "done" /\ cfg.dstMode = "other") => mem["in"] = InitMem(cfg)["in"]
NoError == err = "none"
NoLeak == pc = "done" => live = {}
ScratchOnly == pc = "done" => (cfg.ncols = 0 => mem = InitMem(cfg))
TypeOK == pc \in {"choose", "call", "enter", "block", "reverse", "pass", "scatter", "exit", "legdone", "done", "stop"}
(* the pass count has the parity that leaves the result in the destination *)
PassBound == npass <= 2 * (MaxS + 1)
====
