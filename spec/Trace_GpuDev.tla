---- MODULE Trace_GpuDev ----
(* G01: the GPU device code (goldilocks_cubic_extension.cuh, the __device__/__global__ functions of poseidon_goldilocks.cu)
   executed on the host on top of the PTX executor generated from gl64_t.cuh, judged by the specifications of the CPU
   library.  Events of the existing trace specifications are judged by those specifications unchanged:
     "c3" "conv3" "isone"  Trace_Cubic    (scalar semantics of F_p[x]/(x^3 - x - 1))
     "iter"                Trace_Poseidon (device hash_full_result_seq = CPU permutation = Poseidon.Perm re-derived by TLC)
     "lh"                  Trace_Sponge   (kernels linear_hash_gpu and linear_partial_*: the rate-8 capacity-4 sponge)
   New here:
     "gx"    the *_gpu expression helpers.  Thread tid of a block of bd threads owns the cells tid, bd + tid, 2 bd + tid of
             every operand buffer (dimension 3; dimension 1: cell tid).  A call made for thread tid must write exactly the
             cells of thread tid in c, with the value the scalar operation gives on thread tid's cells of a and b, and leave
             every other cell of c (inside and outside the 3 bd extent) and all inputs unchanged.
     "f1"    base-field routines on gl64_t: neg_element, operator-(), inv_element, reciprocal, heptaroot, operator/ + - *
     "pp"    pow7 pow7_ add_ prod_ pow7add_ dot_ mvp_ on arbitrary canonical operands
     "h4"    hash_one / kernel hash_gpu: the first four words of the permutation
     "init"  init_gpu_const stays inside the __constant__ arrays
   Lit = TRUE is the classifier of the known findings, never a verdict in favour of the code: a record is accepted
   iff the specification (Lit = FALSE) REJECTS it AND it is exactly what the text of the tree says when read literally:
   "gx": the index expressions as written (C++ precedence: blockDim.x << 1 + threadIdx.x = blockDim.x * 2^(1 + threadIdx.x);
   mul_gpu / op_31_gpu index with blockDim.x where the thread index is meant); "c3" mul_eu: the integer factor cut to
   its low 32 bits (a[i] * b with b a uint64_t binds to operator*(gl64_t, uint32_t)).  Anything else the specification
   rejects stays unexplained and is reported as a violation. *)
EXTENDS Poseidon
CONSTANT Lit
Tr == ndJsonDeserialize(IOEnv.TRACE)
VARIABLE l
TC == INSTANCE Trace_Cubic
TP == INSTANCE Trace_Poseidon
TS == INSTANCE Trace_Sponge

Cell(v, i) == v[i + 1]                                 \* cell i (0-based) of a logged buffer
RECURSIVE Pow2(_)
Pow2(n) == IF n = 0 THEN 1 ELSE 2 * Pow2(n - 1)

(* ---- expression helpers *)
Dim3Thread == {"copy3", "add3", "sub3", "rsub3"}        \* written with threadIdx.x in the first two components
Dim3Block == {"mul3", "mulch3", "a31", "s31", "m31", "r31"}
SpecIdx(e) == <<e.tid, e.bd + e.tid, 2 * e.bd + e.tid>>
LitIdx(e) == IF e.fn \in Dim3Thread THEN <<e.tid, e.bd + e.tid, e.bd * Pow2(1 + e.tid)>>
             ELSE <<e.bd, 2 * e.bd, e.bd * Pow2(1 + e.bd)>>
Sel3(v, I) == <<Cell(v, I[1]), Cell(v, I[2]), Cell(v, I[3])>>
Sums(b) == <<FAdd(b[1], b[2]), FAdd(b[1], b[3]), FAdd(b[2], b[3])>>
(* the four-pointer mul_gpu as written: Karatsuba with the pairwise sums of the second factor supplied by the caller *)
KarM(a, b, d) ==
  LET A == FMul(FAdd(a[1], a[2]), d[1])
      BB == FMul(FAdd(a[1], a[3]), d[2])
      C == FMul(FAdd(a[2], a[3]), d[3])
      D == FMul(a[1], b[1])
      E == FMul(a[2], b[2])
      F == FMul(a[3], b[3])
      G == FSub(D, E)
  IN <<FSub(FAdd(C, G), F), FSub(FSub(FSub(FAdd(A, C), E), E), D), FSub(BB, G)>>
Res3(e, I, ib, lit) ==
  LET a == Sel3(e.a, I)
      b == Sel3(e.b, I)
      d == Sel3(e.d, I)
      s == TC!Emb(Cell(e.b, ib))
  IN CASE e.fn = "copy3" -> a
       [] e.fn = "add3" -> TC!CAdd(a, b)
       [] e.fn = "sub3" -> TC!CSub(a, b)
       [] e.fn = "rsub3" -> TC!CSub(b, a)
       [] e.fn = "mul3" -> TC!CMul(a, b)
       [] e.fn = "mulch3" -> IF lit THEN KarM(a, b, d) ELSE TC!CMul(a, b)
       [] e.fn = "a31" -> TC!CAdd(a, s)
       [] e.fn = "s31" -> TC!CSub(a, s)
       [] e.fn = "m31" -> TC!CMul(a, s)
       [] e.fn = "r31" -> TC!CSub(s, a)
Res1(e) ==
  LET a == Cell(e.a, e.tid)
      b == Cell(e.b, e.tid)
  IN CASE e.fn \in {"copy1", "copy1s"} -> <<a>>
       [] e.fn = "add1" -> <<FAdd(a, b)>>
       [] e.fn = "sub1" -> <<FSub(a, b)>>
       [] e.fn = "mul1" -> <<FMul(a, b)>>
       [] e.fn = "rsub1" -> <<FSub(b, a)>>
OkGx(e, lit) ==
  LET I == IF e.dim = 1 THEN <<IF e.fn = "copy1s" THEN e.tid * e.op ELSE e.tid>>
           ELSE IF lit THEN LitIdx(e) ELSE SpecIdx(e)
      ib == IF lit THEN e.bd ELSE e.tid
      exact == e.fn \in {"copy3", "copy1", "copy1s"}
  IN /\ e.dim \in {1, 3} /\ e.tid < e.bd /\ e.far_ok /\ e.inputs_same
     /\ Len(e.a) = e.n /\ Len(e.b) = e.n /\ Len(e.d) = e.n /\ Len(e.c0) = e.n /\ Len(e.c1) = e.n
     /\ \A k \in 1..Len(I) : I[k] < e.n
     /\ (e.fn = "mulch3" /\ ~lit => TC!Eq3(Sel3(e.d, I), Sums(Sel3(e.b, I))))      \* the caller's side of the contract
     /\ LET R == IF e.dim = 1 THEN Res1(e) ELSE Res3(e, I, ib, lit) IN
        \A i \in 0..(e.n - 1) :
          IF \E k \in 1..Len(I) : I[k] = i
          THEN \A k \in 1..Len(I) : I[k] = i => (IF exact THEN Cell(e.c1, i) = R[k] ELSE EqModP(Cell(e.c1, i), R[k]))
          ELSE Cell(e.c1, i) = Cell(e.c0, i)

(* ---- base field on gl64_t *)
OkF1(e) ==
  /\ IsWord(e.a) /\ IsWord(e.b) /\ IsWord(e.r)
  /\ CASE e.op = "neg" -> EqModP(e.r, FNeg(e.a))
       [] e.op = "inv" -> ~EqModP(e.a, Zero8) /\ EqModP(FMul(e.a, e.r), One8)
       [] e.op = "hepta" -> EqModP(FPow7(e.r), e.a)
       [] e.op = "div" -> ~EqModP(e.b, Zero8) /\ EqModP(FMul(e.r, e.b), e.a)
       [] e.op = "add" -> EqModP(e.r, FAdd(e.a, e.b))
       [] e.op = "sub" -> EqModP(e.r, FSub(e.a, e.b))
       [] e.op \in {"mul", "mulw"} -> EqModP(e.r, FMul(e.a, e.b))
       [] e.op = "sqr" -> EqModP(e.r, FMul(e.a, e.a))
       [] e.op = "ctor" -> e.r = Canon(e.a)

(* ---- the building blocks of the device permutation *)
OkPp(e) ==
  /\ Len(e.x) = 12
  /\ CASE e.fn = "pow7" -> Len(e.r) = 1 /\ EqModP(e.r[1], FPow7(e.x[1]))
       [] e.fn = "pow7_" -> EqV(e.r, T12(LAMBDA i : FPow7(e.x[i])))
       [] e.fn = "add_" -> EqV(e.r, T12(LAMBDA i : FAdd(e.x[i], e.c[i])))
       [] e.fn = "prod_" -> EqV(e.r, T12(LAMBDA i : FMul(e.al, e.c[i])))
       [] e.fn = "pow7add_" -> EqV(e.r, T12(LAMBDA i : FAdd(FPow7(e.x[i]), e.c[i])))
       [] e.fn = "dot_" -> Len(e.r) = 1 /\ EqModP(e.r[1], Sum12(LAMBDA i : FMul(e.x[i], e.c[i])))
       [] e.fn = "mvp_" -> Len(e.c) = 144 /\ EqV(e.r, T12(LAMBDA i : Sum12(LAMBDA j : FMul(e.c[12 * (j - 1) + i], e.x[j]))))
OkH4(e) == /\ Len(e.in) = 12 /\ Len(e.out) = 4 /\ Len(e.ref) = 12
           /\ EqV(e.out, SubSeq(e.ref, 1, 4)) /\ EqV(e.ref, Perm(e.in))
OkInit(e) == e.upload_ok
OkMkEnd(e) == e.slack_ok /\ e.leaves_same

(* ---- classifier of the known findings (Lit = TRUE) *)
Lo32(w) == <<w[1], w[2], w[3], w[4], 0, 0, 0, 0>>
KnownGx(e) == OkGx(e, TRUE) /\ ~OkGx(e, FALSE)
KnownC3(e) == /\ e.op = "mul_eu" /\ TC!IsW3(e.a) /\ TC!IsW3(e.r) /\ Len(e.b) = 1 /\ IsWord(e.b[1])
              /\ TC!Eq3(e.r, TC!CMul(e.a, TC!Emb(Lo32(e.b[1]))))
              /\ ~TC!OkC3(e)
Known(e) == CASE e.e = "gx" -> KnownGx(e) [] e.e = "c3" -> KnownC3(e) [] OTHER -> FALSE

OkSpec(e) == CASE e.e = "c3" -> TC!OkC3(e) [] e.e = "conv3" -> TC!OkConv(e) [] e.e = "isone" -> TC!OkIsOne(e)
           [] e.e = "iter" -> TP!OkIter(e) [] e.e = "lh" -> TS!OkLh(e)
           [] e.e = "gx" -> OkGx(e, Lit) [] e.e = "f1" -> OkF1(e) [] e.e = "pp" -> OkPp(e) [] e.e = "h4" -> OkH4(e)
           [] e.e = "init" -> OkInit(e) [] e.e = "mkend" -> OkMkEnd(e)
           [] OTHER -> FALSE
Ok(e) == IF Lit THEN Known(e) ELSE OkSpec(e)
Init == l = 1
Next == l <= Len(Tr) /\ Ok(Tr[l]) /\ l' = l + 1
Accepted == TLCGet("stats").diameter - 1 = Len(Tr)
====
