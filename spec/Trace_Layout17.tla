---- MODULE Trace_Layout17 ----
(* C17 trace specification.  One event per executed call of an overload of the table Overloads17 (event "call"), per
   parcpy / parSetZero call (event "par"), or per abnormal end of a call (event "crash": never accepted).

   call event: id = table row; nl lanes; alias = aliasing mode of the call (Layout.tla AliasModes), aj = the lane whose cell
     holds the broadcast scalar in modes sc / sa; dlv, des, dl = designation level, family and lane (Layout.tla DesLevels /
     DesFamilies): dlv = "sep": two arrays with related address sequences, "base": operands a and b were given by the same
     base pointer (one array of esh elements), "word":
     separate storage, the operand words related; ixo = both index lists were one object; sa sb sc = stride arguments, ia ib ic = index-list arguments passed;
     aa ab ac = per lane, the arena index the driver designated (it wrote the operand value there, resp. reads the
     result from there); ea eb ec = number of arena elements in front of the inaccessible page (minus the pad cell);
     a, b = per-lane operand words read back from the arenas before the call; r = per-lane result words (register
     lanes, or the designated result cells after the call); chg = result-arena indices whose content differs from the
     pre-call snapshot (union over two runs whose pre-fills differ in every cell); same = the second run, with
     different garbage in every undesignated cell of every arena, slack and register, produced the same results;
     in_same = operand arenas and index lists unmodified; slack_ok = nothing written in front of any arena.

   wide = TRUE: a call with a HUGE stride or index-list entry (2^29 and more: some operand lives in a sparse arena - the whole
     span reserved, only the pages holding designated cells accessible, plus decoy pages where a position narrowed to 32 bits
     would land).  TLC integers are 32 bit, so such an event carries every stride (saw sbw scw), index-list entry (iaw ibw icw),
     designated position (aaw abw acw), extent (eaw ebw ecw) and changed position (chgw: every accessible cell of the result
     arena is scanned, decoys and cells in front of the base pointer included - those as two's-complement words) as a 64-bit
     word of 8 limbs, and is judged by OkCallW with the limb forms of Layout.tla (AddrW, ExtentW, CellOkW, ChangedCellsW) exactly
     like any other call: lane k is the operation on the k-th designated operands, the changed cells are the write footprint.
     Wide calls are made on separate objects or with the result in place (ca / cb: one array, one address map).

   The event is accepted iff the driver designated the cells the row's descriptors mean (Addr), the arenas had the
   exact extent, every lane's result is the field operation on the k-th designated operands (mod p; copies: the same
   word), the changed cells are exactly the write footprint, and no undesignated memory influenced the result. *)
EXTENDS TraceBase, Layout, Overloads17, ParChunks
VARIABLE l

SeqSet(q) == {q[i] : i \in 1..Len(q)}
AddrOk(d, n, s, ix, addrs, ext) ==
  /\ (d.kind = "index" => Len(ix) = n)
  /\ Len(addrs) = n
  /\ \A k \in Lanes(n) : addrs[k + 1] = Addr(d, k, s, ix)
  /\ ext = Extent(d, n, s, ix)

(* words known to be in the result cells before the call, per result lane (<<>> = complementary pre-fills) *)
PreWords(e, row, n) ==
  LET sop == CHOOSE o \in ScalarOperands(row) : TRUE
      sw == e[sop][1]                                        \* the broadcast word (all lanes carry it)
  IN CASE e.alias = "ca" -> e.a
       [] e.alias = "cb" -> e.b
       [] e.alias = "sc" -> [k \in 1..n |-> IF e.ac[k] = e.ac[e.aj + 1] THEN sw ELSE <<>>]
       [] OTHER -> [k \in 1..n |-> <<>>]

OkCallN(e) ==
  /\ e.id \in Ov17Ids
  /\ LET row == Ov17[e.id]
         n == row.lanes
         bv == IF row.op = "copy" THEN e.a ELSE e.b
     IN /\ row.defined
        /\ e.nl = n /\ Len(e.a) = n /\ Len(bv) = n /\ Len(e.r) = n
        /\ IsWordSeq(e.a) /\ IsWordSeq(bv) /\ IsWordSeq(e.r)
        /\ AddrOk(row.a, n, e.sa, e.ia, e.aa, e.ea)
        /\ (row.op # "copy" => AddrOk(row.b, n, e.sb, e.ib, e.ab, e.eb))
        /\ AddrOk(row.c, n, e.sc, e.ic, e.ac, e.ec)
        \* the alias mode fits the row; in place = one address map, pairwise distinct lanes
        /\ e.alias \in AliasModes /\ AliasAllowed(row, e.alias) /\ e.aj \in Lanes(n)
        /\ (e.alias = "ca" => e.sa = e.sc /\ e.ia = e.ic /\ Injective(row.c, n, e.sc, e.ic))
        /\ (e.alias = "cb" => e.sb = e.sc /\ e.ib = e.ic /\ Injective(row.c, n, e.sc, e.ic))
        /\ (e.alias = "sa" => LET so == CHOOSE o \in ScalarOperands(row) : row[Other(o)].kind \in MemKinds
                               IN e[so][1] = e[Other(so)][e.aj + 1])        \* the scalar IS that element
        \* designation family of the two operands: the driver shaped the designations as it says
        /\ e.dlv \in DesLevels /\ e.des \in DesFamilies /\ e.dl \in Lanes(n) /\ e.ixo \in BOOLEAN
        /\ (e.dlv = "none") = (e.des = "none")
        /\ (e.dlv \in {"sep", "base"} =>
              /\ SameBaseAllowed(row) /\ e.alias \in {"none", "ca", "cb"}
              /\ DesRel(e.des, n, e.aa, e.ab, e.dl)
              /\ (e.alias # "none" => e.des = "eq" /\ e.ac = e.aa))    \* in place: one address map for all three
        /\ (e.dlv = "base" =>
              /\ SharedConsistent(n, e.aa, e.ab, e.a, e.b)             \* one array: a cell both designate holds one word
              /\ e.esh = Max2(e.ea, e.eb))
        /\ (e.dlv = "word" => row.op # "copy" /\ e.alias = "none" /\ DesRel(e.des, n, e.a, e.b, e.dl))
        /\ (e.ixo => e.dlv \in {"sep", "base"} /\ row.a.kind = "index" /\ row.b.kind = "index" /\ e.ia = e.ib)
        \* every lane: the field operation on the operand values held before the call (whatever the designation family)
        /\ IF InMemory(row.c)
             THEN \A k \in Lanes(n) : CellOk(row.op, row.c, n, e.sc, e.ic, Addr(row.c, k, e.sc, e.ic), e.r[k + 1], e.a, bv)
             ELSE \A k \in Lanes(n) : ResultOk(row.op, e.r[k + 1], e.a[k + 1], bv[k + 1])
        \* written: exactly the write footprint (a result cell that held an operand word may keep it if the result is that word)
        /\ SeqSet(e.chg) = ChangedCells(row.c, n, e.sc, e.ic, e.r, PreWords(e, row, n))
        /\ e.same                                  \* no stray read influences the result
        /\ e.in_same /\ e.slack_ok                 \* nothing else written

(* ---- calls with huge strides / index-list entries: positions are 64-bit limb words *)
AddrOkW(d, n, sw, ixw, addrsw, extw) ==
  /\ FitsW(sw) /\ \A i \in 1..Len(ixw) : FitsW(ixw[i])
  /\ (d.kind = "index" => Len(ixw) = n)
  /\ Len(addrsw) = n
  /\ \A k \in Lanes(n) : addrsw[k + 1] = AddrW(d, k, sw, ixw)
  /\ extw = ExtentW(d, n, sw, ixw)
ASSUME /\ MulSmallW(3, <<0, 0, 0, 64, 0, 0, 0, 0>>) = <<0, 0, 0, 192, 0, 0, 0, 0>>                       \* 3 * 2^30
       /\ MulSmallW(3, <<255, 255, 255, 127, 0, 0, 0, 0>>) = <<253, 255, 255, 127, 1, 0, 0, 0>>           \* 3 * (2^31 - 1)
       /\ MulSmallW(7, <<3, 0, 0, 0, 1, 0, 0, 0>>) = <<21, 0, 0, 0, 7, 0, 0, 0>>                          \* 7 * (2^32 + 3)
       /\ SuccW(<<255, 255, 255, 255, 0, 0, 0, 0>>) = <<0, 0, 0, 0, 1, 0, 0, 0>>
       /\ \A s \in {0, 1, 3, 517, 4099}, k \in 0..7 : MulSmallW(k, OfInt(s)) = OfInt(k * s) /\ SuccW(OfInt(k * s)) = OfInt((k * s) + 1)
       /\ MaxW({<<0, 0, 0, 0, 1, 0, 0, 0>>, <<255, 255, 255, 255, 0, 0, 0, 0>>, Zero8}) = <<0, 0, 0, 0, 1, 0, 0, 0>>

OkCallW(e) ==
  /\ e.id \in Ov17Ids
  /\ LET row == Ov17[e.id]
         n == row.lanes
         bv == IF row.op = "copy" THEN e.a ELSE e.b
     IN /\ row.defined
        /\ e.nl = n /\ Len(e.a) = n /\ Len(bv) = n /\ Len(e.r) = n
        /\ IsWordSeq(e.a) /\ IsWordSeq(bv) /\ IsWordSeq(e.r)
        /\ AddrOkW(row.a, n, e.saw, e.iaw, e.aaw, e.eaw)
        /\ (row.op # "copy" => AddrOkW(row.b, n, e.sbw, e.ibw, e.abw, e.ebw))
        /\ AddrOkW(row.c, n, e.scw, e.icw, e.acw, e.ecw)
        \* separate objects, or the result in place: one address map, pairwise distinct lanes
        /\ e.alias \in {"none", "ca", "cb"} /\ AliasAllowed(row, e.alias) /\ e.aj \in Lanes(n)
        /\ (e.alias = "ca" => e.saw = e.scw /\ e.iaw = e.icw /\ InjectiveW(row.c, n, e.scw, e.icw))
        /\ (e.alias = "cb" => e.sbw = e.scw /\ e.ibw = e.icw /\ InjectiveW(row.c, n, e.scw, e.icw))
        /\ e.dlv = "none" /\ e.des = "none" /\ e.dl \in Lanes(n) /\ ~e.ixo
        \* every lane: the field operation on the operand values held before the call
        /\ IF InMemory(row.c)
             THEN \A k \in Lanes(n) : CellOkW(row.op, row.c, n, e.scw, e.icw, AddrW(row.c, k, e.scw, e.icw), e.r[k + 1], e.a, bv)
             ELSE \A k \in Lanes(n) : ResultOk(row.op, e.r[k + 1], e.a[k + 1], bv[k + 1])
        \* written: exactly the write footprint, among ALL accessible cells of the sparse result arena
        /\ IsWordSeq(e.chgw) /\ e.nchg = Len(e.chgw)
        /\ SeqSet(e.chgw) = ChangedCellsW(row.c, n, e.scw, e.icw, e.r, PreWords(e, row, n))
        /\ e.same                                  \* no stray read (decoy, garbage) influences the result
        /\ e.in_same /\ e.slack_ok                 \* nothing else written

OkCall(e) == IF e.wide THEN OkCallW(e) ELSE OkCallN(e)

(* bulk copies: exactly `size` elements transferred / zeroed, for every thread-count argument, in every delivery environment
   (env: ParChunks Envs) - the team the runtime delivers is not the caller's to choose *)
OkPar(e) ==
  LET n == e.size
      want(i) == IF e.fn = "parcpy" THEN e.src[i] ELSE Zero8
      Changed == {i - 1 : i \in {j \in 1..Len(e.d0) : e.d1[j] # e.d0[j]}}
  IN /\ e.fn \in {"parcpy", "parSetZero"} /\ e.env \in Envs
     /\ Len(e.d0) = n + e.pad /\ Len(e.d1) = n + e.pad /\ Len(e.src) = n
     /\ \A i \in 1..n : e.d1[i] = want(i)
     /\ \A i \in (n + 1)..(n + e.pad) : e.d1[i] = e.d0[i]
     /\ Changed = Covered(n, e.nt, TRUE)          \* the driver pre-fills dst with words that differ from the expected ones
     /\ Changed = CoveredBy(n, e.nt, Team(e.nt, e.env))
     /\ e.src_same /\ e.slack_ok

Ok(e) == CASE e.e = "call" -> OkCall(e) [] e.e = "par" -> OkPar(e) [] OTHER -> FALSE
Init == l = 1
(* `= TRUE` makes TLC evaluate Ok as a plain Boolean expression; as an action conjunct every witness of the \E in
   CellOk would become a separate (identical) successor state: 8^8 of them when all lanes of a stride-0 result agree *)
Next == l <= Len(Tr) /\ (Ok(Tr[l]) = TRUE) /\ l' = l + 1
Accepted == TLCGet("stats").diameter - 1 = Len(Tr)
====
