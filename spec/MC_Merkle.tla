---- MODULE MC_Merkle ----
EXTENDS Merkle
====
