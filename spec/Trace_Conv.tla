---- MODULE Trace_Conv ----
(* C15: every recorded conversion call is checked against the mathematical definition, evaluated over limbs.
   Signed machine integers are logged as (sign-extended) two's-complement 64-bit words. *)
EXTENDS TraceBase
VARIABLE l
E32M1 == <<B-1, B-1, B-1, B-1, 0, 0, 0, 0>>            \* 2^64 mod p = 2^32 - 1
HalfP == <<0, 0, 0, B \div 2, B-1, B-1, B-1, (B \div 2) - 1>>   \* (p-1)/2
MaxS32 == <<B-1, B-1, B-1, (B \div 2) - 1, 0, 0, 0, 0>> \* 2^31 - 1
MinS32 == <<1, 0, 0, B \div 2, B-2, B-1, B-1, B-1>>     \* p - 2^31
MinS64 == <<0, 0, 0, B \div 2, 0, 0, 0, B \div 2>>      \* two's complement of -(p-1)/2
Neg64(x) == x[8] >= B \div 2                            \* sign bit of a two's-complement word
(* residue of the signed integer denoted by two's-complement word x *)
SignedRes(x) == IF Neg64(x) THEN FSub(x, E32M1) ELSE Canon(x)
(* two's-complement word of the centred representative of canonical c *)
CentredWord(c) == IF Ge8(c, HalfP) /\ c # HalfP THEN Norm8(c[1] + E32M1[1], c[2] + E32M1[2], c[3] + E32M1[3], c[4] + E32M1[4], c[5], c[6], c[7], c[8]) ELSE c
FitsS32(c) == Ge8(MaxS32, c) \/ Ge8(c, MinS32)
(* exact natural number denoted by a digit list, as a word; <<>> if it does not fit in 64 bits *)
RECURSIVE NatOf(_, _, _, _)
NatOf(ds, radix, i, acc) ==
  IF Len(acc) = 0 THEN <<>>
  ELSE IF i > Len(ds) THEN acc
  ELSE LET t == Norm10(acc[1] * radix + ds[i], acc[2] * radix, acc[3] * radix, acc[4] * radix, acc[5] * radix,
                       acc[6] * radix, acc[7] * radix, acc[8] * radix, 0, 0)
       IN IF t[9] # 0 \/ t[10] # 0 THEN <<>> ELSE NatOf(ds, radix, i + 1, TLCEval(SubSeq(t, 1, 8)))
(* residue of the integer denoted by sign + digit list (most significant first) in the given radix *)
RECURSIVE ResOf(_, _, _, _)
ResOf(ds, radix, i, acc) == IF i > Len(ds) THEN acc ELSE ResOf(ds, radix, i + 1, TLCEval(FAdd(FMul(acc, Small(radix)), Small(ds[i]))))
IntRes(neg, ds, radix) == LET m == ResOf(ds, radix, 1, Zero8) IN IF neg THEN FNeg(m) ELSE m
DigitsOk(ds, radix) == \A i \in 1..Len(ds) : ds[i] \in 0..(radix - 1)
OkIn(e) ==
  /\ IsWord(e.x) /\ IsWord(e.r)
  /\ CASE e.kind = "u64" -> EqModP(e.r, e.x)
       [] e.kind = "s64" -> EqModP(e.r, SignedRes(e.x))
       [] e.kind = "s32" -> EqModP(e.r, SignedRes(e.x))
OkOut(e) ==
  LET c == Canon(e.a) IN
  /\ IsWord(e.a)
  /\ e.u = c                                              \* toU64: the canonical value itself
  /\ e.s = CentredWord(c)                                 \* toS64: centred representative
  /\ e.ok = FitsS32(c)                                    \* toS32 succeeds exactly on [-2^31, 2^31)
  /\ (e.ok => e.v = CentredWord(c))
  /\ \A k \in 1..Len(e.strs) : LET s == e.strs[k] IN
        /\ DigitsOk(s.d, s.radix) /\ Len(s.d) >= 1 /\ (Len(s.d) > 1 => s.d[1] # 0)
        /\ NatOf(s.d, s.radix, 1, Zero8) = c
OkStr(e) == /\ DigitsOk(e.d, e.radix) /\ IsWord(e.r)
            /\ EqModP(e.r, IntRes(e.neg, e.d, e.radix))
OkRt(e) ==
  CASE e.kind = "u64" -> (Lt8(e.x, P8) => e.r = e.x)
    [] e.kind = "s64" -> ((IF Neg64(e.x) THEN Ge8(e.x, MinS64) ELSE Ge8(HalfP, e.x)) => e.r = e.x)
    [] e.kind = "s32" -> e.ok /\ e.r = e.x
OkPred(e) == /\ e.eq = EqModP(e.a, e.b) /\ e.opeq = e.eq
             /\ e.z = EqModP(e.a, Zero8) /\ e.o = EqModP(e.a, One8) /\ e.n = EqModP(e.a, PM1)
Ok(e) == CASE e.e = "in" -> OkIn(e) [] e.e = "out" -> OkOut(e) [] e.e = "str" -> OkStr(e) [] e.e = "rt" -> OkRt(e)
           [] e.e = "pred" -> OkPred(e) [] OTHER -> FALSE
Init == l = 1
Next == l <= Len(Tr) /\ Ok(Tr[l]) /\ l' = l + 1
Accepted == TLCGet("stats").diameter - 1 = Len(Tr)
====
