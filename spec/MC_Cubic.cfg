CONSTANT Phi = 4
CONSTANT BSub = TRUE
INIT Init
NEXT Next
INVARIANT MulOk
INVARIANT RingOk
INVARIANT InvOk
INVARIANT IsOneOk
INVARIANT BatchOk
CHECK_DEADLOCK FALSE
