---- MODULE Mem ----
(* C18: the heap as a state machine.  A block has an identity, the allocator kind that produced it and a size.
   Free is enabled only for a live block and only through the deallocator matching its allocator
   (malloc-free, new-delete, new[]-delete[]); at the end of a scenario (object destroyed, call returned) no block
   allocated by the library may be live.  Accesses outside a block's extent are faults (observed as crash events by the
   guard-paged recording allocator).  The same predicates are used by the NTT / NTTObject / Merkle / Sponge models
   (InBounds, NoLeak, MatchingFree, AllFreed) and by the trace validator Trace_Mem. *)
EXTENDS Integers, FiniteSets, Sequences
Matching(akind, fkind) == (akind = "malloc" /\ fkind = "free") \/ (akind = "new" /\ fkind = "delete") \/ (akind = "newarr" /\ fkind = "deletearr")
AllocOk(heap, id) == \A h \in heap : h.id # id
DoAlloc(heap, id, kind, size) == heap \cup {[id |-> id, kind |-> kind, size |-> size]}
FreeOk(heap, id, fkind) == \E h \in heap : h.id = id /\ Matching(h.kind, fkind)
DoFree(heap, id) == {h \in heap : h.id # id}
AllFreed(heap) == heap = {}
InExtent(h, off, n) == off >= 0 /\ off + n <= h.size
====
