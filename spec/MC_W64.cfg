CONSTANT B = 2
INIT Init
NEXT Next
INVARIANT Inv
CHECK_DEADLOCK FALSE
