---- MODULE MC_Conv ----
(* every 2W-bit pattern as unsigned / signed, every W-bit signed value, every integer in a window around
   0, +-p, +-2p, +-3p, +-2^(2W) *)
EXTENDS Conv, TLC
VARIABLE x
Init == x \in 0..(T - 1)
Next == UNCHANGED x
sx == S2W(x)
Ints == ((0 - 3 * P - 6)..(3 * P + 6)) \cup {s * (T + k) : s \in {-1, 1}, k \in 0..(2 * P)} \cup {s * (3 * T + k) : s \in {-1, 1}, k \in 0..P}
Inward ==
  /\ Val(FromU(x)) = x % P /\ IsWord(FromU(x))
  /\ Val(FromS(sx)) = sx % P /\ IsWord(FromS(sx))
  /\ (x < Phi => LET zw == IF x >= Phi \div 2 THEN x - Phi ELSE x IN Val(FromSW(zw)) = zw % P /\ IsWord(FromSW(zw)))
Outward ==
  /\ IsCanon(ToU(x)) /\ ToU(x) = x % P
  /\ ToS(x) = Centred(x)
  /\ LET c == Centred(x) r == ToSW(x) IN
       /\ r.ok = (c >= 0 - Phi \div 2 /\ c < Phi \div 2)
       /\ (r.ok => r.v = c)
RoundTrip ==
  /\ (x < P => ToU(FromU(x)) = x)
  /\ ((sx >= 0 - (P - 1) \div 2 /\ sx <= (P - 1) \div 2) => ToS(FromS(sx)) = sx)
  /\ (x < Phi => LET zw == IF x >= Phi \div 2 THEN x - Phi ELSE x IN ToSW(FromSW(zw)) = [ok |-> TRUE, v |-> zw])
BigInts == x = 0 => \A v \in Ints : IsCanon(FromInt(v)) /\ FromInt(v) = v % P
====
