---- MODULE Apa_Conv ----
(* Full-width (Phi = 2^32) symbolic check of the machine-integer conversions: every uint64 / int64 / int32. *)
EXTENDS Conv
VARIABLES
  \* @type: Int;
  x
ConstInit == Phi = 4294967296 /\ Legacy = FALSE
Init == x \in 0..(T - 1)
Next == UNCHANGED x
sx == S2W(x)
InvFromS == Val(FromS(sx)) = sx % P /\ IsWord(FromS(sx))
InvFromSW == x < Phi => LET zw == IF x >= Phi \div 2 THEN x - Phi ELSE x IN Val(FromSW(zw)) = zw % P /\ IsWord(FromSW(zw))
InvToU == IsCanon(ToU(x)) /\ ToU(x) = x % P
InvToS == ToS(x) = Centred(x)
InvToSW == LET c == Centred(x) r == ToSW(x) IN r.ok = (c >= 0 - Phi \div 2 /\ c < Phi \div 2) /\ (r.ok => r.v = c)
InvRtS == (sx >= 0 - (P - 1) \div 2 /\ sx <= (P - 1) \div 2) => ToS(FromS(sx)) = sx
InvRtSW == x < Phi => LET zw == IF x >= Phi \div 2 THEN x - Phi ELSE x IN ToSW(FromSW(zw)) = [ok |-> TRUE, v |-> zw]
====
