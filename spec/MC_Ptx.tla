---- MODULE MC_Ptx ----
(* Unit tests of spec/Ptx.tla (the trusted PTX-subset semantics of C20): every operator against its arithmetic
   definition, exhaustively over all pairs of 2W-bit words (x, y) and a carry c at small W (lib/c20.py: Phi = 8 and 16).
   For the 32-bit forms the operands are the low halves.  References are written independently of Ptx.tla: signed
   values by CHOOSE over the two's complement range, bitwise operators through sets of bit positions, shifts through
   2^k of Integers, floor division of negative numbers by TLC's \div.
   A violated invariant here is an infrastructure failure of the check (exit 2), never a verdict about the library. *)
EXTENDS Ptx, TLC, FiniteSets
VARIABLES x, y, c
Init == x \in Word /\ y = 0 /\ c \in {0, 1}
Next == y < T - 1 /\ y' = y + 1 /\ UNCHANGED <<x, c>>

Ms == {Beta, T}
Sg(m, v) == CHOOSE s \in (0 - (m \div 2))..((m \div 2) - 1) : (s - v) % m = 0      \* signed reading
Rg(m, s) == CHOOSE r \in 0..(m - 1) : (r - s) % m = 0                              \* register holding s
NB(m) == IF m = Beta THEN W ELSE 2 * W
BitsOf(v, n) == {i \in 0..(n - 1) : (v \div (2^i)) % 2 = 1}
RECURSIVE SumP(_)
SumP(S) == IF S = {} THEN 0 ELSE LET i == CHOOSE j \in S : TRUE IN (2^i) + SumP(S \ {i})
FloorDiv(s, d) == s \div d                 \* d > 0; TLC: floor (checked by the ASSUME below)
Reg(m, v) == v \in 0..(m - 1)

ASSUME (0 - 7) \div 2 = 0 - 4 /\ (0 - 7) % 8 = 1 /\ (0 - 1) % 8 = 7
ASSUME Phi \in {4, 8, 16, 32, 64}

InvPow2 == /\ Pow2(W) = Phi /\ Pow2(2 * W) = T /\ Bits(Beta) = W /\ Bits(T) = 2 * W
           /\ \A n \in 0..30 : Pow2(n) = 2^n
           /\ Pow2(0 - 1) = 1
InvSx == \A m \in Ms : LET u == x % m IN Sx(m, u) = Sg(m, u) /\ Lit(m, x + y) = (x + y) % m /\ Lit(m, x - y) = Rg(m, x - y)
InvAdd == \A m \in Ms : LET u == x % m v == y % m IN
            /\ AddR(m, u, v, c) + (m * AddC(m, u, v, c)) = u + v + c
            /\ Reg(m, AddR(m, u, v, c)) /\ AddC(m, u, v, c) \in {0, 1}
InvSub == \A m \in Ms : LET u == x % m v == y % m IN
            /\ SubR(m, u, v, c) - (m * SubB(m, u, v, c)) = u - v - c
            /\ Reg(m, SubR(m, u, v, c)) /\ SubB(m, u, v, c) \in {0, 1}
InvMul == \A m \in Ms : LET u == x % m v == y % m IN
            /\ MulLo(m, u, v) + (m * MulHi(m, u, v)) = u * v
            /\ Reg(m, MulLo(m, u, v)) /\ Reg(m, MulHi(m, u, v))
            /\ MulLo(m, u, v) = Rg(m, Sg(m, u) * Sg(m, v))
            /\ MulHiS(m, u, v) = Rg(m, FloorDiv(Sg(m, u) * Sg(m, v), m))
InvMulWide == LET u == Lo(x) v == Lo(y) IN
            /\ MulWide(u, v) = u * v /\ Reg(T, MulWide(u, v))
            /\ MulWideS(u, v) = Rg(T, Sg(Beta, u) * Sg(Beta, v))
            /\ PLo(u * v) = MulLo(Beta, u, v) /\ PHi(u * v) = MulHi(Beta, u, v) /\ PWide(u * v) = MulWide(u, v)
InvSet == \A m \in Ms : LET u == x % m v == y % m IN
            /\ SetEq(u, v) = (IF u = v THEN 1 ELSE 0) /\ SetNe(u, v) = 1 - SetEq(u, v)
            /\ SetLt(u, v) = (IF u < v THEN 1 ELSE 0) /\ SetGe(u, v) = 1 - SetLt(u, v)
            /\ SetGt(u, v) = (IF v < u THEN 1 ELSE 0) /\ SetLe(u, v) = 1 - SetGt(u, v)
            /\ SetLtS(m, u, v) = (IF Sg(m, u) < Sg(m, v) THEN 1 ELSE 0) /\ SetGeS(m, u, v) = 1 - SetLtS(m, u, v)
            /\ SetGtS(m, u, v) = (IF Sg(m, v) < Sg(m, u) THEN 1 ELSE 0) /\ SetLeS(m, u, v) = 1 - SetGtS(m, u, v)
            /\ Sel(c, u, v) = (IF c = 1 THEN u ELSE v)
InvLogic == \A m \in Ms : LET u == x % m v == y % m n == NB(m) IN
            /\ BAnd(u, v) = SumP(BitsOf(u, n) \cap BitsOf(v, n))
            /\ BOr(u, v) = SumP(BitsOf(u, n) \cup BitsOf(v, n))
            /\ BXor(u, v) = SumP((BitsOf(u, n) \cup BitsOf(v, n)) \ (BitsOf(u, n) \cap BitsOf(v, n)))
            /\ NotB(m, u) = SumP((0..(n - 1)) \ BitsOf(u, n))
            /\ Neg(m, u) = Rg(m, 0 - Sg(m, u))
            /\ NotP(c) = (IF c = 1 THEN 0 ELSE 1)
            /\ B1(0, c, y % 2) = (IF c = 1 /\ (y % 2) = 1 THEN 1 ELSE 0) /\ B1(0, c, y % 2) = BAnd(c, y % 2)
            /\ B1(1, c, y % 2) = (IF c = 1 \/ (y % 2) = 1 THEN 1 ELSE 0) /\ B1(1, c, y % 2) = BOr(c, y % 2)
            /\ B1(2, c, y % 2) = (IF c = (y % 2) THEN 0 ELSE 1) /\ B1(2, c, y % 2) = BXor(c, y % 2)
(* shift amounts: every 32-bit value (the low half of y), in particular amounts above the register width *)
InvShift == \A m \in Ms : LET u == x % m n == Lo(y) k == IF n > NB(m) THEN NB(m) ELSE n IN
            /\ Shl(m, u, n) = (u * (2^k)) % m
            /\ Shr(m, u, n) = u \div (2^k)
            /\ ShrS(m, u, n) = Rg(m, FloorDiv(Sg(m, u), 2^k))
InvMinMax == \A m \in Ms : LET u == x % m v == y % m IN
            /\ MinU(u, v) = (IF u < v THEN u ELSE v) /\ MaxU(u, v) = (IF u < v THEN v ELSE u)
            /\ MinS(m, u, v) = Rg(m, IF Sg(m, u) < Sg(m, v) THEN Sg(m, u) ELSE Sg(m, v))
            /\ MaxS(m, u, v) = Rg(m, IF Sg(m, u) < Sg(m, v) THEN Sg(m, v) ELSE Sg(m, u))
InvCvt == LET u == Lo(x) v == Lo(y) IN
            /\ ZExt(u) = u /\ SExt(u) = Rg(T, Sg(Beta, u))
            /\ Lo(x) = Rg(Beta, Sg(T, x)) /\ Lo(x) = x % Beta
            /\ Pack(u, v) = u + (Beta * v) /\ Lo(Pack(u, v)) = u /\ Hi(Pack(u, v)) = v
            /\ Neg32(u) = Neg(Beta, u) /\ IsZ(x) = (IF x = 0 THEN 1 ELSE 0)
====
