---- MODULE Trace_Scalar ----
(* C01: every recorded scalar call must return a representation of the exact field result.  The result
   representation is free (any word congruent to the expected value); operands are taken as recorded. *)
EXTENDS TraceBase
VARIABLE l
Expected(e) ==
  CASE e.op = "add" -> FAdd(e.a, e.b)
    [] e.op = "sub" -> FSub(e.a, e.b)
    [] e.op = "mul" -> FMul(e.a, e.b)
    [] e.op = "mulScalar" -> FMul(e.a, e.b)
    [] e.op = "square" -> FMul(e.a, e.a)
    [] e.op = "neg" -> FNeg(e.a)
    [] e.op = "inc" -> FAdd(e.a, One8)
    [] e.op = "dec" -> FSub(e.a, One8)
OkSc(e) == IsWord(e.a) /\ IsWord(e.b) /\ IsWord(e.r) /\ EqModP(e.r, Expected(e))
OkPred(e) == /\ e.eq = EqModP(e.a, e.b) /\ e.opeq = e.eq
             /\ e.z = EqModP(e.a, Zero8) /\ e.o = EqModP(e.a, One8) /\ e.n = EqModP(e.a, PM1)
Ok(e) == IF e.e = "sc" THEN OkSc(e) ELSE IF e.e = "pred" THEN OkPred(e) ELSE FALSE
Init == l = 1
Next == l <= Len(Tr) /\ Ok(Tr[l]) /\ l' = l + 1
Accepted == TLCGet("stats").diameter - 1 = Len(Tr)
(* known vectors at B = 256 tie W64 to the 64-bit field *)
ASSUME B = 256 => FMul(PM1, PM1) = One8
ASSUME B = 256 => FMul(<<255,255,255,255,255,255,255,255>>, <<255,255,255,255,255,255,255,255>>) = FMul(<<254,255,255,255,0,0,0,0>>, <<254,255,255,255,0,0,0,0>>)
ASSUME B = 256 => FAdd(PM1, <<2,0,0,0,0,0,0,0>>) = One8
ASSUME B = 256 => FMul(<<0,0,0,0,1,0,0,0>>, <<0,0,0,0,1,0,0,0>>) = <<255,255,255,255,0,0,0,0>>
====
