CONSTANT MaxLen = 3
INIT Init
NEXT Next
