---- MODULE ScalarOps ----
(* C++-level scalar operations of goldilocks_base_field_scalar.hpp / _tools.hpp built on the generated asm
   operators (hand transcription of the 3-5 line wrappers; the asm itself is generated from the tree).
   All take and return words in 0..T-1. *)
EXTENDS ScalarAsm_gen
One == 1
Zero == 0
NegOne == P - 1
ToU(x) == IF x >= P THEN x - P ELSE x                       \* toU64
Add(a, b) == AddProg(a, b)
Sub(a, b) == SubProg(a, b)
Mul(a, b) == MulProg(a, b)
Square(a) == MulProg(a, a)
Neg(a) == SubProg(Zero, a)
Inc(a) == IF a < P - 2 THEN a + 1 ELSE IF a = P - 1 THEN 0 ELSE AddProg(a, One)
Dec(a) == IF a > 0 THEN a - 1 ELSE P - 1
MulScalar(a, s) == MulProg(a, s)                            \* fromU64(scalar) is the identity on the word
Equal(a, b) == ToU(a) = ToU(b)
IsZero(a) == Equal(a, Zero)
IsOne(a) == Equal(a, One)
IsNegOne(a) == Equal(a, NegOne)
====
