---- MODULE Par ----
(* C12: an OpenMP `parallel for` region as a set of loop iterations distributed over a team.  Iterations are assigned to
   members arbitrarily (that covers every team size and schedule kind), members interleave at the granularity of one
   read step / one write step, memory cells hold symbolic values.  For each region kind of the library the per-iteration
   read and write footprints are given by the same index expressions as the code (NTT batch pass, the three bit-reversal
   variants, block scatter, Merkle level, parcpy / parSetZero chunks).
     NoRace        : no two different iterations have conflicting footprints (W/W or W/R on a cell)
     Deterministic : at the barrier the memory equals the one-member (sequential, ascending) execution
   SharedTmp = TRUE models a scratch row hoisted out of the in-place bit-reversal loop (one cell shared by all members). *)
EXTENDS Integers, Sequences, FiniteSets, TLC
CONSTANTS Kinds, MaxPow, SharedTmp
Pow2(k) == 2^k
RECURSIVE BRr(_, _, _)
BRr(x, bits, acc) == IF bits = 0 THEN acc ELSE BRr(x \div 2, bits - 1, (acc * 2) + (x % 2))
BR(x, bits) == BRr(x, bits, 0)
VARIABLES shape,   \* [kind, d, p1, p2]
          mem,     \* cell -> symbolic value
          st,      \* iteration -> "todo" | "read" | "done"
          loc,     \* iteration -> values it read
          tmpOwner
vars == <<shape, mem, st, loc, tmpOwner>>
(* ---- iteration sets and footprints per kind; cells are <<buffer, index>> ---- *)
Iters(s) ==
  CASE s.kind = "ntt_pass" -> 0..(Pow2(s.d - s.p1) - 1)                 \* p1 = sInc: batches of 2^p1 rows
    [] s.kind = "rev_copy" -> 0..(Pow2(s.d) - 1)
    [] s.kind = "rev_inplace" -> 0..(Pow2(s.d) - 1)
    [] s.kind = "scatter" -> 0..(Pow2(s.d) - 1)
    [] s.kind = "merkle_level" -> 0..((Pow2(s.d) - 1) \div 2)          \* pending = 2^d nodes
    [] s.kind = "parcpy" -> {i \in 0..(s.p1 - 1) : i % (IF s.p1 = 0 THEN 1 ELSE ((s.p1 + (IF s.p2 < 1 THEN 1 ELSE s.p2) - 1) \div (IF s.p2 < 1 THEN 1 ELSE s.p2))) = 0}
Chunk(s) == (s.p1 + (IF s.p2 < 1 THEN 1 ELSE s.p2) - 1) \div (IF s.p2 < 1 THEN 1 ELSE s.p2)
Reads(s, i) ==
  CASE s.kind = "ntt_pass" -> {<<"a", r>> : r \in (i * Pow2(s.p1))..((i + 1) * Pow2(s.p1) - 1)}
    [] s.kind = "rev_copy" -> {<<"src", BR(i, s.d)>>}
    [] s.kind = "rev_inplace" -> IF BR(i, s.d) < i THEN {<<"a", i>>, <<"a", BR(i, s.d)>>} ELSE {}
    [] s.kind = "scatter" -> {<<"blk", i>>}
    [] s.kind = "merkle_level" -> IF 2 * i + 1 < Pow2(s.d) THEN {<<"t", 2 * i>>, <<"t", 2 * i + 1>>} ELSE {}
    [] s.kind = "parcpy" -> {<<"src", x>> : x \in i..((IF i + Chunk(s) < s.p1 THEN i + Chunk(s) ELSE s.p1) - 1)}
Writes(s, i) ==
  CASE s.kind = "ntt_pass" -> {<<"a", r>> : r \in (i * Pow2(s.p1))..((i + 1) * Pow2(s.p1) - 1)}
                              \cup {<<"a2", x * Pow2(s.d - s.p1) + i>> : x \in 0..(Pow2(s.p1) - 1)}
    [] s.kind = "rev_copy" -> {<<"dst", i>>}
    [] s.kind = "rev_inplace" -> IF BR(i, s.d) < i THEN {<<"a", i>>, <<"a", BR(i, s.d)>>} ELSE {}
    [] s.kind = "scatter" -> {<<"dst", i>>}
    [] s.kind = "merkle_level" -> IF 2 * i + 1 < Pow2(s.d) THEN {<<"t", Pow2(s.d) + i>>} ELSE {}
    [] s.kind = "parcpy" -> {<<"dst", x>> : x \in i..((IF i + Chunk(s) < s.p1 THEN i + Chunk(s) ELSE s.p1) - 1)}
Cells(s) == UNION {Reads(s, i) \cup Writes(s, i) : i \in Iters(s)} \cup {<<"tmp", 0>>}
Shapes ==
  {[kind |-> k, d |-> d, p1 |-> p1, p2 |-> p2] : k \in Kinds, d \in 0..MaxPow, p1 \in 0..6, p2 \in -1..5}
ValidShape(s) ==
  CASE s.kind = "ntt_pass" -> s.p1 >= 1 /\ s.p1 <= s.d /\ s.p2 = 0
    [] s.kind = "parcpy" -> s.d = 0
    [] OTHER -> s.p1 = 0 /\ s.p2 = 0
Init == /\ shape \in {s \in Shapes : ValidShape(s)}
        /\ mem = [c \in Cells(shape) |-> <<"init", c>>]
        /\ st = [i \in Iters(shape) |-> "todo"] /\ loc = [i \in Iters(shape) |-> <<>>] /\ tmpOwner = -1
Val(s, i, c, l) == <<"f", i, c, l>>               \* what iteration i writes into cell c having read l
ReadStep(i) == /\ st[i] = "todo"
               /\ loc' = [loc EXCEPT ![i] = [c \in Reads(shape, i) |-> mem[c]]]
               /\ st' = [st EXCEPT ![i] = "read"]
               /\ IF SharedTmp /\ shape.kind = "rev_inplace" /\ Reads(shape, i) # {}
                  THEN mem' = [mem EXCEPT ![<<"tmp", 0>>] = mem[<<"a", BR(i, shape.d)>>]] /\ tmpOwner' = i   \* tmp := src[r]
                  ELSE UNCHANGED <<mem, tmpOwner>>
               /\ UNCHANGED shape
WriteStep(i) == /\ st[i] = "read"
                /\ mem' = [c \in DOMAIN mem |->
                             IF c \in Writes(shape, i)
                             THEN (IF SharedTmp /\ shape.kind = "rev_inplace" /\ c = <<"a", i>>
                                   THEN Val(shape, i, c, [loc[i] EXCEPT ![<<"a", BR(i, shape.d)>>] = mem[<<"tmp", 0>>]])   \* dst[i] := tmp
                                   ELSE Val(shape, i, c, loc[i]))
                             ELSE mem[c]]
                /\ st' = [st EXCEPT ![i] = "done"]
                /\ UNCHANGED <<shape, loc, tmpOwner>>
Next == \E i \in Iters(shape) : ReadStep(i) \/ WriteStep(i)
Spec == Init /\ [][Next]_vars
(* sequential reference: iterations in ascending order, each reading the memory left by its predecessors *)
RECURSIVE SeqRun(_, _, _)
SeqRun(s, m, todo) == IF todo = {} THEN m
                      ELSE LET i == CHOOSE x \in todo : \A y \in todo : x <= y
                               l == [c \in Reads(s, i) |-> m[c]]
                               m2 == [c \in DOMAIN m |-> IF c \in Writes(s, i) THEN Val(s, i, c, l) ELSE m[c]]
                           IN SeqRun(s, m2, todo \ {i})
AllDone == \A i \in Iters(shape) : st[i] = "done"
Restrict(m) == [c \in (DOMAIN m) \ {<<"tmp", 0>>} |-> m[c]]
Deterministic == AllDone => Restrict(mem) = Restrict(SeqRun(shape, [c \in Cells(shape) |-> <<"init", c>>], Iters(shape)))
NoRace == \A i, j \in Iters(shape) : i # j => Writes(shape, i) \cap (Reads(shape, j) \cup Writes(shape, j)) = {}
(* parcpy / parSetZero: the chunks tile 0..size-1 exactly, for every thread-count argument *)
ChunksTile == shape.kind = "parcpy" =>
   /\ UNION {Writes(shape, i) : i \in Iters(shape)} = {<<"dst", x>> : x \in 0..(shape.p1 - 1)}
   /\ \A i \in Iters(shape) : Writes(shape, i) # {}
====
