---- MODULE MC_Cubic ----
(* all pairs of elements over the 13-element field (Phi = 4): Karatsuba form = definition; all inverses;
   batch inversion for lengths 1..3 over a generating subset *)
EXTENDS Cubic, TLC
CONSTANT BSub     \* TRUE: second operand ranges over a subset (quick tier)
VARIABLES a, b
Bs == IF BSub THEN {v \in F3 : v[1] \in {0, 1, P - 1} \/ v[2] = v[3]} ELSE F3
Init == a \in F3 /\ b = Zero3
Next == b = Zero3 /\ \E nb \in Bs : b' = nb /\ UNCHANGED a
MulOk == CMulKar(a, b) = CMulSchool(a, b)
RingOk == /\ CAdd(a, b) = CAdd(b, a) /\ CSub(CAdd(a, b), b) = a /\ CAdd(a, CNeg(a)) = Zero3
          /\ CMulSchool(a, One3) = a
InvOk == (a # Zero3) => (CNorm(a) # 0 /\ CMulSchool(a, CInv(a)) = One3)
IsOneOk == CIsOne(a) = (a = One3)
BatchOk == (a # Zero3 /\ b # Zero3) =>
             LET s == <<a, b, CAdd(a, One3)>> IN
               (s[3] # Zero3 => \A i \in 1..3 : BatchInverse(s)[i] = CInv(s[i]))
               /\ BatchInverse(<<a>>)[1] = CInv(a) /\ BatchInverse(<<a, b>>)[2] = CInv(b)
====
