---- MODULE MatKernels ----
(* C13 / C14: the 12-wide kernels as compositions of the lane kernels (arithmetic chain per lane) and of register
   permutations (layout).
   (a) chain (module MatChains, generated from the source): spmv = three lane products through two lane adders; the 8-bit variant adds the low halves of the 72-bit
       products with the modular adder and the high parts as integers, then reduces once; mmult sums four transposed
       columns through two levels of adders.  LegacyBC = TRUE is the pinned AVX512 code, which chains add_avx512_b_c
       (exact only for a canonical second operand) on products that need not be canonical (D9).
   (b) layout: registers as tuples of symbolic terms; permute2f128 / unpack (AVX2) and permutex2var / unpack (AVX512)
       are index permutations; the 4x4 transposes must turn row registers into column registers. *)
EXTENDS MatChains, Sequences
CONSTANT LegacyBC
(* The chain operators Spmv2 / Spmv2A / Spmv8 / Spmv512 / Spmv8_512 / ColSum* come from MatChains, which is GENERATED from the
   12-wide kernels of the current tree.  The pinned tree's AVX512 chain (D9) is kept here as a named deviation so that the
   model-level counterexample stays reproducible: *)
Spmv512Legacy(a0, a1, a2, b0, b1, b2) == AddBC512(AddBC512(Mult512(a0, b0), Mult512(a1, b1)), Mult512(a2, b2))
ColSum512Legacy(c0, c1, c2, c3) == AddBC512(AddBC512(c0, c1), AddBC512(c2, c3))
(* ---- layout: AVX2 4x4 transpose ---- *)
Perm2f128(a, b, lo, hi) == LET src(sel) == IF sel = 0 THEN <<a[1], a[2]>> ELSE IF sel = 1 THEN <<a[3], a[4]>> ELSE IF sel = 2 THEN <<b[1], b[2]>> ELSE <<b[3], b[4]>>
                           IN src(lo) \o src(hi)
UnpackLo4(a, b) == <<a[1], b[1], a[3], b[3]>>
UnpackHi4(a, b) == <<a[2], b[2], a[4], b[4]>>
Transpose4(r0, r1, r2, r3) ==
  LET t0 == Perm2f128(r0, r2, 0, 2) t1 == Perm2f128(r1, r3, 0, 2)       \* imm 0b00100000
      t2 == Perm2f128(r0, r2, 1, 3) t3 == Perm2f128(r1, r3, 1, 3)       \* imm 0b00110001
  IN <<UnpackLo4(t0, t1), UnpackHi4(t0, t1), UnpackLo4(t2, t3), UnpackHi4(t2, t3)>>
(* ---- layout: AVX512, two interleaved 4x4 transposes ---- *)
PermX2(a, idx, b) == [i \in 1..8 |-> IF idx[i] < 8 THEN a[idx[i] + 1] ELSE b[idx[i] - 8 + 1]]
Indx1 == <<0, 1, 8, 9, 4, 5, 12, 13>>       \* _mm512_set_epi64(13,12,5,4,9,8,1,0) lists lane 7 first
Indx2 == <<2, 3, 10, 11, 6, 7, 14, 15>>
UnpackLo8(a, b) == <<a[1], b[1], a[3], b[3], a[5], b[5], a[7], b[7]>>
UnpackHi8(a, b) == <<a[2], b[2], a[4], b[4], a[6], b[6], a[8], b[8]>>
Transpose8(r0, r1, r2, r3) ==
  LET t0 == PermX2(r0, Indx1, r2) t1 == PermX2(r1, Indx1, r3)
      t2 == PermX2(r0, Indx2, r2) t3 == PermX2(r1, Indx2, r3)
  IN <<UnpackLo8(t0, t1), UnpackHi8(t0, t1), UnpackLo8(t2, t3), UnpackHi8(t2, t3)>>
Sym4(k) == [i \in 1..4 |-> <<"r", k, i>>]
Sym8(k) == [i \in 1..8 |-> <<"r", k, i>>]
(* column register c_i, lane k (per state half for AVX512) holds row register r_k's lane i *)
LayoutOk4 == LET c == Transpose4(Sym4(0), Sym4(1), Sym4(2), Sym4(3)) IN \A i \in 1..4, k \in 1..4 : c[i][k] = <<"r", k - 1, i>>
LayoutOk8 == LET c == Transpose8(Sym8(0), Sym8(1), Sym8(2), Sym8(3)) IN
               \A i \in 1..4, k \in 1..4, h \in 0..1 : c[i][4 * h + k] = <<"r", k - 1, 4 * h + i>>
====
